(* C07, second sentence, for PAINTED maps: the gap theorem of
   Proofs.PretextViewGaps for maps whose baits are untagged OR tagged Painted
   (the maps covered by Proofs.CompletionPainted).

   The proof of Proofs.PretextViewGaps.pretextview_gaps never looks at the tags
   of the baits: NeighbourGaps.neighbour_gaps_fused holds for every successful
   run, and PretextViewGaps.found_prefix (in a tiling map the found contigs of
   a scaffold form a prefix of its rows) speaks of the lookups only, which do
   not read the tags of the bait.  So the theorem holds whatever the tags
   (pretextview_gaps_any_tags); the painted statement and the untagged one are
   both corollaries. *)
From Tola Require Import Py.Base Py.Sort Model.Fragment Model.Scaffold Model.Lookup
  Model.OverlapResult Model.OvrSpec Model.NaturalKey Model.Namer Model.Remap Model.RemapSpec
  Proofs.BaseLemmas Proofs.Lookup Proofs.OverlapResult Proofs.RemapHead Proofs.PipelineInv
  Proofs.JoinGaps Proofs.NeighbourGaps Proofs.CoreKeptGood Proofs.CoreKeptResolver Proofs.CoreKeptLookup
  Proofs.CoreKept Proofs.Completion
  Proofs.PretextViewGapsTrim Proofs.PretextViewGapsTiles Proofs.PretextViewGapsKeys Proofs.PretextViewGaps.
From Tola Require Proofs.RemapTail Proofs.CompletionPainted.
From Coq Require Import Lia ZifyBool Permutation.

(* ------------------------------------------- whatever the tags of the baits *)
Theorem pretextview_gaps_any_tags : forall g prefix n d input pretext o,
  0 < d -> d <= n ->
  Forall input_ok input ->
  NoDup (map fst input) ->
  NoDup (map key_of (in_frags input)) ->
  Forall (scaffold_tiled n d (baits_of pretext)) input ->
  remap repaired g prefix (n, d) input pretext = Ok o ->
  forall a sc x mid y,
    In a (out_asms o) -> In sc (oa_scaffolds a) -> consecutive (sc_rows sc) x mid y ->
    mid = [g] \/ same_neighbours input x mid y.
Proof.
  intros g prefix n d input pretext o Hd Hdn Hin Hnm Hkeys0 Htile H a sc x mid y Ha Hsc Hc.
  assert (Hpos : Forall (fun isc => pos_rows (snd isc)) input).
  { eapply Forall_impl; [|exact Hin]. intros isc (_ & Hp & _). exact Hp. }
  unfold remap in H. bind_inv H rs Hrs.
  destruct (RemapTail.assemblies_out_perm _ _ _ _ _ _ H) as (fused0 & fused & F & R & P).
  assert (Hinf : In sc fused).
  { eapply Permutation_in; [exact P|]. apply in_flat_map. exists a. split; assumption. }
  assert (Hr : In (sc_rows sc) (map sc_rows fused0)) by (rewrite <- R; apply in_map; exact Hinf).
  apply in_map_iff in Hr. destruct Hr as (sc0 & E & Hsc0). rewrite <- E in Hc.
  destruct (neighbour_gaps_fused _ _ _ _ _ _ _ Hpos Hrs F sc0 Hsc0) as [_ Hg].
  destruct (Hg x mid y Hc) as [Hm | [Hn | [_ (lsc & Hl & Hcl)]]].
  - left. exact Hm.
  - right. eapply same_neighbours_number. exact Hn.
  - (* inside a left-over scaffold: the never-found contigs are a suffix *)
    destruct (remap_to_input_found _ _ _ _ _ _ Hrs) as (_ & b1 & found & Hb1 & Hk & HLO).
    destruct (HLO lsc Hl) as ([name rows] & Hisc & Erows). cbn [snd] in Erows.
    rewrite Erows in Hcl. apply missing_rows_suffix in Hcl.
    + destruct Hcl as [-> | Hcc]; [left; reflexivity | right].
      apply (same_neighbours_number input 0). exists (name, rows), x, y. split; [exact Hisc|].
      left. cbn [snd]. split; [exact Hcc|]. split; apply piece_of_refl.
    + intros pre f post f' Er Hf' Hnf. unfold NF in *.
      destruct (aget key_eqb found (key_of f')) as [v|] eqn:Ef'; [exfalso | reflexivity].
      apply (aget_None key_eqb key_eqb_eq) in Hnf. apply Hnf. apply Hk.
      eapply (found_prefix n d prefix input pretext b1 Hd Hdn Hin Hnm Hkeys0 Htile Hb1 name rows pre f post f');
        [exact Hisc | exact Er | exact Hf'|].
      apply Hk. apply (aget_In key_eqb key_eqb_eq) in Ef'. apply (in_map fst) in Ef'. exact Ef'.
Qed.

(* ------------------------------------------------------------ painted maps *)
Theorem pretextview_gaps_painted : forall g prefix n d input pretext o,
  0 < d -> d <= n ->
  Forall Proofs.Completion.input_ok input ->
  NoDup (map fst input) ->
  NoDup (map key_of (Model.RemapSpec.in_frags input)) ->
  Forall (fun f => f_tags f = []) (Model.RemapSpec.in_frags input) ->
  Forall (fun p => exists b t, snd p = RF b :: t) pretext ->
  Forall (fun b => (f_tags b = [] \/ f_tags b = [s "Painted"]) /\ (f_strand b = 1 \/ f_strand b = -1)
                   /\ In (f_name b) (map fst input)) (Proofs.CoreKept.baits_of pretext) ->
  Forall (Proofs.Completion.scaffold_tiled n d (Proofs.CoreKept.baits_of pretext)) input ->
  remap repaired g prefix (n, d) input pretext = Ok o ->
  forall a sc x mid y,
    In a (out_asms o) -> In sc (oa_scaffolds a) ->
    Proofs.NeighbourGaps.consecutive (sc_rows sc) x mid y ->
    mid = [g] \/ Proofs.NeighbourGaps.same_neighbours input x mid y.
Proof.
  intros g prefix n d input pretext o Hd Hdn Hin Hnm Hkeys0 _ _ _ Htile H.
  exact (pretextview_gaps_any_tags g prefix n d input pretext o Hd Hdn Hin Hnm Hkeys0 Htile H).
Qed.

(* the untagged theorem again, as a corollary *)
Corollary pretextview_gaps_from_any_tags : pretextview_gaps_statement.
Proof.
  intros g prefix n d input pretext o Hd Hdn Hin Hnm Hkeys0 _ _ _ Htile H.
  exact (pretextview_gaps_any_tags g prefix n d input pretext o Hd Hdn Hin Hnm Hkeys0 Htile H).
Qed.

(* ============================================================== an instance *)
(* Proofs.PretextViewGaps.Beyond (A B C and two contigs D E beyond the last
   texel) under the map of Proofs.CompletionPainted.PaintedThreePieces: the
   Painted piece p1 and p2 make chromosome SUPER_1, the unpainted p3 keeps the
   scaffold name; D and E, found by no bait, are re-added as a left-over
   scaffold and fused after p3's rows with the join gap. *)
Module PaintedBeyond.
  Import ThreePieces Beyond CompletionPainted.PaintedThreePieces.
  Definition B1 := mkFrag (-1) (s "cB") 1 60 1 [s "Cut"].
  Definition out1 : list row :=
    [RF (mkFrag (-2) (s "cB") 61 210 (-1) [s "Cut"]); RG g10;
     RF (mkFrag (-2) (s "cB") 211 300 1 [s "Cut"]); RG g10; RF A'].
  Definition out2 : list row :=
    [RF (mkFrag 4 (s "cC") 1 100 (-1) []); RG g10; RF B1; RG g10; RF D'; RF E'].
End PaintedBeyond.

Example pretextview_gaps_painted_instance :
  exists o, remap repaired ThreePieces.g10 (s "SUPER_") (7, 2) Beyond.input
                  CompletionPainted.PaintedThreePieces.pretext = Ok o
    /\ (exists a sc, In a (out_asms o) /\ In sc (oa_scaffolds a) /\ sc_rows sc = PaintedBeyond.out2
          (* the join gap before the left-over contigs *)
          /\ consecutive (sc_rows sc) PaintedBeyond.B1 [ThreePieces.g10] Beyond.D'
          (* two left-over contigs, directly adjacent as in the input *)
          /\ consecutive (sc_rows sc) Beyond.D' [] Beyond.E')
    (* and the theorem, for this run *)
    /\ (forall a sc x mid y,
          In a (out_asms o) -> In sc (oa_scaffolds a) -> consecutive (sc_rows sc) x mid y ->
          mid = [ThreePieces.g10] \/ same_neighbours Beyond.input x mid y).
Proof.
  assert (Hrun : exists o, remap repaired ThreePieces.g10 (s "SUPER_") (7, 2) Beyond.input
                                 CompletionPainted.PaintedThreePieces.pretext = Ok o
                           /\ map sc_rows (flat_map oa_scaffolds (out_asms o))
                              = [PaintedBeyond.out1; PaintedBeyond.out2]).
  { eexists. split; vm_compute; reflexivity. }
  destruct Hrun as (o & Hrun & Hm). exists o. split; [exact Hrun|]. split.
  - destruct (rows_in_output o PaintedBeyond.out2) as (a & sc & Ha & Hsc & Esc);
      [rewrite Hm; right; left; reflexivity|].
    exists a, sc. split; [exact Ha|]. split; [exact Hsc|]. split; [exact Esc|]. rewrite Esc. split.
    + eexists _, [RF Beyond.E']. unfold PaintedBeyond.out2.
      match goal with |- ?l = _ => change l with (firstn 2 l ++ skipn 2 l) end. reflexivity.
    + eexists _, []. unfold PaintedBeyond.out2.
      match goal with |- ?l = _ => change l with (firstn 4 l ++ skipn 4 l) end. reflexivity.
  - apply (pretextview_gaps_painted ThreePieces.g10 (s "SUPER_") 7 2 Beyond.input
             CompletionPainted.PaintedThreePieces.pretext o).
    + lia.
    + lia.
    + constructor; [|constructor]. unfold input_ok. cbn [snd Beyond.input].
      split; [discriminate|]. split; [repeat constructor; cbn; lia|].
      split; [eexists _, _; reflexivity|].
      split; [exists Beyond.E, [RF ThreePieces.A; RG ThreePieces.g10; RF ThreePieces.B; RG ThreePieces.g10;
                                RF ThreePieces.C; RG Beyond.g1; RF Beyond.D]; reflexivity|].
      repeat (apply Forall_cons; [split; cbn; lia|]). apply Forall_nil.
    + cbn. repeat constructor; cbn; intuition discriminate.
    + cbn. repeat constructor; cbn; intuition discriminate.
    + repeat constructor.
    + repeat constructor; eexists _, _; reflexivity.
    + cbn. apply Forall_cons; [split; [left; reflexivity | split; [cbn; lia | cbn; auto]]|].
      apply Forall_cons; [split; [left; reflexivity | split; [cbn; lia | cbn; auto]]|].
      apply Forall_cons; [split; [right; reflexivity | split; [cbn; lia | cbn; auto]]|]. apply Forall_nil.
    + constructor; [|constructor]. right.
      exists [CompletionPainted.PaintedThreePieces.p1; CompletionPainted.PaintedThreePieces.p2;
              CompletionPainted.PaintedThreePieces.p3], 520.
      split.
      { replace (filter _ _) with (rev [CompletionPainted.PaintedThreePieces.p1;
                                        CompletionPainted.PaintedThreePieces.p2;
                                        CompletionPainted.PaintedThreePieces.p3])
          by (vm_compute; reflexivity).
        apply Permutation_sym, Permutation_rev. }
      split; [cbn; lia|]. split; [vm_compute; reflexivity|].
      right. repeat constructor; cbn; lia.
    + exact Hrun.
Qed.

Print Assumptions pretextview_gaps_any_tags.
Print Assumptions pretextview_gaps_painted_instance.
Print Assumptions pretextview_gaps_painted.
