(* C10, END TO END through [remap] for single-haplotype maps: the painted
   scaffolds without a name tag (rank 1) of a completed run are named
   <prefix><k><suffix>, where the chromosomes -- one per Pretext scaffold name,
   i.e. the chromosome together with its unloc pieces -- are numbered k = 1..n
   without holes in order of non-increasing sequence length (fragment bases of
   all rank-1 scaffolds that came from that Pretext scaffold), ties in the order
   of the map, and the suffix is what the scaffold's name had after its Pretext
   scaffold name before the chromosomes were numbered ("" for the chromosome
   itself, "_unloc_<m>" for its unlocs).

   Build order: ChromosomeNumbersHead.v, ChromosomeNumbersGroups.v, this file.

   chromosome_numbers_statement_original   the statement as first written
   chromosome_numbers_original_refuted     ... is FALSE: two Pretext scaffolds
                                           with the same name (the second one
                                           with an Unloc piece) get two numbers
   chromosome_numbers_statement            the same with the hypothesis that the
                                           Pretext scaffold names are pairwise
                                           different (and the suffix spelled out)
   chromosome_numbers_end_to_end           its proof
   chromosome_numbers_example              an instance *)
From Tola Require Import Py.Base Py.Dec Py.Sort Model.Fragment Model.Scaffold Model.Lookup
  Model.OverlapResult Model.NaturalKey Model.Namer Model.Remap Model.RemapSpec
  Proofs.BaseLemmas Proofs.Naming Proofs.RemapTail Proofs.UniqueNames.
From Tola Require Import Proofs.ChromosomeNumbersHead Proofs.ChromosomeNumbersGroups.
From Tola Require Proofs.NullMapPainted Proofs.Routing Proofs.Dec.
From Coq Require Import Lia ZifyBool Permutation Sorted.

(* ============================================================ 0. lists *)
Lemma filter_perm {A} (p : A -> bool) l l' : Permutation l l' -> Permutation (filter p l) (filter p l').
Proof.
  induction 1 as [|x l l' P IH|x y l|l l' l'' P1 IH1 P2 IH2]; cbn [filter].
  - constructor.
  - destruct (p x); [constructor|]; exact IH.
  - destruct (p x), (p y); try apply perm_swap; apply Permutation_refl.
  - eapply perm_trans; eassumption.
Qed.

Lemma NoDup_app_l' {A} (a b : list A) : NoDup (a ++ b) -> NoDup a.
Proof.
  induction a as [|x a IH]; cbn [app]; intro N; [constructor|].
  inversion N as [|? ? N1 N2]; subst. constructor; [|exact (IH N2)].
  intro I. apply N1. apply in_or_app. left. exact I.
Qed.

Lemma NoDup_app_r' {A} (a b : list A) : NoDup (a ++ b) -> NoDup b.
Proof.
  induction a as [|x a IH]; cbn [app]; intro N; [exact N|].
  inversion N as [|? ? N1 N2]; subst. exact (IH N2).
Qed.

Lemma NoDup_flat_map_in {A B} (f : A -> list B) : forall l x, NoDup (flat_map f l) -> In x l -> NoDup (f x).
Proof.
  induction l as [|a l IH]; intros x N I; [destruct I|]. cbn [flat_map] in N. destruct I as [<-|I].
  - exact (NoDup_app_l' _ _ N).
  - apply IH; [exact (NoDup_app_r' _ _ N) | exact I].
Qed.

Lemma NoDup_map_In_inj {A B} (f : A -> B) : forall l x y,
  NoDup (map f l) -> In x l -> In y l -> f x = f y -> x = y.
Proof.
  induction l as [|a l IH]; intros x y N Ix Iy E; [destruct Ix|].
  cbn [map] in N. inversion N as [|? ? N1 N2]; subst.
  destruct Ix as [<-|Ix], Iy as [<-|Iy].
  - reflexivity.
  - exfalso. apply N1. rewrite E. apply in_map. exact Iy.
  - exfalso. apply N1. rewrite <- E. apply in_map. exact Ix.
  - exact (IH x y N2 Ix Iy E).
Qed.

Lemma SS_map_transfer {A B} (f : A -> Z) (F : B -> Z) (m : A -> B) : forall l,
  StronglySorted (fun a b => f a >= f b) l -> (forall x, In x l -> f x = F (m x)) ->
  StronglySorted (fun a b => F a >= F b) (map m l).
Proof.
  induction 1 as [|x l Sd IH Fx]; intro E; cbn [map]; constructor.
  - apply IH. intros z Iz. apply E. right. exact Iz.
  - apply Forall_forall. intros y Iy. apply in_map_iff in Iy as (z & <- & Iz).
    rewrite <- (E x (or_introl eq_refl)), <- (E z (or_intror Iz)).
    rewrite Forall_forall in Fx. exact (Fx z Iz).
Qed.

(* sums over the positions of the elements that satisfy a test *)
Definition atF {A} (f : A -> Z) (l : list A) (i : nat) : Z :=
  match nth_error l i with Some x => f x | None => 0 end.
Definition atQ {A} (p : A -> bool) (l : list A) (i : nat) : bool :=
  match nth_error l i with Some x => p x | None => false end.

Lemma filter_map_S (q : nat -> bool) : forall l, filter q (map S l) = map S (filter (fun i => q (S i)) l).
Proof.
  induction l as [|a l IH]; cbn [map filter]; [reflexivity|]. destruct (q (S a)); cbn [map]; rewrite IH; reflexivity.
Qed.

Lemma filter_seq_sum {A} (f : A -> Z) (p : A -> bool) : forall l,
  sumZ (map (atF f l) (filter (atQ p l) (seq 0 (length l)))) = sumZ (map f (filter p l)).
Proof.
  induction l as [|x l IH]; [reflexivity|].
  cbn [length seq]. rewrite <- seq_shift. cbn [filter]. change (atQ p (x :: l) 0) with (p x).
  rewrite filter_map_S.
  rewrite (filter_ext (fun i => atQ p (x :: l) (S i)) (atQ p l)) by (intro; reflexivity).
  destruct (p x); cbn [map]; rewrite ?sumZ_cons, map_map;
    rewrite (map_ext (fun i => atF f (x :: l) (S i)) (atF f l)) by (intro; reflexivity);
    rewrite IH; reflexivity.
Qed.

Lemma sum_over_indices {A} (f : A -> Z) (p : A -> bool) (l : list A) (idxs : list nat) :
  NoDup idxs -> (forall i, In i idxs <-> exists x, nth_error l i = Some x /\ p x = true) ->
  sumZ (map (atF f l) idxs) = sumZ (map f (filter p l)).
Proof.
  intros N H. rewrite <- filter_seq_sum. apply sumZ_perm, Permutation_map.
  apply NoDup_Permutation; [exact N | apply NoDup_filter, seq_NoDup|].
  intro i. rewrite H, filter_In, in_seq. unfold atQ. split.
  - intros (x & Hn & Hp). rewrite Hn. split; [|exact Hp].
    assert (i < length l)%nat by (apply nth_error_Some; congruence). lia.
  - intros [_ Hq]. destruct (nth_error l i) as [x|]; [|discriminate]. exists x. auto.
Qed.

(* the ChrNamer items come in the order of the list *)
Lemma items_sorted (key : scaffold -> nat) (fs : list scaffold) : forall l pre, fs = pre ++ l ->
  StronglySorted le (map key l) ->
  StronglySorted le (map (fun it : str * nat => match nth_error fs (snd it) with Some sc => key sc | None => O end)
                         (chr_items_from (length pre) l)).
Proof.
  induction l as [|x l IH]; intros pre E Sd; [constructor|].
  unfold chr_items_from. cbn [length seq combine flat_map]. fold (chr_items_from (S (length pre)) l).
  cbn [map] in Sd. inversion Sd as [|? ? S1 S2]; subst.
  assert (IH' := IH (pre ++ [x])). rewrite app_length, Nat.add_1_r, <- app_assoc in IH'. specialize (IH' eq_refl S1).
  destruct (sc_rank x =? 1); [|exact IH'].
  cbn [app map snd]. constructor; [exact IH'|]. apply Forall_forall. intros y Iy.
  apply in_map_iff in Iy as ([h' i] & <- & I). cbn [snd].
  apply chr_items_in in I as (Li & sc & Hn & _).
  rewrite nth_error_app2 by lia. rewrite Nat.sub_diag. cbn [nth_error].
  rewrite (nth_error_app2 pre) by lia. replace (i - length pre)%nat with (S (i - S (length pre))) by lia.
  cbn [nth_error]. rewrite Hn. rewrite Forall_forall in S2. apply S2. apply in_map. eapply nth_error_In. exact Hn.
Qed.

Lemma map_snd_unchunk : forall cs, map snd (unchunk cs) = flat_map snd cs.
Proof.
  induction cs as [|[o idxs] cs IH]; [reflexivity|]. unfold unchunk in *. cbn [flat_map fst snd].
  rewrite map_app, IH, map_map. cbn [snd]. rewrite map_id. reflexivity.
Qed.

(* ============================================================ 1. the statement *)
(* all scaffolds of all output assemblies *)
Definition out_scaffolds (o : outputs) : list scaffold := flat_map oa_scaffolds (out_asms o).

(* sequence length: fragment bases, gaps not counted *)
Definition seq_length (sc : scaffold) : Z := frags_length (sc_rows sc).

(* the rank-1 scaffolds that came from Pretext scaffold [orig] *)
Definition members (o : outputs) (orig : str) : list scaffold :=
  filter (fun sc => (sc_rank sc =? 1) && opt_eqb str_eqb (sc_orig sc) (Some orig)) (out_scaffolds o).

(* As first written.  FALSE (chromosome_numbers_original_refuted below): nothing
   says that the Pretext scaffold names are pairwise different, and when one
   name comes back later in the map with an Unloc piece, the fusion keeps
   <name> where it was but puts <name>_unloc_1 behind the scaffolds in between,
   so ChrNamer opens a second group for the same name and the name gets two
   numbers. *)
Definition chromosome_numbers_statement_original : Prop :=
  forall g prefix bpt input pretext o,
  remap repaired g prefix bpt input pretext = Ok o ->
  input_namespace_ok prefix input pretext ->
  (length (filter painted_b pretext) <= 191)%nat ->
  no_haplotypes input -> no_haplotypes pretext ->
  exists chroms : list str,          (* Pretext scaffold names, in numbering order *)
    NoDup chroms
    (* every rank-1 scaffold belongs to exactly one of them and is named by its number *)
    /\ (forall sc, In sc (out_scaffolds o) -> sc_rank sc = 1 ->
          exists k orig sfx, nth_error chroms k = Some orig /\ sc_orig sc = Some orig
            /\ sc_name sc = prefix ++ str_of_Z (Z.of_nat k + 1) ++ sfx)
    (* no number without a scaffold *)
    /\ (forall k orig, nth_error chroms k = Some orig -> members o orig <> [])
    (* numbered by non-increasing sequence length of the chromosome with its unlocs *)
    /\ StronglySorted (fun a b => sumZ (map seq_length (members o a)) >= sumZ (map seq_length (members o b))) chroms.

(* The statement that holds: one more hypothesis (the Pretext scaffold names
   are pairwise different -- hypotheses otherwise exactly those of
   names_nodup_no_haplotypes) and, in the conclusion, what the suffix is
   ([unloc_sfx]: "" or "_unloc_<digits>"). *)
Definition numbered_by_length (prefix : str) (o : outputs) : Prop :=
  exists chroms : list str,          (* Pretext scaffold names, in numbering order *)
    NoDup chroms
    (* every rank-1 scaffold belongs to exactly one of them and is named by its number *)
    /\ (forall sc, In sc (out_scaffolds o) -> sc_rank sc = 1 ->
          exists k orig sfx, nth_error chroms k = Some orig /\ sc_orig sc = Some orig
            /\ sc_name sc = prefix ++ str_of_Z (Z.of_nat k + 1) ++ sfx /\ unloc_sfx sfx = true)
    (* no number without a scaffold *)
    /\ (forall k orig, nth_error chroms k = Some orig -> members o orig <> [])
    (* numbered by non-increasing sequence length of the chromosome with its unlocs *)
    /\ StronglySorted (fun a b => sumZ (map seq_length (members o a)) >= sumZ (map seq_length (members o b))) chroms.

Definition chromosome_numbers_statement : Prop :=
  forall g prefix bpt input pretext o,
  remap repaired g prefix bpt input pretext = Ok o ->
  input_namespace_ok prefix input pretext ->
  (length (filter painted_b pretext) <= 191)%nat ->
  no_haplotypes input -> no_haplotypes pretext ->
  NoDup (map fst pretext) ->
  numbered_by_length prefix o.

(* ============================================================ 2. the tail *)
Definition memb (orig : str) (sc : scaffold) : bool :=
  (sc_rank sc =? 1) && opt_eqb str_eqb (sc_orig sc) (Some orig).

Definition gorig (g : chr_group) : str :=
  match g with (_, (o, _) :: _) :: _ => o | _ => [] end.

Lemma sbn_filter_len o : forall l l', Forall2 same_but_name l l' ->
  map seq_length (filter (memb o) l') = map seq_length (filter (memb o) l).
Proof.
  induction 1 as [|x y l l' Hxy Hl IH]; [reflexivity|]. cbn [filter].
  destruct Hxy as (Rw & _ & _ & Rk & Or & _).
  assert (E : memb o y = memb o x) by (unfold memb; rewrite Rk, Or; reflexivity).
  rewrite E. destruct (memb o x); cbn [map]; [|exact IH].
  f_equal; [unfold seq_length; rewrite Rw; reflexivity | exact IH].
Qed.

Section Tail.
  Variables (prefix : str) (fused0 fused : list scaffold) (names : list str).
  Let fused1 := map (prefix_rank2 prefix) fused0.
  Let items := chr_items fused1.
  Let h : str := s "None".
  Hypothesis NS : namespace_ok prefix fused0.
  Hypothesis R1 : Forall (fun sc => sc_rank sc = 1 ->
                    sc_tag sc = None /\ sc_hap sc = None /\ exists o, sc_orig sc = Some o /\ In o names) fused0.
  Hypothesis Srt : StronglySorted le (map (skey names) fused0).
  Hypothesis NC : name_chromosomes prefix fused1 items = Ok fused.

  Lemma rank1_fixed a0 : sc_rank a0 = 1 -> prefix_rank2 prefix a0 = a0.
  Proof. intro R. unfold prefix_rank2. rewrite R. reflexivity. Qed.

  Lemma fused1_rank1 i sc : nth_error fused1 i = Some sc -> sc_rank sc = 1 -> nth_error fused0 i = Some sc.
  Proof.
    unfold fused1. rewrite nth_error_map. destruct (nth_error fused0 i) as [a0|]; [|discriminate].
    cbn [option_map]. intros E R. injection E as <-.
    destruct (prefix_rank2_sbn prefix a0) as (_ & _ & _ & R' & _).
    rewrite rank1_fixed by congruence. reflexivity.
  Qed.

  Lemma rank1_untagged sc : In sc fused0 -> sc_rank sc = 1 -> hap_str (asm_k sc) = h.
  Proof.
    intros I R. rewrite Forall_forall in R1. destruct (R1 sc I R) as (Tg & Hp & _).
    unfold asm_k, asm_key_of. rewrite Tg, Hp. reflexivity.
  Qed.

  Lemma item_facts h' i : In (h', i) items ->
    exists sc c o sfx, nth_error fused0 i = Some sc /\ nth_error fused1 i = Some sc /\ sc_rank sc = 1 /\ h' = h
      /\ sc_orig sc = Some (c :: o) /\ In (c :: o) names /\ is_upper c = true
      /\ sc_name sc = (c :: o) ++ sfx /\ unloc_sfx sfx = true /\ orig_of fused1 i = c :: o.
  Proof.
    intro I. unfold items, chr_items in I. apply chr_items_in in I as (_ & sc & Hn & R & Eh).
    rewrite Nat.sub_0_r in Hn. pose proof (fused1_rank1 i sc Hn R) as H0.
    pose proof (name_ok_at prefix fused0 NS i sc H0) as OK. unfold name_ok in OK.
    rewrite (proj2 (Z.eqb_eq _ _) R) in OK. destruct (rank1_ok_inv sc OK) as (c & o & sfx & Ho & Hc & Hnm & Hs).
    pose proof (nth_error_In _ _ H0) as Isc.
    pose proof R1 as R1'. rewrite Forall_forall in R1'. destruct (R1' sc Isc R) as (_ & _ & o' & Ho' & Io').
    rewrite Ho in Ho'. injection Ho' as <-.
    exists sc, c, o, sfx. split; [exact H0|]. split; [exact Hn|]. split; [exact R|].
    split; [rewrite Eh; exact (rank1_untagged sc Isc R)|]. split; [exact Ho|]. split; [exact Io'|].
    split; [exact Hc|]. split; [exact Hnm|]. split; [exact Hs|].
    unfold orig_of. rewrite Hn, Ho. reflexivity.
  Qed.

  Lemma rank1_item i sc : nth_error fused0 i = Some sc -> sc_rank sc = 1 -> In (h, i) items.
  Proof.
    intros H0 R. unfold items, chr_items. apply chr_items_in. split; [lia|]. exists sc. rewrite Nat.sub_0_r.
    split; [unfold fused1; rewrite (fused1_nth prefix fused0 i sc H0), (rank1_fixed sc R); reflexivity|].
    split; [exact R|]. symmetry. exact (rank1_untagged sc (nth_error_In _ _ H0) R).
  Qed.

  Lemma items_one_key : Forall (fun it => fst it = h) items.
  Proof.
    apply Forall_forall. intros [h' i] I.
    destruct (item_facts h' i I) as (sc & c & o & sfx & _ & _ & _ & E & _). exact E.
  Qed.

  Lemma items_have_orig : Forall (has_orig fused1) items.
  Proof.
    apply Forall_forall. intros [h' i] I.
    destruct (item_facts h' i I) as (sc & c & o & sfx & _ & Hn & _ & _ & Ho & _).
    exists sc, (c :: o). split; [exact Hn|]. split; [exact Ho | discriminate].
  Qed.

  Let cs := chunks (map (oi_of fused1) items).
  Let sorted := sort_by_Z_desc (group_length fused1 [h]) (map (G h) cs).

  Lemma EQ : fused = fold_left apply_rop (all_ops prefix sorted) (map (prefix_rank2 prefix) fused0).
  Proof.
    destruct (name_chromosomes_chunks prefix fused1 h items items_one_key items_have_orig) as [E _].
    rewrite NC in E. injection E as E. exact E.
  Qed.

  Lemma PP : Permutation (slots sorted)
               (map (slot_of (map (prefix_rank2 prefix) fused0)) (chr_items (map (prefix_rank2 prefix) fused0))).
  Proof. exact (proj2 (name_chromosomes_chunks prefix fused1 h items items_one_key items_have_orig)). Qed.

  Lemma F2 : Forall2 same_but_name (map (prefix_rank2 prefix) fused0) fused.
  Proof.
    destruct (apply_ops_upd_ok (all_ops prefix sorted) (map (prefix_rank2 prefix) fused0)) as [F _].
    rewrite <- EQ in F. exact F.
  Qed.

  Lemma ois_item oi : In oi (unchunk cs) ->
    exists h', In (h', snd oi) items /\ fst oi = orig_of fused1 (snd oi).
  Proof.
    unfold cs. rewrite unchunk_chunks. intro I. apply in_map_iff in I as ([h' i] & <- & I).
    exists h'. split; [exact I | reflexivity].
  Qed.

  Lemma chunk_names_nodup : NoDup (map fst cs).
  Proof.
    apply (chunk_origs_nodup (fun x => index_of x names) (fun x => In x names)).
    - intros x y. apply index_of_inj.
    - apply Forall_forall. intros oi I. apply in_map_iff in I as ([h' i] & <- & I).
      destruct (item_facts h' i I) as (sc & c & o & sfx & _ & _ & _ & _ & _ & Io & _ & _ & _ & Eo).
      unfold oi_of. cbn [fst snd]. rewrite Eo. exact Io.
    - cbv beta. rewrite map_map.
      assert (S1 : StronglySorted le (map (skey names) fused1)).
      { unfold fused1. rewrite map_map.
        rewrite (map_ext (fun x => skey names (prefix_rank2 prefix x)) (skey names)); [exact Srt|].
        intro a. unfold skey. destruct (prefix_rank2_sbn prefix a) as (_ & _ & _ & _ & O & _).
        rewrite O. reflexivity. }
      pose proof (items_sorted (skey names) fused1 fused1 [] eq_refl S1) as IS. cbn [length] in IS.
      fold (chr_items fused1) in IS. fold items in IS.
      erewrite map_ext_in; [exact IS|]. intros [h' i] I. cbv beta.
      destruct (item_facts h' i I) as (sc & c & o & sfx & _ & Hn & _ & _ & Ho & _ & _ & _ & _ & Eo).
      unfold oi_of. cbn [fst snd]. rewrite Eo, Hn. unfold skey. rewrite Ho. reflexivity.
  Qed.

  Lemma sorted_in g : In g sorted -> exists c, In c cs /\ g = G h c.
  Proof.
    intro I. apply (Permutation_in _ (sort_desc_perm _ _)) in I. apply in_map_iff in I as (c & <- & I). eauto.
  Qed.

  (* the new name of a rank-1 scaffold: the number of the group of its original name *)
  Lemma naming i a0 : nth_error fused0 i = Some a0 -> sc_rank a0 = 1 ->
    exists k c o idxs sfx, nth_error sorted k = Some (G h (c :: o, idxs)) /\ sc_orig a0 = Some (c :: o)
      /\ unloc_sfx sfx = true
      /\ nth_error fused i = Some (with_name a0 (prefix ++ str_of_Z (Z.of_nat k + 1) ++ sfx)).
  Proof.
    intros H0 R.
    pose proof (name_ok_at prefix fused0 NS i a0 H0) as OK. unfold name_ok in OK.
    rewrite (proj2 (Z.eqb_eq _ _) R) in OK.
    destruct (rank1_ok_inv a0 OK) as (c & o & sfx & Ho & Hc & Hn & Hs).
    pose proof (fused1_nth prefix fused0 i a0 H0) as H1. rewrite (rank1_fixed a0 R) in H1.
    destruct (rank1_has_op prefix fused0 sorted PP i a0 H0 R) as (o' & c' & I).
    destruct (op_is_item prefix fused0 sorted PP _ _ _ I)
      as (k & g & d & q & idxs & a0' & Hg & Hd & Hq & Hc' & H0' & _ & Eo).
    rewrite H0 in H0'. injection H0' as <-.
    assert (Eo' : o' = c :: o) by (rewrite Eo; unfold orig_of; rewrite H1, Ho; reflexivity).
    clear Eo. subst o'.
    pose proof (apply_ops_at (all_ops prefix sorted) (map (prefix_rank2 prefix) fused0) (i, c :: o, c') a0
                  (ops_nodup prefix fused0 sorted PP) I H1) as A.
    rewrite <- EQ in A. cbn [rop_idx fst snd] in A.
    rewrite Hn, (replace_orig_sfx c o c' sfx Hc Hs) in A.
    destruct (sorted_in g (nth_error_In _ _ Hg)) as ([og ig] & Icc & ->).
    unfold G, one_group in Hd. cbn [fst snd] in Hd. destruct Hd as [Hd|[]]. injection Hd as _ Ed. subst d.
    destruct q as [|q]; [|destruct q; discriminate]. cbn [nth_error] in Hq. injection Hq as -> ->.
    cbn [length letter] in Hc'. rewrite app_nil_r in Hc'. subst c'.
    exists k, c, o, idxs, sfx. split; [exact Hg|]. split; [exact Ho|]. split; [exact Hs|].
    rewrite A, <- app_assoc. reflexivity.
  Qed.

  Definition chroms : list str := map gorig sorted.

  Lemma chroms_nodup : NoDup chroms.
  Proof.
    unfold chroms. apply (Permutation_NoDup (l := map fst cs)); [|exact chunk_names_nodup].
    eapply perm_trans; [|apply Permutation_map, Permutation_sym, sort_desc_perm].
    rewrite map_map. erewrite map_ext; [apply Permutation_refl|]. intros [o idxs]. reflexivity.
  Qed.

  Lemma named_rank1 i a' : nth_error fused i = Some a' -> sc_rank a' = 1 ->
    exists k orig sfx, nth_error chroms k = Some orig /\ sc_orig a' = Some orig
      /\ sc_name a' = prefix ++ str_of_Z (Z.of_nat k + 1) ++ sfx /\ unloc_sfx sfx = true.
  Proof.
    intros Ha R.
    assert (Li : (i < length fused0)%nat).
    { rewrite <- (fused_length prefix fused0 fused sorted EQ). apply nth_error_Some. congruence. }
    destruct (nth_error fused0 i) as [a0|] eqn:H0; [|apply nth_error_None in H0; lia].
    destruct (Forall2_nth_error _ _ _ F2 i _ (fused1_nth prefix fused0 i a0 H0)) as (y & Hy & Sy).
    rewrite Ha in Hy. injection Hy as <-.
    assert (R0 : sc_rank a0 = 1).
    { destruct Sy as (_ & _ & _ & Ry & _). destruct (prefix_rank2_sbn prefix a0) as (_ & _ & _ & R' & _). congruence. }
    destruct (naming i a0 H0 R0) as (k & c & o & idxs & sfx & Hg & Ho & Hs & A).
    rewrite Ha in A. injection A as ->.
    exists k, (c :: o), sfx. split; [|split; [exact Ho|split; [reflexivity | exact Hs]]].
    unfold chroms. erewrite map_nth_error; [|exact Hg]. reflexivity.
  Qed.

  Lemma number_has_member k orig : nth_error chroms k = Some orig ->
    exists sc, In sc fused /\ memb orig sc = true.
  Proof.
    unfold chroms. intro Hk. rewrite nth_error_map in Hk.
    destruct (nth_error sorted k) as [g|] eqn:Hg; [|discriminate]. cbn [option_map] in Hk. injection Hk as <-.
    destruct (sorted_in g (nth_error_In _ _ Hg)) as ([og ig] & Icc & ->). change (gorig (G h (og, ig))) with og.
    pose proof (chunks_ne (map (oi_of fused1) items)) as NE. fold cs in NE. rewrite Forall_forall in NE.
    specialize (NE _ Icc). cbn [snd] in NE. destruct ig as [|i ig]; [congruence|].
    assert (Iu : In (og, i) (unchunk cs)).
    { unfold unchunk. apply in_flat_map. exists (og, i :: ig). split; [exact Icc|]. left. reflexivity. }
    destruct (ois_item _ Iu) as (h' & I & Eo). cbn [fst snd] in I, Eo.
    destruct (item_facts h' i I) as (sc & c & o & sfx & H0 & _ & R & _ & Ho & _ & _ & _ & _ & Eo').
    rewrite Eo' in Eo. subst og.
    destruct (naming i sc H0 R) as (k' & c2 & o2 & idxs2 & sfx2 & _ & _ & _ & A).
    eexists. split; [eapply nth_error_In; exact A|].
    unfold memb. cbn [with_name sc_rank sc_orig]. rewrite R, Ho. cbn [opt_eqb]. rewrite str_eqb_refl. reflexivity.
  Qed.

  Definition fused_len (o : str) : Z := sumZ (map seq_length (filter (memb o) fused)).

  Lemma group_len_members c : In c cs -> group_length fused1 [h] (G h c) = fused_len (fst c).
  Proof.
    intro Ic. rewrite group_length_G. unfold fused_len. rewrite (sbn_filter_len (fst c) _ _ F2).
    fold fused1. apply (sum_over_indices seq_length (memb (fst c)) fused1 (snd c)).
    - apply (NoDup_flat_map_in snd cs c); [|exact Ic]. rewrite <- map_snd_unchunk.
      unfold cs. rewrite unchunk_chunks, map_map. cbn [oi_of snd].
      change (map (fun x : str * nat => snd x) items) with (map snd items).
      unfold items, chr_items. apply chr_items_nodup.
    - intro i. split.
      + intro Ii.
        assert (Iu : In (fst c, i) (unchunk cs)).
        { unfold unchunk. apply in_flat_map. exists c. split; [exact Ic|]. apply in_map. exact Ii. }
        destruct (ois_item _ Iu) as (h' & I & Eo). cbn [fst snd] in I, Eo.
        destruct (item_facts h' i I) as (sc & c0 & o & sfx & _ & Hn & R & _ & Ho & _ & _ & _ & _ & Eo').
        exists sc. split; [exact Hn|]. unfold memb. rewrite R, Ho, Eo, Eo'. cbn [opt_eqb].
        rewrite str_eqb_refl. reflexivity.
      + intros (x & Hn & Mx). unfold memb in Mx. apply andb_prop in Mx as [Rx Ox].
        apply Z.eqb_eq in Rx. apply Routing.opt_str_eqb_eq in Ox.
        pose proof (rank1_item i x (fused1_rank1 i x Hn Rx) Rx) as I.
        assert (Iu : In (fst c, i) (unchunk cs)).
        { unfold cs. rewrite unchunk_chunks. apply in_map_iff. exists (h, i). split; [|exact I].
          unfold oi_of, orig_of. cbn [snd]. rewrite Hn, Ox. reflexivity. }
        unfold unchunk in Iu. apply in_flat_map in Iu as (c' & Ic' & Ii).
        apply in_map_iff in Ii as (j & E & Ij). injection E as Ef ->.
        rewrite (NoDup_map_In_inj fst cs c c' chunk_names_nodup Ic Ic' (eq_sym Ef)). exact Ij.
  Qed.

  Lemma chroms_sorted : StronglySorted (fun a b => fused_len a >= fused_len b) chroms.
  Proof.
    unfold chroms. apply (SS_map_transfer (group_length fused1 [h]) fused_len gorig); [apply sort_desc_sorted|].
    intros g Ig. destruct (sorted_in g Ig) as (c & Ic & ->). rewrite (group_len_members c Ic).
    destruct c as [o idxs]. reflexivity.
  Qed.
End Tail.

(* ============================================================ 3. the run *)
Lemma remap_stages : forall g prefix bpt input pretext o,
  remap repaired g prefix bpt input pretext = Ok o ->
  exists rs fused0 fused,
    remap_to_input repaired g prefix bpt input pretext = Ok rs
    /\ fuse_all repaired g rs = Ok fused0
    /\ name_chromosomes prefix (map (prefix_rank2 prefix) fused0) (chr_items (map (prefix_rank2 prefix) fused0))
       = Ok fused
    /\ Permutation (out_scaffolds o) fused.
Proof.
  intros g prefix bpt input pretext o H. unfold remap in H.
  destruct (remap_to_input repaired g prefix bpt input pretext) as [rs|] eqn:R; cbn [bind] in H; [|discriminate].
  exists rs. unfold assemblies_with_scaffolds_fused in H.
  destruct (fuse_all repaired g rs) as [fused0|]; cbn [bind] in H; [|discriminate].
  change (map (fun sc => if (sc_rank sc =? 2) && negb (starts_with prefix (sc_name sc))
                         then with_name sc (prefix ++ sc_name sc) else sc) fused0)
    with (map (prefix_rank2 prefix) fused0) in H.
  set (fused1 := map (prefix_rank2 prefix) fused0) in *.
  change (flat_map _ (combine (seq 0 (length fused1)) fused1)) with (chr_items fused1) in H.
  destruct (name_chromosomes prefix fused1 (chr_items fused1)) as [fused|] eqn:NC; cbn [bind] in H; [|discriminate].
  match type of H with context [mapM ?f ?a0] =>
    destruct (mapM f a0) as [asms|] eqn:MM end; cbn [bind] in H; [|discriminate].
  destruct (make_stats _ _ _) as [[[breaks joins] per]|]; cbn [bind] in H; [|discriminate].
  injection H as <-. exists fused0, fused. split; [reflexivity|]. split; [reflexivity|]. split; [exact NC|].
  unfold out_scaffolds. cbn [out_asms].
  eapply perm_trans; [apply (sort_groups_perm _ _ MM)|]. apply (group_fold_perm fused []).
Qed.

Theorem chromosome_numbers_end_to_end : chromosome_numbers_statement.
Proof.
  intros g prefix bpt input pretext o H INS B NHi NHp N.
  destruct (remap_stages _ _ _ _ _ _ H) as (rs & fused0 & fused & R & HF & NC & Pm).
  destruct (remap_to_input_labels prefix input pretext INS _ _ _ _ R) as [FR FL].
  pose proof (fuse_all_PL _ _ _ _ _ _ FR FL HF) as FPL.
  destruct (PL_namespace prefix pretext fused0 FPL B) as [_ NS].
  pose proof (no_haplotypes_fused _ _ _ _ _ _ _ _ NHi NHp R HF) as NH.
  destruct (fused_order _ _ _ _ _ _ _ _ N R HF) as [Srt Tag].
  set (names := map fst pretext) in *.
  assert (R1 : Forall (fun sc => sc_rank sc = 1 ->
                 sc_tag sc = None /\ sc_hap sc = None /\ exists o, sc_orig sc = Some o /\ In o names) fused0).
  { apply Forall_forall. intros sc I Rk. rewrite Forall_forall in Tag, NH, FPL.
    split; [exact (Tag sc I Rk)|]. split; [exact (NH sc I)|].
    pose proof (FPL sc I) as Psc. unfold PL, sc_labs, lab_ok in Psc. destruct Psc as (_ & _ & _ & P1 & _).
    destruct (P1 Rk) as (c & o' & prows & Eo & _ & _ & _ & Ip & _).
    exists (c :: o'). split; [exact Eo|]. unfold names. apply in_map_iff. exists (c :: o', prows). auto. }
  exists (chroms prefix fused0). split; [|split; [|split]].
  - exact (chroms_nodup prefix fused0 names NS R1 Srt).
  - intros sc I Rk. apply (Permutation_in _ Pm) in I. apply In_nth_error in I as [i Hi].
    exact (named_rank1 prefix fused0 fused names NS R1 NC i sc Hi Rk).
  - intros k orig Hk.
    destruct (number_has_member prefix fused0 fused names NS R1 NC k orig Hk) as (sc & Isc & M).
    apply (Permutation_in _ (Permutation_sym Pm)) in Isc.
    intro E. assert (X : In sc (members o orig)) by (unfold members; apply filter_In; split; [exact Isc | exact M]).
    rewrite E in X. destruct X.
  - eapply StronglySorted_weaken; [|exact (chroms_sorted prefix fused0 fused names NS R1 Srt NC)].
    cbv beta. intros a b Hab.
    assert (L : forall x, sumZ (map seq_length (members o x)) = fused_len fused x).
    { intro x. unfold members, fused_len. apply sumZ_perm, Permutation_map. apply (filter_perm (memb x)). exact Pm. }
    rewrite !L. exact Hab.
Qed.

(* ===================================== 4. the statement as first written is false *)
(* Input: four scaffolds a, b, c, d.  Map: Scaffold_1 = a; Scaffold_2 = b;
   then Scaffold_1 AGAIN = c and, as an Unloc piece, d.  The pieces a and c fuse
   under the name Scaffold_1 (first place), the piece d becomes
   Scaffold_1_unloc_1 (third place, behind Scaffold_2), ChrNamer sees the
   original names Scaffold_1, Scaffold_2, Scaffold_1 and opens three groups:
   SUPER_1 = Scaffold_2 (3000), SUPER_2 = Scaffold_1 (1500),
   SUPER_3_unloc_1 = the unloc of Scaffold_1 (200). *)
Definition cx_input : list (str * list row) :=
  [(s "a", [exF (s "c1") 1 1000 []]); (s "b", [exF (s "c2") 1 3000 []]);
   (s "c", [exF (s "c3") 1 500 []]); (s "d", [exF (s "c4") 1 200 []])].
Definition cx_pretext : list (str * list row) :=
  [(s "Scaffold_1", [exF (s "a") 1 1000 [s "Painted"]]);
   (s "Scaffold_2", [exF (s "b") 1 3000 [s "Painted"]]);
   (s "Scaffold_1", [exF (s "c") 1 500 [s "Painted"]; RG ex_gap; exF (s "d") 1 200 [s "Painted"; s "Unloc"]])].
Definition cx_out : outputs :=
  match remap repaired ex_gap (s "SUPER_") (10, 1) cx_input cx_pretext with
  | Ok o => o
  | Err _ => mkOut [] 0 0 0 []
  end.

Lemma cx_run : remap repaired ex_gap (s "SUPER_") (10, 1) cx_input cx_pretext = Ok cx_out.
Proof. vm_compute. reflexivity. Qed.

Example cx_names :
  map (fun sc => (sc_name sc, sc_rank sc, sc_orig sc, seq_length sc)) (out_scaffolds cx_out)
  = [(s "SUPER_1", 1, Some (s "Scaffold_2"), 3000);
     (s "SUPER_2", 1, Some (s "Scaffold_1"), 1500);
     (s "SUPER_3_unloc_1", 1, Some (s "Scaffold_1"), 200)].
Proof. vm_compute. reflexivity. Qed.

Definition is_sc (n orig : str) (sc : scaffold) : bool :=
  str_eqb (sc_name sc) n && (sc_rank sc =? 1) && opt_eqb str_eqb (sc_orig sc) (Some orig).

Lemma find_sc n orig l : existsb (is_sc n orig) l = true ->
  exists sc, In sc l /\ sc_name sc = n /\ sc_rank sc = 1 /\ sc_orig sc = Some orig.
Proof.
  intro H. apply existsb_exists in H as (sc & I & B). exists sc. split; [exact I|].
  unfold is_sc in B. apply andb_prop in B as [B B3]. apply andb_prop in B as [B1 B2].
  apply str_eqb_eq in B1. apply Z.eqb_eq in B2. apply Routing.opt_str_eqb_eq in B3. auto.
Qed.

Theorem chromosome_numbers_original_refuted : ~ chromosome_numbers_statement_original.
Proof.
  intro St.
  destruct (St ex_gap (s "SUPER_") (10, 1) cx_input cx_pretext cx_out cx_run) as (chroms0 & ND & C2 & _).
  - apply input_namespace_ok_b_sound. vm_compute. reflexivity.
  - vm_compute. lia.
  - apply no_haplotypes_b_sound. vm_compute. reflexivity.
  - apply no_haplotypes_b_sound. vm_compute. reflexivity.
  - assert (E2 : existsb (is_sc (s "SUPER_2") (s "Scaffold_1")) (out_scaffolds cx_out) = true)
      by (vm_compute; reflexivity).
    assert (E3 : existsb (is_sc (s "SUPER_3_unloc_1") (s "Scaffold_1")) (out_scaffolds cx_out) = true)
      by (vm_compute; reflexivity).
    destruct (find_sc _ _ _ E2) as (b & Ib & Nb & Rb & Ob).
    destruct (find_sc _ _ _ E3) as (c & Ic & Nc & Rc & Oc).
    destruct (C2 b Ib Rb) as (k2 & o2 & sfx2 & Hk2 & Ho2 & Hn2).
    destruct (C2 c Ic Rc) as (k3 & o3 & sfx3 & Hk3 & Ho3 & Hn3).
    rewrite Ob in Ho2. injection Ho2 as <-. rewrite Oc in Ho3. injection Ho3 as <-.
    assert (K : k2 = k3).
    { apply (proj1 (NoDup_nth_error chroms0) ND); [apply nth_error_Some; congruence | congruence]. }
    subst k3. rewrite Nb in Hn2. rewrite Nc in Hn3.
    change (s "SUPER_2") with (s "SUPER_" ++ s "2") in Hn2.
    change (s "SUPER_3_unloc_1") with (s "SUPER_" ++ s "3_unloc_1") in Hn3.
    apply app_inv_head in Hn2, Hn3.
    assert (P : 0 <= Z.of_nat k2 + 1) by lia.
    destruct (Proofs.Dec.str_of_Z_digits _ P) as [NE _].
    destruct (str_of_Z (Z.of_nat k2 + 1)) as [|ch t]; [congruence|].
    cbn [s list_ascii_of_string app] in Hn2, Hn3. injection Hn2 as X2 _. injection Hn3 as X3 _.
    rewrite <- X2 in X3. discriminate X3.
Qed.

(* ============================================================ 5. an instance *)
(* three painted Pretext scaffolds, not in order of size: Scaffold_1 = a (1000),
   Scaffold_2 = b (3000) with an Unloc piece (400), Scaffold_3 = c (2000) *)
Definition cn_input : list (str * list row) :=
  [(s "a", [exF (s "c1") 1 1000 []]);
   (s "b", [exF (s "c2") 1 3000 []; RG ex_gap; exF (s "c3") 1 400 []]);
   (s "c", [exF (s "c4") 1 2000 []])].
Definition cn_pretext : list (str * list row) :=
  [(s "Scaffold_1", [exF (s "a") 1 1000 [s "Painted"]]);
   (s "Scaffold_2", [exF (s "b") 1 3000 [s "Painted"]; RG ex_gap;
                     exF (s "b") 3201 3600 [s "Painted"; s "Unloc"]]);
   (s "Scaffold_3", [exF (s "c") 1 2000 [s "Painted"]])].

(* the run: Scaffold_2 with its unloc (3400) is 1, Scaffold_3 (2000) is 2, Scaffold_1 (1000) is 3 *)
Example chromosome_numbers_example_run :
  match remap repaired ex_gap (s "SUPER_") (10, 1) cn_input cn_pretext with
  | Ok o => map (fun sc => (sc_name sc, sc_rank sc, sc_orig sc, seq_length sc)) (out_scaffolds o)
  | Err _ => []
  end
  = [(s "SUPER_1", 1, Some (s "Scaffold_2"), 3000);
     (s "SUPER_1_unloc_1", 1, Some (s "Scaffold_2"), 400);
     (s "SUPER_2", 1, Some (s "Scaffold_3"), 2000);
     (s "SUPER_3", 1, Some (s "Scaffold_1"), 1000)].
Proof. vm_compute. reflexivity. Qed.

(* the theorem applied to it (not by computation on the output) *)
Example chromosome_numbers_example : forall o,
  remap repaired ex_gap (s "SUPER_") (10, 1) cn_input cn_pretext = Ok o ->
  numbered_by_length (s "SUPER_") o.
Proof.
  intros o H. apply (chromosome_numbers_end_to_end _ _ _ _ _ _ H).
  - apply input_namespace_ok_b_sound. vm_compute. reflexivity.
  - vm_compute. lia.
  - apply no_haplotypes_b_sound. vm_compute. reflexivity.
  - apply no_haplotypes_b_sound. vm_compute. reflexivity.
  - repeat (apply NoDup_cons; [vm_compute; intuition discriminate|]). apply NoDup_nil.
Qed.

(* =========================================================== assumptions *)
Print Assumptions chromosome_numbers_original_refuted.
Print Assumptions chromosome_numbers_example.
Print Assumptions chromosome_numbers_end_to_end.
