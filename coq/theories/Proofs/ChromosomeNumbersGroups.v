(* C10 numbering, ChrNamer for ONE haplotype key, made explicit:

   chunks                  the groups ChrNamer builds are the runs of equal
                           original names in the list of items, in order
   groups_are_chunks       ... as computed by [build_groups_step]
   chunk_origs_nodup       if the original names of the items come sorted by
                           an injective rank, every original name gets ONE
                           group
   name_chromosomes_chunks [name_chromosomes] = the renamings of the groups
                           sorted by [group_length], as a list of [apply_rop] *)
From Tola Require Import Py.Base Py.Dec Py.Sort Model.Fragment Model.Scaffold Model.Namer Model.Remap.
From Tola Require Import Proofs.BaseLemmas Proofs.Naming Proofs.UniqueNames Proofs.ChromosomeNumbersHead.
From Tola Require Proofs.RemapTail Proofs.Junctions.
From Coq Require Import Lia ZifyBool Permutation Sorted.

(* ================================================================ 1. chunks *)
Definition chunk := (str * list nat)%type.

Definition chunk_step (cs : list chunk) (oi : str * nat) : list chunk :=
  match last_opt cs with
  | Some (o, idxs) => if str_eqb (fst oi) o then removelast cs ++ [(o, idxs ++ [snd oi])]
                      else cs ++ [(fst oi, [snd oi])]
  | None => [(fst oi, [snd oi])]
  end.
Definition chunks (ois : list (str * nat)) : list chunk := fold_left chunk_step ois [].
Definition unchunk (cs : list chunk) : list (str * nat) :=
  flat_map (fun c : chunk => map (pair (fst c)) (snd c)) cs.

Lemma chunk_step_snoc cs o idxs oi :
  chunk_step (cs ++ [(o, idxs)]) oi
  = if str_eqb (fst oi) o then cs ++ [(o, idxs ++ [snd oi])]
    else (cs ++ [(o, idxs)]) ++ [(fst oi, [snd oi])].
Proof. unfold chunk_step. rewrite last_opt_snoc, removelast_last. reflexivity. Qed.

Lemma list_snoc_cases {A} (l : list A) : l = [] \/ exists l' x, l = l' ++ [x].
Proof.
  destruct l as [|a l]; [left; reflexivity|]. right.
  destruct (@exists_last _ (a :: l)) as (l' & x & E); [discriminate|]. exists l', x. exact E.
Qed.

Lemma unchunk_app a b : unchunk (a ++ b) = unchunk a ++ unchunk b.
Proof. unfold unchunk. apply flat_map_app. Qed.

Lemma unchunk_step cs oi : unchunk (chunk_step cs oi) = unchunk cs ++ [oi].
Proof.
  destruct oi as [o' i]. destruct (list_snoc_cases cs) as [->|(cs' & [o idxs] & ->)].
  - reflexivity.
  - rewrite chunk_step_snoc. cbn [fst snd]. destruct (str_eqb o' o) eqn:E.
    + apply str_eqb_eq in E. subst o'. rewrite !unchunk_app. unfold unchunk at 2 4.
      cbn [flat_map fst snd]. rewrite !app_nil_r, map_app, app_assoc. reflexivity.
    + rewrite (unchunk_app (cs' ++ [(o, idxs)])). reflexivity.
Qed.

Lemma unchunk_fold : forall ois cs, unchunk (fold_left chunk_step ois cs) = unchunk cs ++ ois.
Proof.
  induction ois as [|oi ois IH]; intro cs; cbn [fold_left]; [rewrite app_nil_r; reflexivity|].
  rewrite IH, unchunk_step, <- app_assoc. reflexivity.
Qed.

Lemma unchunk_chunks ois : unchunk (chunks ois) = ois.
Proof. unfold chunks. rewrite unchunk_fold. reflexivity. Qed.

Lemma chunk_step_ne cs oi : Forall (fun c : chunk => snd c <> []) cs ->
  Forall (fun c : chunk => snd c <> []) (chunk_step cs oi).
Proof.
  intro F. destruct (list_snoc_cases cs) as [->|(cs' & [o idxs] & ->)].
  - constructor; [discriminate | constructor].
  - rewrite chunk_step_snoc. apply Forall_app in F as [F1 F2]. destruct (str_eqb (fst oi) o).
    + apply Forall_app. split; [exact F1|]. constructor; [|constructor]. cbn [snd].
      intro X. apply app_eq_nil in X as [_ X]. discriminate.
    + apply Forall_app. split; [apply Forall_app; split; assumption|].
      constructor; [discriminate | constructor].
Qed.

Lemma chunks_ne ois : Forall (fun c : chunk => snd c <> []) (chunks ois).
Proof.
  unfold chunks. assert (K : forall ois cs, Forall (fun c : chunk => snd c <> []) cs ->
                            Forall (fun c : chunk => snd c <> []) (fold_left chunk_step ois cs)).
  { clear. induction ois as [|oi ois IH]; intros cs F; cbn [fold_left]; [exact F|].
    apply IH, chunk_step_ne, F. }
  apply K. constructor.
Qed.

(* ------------------------------------ sorted items give one chunk per name *)
Lemma SS_lt_NoDup : forall l, StronglySorted lt l -> NoDup l.
Proof.
  induction 1 as [|x l S IH F]; constructor; [|exact IH].
  intro I. rewrite Forall_forall in F. specialize (F x I). lia.
Qed.

Section ChunkSorted.
  Variables (rk : str -> nat) (P : str -> Prop).
  Hypothesis Inj : forall x y, P x -> P y -> rk x = rk y -> x = y.
  Let rkc (c : chunk) : nat := rk (fst c).
  Let rko (oi : str * nat) : nat := rk (fst oi).

  Lemma chunk_fold_sorted : forall ois cs,
    Forall (fun oi => P (fst oi)) ois -> Forall (fun c : chunk => P (fst c)) cs ->
    StronglySorted lt (map rkc cs) -> StronglySorted le (map rko ois) ->
    (forall c oi, last_opt cs = Some c -> In oi ois -> (rkc c <= rko oi)%nat) ->
    StronglySorted lt (map rkc (fold_left chunk_step ois cs)).
  Proof.
    induction ois as [|[o' i] ois IH]; intros cs Po Pc Sc So L; cbn [fold_left]; [exact Sc|].
    inversion Po as [|? ? Po1 Po2]; subst. cbn [fst] in Po1.
    cbn [map] in So. inversion So as [|? ? So1 So2]; subst.
    assert (Hd : forall oi, In oi ois -> (rk o' <= rko oi)%nat).
    { intros oi I. rewrite Forall_forall in So2. apply (So2 (rko oi)). apply in_map. exact I. }
    destruct (list_snoc_cases cs) as [->|(cs' & [o idxs] & ->)].
    - apply IH; [exact Po2 | constructor; [exact Po1 | constructor]
                | constructor; [constructor | constructor] | exact So1|].
      intros c oi Hc I. cbn in Hc. injection Hc as <-. apply Hd, I.
    - rewrite chunk_step_snoc. cbn [fst snd].
      apply Forall_app in Pc as [Pc1 Pc2]. inversion Pc2 as [|? ? Pc3 _]; subst. cbn [fst] in Pc3.
      pose proof (L (o, idxs) (o', i) (last_opt_snoc _ _) (or_introl eq_refl)) as L0.
      unfold rkc, rko in L0. cbn [fst] in L0.
      destruct (str_eqb o' o) eqn:E.
      + apply str_eqb_eq in E. subst o'.
        apply IH; [exact Po2 | apply Forall_app; split; [exact Pc1 | constructor; [exact Pc3 | constructor]]
                  | | exact So1|].
        * rewrite map_app in *. exact Sc.
        * intros c oi Hc I. rewrite last_opt_snoc in Hc. injection Hc as <-. unfold rkc. cbn [fst].
          apply Hd, I.
      + apply str_eqb_neq in E.
        assert (Lt : (rk o < rk o')%nat).
        { assert (rk o <> rk o') by (intro X; apply E; symmetry; apply Inj; assumption). lia. }
        apply IH; [exact Po2 | | | exact So1|].
        * apply Forall_app. split; [apply Forall_app; split; assumption|]. constructor; [exact Po1 | constructor].
        * rewrite map_app. apply SS_app_intro; [exact Sc | constructor; [constructor | constructor]|].
          intros x y Ix [<-|[]]. unfold rkc at 1. cbn [fst].
          rewrite map_app in Sc, Ix. apply SS_app_inv in Sc as (_ & _ & C).
          apply in_app_or in Ix as [Ix|[<-|[]]].
          -- specialize (C x (rkc (o, idxs)) Ix (or_introl eq_refl)). unfold rkc in C at 1. cbn [fst] in C. lia.
          -- unfold rkc. cbn [fst]. exact Lt.
        * intros c oi Hc I. rewrite last_opt_snoc in Hc. injection Hc as <-. unfold rkc. cbn [fst].
          apply Hd, I.
  Qed.

  Theorem chunk_origs_nodup ois :
    Forall (fun oi => P (fst oi)) ois -> StronglySorted le (map rko ois) ->
    NoDup (map fst (chunks ois)).
  Proof.
    intros Po So. apply (NoDup_map_factor fst rk). apply SS_lt_NoDup.
    apply (chunk_fold_sorted ois []); [exact Po | constructor | constructor | exact So|].
    intros c oi Hc. discriminate.
  Qed.
End ChunkSorted.

(* ============================================ 2. build_groups_step, one key *)
Definition G (h : str) (c : chunk) : chr_group := one_group h (fst c) (snd c).
Definition oi_of (fused : list scaffold) (it : str * nat) : str * nat := (orig_of fused (snd it), snd it).

Definition Shape (h : str) (st : cg_state) (cur : list chunk) : Prop :=
  cg_groups st = map (G h) cur /\ exists cs o idxs, cur = cs ++ [(o, idxs)] /\ cg_last_orig st = Some o.

Section OneKey.
  Variable fused : list scaffold.
  Variable h : str.

  Lemma step_shape_first i sc o' : nth_error fused i = Some sc -> sc_orig sc = Some o' -> o' <> [] ->
    exists st', build_groups_step fused [h] false (mkCg [new_group [h]] None None) (h, i) = Ok st'
                /\ Shape h st' (chunk_step [] (o', i)).
  Proof.
    intros Hn Ho Hne. unfold build_groups_step. rewrite Hn, Ho.
    destruct o' as [|c o'']; [congruence|]. cbv beta iota. remember (c :: o'') as orig eqn:Eo.
    cbn [cg_groups new_group map]. change [[(h, @nil (str * list nat))]] with ([] ++ [[(h, @nil (str * list nat))]]).
    rewrite last_opt_snoc, group_hap_single. cbv beta iota zeta.
    rewrite last_opt_snoc, group_add_single. cbn [aget aset].
    rewrite set_last_group_snoc. cbn [app]. eexists. split; [reflexivity|]. split.
    - reflexivity.
    - exists [], orig, [i]. split; reflexivity.
  Qed.

  Lemma step_shape st cur i sc o' : Shape h st cur ->
    nth_error fused i = Some sc -> sc_orig sc = Some o' -> o' <> [] ->
    exists st', build_groups_step fused [h] false st (h, i) = Ok st' /\ Shape h st' (chunk_step cur (o', i)).
  Proof.
    intros (Eg & cs & o & idxs & -> & Elo) Hn Ho Hne.
    rewrite map_app in Eg. cbn [map] in Eg. unfold G at 2 in Eg. cbn [fst snd] in Eg.
    unfold build_groups_step. rewrite Hn, Ho.
    destruct o' as [|c o'']; [congruence|]. cbv beta iota. remember (c :: o'') as orig eqn:Eo.
    rewrite chunk_step_snoc. cbn [fst snd].
    rewrite Eg, last_opt_snoc. unfold one_group. rewrite group_hap_single. cbv beta iota zeta.
    rewrite Elo. cbn [opt_eqb].
    destruct (str_eqb orig o) eqn:E; cbn [negb].
    - apply str_eqb_eq in E. subst o.
      rewrite last_opt_snoc. rewrite group_add_single.
      cbn [aget aset]. rewrite str_eqb_refl. rewrite set_last_group_snoc.
      eexists. split; [reflexivity|]. split.
      + cbn [cg_groups]. rewrite map_app. reflexivity.
      + exists cs, orig, (idxs ++ [i]). split; reflexivity.
    - rewrite last_opt_snoc. cbn [new_group map]. rewrite group_add_single.
      cbn [aget aset app]. rewrite set_last_group_snoc.
      eexists. split; [reflexivity|]. split.
      + cbn [cg_groups]. rewrite !map_app. reflexivity.
      + exists (cs ++ [(o, idxs)]), orig, [i]. split; reflexivity.
  Qed.

  Lemma has_orig_oi it : has_orig fused it ->
    exists sc o, nth_error fused (snd it) = Some sc /\ sc_orig sc = Some o /\ o <> [] /\ oi_of fused it = (o, snd it).
  Proof.
    intros (sc & o & Hn & Ho & Hne). exists sc, o. repeat split; auto.
    unfold oi_of, orig_of. rewrite Hn, Ho. reflexivity.
  Qed.

  Lemma fold_shape : forall items st cur, Shape h st cur ->
    Forall (fun it => fst it = h) items -> Forall (has_orig fused) items ->
    exists st', foldM (build_groups_step fused [h] false) items st = Ok st'
                /\ Shape h st' (fold_left chunk_step (map (oi_of fused) items) cur).
  Proof.
    induction items as [|[h' i] items IH]; intros st cur Sh Hh Ho.
    - exists st. split; [reflexivity | exact Sh].
    - pose proof (Forall_inv Hh) as Hh1. pose proof (Forall_inv_tail Hh) as Hh2.
      pose proof (Forall_inv Ho) as Ho1. pose proof (Forall_inv_tail Ho) as Ho2.
      cbn [fst] in Hh1. subst h'. destruct (has_orig_oi _ Ho1) as (sc & o & Hn & Hor & Hne & Eoi).
      cbn [snd] in Hn, Eoi.
      destruct (step_shape st cur i sc o Sh Hn Hor Hne) as (st1 & E1 & Sh1).
      destruct (IH st1 _ Sh1 Hh2 Ho2) as (st2 & E2 & Sh2).
      exists st2. cbn [foldM map fold_left]. rewrite E1. cbn [bind]. rewrite Eoi. split; [exact E2 | exact Sh2].
  Qed.

  Theorem groups_are_chunks : forall items, items <> [] ->
    Forall (fun it => fst it = h) items -> Forall (has_orig fused) items ->
    exists st, foldM (build_groups_step fused [h] false) items (mkCg [new_group [h]] None None) = Ok st
               /\ cg_groups st = map (G h) (chunks (map (oi_of fused) items)).
  Proof.
    intros [|[h' i] items] Hne Hh Ho; [congruence|].
    pose proof (Forall_inv Hh) as Hh1. pose proof (Forall_inv_tail Hh) as Hh2.
    pose proof (Forall_inv Ho) as Ho1. pose proof (Forall_inv_tail Ho) as Ho2.
    cbn [fst] in Hh1. subst h'. destruct (has_orig_oi _ Ho1) as (sc & o & Hn & Hor & Hne' & Eoi).
    cbn [snd] in Hn, Eoi.
    destruct (step_shape_first i sc o Hn Hor Hne') as (st1 & E1 & Sh1).
    destruct (fold_shape items st1 _ Sh1 Hh2 Ho2) as (st2 & E2 & Sh2).
    exists st2. cbn [foldM]. rewrite E1. cbn [bind]. split; [exact E2|].
    unfold chunks. cbn [map fold_left]. rewrite Eoi. exact (proj1 Sh2).
  Qed.

  Lemma chunk_groups_not_bad : forall cs, existsb (group_bad [h]) (map (G h) cs) = false.
  Proof.
    induction cs as [|c cs IH]; cbn [map existsb]; [reflexivity|]. rewrite IH.
    unfold group_bad, G, one_group. rewrite group_hap_single. reflexivity.
  Qed.

  Lemma group_length_G c :
    group_length fused [h] (G h c)
    = sumZ (map (fun i => match nth_error fused i with
                          | Some sc => frags_length (sc_rows sc) | None => 0 end) (snd c)).
  Proof. unfold group_length, G, one_group. rewrite group_hap_single. reflexivity. Qed.

  Lemma slots_chunks : forall cs,
    slots (map (G h) cs) = map (fun oi : str * nat => (h, fst oi, snd oi)) (unchunk cs).
  Proof.
    induction cs as [|[o idxs] cs IH]; [reflexivity|].
    unfold slots, unchunk in *. cbn [map flat_map]. rewrite IH, map_app. f_equal.
    unfold slots_g, G, one_group. cbn [flat_map fst snd slots_d]. rewrite !app_nil_r, map_map. reflexivity.
  Qed.
End OneKey.

(* =============================================== 3. name_chromosomes, one key *)
Theorem name_chromosomes_chunks prefix fused1 h items :
  Forall (fun it => fst it = h) items -> Forall (has_orig fused1) items ->
  let cs := chunks (map (oi_of fused1) items) in
  let sorted := sort_by_Z_desc (group_length fused1 [h]) (map (G h) cs) in
  name_chromosomes prefix fused1 items = Ok (fold_left apply_rop (all_ops prefix sorted) fused1)
  /\ Permutation (slots sorted) (map (slot_of fused1) items).
Proof.
  intros Hh Ho cs sorted. split.
  - destruct items as [|it items'].
    + reflexivity.
    + assert (Hne : it :: items' <> []) by discriminate.
      set (items := it :: items') in *. clearbody items.
      unfold name_chromosomes.
      assert (D : dedup str_eqb (map fst items) = [h]).
      { apply dedup_all_same; [destruct items; [congruence | discriminate]|].
        apply Forall_map. exact Hh. }
      rewrite D. change (1 <? zlen [h]) with false.
      destruct (groups_are_chunks fused1 h items Hne Hh Ho) as (st & E & Eg).
      rewrite E. cbn [bind]. rewrite Eg, chunk_groups_not_bad.
      fold cs. fold sorted. rewrite name_groups_as_ops. reflexivity.
  - eapply perm_trans; [apply RemapTail.flat_map_perm, sort_desc_perm|].
    fold (slots (map (G h) cs)). rewrite slots_chunks. unfold cs. rewrite unchunk_chunks, map_map.
    erewrite map_ext_in; [apply Permutation_refl|].
    intros it I. rewrite Forall_forall in Hh. unfold slot_of, oi_of. cbn [fst snd]. rewrite (Hh it I). reflexivity.
Qed.

Print Assumptions name_chromosomes_chunks.
Print Assumptions chunk_origs_nodup.
