(* C02 core clause, part 2: the overhang resolver (discard_loop) preserves
   [GoodU] for every stored result.  The only delicate case is the
   two-premise special case of fix_one, where the dropped terminal row is
   known to be held by a second result with a disjoint bait. *)
From Tola Require Import Py.Base Py.Sort Model.Fragment Model.Scaffold Model.Lookup
  Model.OverlapResult Model.OvrSpec Model.NaturalKey Model.Namer Model.Remap Model.RemapSpec
  Proofs.BaseLemmas Proofs.Lookup Proofs.OverlapResult Proofs.RemapHead Proofs.PipelineInv
  Proofs.CoreKeptGood.
From Coq Require Import Lia ZifyBool.

(* two baits on the same scaffold do not overlap *)
Definition Rdisj (a b : frag) : Prop :=
  f_name a = f_name b -> f_end a < f_start b \/ f_end b < f_start a.

Lemma Rdisj_sym a b : Rdisj a b -> Rdisj b a.
Proof. unfold Rdisj. intros H E. symmetry in E. apply H in E. tauto. Qed.

Lemma FOP_nth {A} (R : A -> A -> Prop) l : ForallOrdPairs R l ->
  forall i j a b, (i < j)%nat -> nth_error l i = Some a -> nth_error l j = Some b -> R a b.
Proof.
  induction 1 as [|x l Hx Hl IH]; intros i j a b Hij Hi Hj.
  - destruct i; discriminate.
  - destruct j as [|j]; [lia|]. cbn [nth_error] in Hj. destruct i as [|i]; cbn [nth_error] in Hi.
    + injection Hi as <-. rewrite Forall_forall in Hx. apply Hx. eapply nth_error_In; exact Hj.
    + eapply IH; [|exact Hi|exact Hj]. lia.
Qed.

Lemma FOP_Rdisj_nth l i j a b : ForallOrdPairs Rdisj l -> i <> j ->
  nth_error l i = Some a -> nth_error l j = Some b -> Rdisj a b.
Proof.
  intros H Hne Hi Hj. destruct (lt_dec i j) as [L|L].
  - eapply FOP_nth; eassumption.
  - apply Rdisj_sym. eapply (FOP_nth Rdisj l H j i); [lia | exact Hj | exact Hi].
Qed.

Lemma NoDup_app_disj {A} (a b : list A) x : NoDup (a ++ b) -> In x a -> In x b -> False.
Proof.
  induction a as [|y a IH]; cbn [app]; intros H Ha Hb; [destruct Ha|].
  inversion H as [|? ? Hn Hnd]; subst. destruct Ha as [-> | Ha].
  - apply Hn. apply in_or_app. right. exact Hb.
  - exact (IH Hnd Ha Hb).
Qed.

Lemma NoDup_app_right {A} (a b : list A) : NoDup (a ++ b) -> NoDup b.
Proof.
  induction a as [|x a IH]; cbn [app]; intros H; [exact H|].
  inversion H; subst. apply IH. assumption.
Qed.

Lemma NoDup_app_left {A} (a b : list A) : NoDup (a ++ b) -> NoDup a.
Proof.
  induction a as [|x a IH]; cbn [app]; intros H; [constructor|].
  inversion H as [|? ? Hn Hnd]; subst. constructor; [|apply IH; exact Hnd].
  intros Hin. apply Hn. apply in_or_app. left. exact Hin.
Qed.

(* a fragment (as an object) sits in one input scaffold only *)
Lemma same_src : forall inp, NoDup (map f_id (in_frags inp)) -> forall n1 s1 n2 s2 f,
  In (n1, s1) inp -> In (n2, s2) inp -> In (RF f) s1 -> In (RF f) s2 -> (n1, s1) = (n2, s2).
Proof.
  induction inp as [|e inp IH]; intros Hnd n1 s1 n2 s2 f H1 H2 F1 F2; [destruct H1|].
  change (in_frags (e :: inp)) with (frags_of (snd e) ++ in_frags inp) in Hnd.
  rewrite map_app in Hnd.
  assert (Hx : forall n s0, In (n, s0) inp -> In (RF f) s0 -> In (RF f) (snd e) -> False).
  { intros n s0 Hin Hf He. apply (NoDup_app_disj _ _ (f_id f) Hnd).
    - apply in_map. apply In_frags_of_iff. exact He.
    - apply in_map. unfold in_frags. apply in_flat_map. exists (n, s0). split; [exact Hin|].
      cbn [snd]. apply In_frags_of_iff. exact Hf. }
  destruct H1 as [E1 | H1], H2 as [E2 | H2].
  - congruence.
  - exfalso. subst e. eapply Hx; [exact H2 | exact F2 | exact F1].
  - exfalso. subst e. eapply Hx; [exact H1 | exact F1 | exact F2].
  - eapply IH; [apply NoDup_app_right in Hnd; exact Hnd | eassumption ..].
Qed.

Lemma src_nodup_g {B} (g : frag -> B) inp name src :
  NoDup (map g (in_frags inp)) -> In (name, src) inp -> NoDup (map g (frags_of src)).
Proof.
  intros Hnd Hsrc. apply in_split in Hsrc. destruct Hsrc as (l1 & l2 & E).
  unfold in_frags in Hnd. rewrite E, flat_map_app in Hnd. cbn [flat_map snd] in Hnd.
  rewrite !map_app in Hnd. apply NoDup_app_right in Hnd. apply NoDup_app_left in Hnd. exact Hnd.
Qed.

Lemma get_ovr_nth_map {B} (g : ovr -> B) st id r :
  get_ovr st id = Ok r -> nth_error (map g st) (Z.to_nat id) = Some (g r).
Proof.
  unfold get_ovr. rewrite nth_error_map.
  destruct (nth_error st (Z.to_nat id)); [|discriminate]. intros H. injection H as ->. reflexivity.
Qed.

Lemma put_ovr_map {B} (g : ovr -> B) st id r r' :
  get_ovr st id = Ok r -> g r' = g r -> map g (put_ovr st id r') = map g st.
Proof.
  intros Hg E. unfold put_ovr. apply map_set_nth_same. rewrite E. apply get_ovr_nth_map. exact Hg.
Qed.

(* ----------------------------------------------------- refined fix_one cases *)
Definition fix_why (err : Z) (st : list ovr) (pl : list premise) (p : premise) : Prop :=
  p_improves st err p = Ok true
  \/ exists q v, (pl = [p; q] \/ pl = [q; p]) /\ p_bait_overlap st p = Ok v /\ v < err.

Definition fix_outcome' (err : Z) (st : list ovr) (pl : list premise) (st' : list ovr)
           (fx : option premise) : Prop :=
  (fx = None /\ st' = st)
  \/ (exists p, fx = Some p /\ In p pl /\ p_apply st p = Ok st' /\ fix_why err st pl p).

Lemma fix_general_cases' err st pl st' fx :
  fix_general err st pl = Ok (st', fx) ->
  (fx = None /\ st' = st)
  \/ (exists p, fx = Some p /\ In p pl /\ p_apply st p = Ok st' /\ p_improves st err p = Ok true).
Proof.
  unfold fix_general. intros H.
  assert (Hno : forall (X : res (list ovr * option premise)), X = Ok (st, None) -> X = Ok (st', fx) ->
     (fx = None /\ st' = st)
     \/ (exists p, fx = Some p /\ In p pl /\ p_apply st p = Ok st' /\ p_improves st err p = Ok true)).
  { intros X -> E. injection E as <- <-. left. auto. }
  destruct pl as [|p1 [|p2 t]]; try (eapply Hno; [reflexivity | exact H]).
  set (pl := p1 :: p2 :: t) in *.
  bind_inv H ds Hds.
  destruct (sort_by_Z fst ds) as [|[d1 bst] [|[d2 nxt] rest]] eqn:Es;
    try (eapply Hno; [reflexivity | exact H]).
  bind_inv H i Hi. destruct i; [|eapply Hno; [reflexivity | exact H]].
  bind_inv H j Hj. destruct j; cbn [negb] in H; [eapply Hno; [reflexivity | exact H]|].
  bind_inv H st1 Hst1. injection H as <- <-. right. exists bst. split; [reflexivity|].
  split; [|split; [exact Hst1 | exact Hi]].
  assert (Hin : In (d1, bst) (sort_by_Z fst ds)) by (rewrite Es; left; reflexivity).
  unfold sort_by_Z in Hin. apply In_stable_sort in Hin.
  destruct (mapM_ok_In _ _ _ Hds _ Hin) as (p0 & Hp0 & Hf). bind_inv Hf d0 Hd0. injection Hf as _ <-. exact Hp0.
Qed.

Lemma fix_one_cases' err st pl st' fx :
  fix_one err st pl = Ok (st', fx) -> fix_outcome' err st pl st' fx.
Proof.
  rewrite fix_one_unfold. intros H.
  assert (Hgen : fix_general err st pl = Ok (st', fx) -> fix_outcome' err st pl st' fx).
  { intros Hg. apply fix_general_cases' in Hg.
    destruct Hg as [Hg | (p & E & Hin & Ha & Hi)]; [left; exact Hg|].
    right. exists p. split; [exact E|]. split; [exact Hin|]. split; [exact Ha|]. left. exact Hi. }
  destruct pl as [|p1 [|p2 [|p3 t]]]; try (apply Hgen; exact H).
  bind_inv H b1 Hb1. destruct (b1 <? err) eqn:E1; [|apply Hgen; exact H].
  bind_inv H b2 Hb2. destruct (b2 <? err) eqn:E2; [|apply Hgen; exact H].
  destruct (b1 <? b2); bind_inv H st1 Hst1; injection H as <- <-; right.
  - exists p1. split; [reflexivity|]. split; [left; reflexivity|]. split; [exact Hst1|].
    right. exists p2, b1. split; [left; reflexivity|]. split; [exact Hb1 | lia].
  - exists p2. split; [reflexivity|]. split; [right; left; reflexivity|]. split; [exact Hst1|].
    right. exists p1, b2. split; [right; reflexivity|]. split; [exact Hb2 | lia].
Qed.

(* ------------------------------------------------ what p_improves promises *)
Lemma improves_overhang err st p r :
  p_improves st err p = Ok true -> get_ovr st (pr_rid p) = Ok r ->
  exists v, match pr_kind p with
            | PStart => overhang_if_start_removed r
            | PEnd => overhang_if_end_removed r
            end = Ok v /\ v > -3 * err.
Proof.
  intros H Hg. unfold p_improves in H. rewrite Hg in H. cbv beta iota delta [bind] in H.
  destruct (zlen (o_rows r) =? 1); [discriminate|].
  bind_inv H d Hd. destruct (d <? 0); [|discriminate].
  bind_inv H o Ho. destruct (o >? -3 * err) eqn:Egt; [|discriminate].
  unfold p_overhang_if_applied in Ho. rewrite Hg in Ho. cbn [bind] in Ho.
  exists o. split; [exact Ho | lia].
Qed.

Lemma overhang_start_nocore err src r f t v :
  0 <= err -> pos_rows src -> GoodU err src r -> o_rows r = RF f :: t ->
  overhang_if_start_removed r = Ok v -> v > -3 * err ->
  nocore err (o_bait r) (o_start r) (o_start r + f_len f - 1).
Proof.
  intros Herr Hp HG Er Hv Hgt.
  unfold overhang_if_start_removed in Hv. rewrite Er in Hv. injection Hv as Hv. cbn [row_len] in Hv.
  assert (Ht : pos_rows t).
  { destruct HG as [[E _] | (pre & post & Hsrc & _)]; [rewrite E in Er; discriminate|].
    rewrite Hsrc, Er in Hp. apply pos_rows_app in Hp. destruct Hp as [_ Hp].
    apply pos_rows_app in Hp. destruct Hp as [Hp _]. inversion Hp; assumption. }
  pose proof (leading_gaps_nonneg t Ht). unfold nocore. lia.
Qed.

Lemma overhang_end_nocore err src r f t v :
  0 <= err -> pos_rows src -> GoodU err src r -> o_rows r = t ++ [RF f] ->
  overhang_if_end_removed r = Ok v -> v > -3 * err ->
  nocore err (o_bait r) (o_end r - f_len f + 1) (o_end r).
Proof.
  intros Herr Hp HG Er Hv Hgt.
  unfold overhang_if_end_removed in Hv. rewrite Er, rev_unit in Hv. injection Hv as Hv.
  cbn [row_len] in Hv.
  assert (Ht : pos_rows (rev t)).
  { destruct HG as [[E _] | (pre & post & Hsrc & _)]; [rewrite E in Er; destruct t; discriminate|].
    rewrite Hsrc, Er in Hp. apply pos_rows_app in Hp. destruct Hp as [_ Hp].
    apply pos_rows_app in Hp. destruct Hp as [Hp _].
    apply pos_rows_app in Hp. destruct Hp as [Hp _]. apply Forall_rev. exact Hp. }
  pose proof (leading_gaps_nonneg (rev t) Ht). unfold nocore. lia.
Qed.

Section Resolver.
  Variable inp : list (str * list row).
  Variable err : Z.
  Variable all : list frag.
  Hypothesis Hids : NoDup (map f_id (in_frags inp)).
  Hypothesis Hidpos : Forall (fun f => 0 <= f_id f) (in_frags inp).
  Hypothesis Hposr : forall name src, In (name, src) inp -> pos_rows src.
  Hypothesis Herr : 1 <= err.
  Hypothesis Hall : Forall (fun b => 1 <= f_start b <= f_end b) all.

  (* a stored result: its bait is a bait of the map, and it is good w.r.t.
     the input scaffold its bait names *)
  Definition RGd (r : ovr) : Prop :=
    In (o_bait r) all /\ exists src, In (f_name (o_bait r), src) inp /\ GoodU err src r.
  Definition SG (st : list ovr) : Prop := forall r, In r st -> RGd r.

  Lemma bait_valid b : In b all -> 1 <= f_start b <= f_end b.
  Proof. intros H. rewrite Forall_forall in Hall. apply Hall. exact H. Qed.

  Lemma src_nodup name src : In (name, src) inp -> NoDup (map f_id (frags_of src)).
  Proof. intros H. apply (src_nodup_g f_id inp name src Hids H). Qed.

  (* --- the two-premise special case: the row is shared with another result *)
  Lemma shared_row r r2 f lo a c :
    RGd r -> RGd r2 -> Rdisj (o_bait r) (o_bait r2) ->
    (exists src, In (f_name (o_bait r), src) inp /\ at_pos src f lo) ->
    o_rows r2 = a ++ RF f :: c ->
    (f_end (o_bait r) < f_start (o_bait r2) \/ f_end (o_bait r2) < f_start (o_bait r))
    /\ lo <= f_end (o_bait r2) /\ f_start (o_bait r2) <= lo + f_len f - 1.
  Proof.
    intros (Ha & _) (Ha2 & src2 & Hsrc2 & HG2) Hd (src & Hsrc & P1) Er2.
    destruct (good_row err src2 r2 a f c HG2 Er2) as [P2 [N1 N2]].
    pose proof (same_src inp Hids _ _ _ _ f Hsrc Hsrc2 (at_pos_In _ _ _ P1) (at_pos_In _ _ _ P2)) as E.
    injection E as En Es. subst src2.
    pose proof (at_pos_unique src f _ _ (src_nodup _ _ Hsrc) P1 P2) as Ep.
    specialize (Hd En). split; [exact Hd|]. lia.
  Qed.

  Lemma special_start r r2 f t v :
    RGd r -> RGd r2 -> Rdisj (o_bait r) (o_bait r2) ->
    o_rows r = RF f :: t -> In (RF f) (o_rows r2) ->
    start_row_bait_overlap r = Ok v -> v < err ->
    nocore err (o_bait r) (o_start r) (o_start r + f_len f - 1).
  Proof.
    intros HR HR2 Hd Er Hin Hov Hlt.
    pose proof HR as (Ha & src & Hsrc & HG).
    pose proof (bait_valid _ Ha) as Hb.
    destruct (Z_le_gt_dec (o_start r) (f_start (o_bait r))) as [Hle|Hgt].
    { eapply start_overlap_nocore; try eassumption; lia. }
    destruct (good_first err src r f t HG Er) as [P1 [M1 M2]].
    apply in_split in Hin. destruct Hin as (a & c & Er2).
    destruct (shared_row r r2 f (o_start r) a c HR HR2 Hd) as (D & N1 & N2); [|exact Er2|].
    { exists src. split; assumption. }
    pose proof (start_row_bait_overlap_spec r (RF f) v (first_row_cons _ _ _ Er) Hov) as E.
    cbn [row_len] in E. destruct HR2 as (Ha2 & _). pose proof (bait_valid _ Ha2) as Hb2.
    unfold nocore. lia.
  Qed.

  Lemma special_end r r2 f t v :
    RGd r -> RGd r2 -> Rdisj (o_bait r) (o_bait r2) ->
    o_rows r = t ++ [RF f] -> In (RF f) (o_rows r2) ->
    end_row_bait_overlap r = Ok v -> v < err ->
    nocore err (o_bait r) (o_end r - f_len f + 1) (o_end r).
  Proof.
    intros HR HR2 Hd Er Hin Hov Hlt.
    pose proof HR as (Ha & src & Hsrc & HG).
    pose proof (bait_valid _ Ha) as Hb.
    destruct (Z_le_gt_dec (f_end (o_bait r)) (o_end r)) as [Hle|Hgt].
    { eapply end_overlap_nocore; try eassumption; lia. }
    destruct (good_last err src r t f HG Er) as [P1 [M1 M2]].
    apply in_split in Hin. destruct Hin as (a & c & Er2).
    destruct (shared_row r r2 f (o_end r - f_len f + 1) a c HR HR2 Hd) as (D & N1 & N2); [|exact Er2|].
    { exists src. split; assumption. }
    pose proof (end_row_bait_overlap_spec r (RF f) v (last_row_snoc _ _ _ Er) Hov) as E.
    cbn [row_len] in E. destruct HR2 as (Ha2 & _). pose proof (bait_valid _ Ha2) as Hb2.
    unfold nocore. lia.
  Qed.

  (* ----------------------------------------------------------- one fix *)
  Definition PLok (st : list ovr) (pl : list premise) : Prop :=
    Forall (pvalid st) pl /\ NoDup (map pr_rid pl)
    /\ (forall p q, In p pl -> In q pl -> pr_frag p = pr_frag q).

  Lemma pvalid_has_row st q :
    pvalid st q -> exists r2, get_ovr st (pr_rid q) = Ok r2 /\ In (RF (pr_frag q)) (o_rows r2).
  Proof.
    intros (_ & r2 & Hg & Hk). exists r2. split; [exact Hg|].
    destruct (pr_kind q); destruct Hk as (t & ->).
    - left. reflexivity.
    - apply in_or_app. right. left. reflexivity.
  Qed.

  Lemma two_rids_differ (pl : list premise) p q :
    NoDup (map pr_rid pl) -> (pl = [p; q] \/ pl = [q; p]) -> pr_rid p <> pr_rid q.
  Proof.
    intros Hnd [-> | ->]; cbn [map] in Hnd; inversion Hnd as [|? ? Hn _]; subst;
      intros E; apply Hn; left; congruence.
  Qed.

  Lemma p_apply_good st pl p st' :
    SG st -> ForallOrdPairs Rdisj (map o_bait st) -> PLok st pl -> In p pl ->
    fix_why err st pl p -> p_apply st p = Ok st' ->
    SG st' /\ map o_bait st' = map o_bait st.
  Proof.
    intros HS HF (Hv & Hnd & Hsame) Hin Hwhy Happ.
    rewrite Forall_forall in Hv. pose proof (Hv p Hin) as (H0 & r & Hg & Hk).
    unfold p_apply in Happ. rewrite Hg in Happ. cbn [bind] in Happ.
    bind_inv Happ r' Hr'. injection Happ as <-.
    pose proof (HS r (get_ovr_In _ _ _ Hg)) as HR.
    pose proof HR as (Ha & src & Hsrc & HG).
    pose proof (Hposr _ _ Hsrc) as Hp.
    assert (G : GoodU err src r' /\ o_bait r' = o_bait r).
    { destruct (pr_kind p) eqn:Ek.
      - destruct Hk as (t & Er).
        eapply discard_start_good; [exact HG | exact Er | | exact Hr'].
        destruct Hwhy as [Hi | (q & v & Hpl & Hov & Hlt)].
        + destruct (improves_overhang _ _ _ _ Hi Hg) as (v & Hv1 & Hv2). rewrite Ek in Hv1.
          eapply overhang_start_nocore; try eassumption. lia.
        + assert (Hq : In q pl) by (destruct Hpl as [-> | ->]; cbn [In]; tauto).
          destruct (pvalid_has_row _ _ (Hv q Hq)) as (r2 & Hg2 & Hrow).
          pose proof (Hv q Hq) as (Q0 & _).
          rewrite <- (Hsame p q Hin Hq) in Hrow.
          unfold p_bait_overlap in Hov. rewrite Hg, Ek in Hov. cbn [bind] in Hov.
          eapply (special_start r r2); try eassumption.
          * apply HS. eapply get_ovr_In. exact Hg2.
          * eapply (FOP_Rdisj_nth _ (Z.to_nat (pr_rid p)) (Z.to_nat (pr_rid q))); [exact HF | | |].
            -- pose proof (two_rids_differ pl p q Hnd Hpl). lia.
            -- apply get_ovr_nth_map. exact Hg.
            -- apply get_ovr_nth_map. exact Hg2.
      - destruct Hk as (t & Er).
        eapply discard_end_good; [exact HG | exact Er | | exact Hr'].
        destruct Hwhy as [Hi | (q & v & Hpl & Hov & Hlt)].
        + destruct (improves_overhang _ _ _ _ Hi Hg) as (v & Hv1 & Hv2). rewrite Ek in Hv1.
          eapply overhang_end_nocore; try eassumption. lia.
        + assert (Hq : In q pl) by (destruct Hpl as [-> | ->]; cbn [In]; tauto).
          destruct (pvalid_has_row _ _ (Hv q Hq)) as (r2 & Hg2 & Hrow).
          pose proof (Hv q Hq) as (Q0 & _).
          rewrite <- (Hsame p q Hin Hq) in Hrow.
          unfold p_bait_overlap in Hov. rewrite Hg, Ek in Hov. cbn [bind] in Hov.
          eapply (special_end r r2); try eassumption.
          * apply HS. eapply get_ovr_In. exact Hg2.
          * eapply (FOP_Rdisj_nth _ (Z.to_nat (pr_rid p)) (Z.to_nat (pr_rid q))); [exact HF | | |].
            -- pose proof (two_rids_differ pl p q Hnd Hpl). lia.
            -- apply get_ovr_nth_map. exact Hg.
            -- apply get_ovr_nth_map. exact Hg2. }
    destruct G as [G B]. split.
    - intros y Hy. apply put_ovr_In in Hy. destruct Hy as [-> | Hy]; [|apply HS; exact Hy].
      split; [rewrite B; exact Ha|]. exists src. rewrite B. split; assumption.
    - eapply put_ovr_map; eassumption.
  Qed.

  Lemma fix_one_good st pl st' fx :
    SG st -> ForallOrdPairs Rdisj (map o_bait st) -> PLok st pl ->
    fix_one err st pl = Ok (st', fx) ->
    SG st' /\ map o_bait st' = map o_bait st.
  Proof.
    intros HS HF Hok H. apply fix_one_cases' in H.
    destruct H as [[_ ->] | (p & _ & Hin & Happ & Hwhy)]; [split; [exact HS | reflexivity]|].
    eapply p_apply_good; eassumption.
  Qed.

  (* ----------------------------------------------------------- make_fixes *)
  Lemma make_fixes_good : forall pls st st' fixes,
    SG st -> ForallOrdPairs Rdisj (map o_bait st) ->
    Forall (PLok st) pls -> ForallOrdPairs keys_apart pls ->
    make_fixes err st pls = Ok (st', fixes) ->
    SG st' /\ map o_bait st' = map o_bait st.
  Proof.
    induction pls as [|pl pls IH]; intros st st' fixes HS HF Hv Hop H; cbn [make_fixes] in H.
    - injection H as <- _. split; [exact HS | reflexivity].
    - bind_inv H r1 Hr1. destruct r1 as [st1 fx]. bind_inv H r2 Hr2. destruct r2 as [st2 fxs].
      injection H as <- _.
      inversion Hv as [|? ? Hvpl Hvpls]; subst. inversion Hop as [|? ? Hap Hop']; subst.
      destruct (fix_one_good _ _ _ _ HS HF Hvpl Hr1) as [HS1 HB1].
      assert (HF1 : ForallOrdPairs Rdisj (map o_bait st1)) by (rewrite HB1; exact HF).
      assert (Hv1 : Forall (PLok st1) pls).
      { apply fix_one_cases in Hr1. destruct Hr1 as [(_ & ->) | (p & _ & Hpin & Happ)]; [exact Hvpls|].
        destruct Hvpl as (Hvp & _). rewrite Forall_forall in Hvp. pose proof (Hvp p Hpin) as Hpv.
        rewrite Forall_forall in *. intros pl' Hpl'.
        destruct (Hvpls pl' Hpl') as (Q1 & Q2 & Q3). split; [|split; assumption].
        specialize (Hap pl' Hpl'). rewrite Forall_forall in *. intros q Hq.
        eapply pvalid_pres; [apply Q1; exact Hq | exact Hpv | | exact Happ].
        intros E. apply (Hap p q Hpin Hq). symmetry. exact E. }
      destruct (IH _ _ _ HS1 HF1 Hv1 Hop' Hr2) as [HS2 HB2].
      split; [exact HS2 | congruence].
  Qed.

  (* --------------------------------------------- static facts about premises *)
  Lemma premise_for_static st f id p :
    premise_for st f id = Ok (Some p) -> pr_rid p = id /\ pr_frag p = f.
  Proof.
    intros H. unfold premise_for in H. bind_inv H r Hr. bind_inv H r0 Hr0.
    destruct (row_is r0 f).
    - injection H as <-. split; reflexivity.
    - bind_inv H rl Hrl. destruct (row_is rl f); [|discriminate].
      injection H as <-. split; reflexivity.
  Qed.

  Lemma premises_of_static st f : forall ids ps,
    premises_of st f ids = Ok ps ->
    Forall (fun p => pr_frag p = f /\ In (pr_rid p) ids) ps
    /\ (NoDup ids -> NoDup (map pr_rid ps)).
  Proof.
    induction ids as [|id ids IH]; intros ps H; cbn [premises_of] in H.
    - injection H as <-. split; [constructor | intros _; constructor].
    - bind_inv H p Hp. bind_inv H ps0 Hps0. injection H as <-.
      destruct (IH _ Hps0) as [G1 G2].
      assert (G1' : Forall (fun p => pr_frag p = f /\ In (pr_rid p) (id :: ids)) ps0).
      { eapply Forall_impl; [|exact G1]. cbn beta. intros q (Q1 & Q2). split; [exact Q1 | right; exact Q2]. }
      destruct p as [p|].
      + destruct (premise_for_static _ _ _ _ Hp) as [E1 E2]. split.
        * constructor; [split; [exact E2 | left; symmetry; exact E1] | exact G1'].
        * intros Hnd. inversion Hnd as [|? ? Hn Hnd']; subst. cbn [map]. constructor; [|apply G2; exact Hnd'].
          intros Hin. apply in_map_iff in Hin. destruct Hin as (q & Eq & Hq).
          rewrite Forall_forall in G1. destruct (G1 q Hq) as (_ & Hqi). apply Hn. congruence.
      + split; [exact G1'|]. intros Hnd. inversion Hnd; subst. apply G2. assumption.
  Qed.

  (* every id list of the found table is duplicate-free *)
  Definition NDI (found : list (fkey * (frag * list rid))) : Prop :=
    Forall (fun e => NoDup (snd (snd e))) found.

  Lemma round_static b : NDI (b_found b) -> forall ks pls,
    round_premises b ks = Ok pls ->
    Forall (fun pl => NoDup (map pr_rid pl)
                      /\ (forall p q, In p pl -> In q pl -> pr_frag p = pr_frag q)) pls.
  Proof.
    intros Hnd ks pls H. apply Forall_forall. intros pl Hpl.
    unfold round_premises in H. destruct (mapM_ok_In _ _ _ H _ Hpl) as (k & _ & Hk).
    destruct (aget key_eqb (b_found b) k) as [[f ids]|] eqn:Eg; [|discriminate].
    apply (aget_In key_eqb key_eqb_eq) in Eg. unfold NDI in Hnd. rewrite Forall_forall in Hnd.
    pose proof (Hnd _ Eg) as Hn. cbn [snd] in Hn.
    destruct (premises_of_static _ _ _ _ Hk) as [G1 G2]. split; [apply G2; exact Hn|].
    rewrite Forall_forall in G1. intros p q Hp Hq.
    destruct (G1 p Hp) as [-> _]. destruct (G1 q Hq) as [-> _]. reflexivity.
  Qed.

  (* ---------------------------------------------------------- bookkeeping *)
  Lemma Forall_aset {K V} (keqb : K -> K -> bool) (P : K * V -> Prop) (d : list (K * V)) k v :
    Forall P d -> (forall k', P (k', v)) -> Forall P (aset keqb d k v).
  Proof.
    intros Hd Hv. induction d as [|[k' v'] d IH]; cbn [aset].
    - constructor; [apply Hv | constructor].
    - inversion Hd as [|? ? H1 H2]; subst. destruct (keqb k k').
      + constructor; [apply Hv | exact H2].
      + constructor; [exact H1 | apply IH; exact H2].
  Qed.

  Lemma NoDup_remove_first x : forall l, NoDup l -> NoDup (remove_first Z.eqb x l).
  Proof.
    induction l as [|y l IH]; intros H; cbn [remove_first]; [constructor|].
    inversion H as [|? ? Hn Hnd]; subst. destruct (x =? y); [exact Hnd|].
    constructor; [|apply IH; exact Hnd]. intros Hin. apply Hn. eapply remove_first_incl. exact Hin.
  Qed.

  Lemma NDI_bookkeeping : forall fixes found multi found' multi',
    NDI found -> foldM apply_fix_bookkeeping fixes (found, multi) = Ok (found', multi') ->
    NDI found'.
  Proof.
    induction fixes as [|p fixes IH]; intros found multi found' multi' Hn H; cbn [foldM] in H.
    - injection H as <- _. exact Hn.
    - bind_inv H acc Hacc. destruct acc as [found1 multi1].
      eapply IH; [|exact H]. unfold apply_fix_bookkeeping in Hacc.
      destruct (existsb (key_eqb (key_of (pr_frag p))) multi); [|injection Hacc as <- _; exact Hn].
      destruct (aget key_eqb found (key_of (pr_frag p))) as [[f0 ids]|] eqn:Eg; [|discriminate].
      destruct (existsb (Z.eqb (pr_rid p)) ids); [|discriminate].
      injection Hacc as <- _. apply Forall_aset; [exact Hn|]. intros k'. cbn [snd].
      apply NoDup_remove_first. apply (aget_In key_eqb key_eqb_eq) in Eg.
      unfold NDI in Hn. rewrite Forall_forall in Hn. apply (Hn _ Eg).
  Qed.

  (* ---------------------------------------------------------- discard_loop *)
  Lemma discard_loop_good : forall fuel b b',
    RemapHead.Inv inp b -> SG (b_store b) -> ForallOrdPairs Rdisj (map o_bait (b_store b)) ->
    NDI (b_found b) ->
    discard_loop fuel err b = Ok b' ->
    RemapHead.Inv inp b' /\ SG (b_store b') /\ map o_bait (b_store b') = map o_bait (b_store b).
  Proof.
    induction fuel as [|fuel IH]; intros b b' HI HS HFp Hndi H; cbn [discard_loop] in H; [discriminate|].
    destruct (b_multi b) as [|k0 m0] eqn:Em.
    { injection H as <-. split; [exact HI|]. split; [exact HS | reflexivity]. }
    rewrite <- Em in H. fold (round_premises b (b_multi b)) in H.
    bind_inv H pls Hpls. bind_inv H r Hr. destruct r as [st fixes].
    pose proof HI as (I1 & (A1 & A2) & HF & I4).
    pose proof HF as (F1 & F2 & F3 & F4).
    destruct (round_premises_ok inp Hids b HI _ _ F2 (incl_refl _) Hpls) as (G1 & G2 & _).
    pose proof (round_static b Hndi _ _ Hpls) as G3.
    set (pls' := filter (fun pl => match pl with [] => false | _ => true end) pls) in *.
    assert (G1' : Forall (Forall (pgood b)) pls').
    { apply Forall_forall. intros pl Hpl. apply filter_In in Hpl. rewrite Forall_forall in G1. apply G1. tauto. }
    assert (G2' : ForallOrdPairs keys_apart pls') by (apply FOP_filter; exact G2).
    assert (Hv : Forall (Forall (fun p => pvalid (b_store b) p /\ In (pr_rid p) (b_added b))) pls').
    { eapply Forall_impl; [|exact G1']. intros pl Hpl. eapply Forall_impl; [|exact Hpl].
      intros p (P1 & P2 & _). split; assumption. }
    assert (Hok : Forall (PLok (b_store b)) pls').
    { apply Forall_forall. intros pl Hpl. pose proof Hpl as Hpl0. apply filter_In in Hpl. destruct Hpl as [Hpl _].
      rewrite Forall_forall in G1', G3. destruct (G3 pl Hpl) as [S1 S2].
      split; [|split; assumption]. eapply Forall_impl; [|apply (G1' pl Hpl0)].
      intros p (P1 & _). exact P1. }
    destruct (make_fixes_ok inp err _ A1 (AddedOk_pos _ _ (conj A1 A2)) _ _ _ _ I1 Hv G2' Hr)
      as (M1 & M2 & M3 & M4 & M5).
    destruct (make_fixes_good _ _ _ _ HS HFp Hok G2' Hr) as [HS' HB'].
    assert (A2' : Forall (fun a => 0 <= a < zlen st) (b_added b)).
    { unfold zlen. rewrite M2. exact A2. }
    destruct fixes as [|p0 fx0] eqn:Efx.
    - injection H as <-. cbn [with_store b_store]. split; [|split; assumption].
      unfold RemapHead.Inv. cbn [with_store b_store b_added b_found b_multi].
      split; [exact M1|]. split; [split; assumption|]. split; [exact HF|].
      intros n x. rewrite <- I4, (M3 n x). cbn [map zsum]. lia.
    - rewrite <- Efx in *. clear Efx.
      bind_inv H fm Hfm. destruct fm as [found' multi'].
      assert (Hb : Forall (fix_booked (b_found b) (b_multi b)) fixes).
      { apply Forall_forall. intros p Hp. destruct (M4 p Hp) as (pl & Hpl & Hin).
        rewrite Forall_forall in G1'. specialize (G1' pl Hpl). rewrite Forall_forall in G1'.
        apply (G1' p Hin). }
      destruct (bookkeeping_ok inp _ _ _ _ _ _ HF M5 Hb Hfm) as (B1 & B2).
      pose proof (NDI_bookkeeping _ _ _ _ _ Hndi Hfm) as Hndi'.
      destruct (IH (mkB st (b_added b) found' multi' (b_namer b) (b_cuts b)) b') as (R1 & R2 & R3).
      + unfold RemapHead.Inv. cbn [b_store b_added b_found b_multi].
        split; [exact M1|]. split; [split; assumption|]. split; [exact B1|].
        intros n x. pose proof (I4 n x). pose proof (M3 n x). pose proof (B2 n x). lia.
      + exact HS'.
      + cbn [b_store]. rewrite HB'. exact HFp.
      + exact Hndi'.
      + exact H.
      + cbn [b_store] in R3. split; [exact R1|]. split; [exact R2 | congruence].
  Qed.
End Resolver.
