(* str(int) / int(str) round trip for the model in Py/Dec.v *)
From Tola Require Import Py.Base Py.Dec.
From Coq Require Import Decimal DecimalZ DecimalPos Lia.

(* ------------------------------------------------------------ characters *)
Lemma is_digit_facts c :
  is_digit c = true ->
  is_space c = false /\ Ascii.eqb c "_"%char = false /\
  Ascii.eqb c "-"%char = false /\ Ascii.eqb c "+"%char = false /\
  Ascii.eqb c "I"%char = false.
Proof.
  destruct c as [[] [] [] [] [] [] [] []]; vm_compute; intro H;
    try discriminate H; repeat split.
Qed.

Lemma is_digit_not_space c : is_digit c = true -> is_space c = false.
Proof. intro H; apply is_digit_facts in H; tauto. Qed.

(* ------------------------------------------------ chars_of_uint and back *)
Lemma chars_of_uint_digits u : forallb is_digit (chars_of_uint u) = true.
Proof.
  induction u; cbn [chars_of_uint forallb]; try reflexivity; rewrite IHu; reflexivity.
Qed.

Lemma uint_of_chars u : uint_of_digits (chars_of_uint u) = Some u.
Proof.
  induction u; cbn [chars_of_uint uint_of_digits]; try reflexivity; rewrite IHu; reflexivity.
Qed.

Lemma chars_of_uint_nil u : chars_of_uint u = [] -> u = Nil.
Proof. destruct u; cbn; intro H; try discriminate H; reflexivity. Qed.

Lemma chars_of_uint_inj u v : chars_of_uint u = chars_of_uint v -> u = v.
Proof.
  intro H. assert (E : uint_of_digits (chars_of_uint u) = uint_of_digits (chars_of_uint v))
    by (rewrite H; reflexivity).
  rewrite !uint_of_chars in E. congruence.
Qed.

Lemma Z_of_digits_chars u : u <> Nil -> Z_of_digits (chars_of_uint u) = Some (Z.of_uint u).
Proof.
  intro Hn. unfold Z_of_digits.
  destruct (chars_of_uint u) eqn:E.
  - apply chars_of_uint_nil in E. contradiction.
  - rewrite <- E, uint_of_chars. reflexivity.
Qed.

(* ----------------------------------------------------------- digit runs *)
Lemma strip_underscores_digits_true d :
  forallb is_digit d = true -> strip_underscores true d = Some d.
Proof.
  induction d as [|c d IH]; cbn [forallb strip_underscores]; intro H; [reflexivity|].
  apply andb_true_iff in H as [Hc Hd].
  destruct (is_digit_facts c Hc) as (_ & -> & _).
  rewrite Hc, (IH Hd). reflexivity.
Qed.

Lemma strip_underscores_digits d :
  d <> [] -> forallb is_digit d = true -> strip_underscores false d = Some d.
Proof.
  destruct d as [|c d]; [congruence|]. intros _ H.
  cbn [forallb] in H. apply andb_true_iff in H as [Hc Hd].
  cbn [strip_underscores].
  destruct (is_digit_facts c Hc) as (_ & -> & _).
  rewrite Hc, (strip_underscores_digits_true d Hd). reflexivity.
Qed.

Lemma lstrip_space_nonspace c t : is_space c = false -> lstrip_space (c :: t) = c :: t.
Proof. intro H. cbn. rewrite H. reflexivity. Qed.

(* a string whose first and last characters are not whitespace is its own strip *)
Lemma rstrip_space_last x d :
  x <> [] -> is_space (last x d) = false -> rstrip_space x = x.
Proof.
  intros Hx Hl. unfold rstrip_space.
  rewrite (app_removelast_last d Hx) at 1.
  rewrite rev_app_distr. cbn [List.rev List.app].
  rewrite lstrip_space_nonspace by exact Hl.
  cbn [List.rev]. rewrite rev_involutive. symmetry. apply app_removelast_last. exact Hx.
Qed.

Lemma strip_space_id c t d :
  is_space c = false -> is_space (last (c :: t) d) = false -> strip_space (c :: t) = c :: t.
Proof.
  intros Hc Hl. unfold strip_space. rewrite lstrip_space_nonspace by exact Hc.
  apply rstrip_space_last with (d := d); [discriminate | exact Hl].
Qed.

Lemma last_forallb {A} (p : A -> bool) l d :
  l <> [] -> forallb p l = true -> p (last l d) = true.
Proof.
  induction l as [|x l IH]; [congruence|]. intros _ H.
  cbn [forallb] in H. apply andb_true_iff in H as [Hx Hl].
  destruct l as [|y l]; [exact Hx|].
  change (p (last (y :: l) d) = true). apply IH; [discriminate | exact Hl].
Qed.

Lemma last_cons_ne {A} (x : A) l d : l <> [] -> last (x :: l) d = last l d.
Proof. destruct l; [congruence | reflexivity]. Qed.

Lemma strip_space_digits d :
  forallb is_digit d = true -> strip_space d = d.
Proof.
  destruct d as [|c t]; [reflexivity|]. intro H.
  apply strip_space_id with (d := c).
  - cbn [forallb] in H. apply andb_true_iff in H as [Hc _]. apply is_digit_not_space, Hc.
  - apply is_digit_not_space. apply last_forallb; [discriminate | exact H].
Qed.

(* int() of a non-empty run of digits *)
Lemma int_of_str_digits d :
  d <> [] -> forallb is_digit d = true ->
  exists u, uint_of_digits d = Some u /\ int_of_str d = Ok (Z.of_uint u).
Proof.
  intros Hd H.
  assert (Hu : exists u, uint_of_digits d = Some u).
  { clear Hd. induction d as [|c d IH]; [eexists; reflexivity|].
    cbn [forallb] in H. apply andb_true_iff in H as [Hc Hd].
    destruct (IH Hd) as [u Hu]. cbn [uint_of_digits]. rewrite Hu.
    clear - Hc. revert Hc.
    destruct c as [[] [] [] [] [] [] [] []]; vm_compute; intro H;
      try discriminate H; eexists; reflexivity. }
  destruct Hu as [u Hu]. exists u. split; [exact Hu|].
  unfold int_of_str. rewrite (strip_space_digits d H).
  destruct d as [|c t]; [congruence|].
  pose proof H as H'. cbn [forallb] in H'. apply andb_true_iff in H' as [Hc _].
  destruct (is_digit_facts c Hc) as (_ & _ & -> & -> & _).
  rewrite Hc, (strip_underscores_digits (c :: t) Hd H).
  unfold Z_of_digits. rewrite Hu. reflexivity.
Qed.

Lemma int_of_str_digits_ok d :
  d <> [] -> forallb is_digit d = true -> exists z, int_of_str d = Ok z.
Proof.
  intros Hd H. destruct (int_of_str_digits d Hd H) as (u & _ & E). eauto.
Qed.

(* -------------------------------------------------------------- str_of_Z *)
Lemma to_int_nonneg n : 0 <= n -> exists u, Z.to_int n = Decimal.Pos u /\ u <> Nil.
Proof.
  destruct n as [|p|p]; intro H; [| |lia].
  - exists (D0 Nil). split; [reflexivity | discriminate].
  - exists (Pos.to_uint p). split; [reflexivity | apply Unsigned.to_uint_nonnil].
Qed.

Lemma str_of_Z_nonneg n : 0 <= n ->
  exists u, str_of_Z n = chars_of_uint u /\ u <> Nil /\ Z.of_uint u = n.
Proof.
  intro H. destruct (to_int_nonneg n H) as (u & E & Hu).
  exists u. unfold str_of_Z. rewrite E. repeat split; [exact Hu|].
  pose proof (DecimalZ.of_to n) as R. rewrite E in R. exact R.
Qed.

Lemma str_of_Z_digits : forall n, 0 <= n ->
  str_of_Z n <> [] /\ forallb is_digit (str_of_Z n) = true.
Proof.
  intros n H. destruct (str_of_Z_nonneg n H) as (u & -> & Hu & _). split.
  - intro E. apply chars_of_uint_nil in E. contradiction.
  - apply chars_of_uint_digits.
Qed.

Lemma Z_of_digits_str_of_Z : forall n, 0 <= n -> Z_of_digits (str_of_Z n) = Some n.
Proof.
  intros n H. destruct (str_of_Z_nonneg n H) as (u & -> & Hu & <-).
  apply Z_of_digits_chars, Hu.
Qed.

Lemma int_of_str_of_Z_nonneg n : 0 <= n -> int_of_str (str_of_Z n) = Ok n.
Proof.
  intro H. destruct (str_of_Z_digits n H) as [Hne Hd].
  destruct (int_of_str_digits _ Hne Hd) as (u & Hu & ->).
  pose proof (Z_of_digits_str_of_Z n H) as E. unfold Z_of_digits in E.
  destruct (str_of_Z n); [congruence|]. rewrite Hu in E. congruence.
Qed.

Theorem int_of_str_of_Z : forall z, int_of_str (str_of_Z z) = Ok z.
Proof.
  intro z. destruct (Z_lt_le_dec z 0) as [Hneg|Hpos]; [|apply int_of_str_of_Z_nonneg, Hpos].
  destruct z as [|p|p]; try lia. clear Hneg.
  assert (Hp : 0 <= Z.pos p) by lia.
  destruct (str_of_Z_digits _ Hp) as [Hne Hd].
  pose proof (Z_of_digits_str_of_Z _ Hp) as HZ.
  assert (E : str_of_Z (Z.neg p) = "-"%char :: str_of_Z (Z.pos p)) by reflexivity.
  rewrite E. set (d := str_of_Z (Z.pos p)) in *. clearbody d.
  unfold int_of_str.
  rewrite strip_space_id with (d := "-"%char).
  - change (Ascii.eqb "-" "-") with true. cbv iota beta.
    destruct d as [|c t]; [congruence|].
    pose proof Hd as H'. cbn [forallb] in H'. apply andb_true_iff in H' as [Hc _].
    rewrite Hc, (strip_underscores_digits (c :: t) Hne Hd), HZ. reflexivity.
  - reflexivity.
  - rewrite last_cons_ne by exact Hne. apply is_digit_not_space.
    apply last_forallb; assumption.
Qed.

Lemma str_of_Z_inj : forall a b, str_of_Z a = str_of_Z b -> a = b.
Proof.
  intros a b H. pose proof (int_of_str_of_Z a) as Ha. rewrite H, int_of_str_of_Z in Ha.
  congruence.
Qed.

Print Assumptions str_of_Z_digits.
Print Assumptions int_of_str_of_Z.
Print Assumptions Z_of_digits_str_of_Z.
Print Assumptions str_of_Z_inj.
