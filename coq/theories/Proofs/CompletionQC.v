(* qc_sub_fragments accepts every ascending chain of abutting pieces that
   runs from the start of the original to its end. *)
From Tola Require Import Py.Base Py.Sort Model.Fragment Model.Remap Proofs.BaseLemmas.
From Coq Require Import Lia ZifyBool.

(* an ascending chain of non-empty abutting pieces, all named nm, running from [from] to [last] *)
Fixpoint chain (nm : str) (from : Z) (l : list frag) (last : Z) : Prop :=
  match l with
  | [] => False
  | [x] => f_name x = nm /\ f_start x = from /\ from <= f_end x /\ f_end x = last
  | x :: t => f_name x = nm /\ f_start x = from /\ from <= f_end x /\ chain nm (f_end x + 1) t last
  end.

(* ------------------------------------------------------------ the chain *)
Lemma chain_one nm from x last :
  chain nm from [x] last <-> f_name x = nm /\ f_start x = from /\ from <= f_end x /\ f_end x = last.
Proof. reflexivity. Qed.

Lemma chain_more nm from x y t last :
  chain nm from (x :: y :: t) last <->
  f_name x = nm /\ f_start x = from /\ from <= f_end x /\ chain nm (f_end x + 1) (y :: t) last.
Proof. reflexivity. Qed.

Lemma chain_head nm from y t last :
  chain nm from (y :: t) last -> f_name y = nm /\ f_start y = from /\ from <= f_end y.
Proof.
  intros C. destruct t as [|z t].
  - apply chain_one in C. destruct C as (C1 & C2 & C3 & _). auto.
  - apply chain_more in C. destruct C as (C1 & C2 & C3 & _). auto.
Qed.

(* ------------------------------------------------------------- the sort *)
Definition qle (a b : frag) : bool :=
  (f_start a <? f_start b) || ((f_start a =? f_start b) && (f_end a <=? f_end b)).

Lemma chain_sorted nm : forall l from last,
  chain nm from l last -> stable_sort qle l = l.
Proof.
  induction l as [|x t IH]; intros from last C; [reflexivity|].
  destruct t as [|y t].
  - reflexivity.
  - apply chain_more in C. destruct C as (C1 & C2 & C3 & C4).
    change (stable_sort qle (x :: y :: t)) with (insert_front qle x (stable_sort qle (y :: t))).
    rewrite (IH _ _ C4).
    apply chain_head in C4. destruct C4 as (D1 & D2 & D3).
    cbn [insert_front].
    replace (qle x y) with true by (unfold qle; lia).
    reflexivity.
Qed.

(* ------------------------------------------------------------ the pairs *)
Definition abut_p (p : frag * frag) : bool := let '(a, b) := p in abuts a b.
Definition over_p (p : frag * frag) : bool := let '(a, b) := p in overlaps a b.
Definition gap_p (p : frag * frag) : bool :=
  let '(a, b) := p in match gap_between a b with Some g => negb (g =? 0) | None => false end.

Lemma link_abuts A B : f_name A = f_name B -> f_end A + 1 = f_start B -> abuts A B = true.
Proof. intros HN HAB. unfold abuts. rewrite HN, str_eqb_refl. cbn [negb]. lia. Qed.

Lemma link_overlaps A B :
  f_name A = f_name B -> f_start A <= f_end A -> f_end A + 1 = f_start B -> f_start B <= f_end B ->
  overlaps A B = false.
Proof. intros HN HA HAB HB. unfold overlaps. rewrite HN, str_eqb_refl. cbn [negb]. lia. Qed.

Lemma link_gap A B :
  f_name A = f_name B -> f_start A <= f_end A -> f_end A + 1 = f_start B -> f_start B <= f_end B ->
  gap_between A B = Some 0.
Proof.
  intros HN HA HAB HB. unfold gap_between. rewrite HN, str_eqb_refl. cbn [negb]. cbv zeta.
  replace (Z.min (f_end A) (f_end B) <? Z.max (f_start A) (f_start B)) with true by lia.
  f_equal. lia.
Qed.

Lemma chain_pairs nm : forall l from last,
  chain nm from l last ->
  filter abut_p (combine l (tl l)) = combine l (tl l)
  /\ filter over_p (combine l (tl l)) = []
  /\ filter gap_p (combine l (tl l)) = [].
Proof.
  induction l as [|x t IH]; intros from last C; [destruct C|].
  destruct t as [|y t].
  - cbn [tl combine filter]. auto.
  - apply chain_more in C. destruct C as (C1 & C2 & C3 & C4).
    destruct (IH _ _ C4) as (I1 & I2 & I3).
    apply chain_head in C4. destruct C4 as (D1 & D2 & D3).
    assert (HN : f_name x = f_name y) by congruence.
    assert (HA : f_start x <= f_end x) by lia.
    assert (HAB : f_end x + 1 = f_start y) by lia.
    assert (HB : f_start y <= f_end y) by lia.
    change (combine (x :: y :: t) (tl (x :: y :: t)))
      with ((x, y) :: combine (y :: t) (tl (y :: t))).
    cbn [filter]. unfold abut_p at 1, over_p at 1, gap_p at 1.
    rewrite (link_abuts x y HN HAB), (link_overlaps x y HN HA HAB HB), (link_gap x y HN HA HAB HB).
    change (negb (0 =? 0)) with false. cbv iota.
    rewrite I1. auto.
Qed.

Lemma zlen_pairs {A} (x : A) (t : list A) :
  zlen (combine (x :: t) (tl (x :: t))) = zlen (x :: t) - 1.
Proof.
  cbn [tl]. revert x. induction t as [|y t IH]; intros x.
  - reflexivity.
  - change (combine (x :: y :: t) (y :: t)) with ((x, y) :: combine (y :: t) t).
    unfold zlen in *. cbn [length]. rewrite !Nat2Z.inj_succ. rewrite (IH y).
    cbn [length]. rewrite Nat2Z.inj_succ. lia.
Qed.

(* ------------------------------------------------------------- the total *)
Lemma chain_total nm : forall l from last,
  chain nm from l last -> sumZ (map f_len l) = last - from + 1.
Proof.
  induction l as [|x t IH]; intros from last C; [destruct C|].
  destruct t as [|y t].
  - apply chain_one in C. destruct C as (C1 & C2 & C3 & C4).
    cbn [map]. rewrite sumZ_cons, sumZ_nil. unfold f_len. lia.
  - apply chain_more in C. destruct C as (C1 & C2 & C3 & C4).
    change (map f_len (x :: y :: t)) with (f_len x :: map f_len (y :: t)).
    rewrite sumZ_cons, (IH _ _ C4). unfold f_len. lia.
Qed.

(* ------------------------------------------------------------ the check *)
Theorem qc_chain orig subs :
  chain (f_name orig) (f_start orig) subs (f_end orig) -> qc_sub_fragments orig subs = Ok tt.
Proof.
  intros C. unfold qc_sub_fragments.
  change (fun a b : frag => (f_start a <? f_start b) || (f_start a =? f_start b) && (f_end a <=? f_end b))
    with qle.
  change (fun '(a, b) => abuts a b) with abut_p.
  change (fun '(a, b) => overlaps a b) with over_p.
  change (fun '(a, b) => match gap_between a b with Some g => negb (g =? 0) | None => false end)
    with gap_p.
  rewrite (chain_sorted _ _ _ _ C).
  destruct (chain_pairs _ _ _ _ C) as (P1 & P2 & P3).
  rewrite P1, P2, P3.
  rewrite (chain_total _ _ _ _ C).
  destruct subs as [|x t]; [destruct C|].
  rewrite zlen_pairs.
  replace (f_len orig =? f_end orig - f_start orig + 1) with true by (unfold f_len; lia).
  cbn [negb].
  change (zlen (@nil (frag * frag))) with 0.
  change (0 =? 0) with true. cbn [negb].
  rewrite Z.eqb_refl. reflexivity.
Qed.

Print Assumptions qc_chain.
