(* C01, first half of the pipeline: whenever remap_to_input completes, the
   fragments held by the overlap results partition the input contigs that were
   found ([Post]), and the left-over scaffolds hold exactly the input contigs
   that were not found.  No axioms; [qc_partition_ok] (the tiling test of
   cut_fragments, proved separately) is an explicit premise of [remap_head].

   The invariant is a weighted coverage equation maintained from the first
   lookup on:   coverage(results) = sum over found entries (k, (f, ids)) of
   |ids| * [k covers (n, x)],   together with: every row is an input row (same
   object), ids lists are sub-lists of b_added, |ids| >= 1, and
   k in b_multi <-> |ids| >= 2. *)
From Tola Require Import Py.Base Py.Sort Model.Fragment Model.Scaffold Model.Lookup
  Model.OverlapResult Model.Namer Model.Remap Model.RemapSpec
  Proofs.BaseLemmas Proofs.Lookup Proofs.OverlapResult.
From Coq Require Import Lia ZifyBool Permutation.

(* C01, first half of the pipeline: remap_to_input establishes [Post].
   Part 1: generic list / association-list / sum lemmas, the store,
   number_input, sub-lists of rows. *)

(* ------------------------------------------------------------ res monad *)
Lemma bind_ok {A B} (r : res A) (f : A -> res B) b :
  bind r f = Ok b -> exists a, r = Ok a /\ f a = Ok b.
Proof. destruct r as [a|e]; cbn [bind]; [eauto | discriminate]. Qed.

Ltac bind_inv H x Hx :=
  let H' := fresh H in
  apply bind_ok in H; destruct H as (x & Hx & H).

Lemma mapM_ok_In {A B} (f : A -> res B) : forall l l',
  mapM f l = Ok l' -> forall y, In y l' -> exists x, In x l /\ f x = Ok y.
Proof.
  induction l as [|x l IH]; intros l' H y Hy; cbn [mapM] in H.
  - injection H as <-. destruct Hy.
  - bind_inv H y0 Hy0. bind_inv H ys Hys. injection H as <-.
    destruct Hy as [<- | Hy].
    + exists x. split; [left; reflexivity | exact Hy0].
    + destruct (IH _ Hys _ Hy) as (x' & Hin & Hf). exists x'. split; [right; exact Hin | exact Hf].
Qed.

Lemma mapM_ok_length {A B} (f : A -> res B) : forall l l',
  mapM f l = Ok l' -> length l' = length l.
Proof.
  induction l as [|x l IH]; intros l' H; cbn [mapM] in H.
  - injection H as <-. reflexivity.
  - bind_inv H y0 Hy0. bind_inv H ys Hys. injection H as <-.
    cbn [length]. f_equal. apply IH. exact Hys.
Qed.

(* ----------------------------------------------------------------- sums *)
Fixpoint zsum {A} (g : A -> Z) (l : list A) : Z :=
  match l with [] => 0 | x :: t => g x + zsum g t end.

Lemma zsum_app {A} (g : A -> Z) a b : zsum g (a ++ b) = zsum g a + zsum g b.
Proof. induction a as [|x a IH]; cbn [app zsum]; lia. Qed.

Lemma zsum_ext {A} (g h : A -> Z) l :
  (forall x, In x l -> g x = h x) -> zsum g l = zsum h l.
Proof.
  induction l as [|x l IH]; intros H; cbn [zsum]; [reflexivity|].
  rewrite (H x) by (left; reflexivity). rewrite IH; [reflexivity|].
  intros y Hy. apply H. right; exact Hy.
Qed.

Lemma zsum_map {A B} (g : B -> Z) (h : A -> B) l : zsum g (map h l) = zsum (fun x => g (h x)) l.
Proof. induction l as [|x l IH]; cbn [map zsum]; lia. Qed.

Lemma zsum_perm {A} (g : A -> Z) l l' : Permutation l l' -> zsum g l = zsum g l'.
Proof. induction 1; cbn [zsum]; lia. Qed.

Lemma zsum_flat_map {A B} (g : B -> Z) (h : A -> list B) l :
  zsum g (flat_map h l) = zsum (fun x => zsum g (h x)) l.
Proof. induction l as [|x l IH]; cbn [flat_map zsum]; [reflexivity|]. rewrite zsum_app. lia. Qed.

Lemma zsum_filter {A} (g : A -> Z) (p : A -> bool) l :
  zsum g (filter p l) = zsum (fun x => if p x then g x else 0) l.
Proof.
  induction l as [|x l IH]; cbn [filter zsum]; [reflexivity|].
  destruct (p x); cbn [zsum]; lia.
Qed.

Lemma zsum_const_len {A} (l : list A) : zsum (fun _ => 1) l = Z.of_nat (length l).
Proof. induction l as [|x l IH]; cbn [zsum length]; lia. Qed.

(* ------------------------------------------------------------- coverage *)
Definition ck (k : fkey) (n : str) (x : Z) : bool :=
  let '(nm, st, en) := k in str_eqb nm n && (st <=? x) && (x <=? en).
Definition cvz (k : fkey) (n : str) (x : Z) : Z := if ck k n x then 1 else 0.
Definition cvf (n : str) (x : Z) (f : frag) : Z := cvz (key_of f) n x.

Lemma covers_ck f n x : covers f n x = ck (key_of f) n x.
Proof. reflexivity. Qed.

Lemma coverage_zsum l n x : Z.of_nat (coverage l n x) = zsum (cvf n x) l.
Proof.
  unfold coverage, cvf, cvz. induction l as [|f l IH]; cbn [filter zsum length]; [reflexivity|].
  rewrite covers_ck. destruct (ck (key_of f) n x); cbn [length]; lia.
Qed.

Lemma cvz_range k n x : 0 <= cvz k n x <= 1.
Proof. unfold cvz. destruct (ck k n x); lia. Qed.

(* -------------------------------------------------------------- key_eqb *)
Lemma key_eqb_eq a b : key_eqb a b = true <-> a = b.
Proof.
  destruct a as [[n1 s1] e1], b as [[n2 s2] e2]. unfold key_eqb. split.
  - destruct (s1 =? s2) eqn:E1; [|discriminate].
    destruct (e1 =? e2) eqn:E2; [|discriminate].
    intros H. apply str_eqb_eq in H. f_equal; [f_equal|]; [exact H | lia | lia].
  - intros H. injection H as -> -> ->. rewrite !Z.eqb_refl. apply str_eqb_refl.
Qed.

Lemma key_eqb_refl a : key_eqb a a = true.
Proof. apply key_eqb_eq. reflexivity. Qed.

Lemma key_eqb_neq a b : key_eqb a b = false <-> a <> b.
Proof.
  split.
  - intros H E. apply key_eqb_eq in E. congruence.
  - intros H. destruct (key_eqb a b) eqn:E; [apply key_eqb_eq in E; contradiction | reflexivity].
Qed.

Lemma existsb_key k l : existsb (key_eqb k) l = true <-> In k l.
Proof.
  rewrite existsb_exists. split.
  - intros (y & Hy & E). apply key_eqb_eq in E. subst. exact Hy.
  - intros H. exists k. split; [exact H | apply key_eqb_refl].
Qed.

Lemma existsb_key_false k l : existsb (key_eqb k) l = false <-> ~ In k l.
Proof.
  split.
  - intros H Hin. apply existsb_key in Hin. congruence.
  - intros H. destruct (existsb (key_eqb k) l) eqn:E; [apply existsb_key in E; contradiction | reflexivity].
Qed.

(* --------------------------------------------------- association lists *)
Section AssocLemmas.
  Context {K V : Type} (keqb : K -> K -> bool).
  Hypothesis keqb_eq : forall a b, keqb a b = true <-> a = b.

  Lemma keqb_refl a : keqb a a = true.
  Proof. apply keqb_eq. reflexivity. Qed.

  Lemma aget_None (d : list (K * V)) k : aget keqb d k = None <-> ~ In k (map fst d).
  Proof.
    induction d as [|[k' v] d IH]; cbn [aget map fst In].
    - split; [intros _ [] | reflexivity].
    - destruct (keqb k k') eqn:E.
      + apply keqb_eq in E. subst. split; [discriminate | intros H; exfalso; apply H; left; reflexivity].
      + rewrite IH. split.
        * intros H [H1 | H1]; [subst; rewrite keqb_refl in E; discriminate | contradiction].
        * intros H H1. apply H. right. exact H1.
  Qed.

  Lemma aget_split (d : list (K * V)) k v :
    aget keqb d k = Some v ->
    exists l1 l2, d = l1 ++ (k, v) :: l2 /\ ~ In k (map fst l1)
                  /\ forall v', aset keqb d k v' = l1 ++ (k, v') :: l2.
  Proof.
    induction d as [|[k' v0] d IH]; cbn [aget]; [discriminate|].
    destruct (keqb k k') eqn:E.
    - intros H. injection H as ->. apply keqb_eq in E. subst k'.
      exists [], d. split; [reflexivity|]. split; [intros []|].
      intros v'. cbn [aset]. rewrite keqb_refl. reflexivity.
    - intros H. destruct (IH H) as (l1 & l2 & -> & Hn & Hs).
      exists ((k', v0) :: l1), l2. split; [reflexivity|]. split.
      + cbn [map fst In]. intros [H1 | H1]; [subst; rewrite keqb_refl in E; discriminate | contradiction].
      + intros v'. cbn [aset]. rewrite E, Hs. reflexivity.
  Qed.

  Lemma aget_In (d : list (K * V)) k v : aget keqb d k = Some v -> In (k, v) d.
  Proof.
    intros H. destruct (aget_split _ _ _ H) as (l1 & l2 & -> & _).
    apply in_or_app. right. left. reflexivity.
  Qed.

  Lemma In_aget (d : list (K * V)) k v : NoDup (map fst d) -> In (k, v) d -> aget keqb d k = Some v.
  Proof.
    induction d as [|[k' v0] d IH]; cbn [map fst aget]; intros Hnd Hin; [destruct Hin|].
    inversion Hnd as [|? ? Hn Hnd']; subst. destruct Hin as [E | Hin].
    - injection E as -> ->. rewrite keqb_refl. reflexivity.
    - destruct (keqb k k') eqn:E.
      + apply keqb_eq in E. subst. exfalso. apply Hn. apply in_map_iff. exists (k', v). auto.
      + apply IH; assumption.
  Qed.

  Lemma aget_app_None (d : list (K * V)) k e : aget keqb d k = None ->
    aget keqb (d ++ [e]) k = (if keqb k (fst e) then Some (snd e) else None).
  Proof.
    induction d as [|[k' v0] d IH]; cbn [aget app].
    - intros _. destruct e as [k' v']. cbn [fst snd]. reflexivity.
    - destruct (keqb k k'); [discriminate | exact IH].
  Qed.

  Lemma aget_app_Some (d : list (K * V)) k e v : aget keqb d k = Some v ->
    aget keqb (d ++ [e]) k = Some v.
  Proof.
    induction d as [|[k' v0] d IH]; cbn [aget app]; [discriminate|].
    destruct (keqb k k'); [auto | exact IH].
  Qed.

  Lemma aget_aset_other (d : list (K * V)) k k2 v : k2 <> k ->
    aget keqb (aset keqb d k v) k2 = aget keqb d k2.
  Proof.
    intros Hne. induction d as [|[k' v0] d IH]; cbn [aset aget].
    - destruct (keqb k2 k) eqn:E; [apply keqb_eq in E; contradiction | reflexivity].
    - destruct (keqb k k') eqn:E; cbn [aget].
      + apply keqb_eq in E. subst k'.
        destruct (keqb k2 k) eqn:E2; [apply keqb_eq in E2; contradiction | reflexivity].
      + rewrite IH. reflexivity.
  Qed.
End AssocLemmas.

(* ---------------------------------------------------------------- lists *)
Lemma set_nth_length {A} (l : list A) n x : length (set_nth l n x) = length l.
Proof. revert n; induction l as [|y l IH]; intros [|n]; cbn [set_nth length]; auto. Qed.

Lemma set_nth_same {A} (l : list A) n x : (n < length l)%nat -> nth_error (set_nth l n x) n = Some x.
Proof.
  revert n; induction l as [|y l IH]; intros [|n] H; cbn [set_nth nth_error length] in *; try lia.
  - reflexivity.
  - apply IH. lia.
Qed.

Lemma set_nth_other {A} (l : list A) n m x : n <> m -> nth_error (set_nth l n x) m = nth_error l m.
Proof.
  revert n m; induction l as [|y l IH]; intros [|n] [|m] H; cbn [set_nth nth_error]; try reflexivity.
  - contradiction.
  - apply IH. congruence.
Qed.

Lemma set_nth_In {A} (l : list A) n x y : In y (set_nth l n x) -> y = x \/ In y l.
Proof.
  revert n; induction l as [|z l IH]; intros [|n]; cbn [set_nth In]; try tauto.
  - intros [H | H]; auto.
  - intros [H | H]; auto. destruct (IH _ H); auto.
Qed.

Lemma In_stable_sort {A} (le : A -> A -> bool) l x : In x (stable_sort le l) <-> In x l.
Proof.
  assert (Hi : forall y l0, In x (insert_front le y l0) <-> x = y \/ In x l0).
  { intros y l0. induction l0 as [|z l0 IH]; cbn [insert_front].
    - cbn [In]. intuition.
    - destruct (le y z); cbn [In]; [intuition|]. rewrite IH. cbn [In]. intuition. }
  induction l as [|y l IH]; cbn [stable_sort]; [reflexivity|].
  rewrite Hi, IH. cbn [In]. intuition.
Qed.

Lemma stable_sort_length {A} (le : A -> A -> bool) l : length (stable_sort le l) = length l.
Proof.
  assert (Hi : forall y l0, length (insert_front le y l0) = S (length l0)).
  { intros y l0. induction l0 as [|z l0 IH]; cbn [insert_front]; [reflexivity|].
    destruct (le y z); cbn [length]; [reflexivity | rewrite IH; reflexivity]. }
  induction l as [|y l IH]; cbn [stable_sort]; [reflexivity|].
  rewrite Hi, IH. reflexivity.
Qed.

Lemma In_combine_l' {A B} (l : list A) (l' : list B) x y : In (x, y) (combine l l') -> In x l.
Proof. apply in_combine_l. Qed.

Lemma In_py_slice {A} (l : list A) i j x : In x (py_slice l i j) -> In x l.
Proof.
  unfold py_slice. intros H.
  rewrite <- (firstn_skipn (Z.to_nat i) l). apply in_or_app. right.
  rewrite <- (firstn_skipn (Z.to_nat (j - i)) (skipn (Z.to_nat i) l)). apply in_or_app. left. exact H.
Qed.

Lemma remove_first_length l x : existsb (Z.eqb x) l = true ->
  S (length (remove_first Z.eqb x l)) = length l.
Proof.
  induction l as [|y l IH]; cbn [existsb remove_first length]; [discriminate|].
  destruct (x =? y) eqn:E; cbn [orb]; [reflexivity|].
  intros H. cbn [length]. f_equal. apply IH. exact H.
Qed.

Lemma remove_first_incl l x y : In y (remove_first Z.eqb x l) -> In y l.
Proof.
  induction l as [|z l IH]; cbn [remove_first]; [tauto|].
  destruct (x =? z); cbn [In]; [tauto|]. intros [H | H]; auto.
Qed.

Lemma exists_last' {A} (l : list A) : l = [] \/ exists l' x, l = l' ++ [x].
Proof.
  destruct l as [|a l]; [left; reflexivity | right].
  destruct (exists_last (l := a :: l)) as (l' & x & E); [discriminate|]. eauto.
Qed.

Lemma NoDup_map_filter {A B} (g : A -> B) p l : NoDup (map g l) -> NoDup (map g (filter p l)).
Proof.
  induction l as [|x l IH]; cbn [map filter]; intros H; [constructor|].
  inversion H as [|? ? Hn Hnd]; subst. destruct (p x); [|auto].
  cbn [map]. constructor; [|auto].
  intros Hin. apply Hn. apply in_map_iff in Hin. destruct Hin as (y & E & Hy).
  apply filter_In in Hy. apply in_map_iff. exists y. tauto.
Qed.

Lemma NoDup_map_inj {A B} (g : A -> B) l x y :
  NoDup (map g l) -> In x l -> In y l -> g x = g y -> x = y.
Proof.
  induction l as [|z l IH]; cbn [map]; intros Hnd Hx Hy E; [destruct Hx|].
  inversion Hnd as [|? ? Hn Hnd']; subst.
  destruct Hx as [<- | Hx], Hy as [<- | Hy]; auto.
  - exfalso. apply Hn. rewrite E. apply in_map. exact Hy.
  - exfalso. apply Hn. rewrite <- E. apply in_map. exact Hx.
Qed.

(* ---------------------------------------------------------------- rows *)
Lemma In_frags_of_iff g rows : In g (frags_of rows) <-> In (RF g) rows.
Proof.
  unfold frags_of. rewrite in_flat_map. split.
  - intros ([f|gp] & Hin & H); cbn [In] in H; [|destruct H].
    destruct H as [<- | []]. exact Hin.
  - intros H. exists (RF g). split; [exact H | left; reflexivity].
Qed.

Lemma frags_of_gaps gaps : all_gaps gaps -> frags_of gaps = [].
Proof.
  induction 1 as [|x l Hx _ IH]; [reflexivity|].
  destruct x as [f|g]; [discriminate|]. exact IH.
Qed.

Lemma frags_of_RG g l : frags_of (RG g :: l) = frags_of l.
Proof. reflexivity. Qed.

Lemma not_gap_in f gaps : all_gaps gaps -> ~ In (RF f) gaps.
Proof.
  intros H Hin. unfold all_gaps in H. rewrite Forall_forall in H. apply H in Hin. discriminate.
Qed.

Lemma pop_front_split t : forall pos rows' p,
  pop_gaps_front t pos = (rows', p) -> exists gaps, t = gaps ++ rows' /\ all_gaps gaps.
Proof.
  induction t as [|x t IH]; intros pos rows' p H; cbn [pop_gaps_front] in H.
  - injection H as <- <-. exists []. split; [reflexivity | constructor].
  - destruct x as [f|g].
    + injection H as <- <-. exists []. split; [reflexivity | constructor].
    + destruct (IH _ _ _ H) as (gaps & -> & Hg). exists (RG g :: gaps).
      split; [reflexivity | constructor; [reflexivity | exact Hg]].
Qed.

Lemma pop_back_split t : forall pos rows' p,
  pop_gaps_back_rev t pos = (rows', p) -> exists gaps, t = gaps ++ rows' /\ all_gaps gaps.
Proof.
  induction t as [|x t IH]; intros pos rows' p H; cbn [pop_gaps_back_rev] in H.
  - injection H as <- <-. exists []. split; [reflexivity | constructor].
  - destruct x as [f|g].
    + injection H as <- <-. exists []. split; [reflexivity | constructor].
    + destruct (IH _ _ _ H) as (gaps & -> & Hg). exists (RG g :: gaps).
      split; [reflexivity | constructor; [reflexivity | exact Hg]].
Qed.

(* discard_start removes the first row and the gaps after it *)
Lemma discard_start_rows r r' : discard_start r = Ok r' ->
  exists d gaps, o_rows r = d :: gaps ++ o_rows r' /\ all_gaps gaps.
Proof.
  unfold discard_start. destruct (o_rows r) as [|d t]; [discriminate|].
  destruct (pop_gaps_front t (o_start r + row_len d)) as [rows' st] eqn:E.
  intros H. injection H as <-. cbn [set_span_rows o_rows].
  destruct (pop_front_split _ _ _ _ E) as (gaps & -> & Hg). exists d, gaps. auto.
Qed.

(* discard_end removes the last row and the gaps before it *)
Lemma discard_end_rows r r' : discard_end r = Ok r' ->
  exists d gaps, o_rows r = o_rows r' ++ gaps ++ [d] /\ all_gaps gaps.
Proof.
  unfold discard_end. destruct (rev (o_rows r)) as [|d t] eqn:Er; [discriminate|].
  destruct (pop_gaps_back_rev t (o_end r - row_len d)) as [rr en] eqn:E.
  intros H. injection H as <-. cbn [set_span_rows o_rows].
  destruct (pop_back_split _ _ _ _ E) as (gaps & -> & Hg). exists d, (rev gaps). split.
  - rewrite <- (rev_involutive (o_rows r)), Er. cbn [rev]. rewrite rev_app_distr, <- app_assoc. reflexivity.
  - apply Forall_rev. exact Hg.
Qed.

Lemma discard_start_incl r r' x : discard_start r = Ok r' -> In x (o_rows r') -> In x (o_rows r).
Proof.
  intros H Hin. destruct (discard_start_rows _ _ H) as (d & gaps & -> & _).
  right. apply in_or_app. right. exact Hin.
Qed.

Lemma discard_end_incl r r' x : discard_end r = Ok r' -> In x (o_rows r') -> In x (o_rows r).
Proof.
  intros H Hin. destruct (discard_end_rows _ _ H) as (d & gaps & -> & _).
  apply in_or_app. left. exact Hin.
Qed.

Lemma trim_large_incl r e r' x : trim_large_overhangs r e = Ok r' -> In x (o_rows r') -> In x (o_rows r).
Proof.
  intros H Hin. apply trim_large_cases in H as (r1 & [-> | H1] & [-> | H2]).
  - exact Hin.
  - eapply discard_end_incl; eassumption.
  - eapply discard_start_incl; eassumption.
  - eapply discard_start_incl; [eassumption|]. eapply discard_end_incl; eassumption.
Qed.

Lemma find_overlaps_rows rows bs be fo x :
  find_overlaps rows bs be = Ok (Some fo) -> In x (fo_rows fo) -> In x rows.
Proof.
  unfold find_overlaps. intros H Hin.
  destruct rows as [|r0 t]; [discriminate|].
  rewrite find_overlaps_unfold in H by discriminate. cbv zeta in H.
  bind_inv H ov0 Hov0. destruct ov0 as [m|]; [|discriminate].
  bind_inv H i1 Hi1. bind_inv H j1 Hj1.
  destruct (negb (i1 <=? j1)); [discriminate|].
  injection H as <-. cbn [fo_rows] in Hin. eapply In_py_slice. exact Hin.
Qed.

(* ---------------------------------------------------------------- store *)
Lemma get_ovr_In st id r : get_ovr st id = Ok r -> In r st.
Proof.
  unfold get_ovr. destruct (nth_error st (Z.to_nat id)) eqn:E; [|discriminate].
  intros H. injection H as <-. eapply nth_error_In. exact E.
Qed.

Lemma get_ovr_lt st id r : 0 <= id -> get_ovr st id = Ok r -> id < zlen st.
Proof.
  unfold get_ovr, zlen. intros H0. destruct (nth_error st (Z.to_nat id)) eqn:E; [|discriminate].
  intros _. assert (Z.to_nat id < length st)%nat by (apply nth_error_Some; congruence). lia.
Qed.

Lemma get_ovr_ok st id : 0 <= id < zlen st -> exists r, get_ovr st id = Ok r.
Proof.
  unfold get_ovr, zlen. intros H. destruct (nth_error st (Z.to_nat id)) eqn:E; [eauto|].
  apply nth_error_None in E. lia.
Qed.

Lemma put_ovr_length st id r : length (put_ovr st id r) = length st.
Proof. apply set_nth_length. Qed.

Lemma zlen_put st id r : zlen (put_ovr st id r) = zlen st.
Proof. unfold zlen. rewrite put_ovr_length. reflexivity. Qed.

Lemma get_put_same st id r r' : get_ovr st id = Ok r -> get_ovr (put_ovr st id r') id = Ok r'.
Proof.
  unfold get_ovr, put_ovr. destruct (nth_error st (Z.to_nat id)) eqn:E; [|discriminate].
  intros _. rewrite set_nth_same; [reflexivity|]. apply nth_error_Some. congruence.
Qed.

Lemma get_put_other st id id2 r' : 0 <= id -> 0 <= id2 -> id <> id2 ->
  get_ovr (put_ovr st id r') id2 = get_ovr st id2.
Proof.
  intros H1 H2 Hne. unfold get_ovr, put_ovr. rewrite set_nth_other by lia. reflexivity.
Qed.

Lemma put_ovr_In st id r x : In x (put_ovr st id r) -> x = r \/ In x st.
Proof. apply set_nth_In. Qed.

Lemma get_ovr_app st r id : 0 <= id < zlen st -> get_ovr (st ++ [r]) id = get_ovr st id.
Proof.
  unfold get_ovr, zlen. intros H. rewrite nth_error_app1 by lia. reflexivity.
Qed.

Lemma get_ovr_app_new st r : get_ovr (st ++ [r]) (zlen st) = Ok r.
Proof.
  unfold get_ovr, zlen. rewrite Nat2Z.id. rewrite nth_error_app2 by lia.
  rewrite Nat.sub_diag. reflexivity.
Qed.

(* rows held by result [id]; [] when there is no such result *)
Definition rows_at (st : list ovr) (id : rid) : list row :=
  match get_ovr st id with Ok r => o_rows r | Err _ => [] end.

Lemma rows_at_map st st' id : map o_rows st = map o_rows st' -> rows_at st id = rows_at st' id.
Proof.
  intros H. unfold rows_at, get_ovr.
  assert (E : nth_error (map o_rows st) (Z.to_nat id) = nth_error (map o_rows st') (Z.to_nat id))
    by (rewrite H; reflexivity).
  rewrite !nth_error_map in E.
  destruct (nth_error st (Z.to_nat id)), (nth_error st' (Z.to_nat id)); cbn [option_map] in E;
    try discriminate; [injection E as ->|]; reflexivity.
Qed.

Lemma result_frags_alt b :
  result_frags b = flat_map (fun id => frags_of (rows_at (b_store b) id)) (b_added b).
Proof.
  unfold result_frags, rows_at. apply flat_map_ext. intros id.
  destruct (get_ovr (b_store b) id); reflexivity.
Qed.

(* Z-valued coverage of the results listed in [added] *)
Definition covR (n : str) (x : Z) (rows : list row) : Z := zsum (cvf n x) (frags_of rows).
Definition CovS (st : list ovr) (added : list rid) (n : str) (x : Z) : Z :=
  zsum (fun id => covR n x (rows_at st id)) added.

Lemma coverage_CovS b n x :
  Z.of_nat (coverage (result_frags b) n x) = CovS (b_store b) (b_added b) n x.
Proof.
  rewrite coverage_zsum, result_frags_alt, zsum_flat_map. reflexivity.
Qed.

Lemma covR_app n x a b : covR n x (a ++ b) = covR n x a + covR n x b.
Proof. unfold covR. rewrite frags_of_app, zsum_app. reflexivity. Qed.

Lemma covR_gaps n x gaps : all_gaps gaps -> covR n x gaps = 0.
Proof. intros H. unfold covR. rewrite frags_of_gaps by exact H. reflexivity. Qed.

Lemma covR_RF n x f l : covR n x (RF f :: l) = cvf n x f + covR n x l.
Proof. reflexivity. Qed.

Lemma covR_single n x f : covR n x [RF f] = cvf n x f.
Proof. unfold covR. cbn [frags_of flat_map app zsum]. lia. Qed.

Lemma CovS_map st st' added n x : map o_rows st = map o_rows st' -> CovS st added n x = CovS st' added n x.
Proof.
  intros H. unfold CovS. apply zsum_ext. intros id _. rewrite (rows_at_map _ _ _ H). reflexivity.
Qed.

(* changing one result that is listed exactly once *)
Lemma CovS_put_notin st id r' added n x :
  0 <= id -> Forall (fun a => 0 <= a) added -> ~ In id added ->
  CovS (put_ovr st id r') added n x = CovS st added n x.
Proof.
  intros H0 Hpos Hn. unfold CovS. apply zsum_ext. intros a Ha.
  unfold rows_at. rewrite get_put_other; [reflexivity | exact H0 | | intros E; subst; contradiction].
  rewrite Forall_forall in Hpos. apply Hpos. exact Ha.
Qed.

Lemma CovS_put st id r r' added n x :
  NoDup added -> Forall (fun a => 0 <= a) added -> In id added ->
  get_ovr st id = Ok r ->
  CovS (put_ovr st id r') added n x + covR n x (o_rows r)
  = CovS st added n x + covR n x (o_rows r').
Proof.
  intros Hnd Hpos Hin Hget. induction added as [|a added IH]; [destruct Hin|].
  inversion Hnd as [|? ? Hn Hnd']; subst. inversion Hpos as [|? ? Ha Hpos']; subst.
  destruct Hin as [-> | Hin].
  - unfold CovS. cbn [zsum]. fold (CovS (put_ovr st id r') added n x). fold (CovS st added n x).
    rewrite CovS_put_notin by assumption.
    unfold rows_at at 1 2. rewrite (get_put_same _ _ _ _ Hget), Hget. lia.
  - assert (Hne : id <> a) by (intros ->; contradiction).
    assert (H0 : 0 <= id) by (rewrite Forall_forall in Hpos'; apply Hpos'; exact Hin).
    unfold CovS. cbn [zsum]. fold (CovS (put_ovr st id r') added n x). fold (CovS st added n x).
    specialize (IH Hnd' Hpos' Hin).
    unfold rows_at at 1 2. rewrite get_put_other by assumption. lia.
Qed.

(* --------------------------------------------------------- number_input *)
Lemma number_rows_spec rows : forall n rows' n',
  number_rows rows n = (rows', n') ->
  n <= n'
  /\ map key_of (frags_of rows') = map key_of (frags_of rows)
  /\ Forall (fun f => n <= f_id f < n') (frags_of rows')
  /\ NoDup (map f_id (frags_of rows')).
Proof.
  induction rows as [|r rows IH]; intros n rows' n' H; cbn [number_rows] in H.
  - injection H as <- <-. repeat split; [lia | constructor | constructor].
  - destruct r as [f|g]; destruct (number_rows rows (n + 1)) as [t' n1] eqn:E;
      injection H as <- <-; destruct (IH _ _ _ E) as (H1 & H2 & H3 & H4).
    + rewrite !frags_of_RF. cbn [map f_id]. repeat split.
      * lia.
      * cbn [key_of f_name f_start f_end]. unfold key_of at 2. f_equal. exact H2.
      * constructor; [cbn [f_id]; lia|]. eapply Forall_impl; [|exact H3]. cbn beta. intros; lia.
      * constructor; [|exact H4]. intros Hin. apply in_map_iff in Hin. destruct Hin as (y & E1 & Hy).
        rewrite Forall_forall in H3. apply H3 in Hy. lia.
    + rewrite !frags_of_RG. repeat split; [lia | exact H2 | | exact H4].
      eapply Forall_impl; [|exact H3]. cbn beta. intros; lia.
Qed.

Lemma number_input_spec input : forall n,
  map key_of (in_frags (number_input input n)) = map key_of (in_frags input)
  /\ Forall (fun f => n <= f_id f) (in_frags (number_input input n))
  /\ NoDup (map f_id (in_frags (number_input input n))).
Proof.
  induction input as [|[name rows] input IH]; intros n; cbn [number_input].
  - repeat split; constructor.
  - destruct (number_rows rows n) as [rows' n'] eqn:E.
    destruct (number_rows_spec _ _ _ _ E) as (H1 & H2 & H3 & H4).
    destruct (IH n') as (G2 & G3 & G4).
    unfold in_frags in *. cbn [flat_map snd]. rewrite !map_app. repeat split.
    + rewrite H2, G2. reflexivity.
    + apply Forall_app. split.
      * eapply Forall_impl; [|exact H3]. cbn beta. intros; lia.
      * eapply Forall_impl; [|exact G3]. cbn beta. intros; lia.
    + assert (Hd : forall a, In a (map f_id (frags_of rows')) ->
                            In a (map f_id (flat_map (fun p => frags_of (snd p)) (number_input input n'))) -> False).
      { intros a Ha Hb. apply in_map_iff in Ha. destruct Ha as (y & <- & Hy).
        apply in_map_iff in Hb. destruct Hb as (z & Ez & Hz).
        rewrite Forall_forall in H3, G3. apply H3 in Hy. apply G3 in Hz. lia. }
      clear - H4 G4 Hd. induction (map f_id (frags_of rows')) as [|a l IHl]; [exact G4|].
      cbn [app]. inversion H4; subst. constructor.
      * intros Hin. apply in_app_or in Hin. destruct Hin as [Hin | Hin]; [contradiction|].
        eapply Hd; [left; reflexivity | exact Hin].
      * apply IHl; [assumption|]. intros b Hb. apply Hd. right. exact Hb.
Qed.

(* Part 2: the invariant; one_bait, one_pretext_scaffold, rename_results *)

Lemma foldM_inv {A S} (f : S -> A -> res S) (P : S -> Prop) :
  (forall s a s', P s -> f s a = Ok s' -> P s') ->
  forall l s s', P s -> foldM f l s = Ok s' -> P s'.
Proof.
  intros Hstep. induction l as [|a l IH]; intros s s' Hs H; cbn [foldM] in H.
  - injection H as <-. exact Hs.
  - bind_inv H s1 Hs1. eapply IH; [|exact H]. eapply Hstep; eassumption.
Qed.

Lemma NoDup_snoc {A} (l : list A) x : NoDup l -> ~ In x l -> NoDup (l ++ [x]).
Proof.
  intros Hnd Hn. induction l as [|y l IH]; cbn [app]; [constructor; [intros []|constructor]|].
  inversion Hnd as [|? ? Hy Hnd']; subst. constructor.
  - intros Hin. apply in_app_or in Hin. destruct Hin as [Hin | [-> | []]]; [contradiction|].
    apply Hn. left. reflexivity.
  - apply IH; [exact Hnd'|]. intros Hin. apply Hn. right. exact Hin.
Qed.

Lemma map_set_nth_same {A B} (g : A -> B) : forall (l : list A) n x,
  nth_error (map g l) n = Some (g x) -> map g (set_nth l n x) = map g l.
Proof.
  induction l as [|y l IH]; intros [|n] x H; cbn [map nth_error set_nth] in *; try reflexivity.
  - injection H as H. rewrite H. reflexivity.
  - rewrite IH by exact H. reflexivity.
Qed.

Lemma get_ovr_nth_rows st id r :
  get_ovr st id = Ok r -> nth_error (map o_rows st) (Z.to_nat id) = Some (o_rows r).
Proof.
  unfold get_ovr. rewrite nth_error_map.
  destruct (nth_error st (Z.to_nat id)); [|discriminate]. intros H. injection H as ->. reflexivity.
Qed.

(* rename_results only changes names *)
Lemma rename_results_rows st ids st' :
  rename_results st ids = Ok st' -> map o_rows st' = map o_rows st.
Proof.
  unfold rename_results. intros H. bind_inv H rs Hrs. injection H as <-.
  set (pairs := rename_by_size rs _ _).
  assert (Hp : forall id r n, In ((id, r), n) pairs ->
                 nth_error (map o_rows st) (Z.to_nat id) = Some (o_rows r)).
  { intros id r n Hin. unfold pairs, rename_by_size in Hin. apply in_combine_l in Hin.
    unfold sort_by_Z_desc in Hin. apply In_stable_sort in Hin.
    destruct (mapM_ok_In _ _ _ Hrs _ Hin) as (id0 & _ & Hf).
    bind_inv Hf r0 Hr0. injection Hf as <- <-. apply get_ovr_nth_rows. exact Hr0. }
  clearbody pairs. clear Hrs.
  assert (G : forall cur, map o_rows cur = map o_rows st ->
    map o_rows (fold_left (fun st0 '(id, r, n) => put_ovr st0 id (set_name r n)) pairs cur)
    = map o_rows st).
  { induction pairs as [|[[id r] n] pairs IH]; intros cur Hc; cbn [fold_left]; [exact Hc|].
    apply IH.
    - intros id' r' n' Hin. apply (Hp id' r' n'). right. exact Hin.
    - rewrite <- Hc. unfold put_ovr. apply map_set_nth_same.
      rewrite Hc. cbn [set_name o_rows]. apply (Hp id r n). left. reflexivity. }
  apply G. reflexivity.
Qed.

Section Head.
  Variable inp : list (str * list row).
  Hypothesis Hids : NoDup (map f_id (in_frags inp)).
  Hypothesis Hpos : Forall (fun f => 0 <= f_id f) (in_frags inp).
  Hypothesis Hwf : Forall (fun f => f_start f <= f_end f) (in_frags inp).

  (* every fragment row is an input row *)
  Definition rows_in (rows : list row) : Prop := forall g, In (RF g) rows -> In g (in_frags inp).
  Definition store_in (st : list ovr) : Prop := forall r, In r st -> rows_in (o_rows r).

  Definition wsum (found : list (fkey * (frag * list rid))) (n : str) (x : Z) : Z :=
    zsum (fun e => zlen (snd (snd e)) * cvz (fst e) n x) found.

  Definition entry_ok (added : list rid) (multi : list fkey) (e : fkey * (frag * list rid)) : Prop :=
    key_of (fst (snd e)) = fst e /\ In (fst (snd e)) (in_frags inp)
    /\ incl (snd (snd e)) added /\ (1 <= length (snd (snd e)))%nat
    /\ (In (fst e) multi <-> (2 <= length (snd (snd e)))%nat).

  Definition FInv (added : list rid) found (multi : list fkey) : Prop :=
    NoDup (map fst found) /\ NoDup multi /\ Forall (entry_ok added multi) found
    /\ incl multi (map fst found).

  Definition AddedOk (st : list ovr) (added : list rid) : Prop :=
    NoDup added /\ Forall (fun a => 0 <= a < zlen st) added.

  Definition Inv (b : bstate) : Prop :=
    store_in (b_store b) /\ AddedOk (b_store b) (b_added b)
    /\ FInv (b_added b) (b_found b) (b_multi b)
    /\ forall n x, CovS (b_store b) (b_added b) n x = wsum (b_found b) n x.

  Lemma id_inj f g : In f (in_frags inp) -> In g (in_frags inp) -> f_id f = f_id g -> f = g.
  Proof. intros. eapply (NoDup_map_inj f_id); eassumption. Qed.

  Lemma in_frags_id_pos f : In f (in_frags inp) -> 0 <= f_id f.
  Proof. intros H. rewrite Forall_forall in Hpos. apply Hpos. exact H. Qed.

  Lemma rows_in_input name rows : In (name, rows) inp -> rows_in rows.
  Proof.
    intros Hin g Hg. unfold in_frags. apply in_flat_map. exists (name, rows).
    split; [exact Hin|]. cbn [snd]. apply In_frags_of_iff. exact Hg.
  Qed.

  Lemma rows_in_incl rows rows' : (forall x, In x rows' -> In x rows) -> rows_in rows -> rows_in rows'.
  Proof. intros Hi H g Hg. apply H. apply Hi. exact Hg. Qed.

  Lemma AddedOk_pos st added : AddedOk st added -> Forall (fun a => 0 <= a) added.
  Proof. intros [_ H]. eapply Forall_impl; [|exact H]. cbn beta. intros; lia. Qed.

  Lemma entry_ok_multi added multi multi' e :
    (In (fst e) multi' <-> In (fst e) multi) -> entry_ok added multi e -> entry_ok added multi' e.
  Proof. unfold entry_ok. intros Hm (H1 & H2 & H3 & H4 & H5). rewrite Hm. auto. Qed.

  Lemma entry_ok_incl added added' multi e :
    incl added added' -> entry_ok added multi e -> entry_ok added' multi e.
  Proof.
    unfold entry_ok. intros Hi (H1 & H2 & H3 & H4 & H5). repeat split; auto; try apply H5.
    intros a Ha. apply Hi. apply H3. exact Ha.
  Qed.

  Lemma FInv_incl added added' found multi :
    incl added added' -> FInv added found multi -> FInv added' found multi.
  Proof.
    intros Hi (H1 & H2 & H3 & H4). repeat split; auto.
    eapply Forall_impl; [|exact H3]. intros e. apply entry_ok_incl. exact Hi.
  Qed.

  Lemma wsum_app a b n x : wsum (a ++ b) n x = wsum a n x + wsum b n x.
  Proof. apply zsum_app. Qed.

  Lemma wsum_cons k f ids l n x : wsum ((k, (f, ids)) :: l) n x = zlen ids * cvz k n x + wsum l n x.
  Proof. reflexivity. Qed.

  (* keys of the other entries differ from a key that occurs once *)
  Lemma split_keys_ne (l1 l2 : list (fkey * (frag * list rid))) k v :
    NoDup (map fst (l1 ++ (k, v) :: l2)) ->
    forall e, In e (l1 ++ l2) -> fst e <> k.
  Proof.
    intros Hnd e He E. rewrite map_app in Hnd. cbn [map fst] in Hnd.
    apply NoDup_remove_2 in Hnd. apply Hnd. rewrite <- map_app. rewrite <- E. apply in_map. exact He.
  Qed.

  Lemma store_found_one_ok added id found multi g found' multi' :
    In id added -> In g (in_frags inp) -> FInv added found multi ->
    store_found_one id (found, multi) g = (found', multi') ->
    FInv added found' multi' /\ forall n x, wsum found' n x = wsum found n x + cvf n x g.
  Proof.
    intros Hid Hg (F1 & F2 & F3 & F4) H. unfold store_found_one in H.
    destruct (aget key_eqb found (key_of g)) as [[f0 ids]|] eqn:E.
    - destruct (aget_split key_eqb key_eqb_eq _ _ _ E) as (l1 & l2 & Ef & Hn1 & Hs).
      rewrite Hs in H. injection H as <- <-.
      assert (Hne : forall e, In e (l1 ++ l2) -> fst e <> key_of g).
      { rewrite Ef in F1. eapply split_keys_ne. exact F1. }
      assert (Hmap : map fst (l1 ++ (key_of g, (f0, ids ++ [id])) :: l2) = map fst found).
      { rewrite Ef, !map_app. reflexivity. }
      rewrite Ef in F3. apply Forall_app in F3. destruct F3 as [F3a F3b].
      apply Forall_cons_iff in F3b. destruct F3b as [F3k F3c].
      set (multi' := if existsb (key_eqb (key_of g)) multi then multi else multi ++ [key_of g]).
      assert (Hk : In (key_of g) multi').
      { unfold multi'. destruct (existsb (key_eqb (key_of g)) multi) eqn:Ex.
        - apply existsb_key. exact Ex.
        - apply in_or_app. right. left. reflexivity. }
      assert (Hother : forall k', k' <> key_of g -> (In k' multi' <-> In k' multi)).
      { intros k' Hk'. unfold multi'. destruct (existsb (key_eqb (key_of g)) multi); [reflexivity|].
        rewrite in_app_iff. cbn [In]. intuition congruence. }
      split.
      + unfold FInv. rewrite Hmap. repeat split.
        * exact F1.
        * unfold multi'. destruct (existsb (key_eqb (key_of g)) multi) eqn:Ex; [exact F2|].
          apply NoDup_snoc; [exact F2|]. apply existsb_key_false. exact Ex.
        * apply Forall_app. split; [|constructor].
          -- rewrite Forall_forall in *. intros e He. apply entry_ok_multi with (multi := multi).
             ++ apply Hother. apply Hne. apply in_or_app. left. exact He.
             ++ apply F3a. exact He.
          -- destruct F3k as (K1 & K2 & K3 & K4 & K5). unfold entry_ok. cbn [fst snd] in *.
             repeat split; auto.
             ++ intros a Ha. apply in_app_or in Ha. destruct Ha as [Ha | [<- | []]]; auto.
             ++ rewrite app_length. cbn [length]. lia.
             ++ rewrite app_length. cbn [length]. lia.
          -- rewrite Forall_forall in *. intros e He. apply entry_ok_multi with (multi := multi).
             ++ apply Hother. apply Hne. apply in_or_app. right. exact He.
             ++ apply F3c. exact He.
        * intros k' Hk'. destruct (key_eqb k' (key_of g)) eqn:Ek.
          -- apply key_eqb_eq in Ek. subst k'. rewrite Ef, map_app. apply in_or_app. right. left. reflexivity.
          -- apply key_eqb_neq in Ek. apply F4. apply Hother; assumption.
      + intros n x. rewrite Ef, !wsum_app, !wsum_cons. unfold zlen, cvf. rewrite app_length. cbn [length]. lia.
    - injection H as <- <-. apply (aget_None key_eqb key_eqb_eq) in E. split.
      + unfold FInv. repeat split.
        * rewrite map_app. cbn [map fst]. apply NoDup_snoc; assumption.
        * exact F2.
        * apply Forall_app. split; [exact F3|]. constructor; [|constructor].
          unfold entry_ok. cbn [fst snd length]. repeat split; auto; try lia.
          -- intros a [<- | []]. exact Hid.
          -- intros Hm. exfalso. apply E. apply F4. exact Hm.
        * intros k' Hk'. rewrite map_app. apply in_or_app. left. apply F4. exact Hk'.
      + intros n x. rewrite wsum_app, wsum_cons. unfold wsum, cvf, zlen. cbn [zsum length]. lia.
  Qed.

  Lemma store_found_fold added id : In id added -> forall gs found multi found' multi',
    Forall (fun g => In g (in_frags inp)) gs -> FInv added found multi ->
    fold_left (store_found_one id) gs (found, multi) = (found', multi') ->
    FInv added found' multi' /\ forall n x, wsum found' n x = wsum found n x + zsum (cvf n x) gs.
  Proof.
    intros Hid. induction gs as [|g gs IH]; intros found multi found' multi' Hgs HF H; cbn [fold_left] in H.
    - injection H as <- <-. split; [exact HF|]. intros n x. cbn [zsum]. lia.
    - inversion Hgs as [|? ? Hg Hgs']; subst.
      destruct (store_found_one id (found, multi) g) as [f1 m1] eqn:E1.
      destruct (store_found_one_ok _ _ _ _ _ _ _ Hid Hg HF E1) as (HF1 & Hw1).
      destruct (IH _ _ _ _ Hgs' HF1 H) as (HF2 & Hw2). split; [exact HF2|].
      intros n x. rewrite Hw2, Hw1. cbn [zsum]. lia.
  Qed.

  Lemma CovS_app_old st r added n x :
    Forall (fun a => 0 <= a < zlen st) added -> CovS (st ++ [r]) added n x = CovS st added n x.
  Proof.
    intros H. unfold CovS. apply zsum_ext. intros a Ha. rewrite Forall_forall in H.
    unfold rows_at. rewrite get_ovr_app by (apply H; exact Ha). reflexivity.
  Qed.

  Lemma zlen_app1 {A} (l : list A) x : zlen (l ++ [x]) = zlen l + 1.
  Proof. unfold zlen. rewrite app_length. cbn [length]. lia. Qed.

  Lemma input_rows_in name rows : input_rows inp name = Ok rows -> rows_in rows.
  Proof.
    unfold input_rows. destruct (aget str_eqb inp name) as [rows0|] eqn:E; [|discriminate].
    intros H. injection H as <-. apply (aget_In str_eqb str_eqb_eq) in E.
    eapply rows_in_input. exact E.
  Qed.

  Lemma rows_in_frags rows : rows_in rows -> Forall (fun g => In g (in_frags inp)) (frags_of rows).
  Proof. intros H. apply Forall_forall. intros g Hg. apply H. apply In_frags_of_iff. exact Hg. Qed.

  (* ------------------------------------------------------------ one_bait *)
  Lemma one_bait_inv err sc_tags orig b bait b' :
    Inv b -> one_bait inp err sc_tags orig b bait = Ok b' -> Inv b'.
  Proof.
    intros (I1 & (A1 & A2) & I3 & I4) H. unfold one_bait in H.
    bind_inv H rows Hrows. bind_inv H fo Hfo. destruct fo as [fo|]; [|injection H as <-; exact (conj I1 (conj (conj A1 A2) (conj I3 I4)))].
    bind_inv H nl Hnl. destruct nl as [nm lab]. bind_inv H r1 Hr1.
    assert (Hr1in : rows_in (o_rows r1)).
    { intros g Hg. eapply input_rows_in; [exact Hrows|].
      eapply find_overlaps_rows; [exact Hfo|].
      apply (trim_large_incl _ _ _ _ Hr1) in Hg. exact Hg. }
    assert (Hst : store_in (b_store b ++ [r1])).
    { intros r Hr. apply in_app_or in Hr. destruct Hr as [Hr | [<- | []]]; [apply I1; exact Hr | exact Hr1in]. }
    assert (A2' : Forall (fun a => 0 <= a < zlen (b_store b ++ [r1])) (b_added b)).
    { eapply Forall_impl; [|exact A2]. cbn beta. intros a. rewrite zlen_app1. lia. }
    destruct (o_rows r1) as [|x0 t0] eqn:Er1.
    - injection H as <-. unfold Inv. cbn [b_store b_added b_found b_multi].
      split; [exact Hst|]. split; [split; [exact A1 | exact A2']|]. split; [exact I3|].
      intros n x. rewrite CovS_app_old by exact A2. apply I4.
    - rewrite <- Er1 in H, Hr1in. injection H as <-. unfold store_fragments_found.
      cbn [b_store b_added b_found b_multi b_namer b_cuts].
      destruct (fold_left (store_found_one (zlen (b_store b))) (frags_of (o_rows r1)) (b_found b, b_multi b))
        as [found' multi'] eqn:Ef.
      assert (Hnew : In (zlen (b_store b)) (b_added b ++ [zlen (b_store b)]))
        by (apply in_or_app; right; left; reflexivity).
      assert (HF : FInv (b_added b ++ [zlen (b_store b)]) (b_found b) (b_multi b)).
      { eapply FInv_incl; [|exact I3]. intros a Ha. apply in_or_app. left. exact Ha. }
      destruct (store_found_fold _ _ Hnew _ _ _ _ _ (rows_in_frags _ Hr1in) HF Ef) as (HF' & Hw).
      unfold Inv. cbn [b_store b_added b_found b_multi].
      split; [exact Hst|]. split; [split|]. 3: split; [exact HF'|].
      + apply NoDup_snoc; [exact A1|]. intros Hin. rewrite Forall_forall in A2. apply A2 in Hin. lia.
      + apply Forall_app. split; [exact A2'|]. constructor; [|constructor]. rewrite zlen_app1.
        unfold zlen. lia.
      + intros n x. rewrite Hw. unfold CovS. rewrite zsum_app. cbn [zsum].
        fold (CovS (b_store b ++ [r1]) (b_added b) n x). rewrite CovS_app_old by exact A2.
        unfold rows_at. rewrite get_ovr_app_new. rewrite I4. unfold covR. lia.
  Qed.

  Lemma Inv_namer b nm : Inv b -> Inv (with_namer b nm).
  Proof. intros H. exact H. Qed.

  Lemma Inv_store_map b st' : Inv b -> map o_rows st' = map o_rows (b_store b) -> Inv (with_store b st').
  Proof.
    intros (I1 & (A1 & A2) & I3 & I4) Hm. unfold Inv. cbn [with_store b_store b_added b_found b_multi].
    split; [|split; [split; [exact A1|]|split; [exact I3|]]].
    - intros r Hr. assert (Hi : In (o_rows r) (map o_rows (b_store b))) by (rewrite <- Hm; apply in_map; exact Hr).
      apply in_map_iff in Hi. destruct Hi as (r0 & E & Hr0). rewrite <- E. apply I1. exact Hr0.
    - assert (El : zlen st' = zlen (b_store b)).
      { unfold zlen. f_equal. rewrite <- (map_length o_rows st'), Hm, map_length. reflexivity. }
      rewrite El. exact A2.
    - intros n x. rewrite (CovS_map _ _ _ n x Hm). apply I4.
  Qed.

  Lemma one_pretext_scaffold_inv err b psc b' :
    Inv b -> one_pretext_scaffold inp err b psc = Ok b' -> Inv b'.
  Proof.
    intros HI H. unfold one_pretext_scaffold in H. destruct psc as [pname prows].
    bind_inv H nm Hnm. bind_inv H b1 Hb1. bind_inv H st Hst. injection H as <-.
    apply Inv_store_map; [|eapply rename_results_rows; exact Hst].
    eapply (foldM_inv _ Inv); [|apply (Inv_namer b nm); exact HI | exact Hb1].
    intros s0 a s1 Hs Hf. eapply one_bait_inv; eassumption.
  Qed.

  Lemma Inv_init nm : Inv (mkB [] [] [] [] nm 0).
  Proof.
    unfold Inv, store_in, AddedOk, FInv. cbn [b_store b_added b_found b_multi map].
    repeat split; try constructor; try (intros ? []).
  Qed.

  Lemma pretext_inv err pretext nm b1 :
    foldM (one_pretext_scaffold inp err) pretext (mkB [] [] [] [] nm 0) = Ok b1 -> Inv b1.
  Proof.
    intros H. eapply (foldM_inv _ Inv); [|apply Inv_init | exact H].
    intros s0 a s1 Hs Hf. eapply one_pretext_scaffold_inv; eassumption.
  Qed.
End Head.

(* Part 3: premises, fix_one, make_fixes, bookkeeping, discard_loop *)

Lemma py_nth_0_inv {A} (l : list A) x : py_nth l 0 = Ok x -> exists t, l = x :: t.
Proof.
  destruct l as [|y l]; intros H.
  - rewrite py_nth_nil in H. discriminate.
  - rewrite py_nth_first in H. injection H as <-. eauto.
Qed.

Lemma py_nth_m1_inv {A} (l : list A) x : py_nth l (-1) = Ok x -> exists t, l = t ++ [x].
Proof.
  destruct (exists_last' l) as [-> | (l' & y & ->)]; intros H.
  - rewrite py_nth_nil in H. discriminate.
  - rewrite py_nth_last in H. injection H as <-. eauto.
Qed.

Lemma row_is_true x f : row_is x f = true -> exists g, x = RF g /\ f_id g = f_id f.
Proof. destruct x as [g|g]; cbn [row_is]; [|discriminate]. intros H. exists g. split; [reflexivity | lia]. Qed.

Definition pkey (p : premise) : fkey := key_of (pr_frag p).

(* the premise's fragment is (still) the row at its end of its result *)
Definition pvalid (st : list ovr) (p : premise) : Prop :=
  0 <= pr_rid p /\ exists r, get_ovr st (pr_rid p) = Ok r /\
  match pr_kind p with
  | PStart => exists t, o_rows r = RF (pr_frag p) :: t
  | PEnd => exists t, o_rows r = t ++ [RF (pr_frag p)]
  end.

Lemma p_apply_valid st p st' : pvalid st p -> p_apply st p = Ok st' ->
  exists r r', get_ovr st (pr_rid p) = Ok r /\ st' = put_ovr st (pr_rid p) r'
   /\ (forall x, In x (o_rows r') -> In x (o_rows r))
   /\ (forall n x, covR n x (o_rows r) = covR n x (o_rows r') + cvf n x (pr_frag p)).
Proof.
  intros (H0 & r & Hr & Hk) H. unfold p_apply in H. rewrite Hr in H. cbn [bind] in H.
  bind_inv H r' Hr'. injection H as <-. exists r, r'. split; [exact Hr|]. split; [reflexivity|].
  destruct (pr_kind p).
  - destruct Hk as (t & Et). destruct (discard_start_rows _ _ Hr') as (d & gaps & E & Hg). split.
    + intros x Hx. eapply discard_start_incl; eassumption.
    + intros n x. rewrite E in Et. injection Et as -> _. rewrite E.
      rewrite covR_RF, covR_app, (covR_gaps _ _ _ Hg). lia.
  - destruct Hk as (t & Et). destruct (discard_end_rows _ _ Hr') as (d & gaps & E & Hg). split.
    + intros x Hx. eapply discard_end_incl; eassumption.
    + intros n x. rewrite E in Et. rewrite app_assoc in Et. apply app_inj_tail in Et. destruct Et as [_ ->].
      rewrite E, !covR_app, (covR_gaps _ _ _ Hg), covR_single. lia.
Qed.

Lemma pkey_neq_frag p q : pkey p <> pkey q -> pr_frag p <> pr_frag q.
Proof. unfold pkey. intros H E. apply H. rewrite E. reflexivity. Qed.

Lemma pvalid_pres st p q st' :
  pvalid st p -> pvalid st q -> pkey p <> pkey q -> p_apply st q = Ok st' -> pvalid st' p.
Proof.
  intros (P0 & rp & Hrp & Hkp) (Q0 & rq & Hrq & Hkq) Hne H. apply pkey_neq_frag in Hne.
  unfold p_apply in H. rewrite Hrq in H. cbn [bind] in H. bind_inv H r' Hr'. injection H as <-.
  split; [exact P0|].
  destruct (Z.eq_dec (pr_rid q) (pr_rid p)) as [Eid | Nid].
  2:{ exists rp. split; [|exact Hkp]. rewrite get_put_other by assumption. exact Hrp. }
  rewrite Eid in *. rewrite Hrp in Hrq. injection Hrq as <-.
  exists r'. split; [eapply get_put_same; exact Hrp|].
  destruct (pr_kind p), (pr_kind q).
  - destruct Hkp as (t & Et), Hkq as (t2 & Et2). rewrite Et in Et2. injection Et2 as E _. contradiction.
  - (* p at the start, q discards the end *)
    destruct Hkp as (t & Et), Hkq as (t2 & Et2).
    destruct (discard_end_rows _ _ Hr') as (d & gaps & E & Hg).
    rewrite E in Et2. rewrite app_assoc in Et2. apply app_inj_tail in Et2. destruct Et2 as [_ ->].
    rewrite E in Et. destruct (o_rows r') as [|y rest].
    + exfalso. cbn [app] in Et.
      destruct gaps as [|g0 gaps]; cbn [app] in Et; injection Et as E1 _.
      * congruence.
      * apply (not_gap_in (pr_frag p) (g0 :: gaps) Hg). left. exact E1.
    + cbn [app] in Et. injection Et as -> _. eauto.
  - (* p at the end, q discards the start *)
    destruct Hkp as (t & Et), Hkq as (t2 & Et2).
    destruct (discard_start_rows _ _ Hr') as (d & gaps & E & Hg).
    rewrite E in Et2. injection Et2 as -> _.
    rewrite E in Et. destruct (exists_last' (o_rows r')) as [En | (rest & y & En)]; rewrite En in Et.
    + exfalso. rewrite app_nil_r in Et.
      destruct (exists_last' gaps) as [-> | (gs & g0 & ->)].
      * destruct t as [|t0 t]; cbn [app] in Et; [injection Et as Et; congruence|].
        injection Et as _ Et. destruct t; discriminate.
      * rewrite app_comm_cons in Et. apply app_inj_tail in Et. destruct Et as [_ Et].
        apply (not_gap_in (pr_frag p) (gs ++ [g0]) Hg). apply in_or_app. right. left. exact Et.
    + rewrite app_comm_cons, app_assoc in Et. apply app_inj_tail in Et. destruct Et as [_ ->].
      rewrite En. eauto.
  - destruct Hkp as (t & Et), Hkq as (t2 & Et2). rewrite Et in Et2.
    apply app_inj_tail in Et2. destruct Et2 as [_ E]. injection E as E. contradiction.
Qed.

(* ---------------------------------------------------------------- fix_one *)
Definition fix_general (err : Z) (store : list ovr) (pl : list premise)
  : res (list ovr * option premise) :=
  match pl with
  | _ :: _ :: _ =>
      do ds <- mapM (fun p => do d <- p_delta store p; Ok (d, p)) pl;
      match sort_by_Z fst ds with
      | (_, bst) :: (_, nxt) :: _ =>
          do i <- p_improves store err bst;
          if i then
            do j <- p_improves store err nxt;
            if negb j then do st <- p_apply store bst; Ok (st, Some bst)
            else Ok (store, None)
          else Ok (store, None)
      | _ => Ok (store, None)
      end
  | _ => Ok (store, None)
  end.

Lemma fix_one_unfold err store pl :
  fix_one err store pl =
  match pl with
  | [frst; scnd] =>
      do b1 <- p_bait_overlap store frst;
      if b1 <? err then
        do b2 <- p_bait_overlap store scnd;
        if b2 <? err then
          if b1 <? b2 then do st <- p_apply store frst; Ok (st, Some frst)
          else do st <- p_apply store scnd; Ok (st, Some scnd)
        else fix_general err store pl
      else fix_general err store pl
  | _ => fix_general err store pl
  end.
Proof. destruct pl as [|p1 [|p2 [|p3 t]]]; reflexivity. Qed.

Definition fix_outcome (st : list ovr) (pl : list premise) (st' : list ovr) (fx : option premise) : Prop :=
  (fx = None /\ st' = st) \/ (exists p, fx = Some p /\ In p pl /\ p_apply st p = Ok st').

Lemma fix_general_cases err st pl st' fx :
  fix_general err st pl = Ok (st', fx) -> fix_outcome st pl st' fx.
Proof.
  unfold fix_general. intros H.
  assert (Hno : forall (X : res (list ovr * option premise)), X = Ok (st, None) -> X = Ok (st', fx) ->
                 fix_outcome st pl st' fx).
  { intros X -> E. injection E as <- <-. left. auto. }
  destruct pl as [|p1 [|p2 t]]; try (eapply Hno; [reflexivity | exact H]).
  set (pl := p1 :: p2 :: t) in *.
  bind_inv H ds Hds.
  destruct (sort_by_Z fst ds) as [|[d1 bst] [|[d2 nxt] rest]] eqn:Es;
    try (eapply Hno; [reflexivity | exact H]).
  bind_inv H i Hi. destruct i; [|eapply Hno; [reflexivity | exact H]].
  bind_inv H j Hj. destruct j; cbn [negb] in H; [eapply Hno; [reflexivity | exact H]|].
  bind_inv H st1 Hst1. injection H as <- <-. right. exists bst. split; [reflexivity|]. split; [|exact Hst1].
  assert (Hin : In (d1, bst) (sort_by_Z fst ds)) by (rewrite Es; left; reflexivity).
  unfold sort_by_Z in Hin. apply In_stable_sort in Hin.
  destruct (mapM_ok_In _ _ _ Hds _ Hin) as (p0 & Hp0 & Hf). bind_inv Hf d0 Hd0. injection Hf as _ <-. exact Hp0.
Qed.

Lemma fix_one_cases err st pl st' fx :
  fix_one err st pl = Ok (st', fx) -> fix_outcome st pl st' fx.
Proof.
  rewrite fix_one_unfold. intros H.
  destruct pl as [|p1 [|p2 [|p3 t]]]; try (apply fix_general_cases in H; exact H).
  bind_inv H b1 Hb1. destruct (b1 <? err); [|apply fix_general_cases in H; exact H].
  bind_inv H b2 Hb2. destruct (b2 <? err); [|apply fix_general_cases in H; exact H].
  destruct (b1 <? b2); bind_inv H st1 Hst1; injection H as <- <-; right.
  - exists p1. split; [reflexivity|]. split; [left; reflexivity | exact Hst1].
  - exists p2. split; [reflexivity|]. split; [right; left; reflexivity | exact Hst1].
Qed.

Lemma FOP_filter {A} (R : A -> A -> Prop) p l : ForallOrdPairs R l -> ForallOrdPairs R (filter p l).
Proof.
  induction 1 as [|a l Ha Hl IH]; cbn [filter]; [constructor|].
  destruct (p a); [|exact IH]. constructor; [|exact IH].
  rewrite Forall_forall in *. intros x Hx. apply filter_In in Hx. apply Ha. tauto.
Qed.

Definition keys_apart (pl pl' : list premise) : Prop :=
  forall p p', In p pl -> In p' pl' -> pkey p <> pkey p'.

Section Fixes.
  Variable inp : list (str * list row).
  Hypothesis Hids : NoDup (map f_id (in_frags inp)).
  Hypothesis Hpos : Forall (fun f => 0 <= f_id f) (in_frags inp).

  Lemma premise_for_ok st f id p : store_in inp st -> In f (in_frags inp) -> 0 <= id ->
    premise_for st f id = Ok (Some p) -> pr_frag p = f /\ pr_rid p = id /\ pvalid st p.
  Proof.
    intros Hst Hf H0 H. unfold premise_for in H. bind_inv H r Hr. bind_inv H r0 Hr0.
    assert (Hrin : rows_in inp (o_rows r)) by (apply Hst; eapply get_ovr_In; exact Hr).
    destruct (row_is r0 f) eqn:E0.
    - injection H as <-. cbn [pr_frag pr_rid]. split; [reflexivity|]. split; [reflexivity|].
      split; [exact H0|]. exists r. split; [exact Hr|]. cbn [pr_kind pr_frag].
      apply py_nth_0_inv in Hr0. destruct Hr0 as (t & Et).
      apply row_is_true in E0. destruct E0 as (g & -> & Eg).
      assert (g = f). { apply (id_inj inp Hids); [apply Hrin; rewrite Et; left; reflexivity | exact Hf | exact Eg]. }
      subst g. eauto.
    - bind_inv H rl Hrl. destruct (row_is rl f) eqn:El; [|discriminate].
      injection H as <-. cbn [pr_frag pr_rid]. split; [reflexivity|]. split; [reflexivity|].
      split; [exact H0|]. exists r. split; [exact Hr|]. cbn [pr_kind pr_frag].
      apply py_nth_m1_inv in Hrl. destruct Hrl as (t & Et).
      apply row_is_true in El. destruct El as (g & -> & Eg).
      assert (g = f).
      { apply (id_inj inp Hids); [apply Hrin; rewrite Et; apply in_or_app; right; left; reflexivity | exact Hf | exact Eg]. }
      subst g. eauto.
  Qed.

  Lemma premises_of_ok st f : store_in inp st -> In f (in_frags inp) -> forall ids ps,
    Forall (fun a => 0 <= a) ids -> premises_of st f ids = Ok ps ->
    Forall (fun p => pr_frag p = f /\ In (pr_rid p) ids /\ pvalid st p) ps.
  Proof.
    intros Hst Hf. induction ids as [|id ids IH]; intros ps Hp H; cbn [premises_of] in H.
    - injection H as <-. constructor.
    - inversion Hp as [|? ? Hid Hp']; subst. bind_inv H p Hp1. bind_inv H ps0 Hps0. injection H as <-.
      assert (G : Forall (fun p => pr_frag p = f /\ In (pr_rid p) (id :: ids) /\ pvalid st p) ps0).
      { eapply Forall_impl; [|apply (IH _ Hp' Hps0)]. cbn beta. intros q (Q1 & Q2 & Q3).
        split; [exact Q1|]. split; [right; exact Q2 | exact Q3]. }
      destruct p as [p|]; [|exact G]. constructor; [|exact G].
      destruct (premise_for_ok _ _ _ _ Hst Hf Hid Hp1) as (E1 & E2 & E3).
      split; [exact E1|]. split; [left; symmetry; exact E2 | exact E3].
  Qed.

  (* ------------------------------------------------------------ make_fixes *)
  Lemma make_fixes_ok err added : NoDup added -> Forall (fun a => 0 <= a) added ->
    forall pls st st' fixes,
    store_in inp st ->
    Forall (Forall (fun p => pvalid st p /\ In (pr_rid p) added)) pls ->
    ForallOrdPairs keys_apart pls ->
    make_fixes err st pls = Ok (st', fixes) ->
    store_in inp st' /\ length st' = length st
    /\ (forall n x, CovS st added n x = CovS st' added n x + zsum (cvf n x) (map pr_frag fixes))
    /\ (forall p, In p fixes -> exists pl, In pl pls /\ In p pl)
    /\ NoDup (map pkey fixes).
  Proof.
    intros Hnd Hadd. induction pls as [|pl pls IH]; intros st st' fixes Hst Hv Hop H; cbn [make_fixes] in H.
    - injection H as <- <-. split; [exact Hst|]. split; [reflexivity|]. split; [intros; cbn [map zsum]; lia|].
      split; [intros p []|constructor].
    - bind_inv H r1 Hr1. destruct r1 as [st1 fx]. bind_inv H r2 Hr2. destruct r2 as [st2 fxs].
      injection H as <- <-.
      inversion Hv as [|? ? Hvpl Hvpls]; subst. inversion Hop as [|? ? Hap Hop']; subst.
      apply fix_one_cases in Hr1. destruct Hr1 as [(-> & ->) | (p & -> & Hpin & Happ)].
      + destruct (IH _ _ _ Hst Hvpls Hop' Hr2) as (G1 & G2 & G3 & G4 & G5).
        split; [exact G1|]. split; [exact G2|]. split; [exact G3|]. split; [|exact G5].
        intros p Hp. destruct (G4 p Hp) as (pl0 & Hpl0 & Hin). exists pl0. split; [right; exact Hpl0 | exact Hin].
      + rewrite Forall_forall in Hvpl. destruct (Hvpl p Hpin) as (Hpv & Hpa).
        destruct (p_apply_valid _ _ _ Hpv Happ) as (r & r' & Hr & Est & Hsub & Hcov).
        assert (Hst1 : store_in inp st1).
        { subst st1. intros y Hy. apply put_ovr_In in Hy. destruct Hy as [-> | Hy]; [|apply Hst; exact Hy].
          eapply rows_in_incl; [exact Hsub|]. apply Hst. eapply get_ovr_In. exact Hr. }
        assert (Hv1 : Forall (Forall (fun q => pvalid st1 q /\ In (pr_rid q) added)) pls).
        { rewrite Forall_forall in *. intros pl' Hpl'. specialize (Hvpls pl' Hpl'). specialize (Hap pl' Hpl').
          rewrite Forall_forall in *. intros q Hq. destruct (Hvpls q Hq) as (Q1 & Q2). split; [|exact Q2].
          eapply pvalid_pres; [exact Q1 | exact Hpv | | exact Happ].
          intros E. apply (Hap p q Hpin Hq). symmetry. exact E. }
        destruct (IH _ _ _ Hst1 Hv1 Hop' Hr2) as (G1 & G2 & G3 & G4 & G5).
        split; [exact G1|]. split; [rewrite G2, Est; apply put_ovr_length|]. split; [|split].
        * intros n x. cbn [map zsum]. pose proof (G3 n x) as Hg3.
          pose proof (CovS_put st (pr_rid p) r r' added n x Hnd Hadd Hpa Hr) as Hc.
          rewrite <- Est in Hc. pose proof (Hcov n x) as Hcv. lia.
        * intros q [<- | Hq]; [exists pl; split; [left; reflexivity | exact Hpin]|].
          destruct (G4 q Hq) as (pl0 & Hpl0 & Hin). exists pl0. split; [right; exact Hpl0 | exact Hin].
        * cbn [map]. constructor; [|exact G5]. intros Hin. apply in_map_iff in Hin.
          destruct Hin as (q & Eq & Hq). destruct (G4 q Hq) as (pl0 & Hpl0 & Hin0).
          rewrite Forall_forall in Hap. apply (Hap pl0 Hpl0 p q Hpin Hin0). symmetry. exact Eq.
  Qed.

  (* ---------------------------------------------------------- bookkeeping *)
  Definition fix_booked (found : list (fkey * (frag * list rid))) (multi : list fkey) (p : premise) : Prop :=
    In (pkey p) multi /\ exists ids, aget key_eqb found (pkey p) = Some (pr_frag p, ids) /\ In (pr_rid p) ids.

  Lemma existsb_Zeqb x l : In x l -> existsb (Z.eqb x) l = true.
  Proof. intros H. apply existsb_exists. exists x. split; [exact H | apply Z.eqb_refl]. Qed.

  Lemma bookkeeping_ok added : forall fixes found multi found' multi',
    FInv inp added found multi -> NoDup (map pkey fixes) ->
    Forall (fix_booked found multi) fixes ->
    foldM apply_fix_bookkeeping fixes (found, multi) = Ok (found', multi') ->
    FInv inp added found' multi'
    /\ forall n x, wsum found n x = wsum found' n x + zsum (cvf n x) (map pr_frag fixes).
  Proof.
    induction fixes as [|p fixes IH]; intros found multi found' multi' HF Hnd Hb H; cbn [foldM] in H.
    - injection H as <- <-. split; [exact HF|]. intros; cbn [map zsum]; lia.
    - bind_inv H acc Hacc. destruct acc as [found1 multi1].
      inversion Hnd as [|? ? Hnk Hnd']; subst. inversion Hb as [|? ? Hbp Hb']; subst.
      destruct Hbp as (Hkm & ids & Hget & Hrid).
      unfold apply_fix_bookkeeping in Hacc. fold (pkey p) in Hacc.
      assert (Ex : existsb (key_eqb (pkey p)) multi = true) by (apply existsb_key; exact Hkm).
      rewrite Ex, Hget in Hacc. rewrite (existsb_Zeqb _ _ Hrid) in Hacc.
      destruct HF as (F1 & F2 & F3 & F4).
      destruct (aget_split key_eqb key_eqb_eq _ _ _ Hget) as (l1 & l2 & Ef & Hn1 & Hs).
      rewrite Hs in Hacc. injection Hacc as <- <-.
      set (ids' := remove_first Z.eqb (pr_rid p) ids) in *.
      set (multi1 := if zlen ids' <=? 1 then filter (fun k' => negb (key_eqb (pkey p) k')) multi else multi) in *.
      assert (Hlen : S (length ids') = length ids) by (apply remove_first_length; apply existsb_Zeqb; exact Hrid).
      assert (Hids' : incl ids' ids) by (intros a Ha; eapply remove_first_incl; exact Ha).
      clearbody ids'.
      assert (Hne : forall e, In e (l1 ++ l2) -> fst e <> pkey p).
      { rewrite Ef in F1. eapply split_keys_ne. exact F1. }
      assert (Hmap : map fst (l1 ++ (pkey p, (pr_frag p, ids')) :: l2) = map fst found).
      { rewrite Ef, !map_app. reflexivity. }
      assert (Hother : forall k', k' <> pkey p -> (In k' multi1 <-> In k' multi)).
      { intros k' Hk'. unfold multi1. destruct (zlen ids' <=? 1); [|reflexivity].
        rewrite filter_In. assert (key_eqb (pkey p) k' = false) by (apply key_eqb_neq; congruence).
        rewrite H0. cbn [negb]. tauto. }
      assert (Hsub : incl multi1 multi).
      { unfold multi1. destruct (zlen ids' <=? 1); [|apply incl_refl]. intros k' Hk'. apply filter_In in Hk'. tauto. }
      rewrite Ef in F3. apply Forall_app in F3. destruct F3 as [F3a F3b].
      apply Forall_cons_iff in F3b. destruct F3b as [F3k F3c].
      destruct F3k as (K1 & K2 & K3 & K4 & K5). cbn [fst snd] in K1, K2, K3, K4, K5.
      assert (K6 : (2 <= length ids)%nat) by (apply K5; exact Hkm).
      assert (HF1 : FInv inp added (l1 ++ (pkey p, (pr_frag p, ids')) :: l2) multi1).
      { unfold FInv. rewrite Hmap. repeat split.
        - exact F1.
        - unfold multi1. destruct (zlen ids' <=? 1); [apply NoDup_filter|]; exact F2.
        - apply Forall_app. split; [|constructor].
          + rewrite Forall_forall in *. intros e He. apply entry_ok_multi with (multi := multi).
            * apply Hother. apply Hne. apply in_or_app. left. exact He.
            * apply F3a. exact He.
          + unfold entry_ok. cbn [fst snd]. split; [exact K1|]. split; [exact K2|]. unfold rid in *. split; [|split; [lia|]].
            * intros a Ha. apply K3. apply Hids'. exact Ha.
            * unfold multi1. unfold zlen. destruct (Z.of_nat (length ids') <=? 1) eqn:El.
              -- rewrite filter_In, key_eqb_refl. cbn [negb]. split; [intros [_ X]; discriminate | lia].
              -- split; [lia | intros _; exact Hkm].
          + rewrite Forall_forall in *. intros e He. apply entry_ok_multi with (multi := multi).
            * apply Hother. apply Hne. apply in_or_app. right. exact He.
            * apply F3c. exact He.
        - intros k' Hk'. apply F4. apply Hsub. exact Hk'. }
      assert (Hb1 : Forall (fix_booked (l1 ++ (pkey p, (pr_frag p, ids')) :: l2) multi1) fixes).
      { rewrite Forall_forall in *. intros q Hq. destruct (Hb' q Hq) as (B1 & ids2 & B2 & B3).
        assert (Hqk : pkey q <> pkey p).
        { intros E. apply Hnk. rewrite <- E. apply in_map. exact Hq. }
        split; [apply Hother; assumption|]. exists ids2. split; [|exact B3].
        pose proof (aget_aset_other key_eqb key_eqb_eq found (pkey p) (pkey q) (pr_frag p, ids') Hqk) as Ha.
        rewrite Hs, B2 in Ha. exact Ha. }
      destruct (IH _ _ _ _ HF1 Hnd' Hb1 H) as (G1 & G2). split; [exact G1|].
      intros n x. cbn [map zsum]. pose proof (G2 n x) as Hg2.
      rewrite Ef. rewrite !wsum_app, !wsum_cons in *. unfold cvf in *. rewrite K1. unfold zlen in *. unfold rid in *. rewrite <- Hlen. lia.
  Qed.

  (* --------------------------------------------------- one round's premises *)
  Definition round_premises (b : bstate) (ks : list fkey) : res (list (list premise)) :=
    mapM (fun k => match aget key_eqb (b_found b) k with
                   | Some (f, ids) => premises_of (b_store b) f ids
                   | None => Err KeyError
                   end) ks.

  Definition pgood (b : bstate) (p : premise) : Prop :=
    pvalid (b_store b) p /\ In (pr_rid p) (b_added b) /\ fix_booked (b_found b) (b_multi b) p.

  Lemma round_premises_ok b : Inv inp b -> forall ks pls,
    NoDup ks -> incl ks (b_multi b) -> round_premises b ks = Ok pls ->
    Forall (Forall (pgood b)) pls /\ ForallOrdPairs keys_apart pls
    /\ (forall pl p, In pl pls -> In p pl -> In (pkey p) ks).
  Proof.
    intros (I1 & IA & (F1 & F2 & F3 & F4) & I4). unfold round_premises.
    induction ks as [|k ks IH]; intros pls Hnd Hincl H; cbn [mapM] in H.
    - injection H as <-. split; [constructor|]. split; [constructor | intros ? ? []].
    - bind_inv H pl Hpl. bind_inv H pls0 Hpls0. injection H as <-.
      inversion Hnd as [|? ? Hnk Hnd']; subst.
      assert (Hincl' : incl ks (b_multi b)) by (intros a Ha; apply Hincl; right; exact Ha).
      destruct (IH _ Hnd' Hincl' Hpls0) as (G1 & G2 & G3).
      destruct (aget key_eqb (b_found b) k) as [[f ids]|] eqn:Eg; [|discriminate].
      pose proof (aget_In key_eqb key_eqb_eq _ _ _ Eg) as Hin.
      rewrite Forall_forall in F3. destruct (F3 _ Hin) as (K1 & K2 & K3 & K4 & K5). cbn [fst snd] in *.
      assert (Hidpos : Forall (fun a => 0 <= a) ids).
      { apply Forall_forall. intros a Ha. apply K3 in Ha. pose proof (AddedOk_pos _ _ IA) as Hp.
        rewrite Forall_forall in Hp. apply Hp. exact Ha. }
      pose proof (premises_of_ok _ _ I1 K2 _ _ Hidpos Hpl) as Hps.
      assert (Hkey : forall p, In p pl -> pkey p = k).
      { intros p Hp. rewrite Forall_forall in Hps. destruct (Hps p Hp) as (E & _). unfold pkey. rewrite E. exact K1. }
      split; [constructor; [|exact G1]|]. 2: split; [constructor; [|exact G2]|].
      + rewrite Forall_forall in *. intros p Hp. destruct (Hps p Hp) as (E1 & E2 & E3).
        split; [exact E3|]. split; [apply K3; exact E2|]. split.
        * rewrite (Hkey p Hp). apply Hincl. left. reflexivity.
        * exists ids. rewrite (Hkey p Hp), E1. split; [exact Eg | exact E2].
      + apply Forall_forall. intros pl' Hpl' p p' Hp Hp' E. apply Hnk.
        rewrite <- (Hkey p Hp), E. eapply G3; eassumption.
      + intros pl' p [<- | Hpl'] Hp; [left; symmetry; apply Hkey; exact Hp | right; eapply G3; eassumption].
  Qed.

  (* ------------------------------------------------------------ discard_loop *)
  Lemma discard_loop_inv err : forall fuel b b',
    Inv inp b -> discard_loop fuel err b = Ok b' -> Inv inp b'.
  Proof.
    induction fuel as [|fuel IH]; intros b b' HI H; cbn [discard_loop] in H; [discriminate|].
    destruct (b_multi b) as [|k0 m0] eqn:Em; [injection H as <-; exact HI|].
    rewrite <- Em in H. fold (round_premises b (b_multi b)) in H.
    bind_inv H pls Hpls. bind_inv H r Hr. destruct r as [st fixes].
    pose proof HI as (I1 & (A1 & A2) & HF & I4).
    pose proof HF as (F1 & F2 & F3 & F4).
    destruct (round_premises_ok b HI _ _ F2 (incl_refl _) Hpls) as (G1 & G2 & _).
    set (pls' := filter (fun pl => match pl with [] => false | _ => true end) pls) in *.
    assert (G1' : Forall (Forall (pgood b)) pls').
    { apply Forall_forall. intros pl Hpl. apply filter_In in Hpl. rewrite Forall_forall in G1. apply G1. tauto. }
    assert (G2' : ForallOrdPairs keys_apart pls') by (apply FOP_filter; exact G2).
    assert (Hv : Forall (Forall (fun p => pvalid (b_store b) p /\ In (pr_rid p) (b_added b))) pls').
    { eapply Forall_impl; [|exact G1']. intros pl Hpl. eapply Forall_impl; [|exact Hpl].
      intros p (P1 & P2 & _). split; assumption. }
    destruct (make_fixes_ok err _ A1 (AddedOk_pos _ _ (conj A1 A2)) _ _ _ _ I1 Hv G2' Hr)
      as (M1 & M2 & M3 & M4 & M5).
    assert (A2' : Forall (fun a => 0 <= a < zlen st) (b_added b)).
    { unfold zlen. rewrite M2. exact A2. }
    destruct fixes as [|p0 fx0] eqn:Efx.
    - injection H as <-. unfold Inv. cbn [with_store b_store b_added b_found b_multi].
      split; [exact M1|]. split; [split; assumption|]. split; [exact HF|].
      intros n x. rewrite <- I4, (M3 n x). cbn [map zsum]. lia.
    - rewrite <- Efx in *. clear Efx.
      bind_inv H fm Hfm. destruct fm as [found' multi'].
      assert (Hb : Forall (fix_booked (b_found b) (b_multi b)) fixes).
      { apply Forall_forall. intros p Hp. destruct (M4 p Hp) as (pl & Hpl & Hin).
        rewrite Forall_forall in G1'. specialize (G1' pl Hpl). rewrite Forall_forall in G1'.
        apply (G1' p Hin). }
      destruct (bookkeeping_ok _ _ _ _ _ _ HF M5 Hb Hfm) as (B1 & B2).
      eapply IH; [|exact H]. unfold Inv. cbn [b_store b_added b_found b_multi].
      split; [exact M1|]. split; [split; assumption|]. split; [exact B1|].
      intros n x. pose proof (I4 n x). pose proof (M3 n x). pose proof (B2 n x). lia.
  Qed.
End Fixes.

(* Part 4: the cut phase establishes Post *)

(* the abutting/overlap/gap test of cut_fragments forces the pieces to tile
   the original (proved separately; kept as an explicit premise) *)
Definition qc_partition_ok : Prop := forall orig subs, f_start orig <= f_end orig ->
  Forall (fun f => f_name f = f_name orig /\ f_start orig <= f_start f /\ f_start f <= f_end f /\ f_end f <= f_end orig) subs ->
  qc_sub_fragments orig subs = Ok tt -> forall n x, coverage subs n x = coverage [orig] n x.

Definition sub_piece (f s : frag) : Prop :=
  f_name s = f_name f /\ f_start f <= f_start s /\ f_start s <= f_end s /\ f_end s <= f_end f.

Section Cut.
  Variable inp : list (str * list row).
  Hypothesis Hids : NoDup (map f_id (in_frags inp)).
  Hypothesis Hpos : Forall (fun f => 0 <= f_id f) (in_frags inp).
  Hypothesis Hwf : Forall (fun f => f_start f <= f_end f) (in_frags inp).
  Hypothesis Hkeys : NoDup (map key_of (in_frags inp)).
  Hypothesis Hqc : qc_partition_ok.

  (* rows after some cuts: input rows (id >= 0) or trimmed copies (id < 0) *)
  Definition rows_cut (rows : list row) : Prop :=
    forall g, In (RF g) rows -> (0 <= f_id g -> In g (in_frags inp)) /\ sub_of_input inp g.
  Definition store_cut (st : list ovr) : Prop := forall r, In r st -> rows_cut (o_rows r).

  Lemma in_frags_wf f : In f (in_frags inp) -> f_start f <= f_end f.
  Proof. intros H. rewrite Forall_forall in Hwf. apply Hwf. exact H. Qed.

  Lemma sub_of_input_self f : In f (in_frags inp) -> sub_of_input inp f.
  Proof.
    intros H. exists f. split; [exact H|]. split; [reflexivity|].
    pose proof (in_frags_wf f H). lia.
  Qed.

  Lemma rows_in_cut rows : rows_in inp rows -> rows_cut rows.
  Proof. intros H g Hg. split; [intros _; apply H; exact Hg | apply sub_of_input_self; apply H; exact Hg]. Qed.

  Lemma store_in_cut st : store_in inp st -> store_cut st.
  Proof. intros H r Hr. apply rows_in_cut. apply H. exact Hr. Qed.

  (* ------------------------------------------------------- trim_fragment *)
  Lemma row_is_input rows x f : rows_cut rows -> In x rows -> In f (in_frags inp) ->
    row_is x f = true -> x = RF f.
  Proof.
    intros Hc Hx Hf Hr. apply row_is_true in Hr. destruct Hr as (g & -> & Eg).
    f_equal. apply (id_inj inp Hids); [|exact Hf | exact Eg].
    apply (Hc g Hx). rewrite Eg. apply (in_frags_id_pos inp Hpos). exact Hf.
  Qed.

  Lemma trim_fragment_ok r f ks ke new r' :
    rows_cut (o_rows r) -> In f (in_frags inp) -> trim_fragment r f ks ke = Ok (new, r') ->
    rows_cut (o_rows r')
    /\ (forall n x, covR n x (o_rows r') + cvf n x f = covR n x (o_rows r) + cvf n x new)
    /\ sub_piece f new.
  Proof.
    intros Hc Hf H. unfold trim_fragment in H. bind_inv H r0 Hr0. cbv zeta in H. bind_inv H rl Hrl.
    set (at_start := row_is r0 f) in *. set (at_end := row_is rl f) in *.
    set (so := start_overhang r) in *. set (eo := o_end r - f_end (o_bait r)) in *.
    destruct (negb (at_start || at_end)) eqn:Eat; [discriminate|].
    bind_inv H nw Hnw. injection H as <- <-. cbn [set_span_rows o_rows].
    apply new_frag_ok in Hnw. destruct Hnw as (Enw & Hle).
    assert (Hsub : sub_piece f nw).
    { unfold sub_piece. rewrite Enw. cbn [f_name f_start f_end]. split; [reflexivity|].
      split; [|split; [exact Hle|]].
      - clearbody at_start at_end so eo. clear - ks.
        destruct (at_start && (so >? 0) && negb ks && (f_strand f =? 1)) eqn:C1;
        destruct (at_end && (eo >? 0) && negb ke && negb (f_strand f =? 1)) eqn:C2; lia.
      - clearbody at_start at_end so eo. clear - ks.
        destruct (at_start && (so >? 0) && negb ks && negb (f_strand f =? 1)) eqn:C1;
        destruct (at_end && (eo >? 0) && negb ke && (f_strand f =? 1)) eqn:C2; lia. }
    assert (Hnwid : f_id nw < 0).
    { rewrite Enw. cbn [f_id]. destruct at_end; lia. }
    assert (Hnwcut : (0 <= f_id nw -> In nw (in_frags inp)) /\ sub_of_input inp nw).
    { split; [lia|]. exists f. split; [exact Hf|]. exact Hsub. }
    apply py_nth_0_inv in Hr0. destruct Hr0 as (t0 & E0).
    apply py_nth_m1_inv in Hrl. destruct Hrl as (tl & El).
    split; [|split; [|exact Hsub]].
    - destruct at_end eqn:Ee.
      + rewrite El, set_last_app. intros g Hg. apply in_app_or in Hg.
        destruct Hg as [Hg | [Hg | []]]; [apply Hc; rewrite El; apply in_or_app; left; exact Hg|].
        injection Hg as <-. exact Hnwcut.
      + rewrite E0. cbn [set_nth]. intros g [Hg | Hg]; [injection Hg as <-; exact Hnwcut|].
        apply Hc. rewrite E0. right. exact Hg.
    - intros n x. destruct at_end eqn:Ee.
      + assert (rl = RF f).
        { eapply row_is_input; [exact Hc | | exact Hf | exact Ee]. rewrite El. apply in_or_app. right. left. reflexivity. }
        subst rl. rewrite El, set_last_app, !covR_app, !covR_single. lia.
      + assert (Es : at_start = true) by (destruct at_start; [reflexivity | discriminate]).
        assert (r0 = RF f).
        { eapply row_is_input; [exact Hc | | exact Hf | exact Es]. rewrite E0. left. reflexivity. }
        subst r0. rewrite E0. cbn [set_nth]. rewrite !covR_RF. lia.
  Qed.

  (* ------------------------------------------------------------ trim_all *)
  Lemma trim_all_ok c f added : In f (in_frags inp) -> NoDup added -> Forall (fun a => 0 <= a) added ->
    forall ids st i last st' subs,
    store_cut st -> incl ids added ->
    trim_all c st f ids i last = Ok (st', subs) ->
    store_cut st' /\ length st' = length st /\ length subs = length ids
    /\ Forall (sub_piece f) subs
    /\ forall n x, CovS st' added n x + Z.of_nat (length ids) * cvf n x f
                   = CovS st added n x + zsum (cvf n x) subs.
  Proof.
    intros Hf Hnd Hadd. induction ids as [|id ids IH]; intros st i last st' subs Hst Hincl H; cbn [trim_all] in H.
    - injection H as <- <-. split; [exact Hst|]. split; [reflexivity|]. split; [reflexivity|].
      split; [constructor|]. intros n x. cbn [length zsum]. lia.
    - cbv zeta in H. bind_inv H r Hr. bind_inv H fr Hfr. destruct fr as [new r'].
      bind_inv H rest Hrest. destruct rest as [st2 subs2]. cbn [fst snd] in H. injection H as <- <-.
      assert (Hrc : rows_cut (o_rows r)) by (apply Hst; eapply get_ovr_In; exact Hr).
      destruct (trim_fragment_ok _ _ _ _ _ _ Hrc Hf Hfr) as (T1 & T2 & T3).
      assert (Hst1 : store_cut (put_ovr st id r')).
      { intros y Hy. apply put_ovr_In in Hy. destruct Hy as [-> | Hy]; [exact T1 | apply Hst; exact Hy]. }
      assert (Hincl' : incl ids added) by (intros a Ha; apply Hincl; right; exact Ha).
      destruct (IH _ _ _ _ _ Hst1 Hincl' Hrest) as (G1 & G2 & G3 & G4 & G5).
      split; [exact G1|]. split; [rewrite G2; apply put_ovr_length|]. split; [cbn [length]; rewrite G3; reflexivity|].
      split; [constructor; assumption|].
      intros n x. pose proof (G5 n x) as Hg5. pose proof (T2 n x) as Ht2.
      assert (Hida : In id added) by (apply Hincl; left; reflexivity).
      pose proof (CovS_put st id r r' added n x Hnd Hadd Hida Hr) as Hc.
      cbn [length zsum]. lia.
  Qed.

  (* --------------------------------------------------------- cut_fragments *)
  Definition wt (todo : list fkey) (e : fkey * (frag * list rid)) : Z :=
    if existsb (key_eqb (fst e)) todo then zlen (snd (snd e)) else 1.
  Definition wsumT (todo : list fkey) (found : list (fkey * (frag * list rid))) (n : str) (x : Z) : Z :=
    zsum (fun e => wt todo e * cvz (fst e) n x) found.

  Definition CInv (todo : list fkey) (b : bstate) : Prop :=
    store_cut (b_store b) /\ AddedOk (b_store b) (b_added b)
    /\ FInv inp (b_added b) (b_found b) (b_multi b)
    /\ forall n x, CovS (b_store b) (b_added b) n x = wsumT todo (b_found b) n x.

  Lemma wsumT_step todo found k f ids n x :
    NoDup (map fst found) -> aget key_eqb found k = Some (f, ids) -> ~ In k todo ->
    wsumT (k :: todo) found n x = wsumT todo found n x + (zlen ids - 1) * cvz k n x.
  Proof.
    intros Hnd Hget Hn. destruct (aget_split key_eqb key_eqb_eq _ _ _ Hget) as (l1 & l2 & Ef & _ & _).
    assert (Hne : forall e, In e (l1 ++ l2) -> fst e <> k).
    { rewrite Ef in Hnd. eapply split_keys_ne. exact Hnd. }
    assert (Hsame : forall l, (forall e, In e l -> fst e <> k) -> wsumT (k :: todo) l n x = wsumT todo l n x).
    { intros l Hl. unfold wsumT. apply zsum_ext. intros e He. unfold wt. cbn [existsb].
      assert (E : key_eqb (fst e) k = false) by (apply key_eqb_neq; apply Hl; exact He).
      rewrite E. reflexivity. }
    rewrite Ef. unfold wsumT. rewrite !zsum_app. cbn [zsum].
    fold (wsumT (k :: todo) l1 n x) (wsumT todo l1 n x) (wsumT (k :: todo) l2 n x) (wsumT todo l2 n x).
    rewrite (Hsame l1) by (intros e He; apply Hne; apply in_or_app; left; exact He).
    rewrite (Hsame l2) by (intros e He; apply Hne; apply in_or_app; right; exact He).
    unfold wt. cbn [fst snd existsb]. rewrite key_eqb_refl. cbn [orb].
    assert (E : existsb (key_eqb k) todo = false) by (apply existsb_key_false; exact Hn).
    rewrite E. lia.
  Qed.

  Lemma Inv_CInv b : Inv inp b -> CInv (b_multi b) b.
  Proof.
    intros (I1 & IA & HF & I4). split; [apply store_in_cut; exact I1|]. split; [exact IA|]. split; [exact HF|].
    intros n x. rewrite I4. unfold wsum, wsumT. apply zsum_ext. intros e He.
    destruct HF as (_ & _ & F3 & _). rewrite Forall_forall in F3. destruct (F3 e He) as (_ & _ & _ & K4 & K5).
    unfold wt. destruct (existsb (key_eqb (fst e)) (b_multi b)) eqn:Ex; [reflexivity|].
    apply existsb_key_false in Ex. unfold zlen.
    assert ((length (snd (snd e)) = 1)%nat) by (destruct (le_lt_dec 2 (length (snd (snd e)))); [exfalso; tauto | lia]).
    rewrite H. lia.
  Qed.

  Lemma cut_fragments_ok c todo b k b' :
    CInv (k :: todo) b -> ~ In k todo -> cut_fragments c b k = Ok b' -> CInv todo b'.
  Proof.
    intros (C1 & (A1 & A2) & HF & C4) Hn H. unfold cut_fragments in H.
    destruct (aget key_eqb (b_found b) k) as [[f ids]|] eqn:Eg; [|discriminate].
    bind_inv H keyed Hkeyed. bind_inv H r Hr. destruct r as [st subs]. bind_inv H u Hu. injection H as <-.
    destruct HF as (F1 & F2 & F3 & F4).
    pose proof (aget_In key_eqb key_eqb_eq _ _ _ Eg) as Hin.
    rewrite Forall_forall in F3. destruct (F3 _ Hin) as (K1 & K2 & K3 & K4 & K5). cbn [fst snd] in *.
    set (ordered := map snd (sort_by_Z fst keyed)) in *.
    assert (Hord : incl ordered (b_added b)).
    { intros id Hid. apply K3. unfold ordered in Hid. apply in_map_iff in Hid. destruct Hid as ([s0 id0] & E & Hs0).
      cbn [snd] in E. subst id0. unfold sort_by_Z in Hs0. apply In_stable_sort in Hs0.
      destruct (mapM_ok_In _ _ _ Hkeyed _ Hs0) as (id1 & Hid1 & Hf).
      bind_inv Hf r1 Hr1. bind_inv Hf s1 Hs1. injection Hf as _ <-. exact Hid1. }
    assert (Hlen : length ordered = length ids).
    { unfold ordered, sort_by_Z. rewrite map_length, stable_sort_length. eapply mapM_ok_length. exact Hkeyed. }
    clearbody ordered.
    pose proof (AddedOk_pos _ _ (conj A1 A2)) as Hadd.
    destruct (trim_all_ok c f _ K2 A1 Hadd _ _ _ _ _ _ C1 Hord Hr) as (T1 & T2 & T3 & T4 & T5).
    destruct u.
    assert (Hcov : forall n x, zsum (cvf n x) subs = cvf n x f).
    { intros n x. pose proof (Hqc f subs (in_frags_wf f K2) T4 Hu n x) as Hq.
      apply (f_equal Z.of_nat) in Hq. rewrite !coverage_zsum in Hq. cbn [zsum] in Hq. lia. }
    unfold CInv. cbn [b_store b_added b_found b_multi].
    split; [exact T1|]. split; [split; [exact A1|]|split; [split; [exact F1|split; [exact F2|split; [apply Forall_forall; exact F3|exact F4]]]|]].
    - unfold zlen. rewrite T2. exact A2.
    - intros n x. pose proof (T5 n x) as Ht5. rewrite Hcov in Ht5. rewrite C4 in Ht5.
      rewrite (wsumT_step todo _ k f ids n x F1 Eg Hn) in Ht5. unfold cvf in Ht5. rewrite K1 in Ht5.
      unfold zlen in *. unfold rid in *. rewrite Hlen in Ht5. lia.
  Qed.

  Lemma cut_fold_ok c : forall todo b b',
    NoDup todo -> CInv todo b -> foldM (cut_fragments c) todo b = Ok b' -> CInv [] b'.
  Proof.
    induction todo as [|k todo IH]; intros b b' Hnd HC H; cbn [foldM] in H.
    - injection H as <-. exact HC.
    - bind_inv H b1 Hb1. inversion Hnd as [|? ? Hn Hnd']; subst.
      eapply IH; [exact Hnd' | | exact H]. eapply cut_fragments_ok; eassumption.
  Qed.

  (* ------------------------------------------------------ the final state *)
  Definition FinalInv (b : bstate) : Prop :=
    store_cut (b_store b)
    /\ NoDup (map fst (b_found b))
    /\ Forall (fun e => key_of (fst (snd e)) = fst e /\ In (fst (snd e)) (in_frags inp)) (b_found b)
    /\ forall n x, CovS (b_store b) (b_added b) n x = zsum (fun e => cvz (fst e) n x) (b_found b).

  Lemma CInv_final b : CInv [] b -> FinalInv b.
  Proof.
    intros (C1 & _ & (F1 & _ & F3 & _) & C4). split; [exact C1|]. split; [exact F1|]. split.
    - eapply Forall_impl; [|exact F3]. intros e (K1 & K2 & _). split; assumption.
    - intros n x. rewrite C4. unfold wsumT. apply zsum_ext. intros e _. unfold wt. cbn [existsb]. lia.
  Qed.

  Lemma cut_remaining_ok c b b' : Inv inp b -> cut_remaining_overhangs c b = Ok b' -> FinalInv b'.
  Proof.
    intros HI H. unfold cut_remaining_overhangs in H. bind_inv H b1 Hb1. injection H as <-.
    pose proof HI as (_ & _ & (_ & F2 & _) & _).
    pose proof (cut_fold_ok c _ _ _ F2 (Inv_CInv b HI) Hb1) as HC.
    apply CInv_final in HC. exact HC.
  Qed.

  Lemma FinalInv_store_map b st' nm :
    FinalInv b -> map o_rows st' = map o_rows (b_store b) -> FinalInv (with_namer (with_store b st') nm).
  Proof.
    intros (C1 & F1 & F3 & C4) Hm. unfold FinalInv. cbn [with_namer with_store b_store b_added b_found].
    split; [|split; [exact F1|split; [exact F3|]]].
    - intros r Hr. assert (Hi : In (o_rows r) (map o_rows (b_store b))) by (rewrite <- Hm; apply in_map; exact Hr).
      apply in_map_iff in Hi. destruct Hi as (r0 & E & Hr0). rewrite <- E. apply C1. exact Hr0.
    - intros n x. rewrite (CovS_map _ _ _ n x Hm). apply C4.
  Qed.

  Lemma is_found_iff b f : is_found b f = true <-> In (key_of f) (map fst (b_found b)).
  Proof.
    unfold is_found. destruct (aget key_eqb (b_found b) (key_of f)) eqn:E.
    - split; [intros _|reflexivity]. apply aget_In in E; [|exact key_eqb_eq].
      apply in_map_iff. exists (key_of f, p). auto.
    - apply (aget_None key_eqb key_eqb_eq) in E. split; [discriminate | contradiction].
  Qed.

  Theorem FinalInv_Post b : FinalInv b -> Post inp b.
  Proof.
    intros (C1 & F1 & F3 & C4). split.
    - intros n x. apply Nat2Z.inj. rewrite coverage_CovS, C4, coverage_zsum.
      unfold cvf. rewrite <- (zsum_map (fun k => cvz k n x) fst), <- (zsum_map (fun k => cvz k n x) key_of).
      apply zsum_perm. apply NoDup_Permutation.
      + exact F1.
      + apply NoDup_map_filter. exact Hkeys.
      + intros k. split.
        * intros Hk. apply in_map_iff in Hk. destruct Hk as (e & <- & He).
          rewrite Forall_forall in F3. destruct (F3 e He) as (K1 & K2).
          apply in_map_iff. exists (fst (snd e)). split; [exact K1|]. apply filter_In. split; [exact K2|].
          apply is_found_iff. rewrite K1. apply in_map. exact He.
        * intros Hk. apply in_map_iff in Hk. destruct Hk as (f & <- & Hf). apply filter_In in Hf.
          apply is_found_iff. tauto.
    - apply Forall_forall. intros g Hg. rewrite result_frags_alt in Hg. apply in_flat_map in Hg.
      destruct Hg as (id & _ & Hg). unfold rows_at in Hg. destruct (get_ovr (b_store b) id) as [r|] eqn:Er; [|destruct Hg].
      apply In_frags_of_iff in Hg. apply (C1 r (get_ovr_In _ _ _ Er) g Hg).
  Qed.
End Cut.

(* Part 5: left-over scaffolds, composition *)

(* ------------------------------------ add_missing_scaffolds_from_input *)
Definition not_found (found : list (fkey * (frag * list rid))) (f : frag) : bool :=
  match aget key_eqb found (key_of f) with Some _ => false | None => true end.

Lemma frags_of_gap_rows : forall l, forallb is_gap_row l = true -> frags_of l = [].
Proof.
  induction l as [|[f|gp] l IH]; cbn [forallb is_gap_row andb]; intro H; [reflexivity|discriminate|].
  rewrite frags_of_RG. apply IH, H.
Qed.

(* in both modes the separator is made of gap rows only *)
Lemma frags_of_missing_sep c dg between : frags_of (missing_sep c dg between) = [].
Proof.
  unfold missing_sep. destruct (fix_gap_run c && forallb is_gap_row between) eqn:E.
  - apply andb_prop in E. apply frags_of_gap_rows, E.
  - destruct (last between _) as [?|?]; reflexivity.
Qed.

Lemma missing_rows_frags c found dg : forall rows between i la,
  frags_of (missing_rows c found dg rows between i la) = filter (not_found found) (frags_of rows).
Proof.
  induction rows as [|r rows IH]; intros between i la; cbn [missing_rows]; [reflexivity|].
  destruct r as [f|gp].
  - rewrite frags_of_RF. cbn [filter]. unfold not_found at 1.
    destruct (aget key_eqb found (key_of f)) as [v|] eqn:E.
    + apply IH.
    + rewrite frags_of_app, frags_of_RF, IH.
      match goal with |- frags_of ?sep ++ _ = _ => assert (Es : frags_of sep = []) end.
      { destruct la as [la|]; [|reflexivity]. destruct (negb (la =? i - 1)); [|reflexivity].
        apply frags_of_missing_sep. }
      rewrite Es. reflexivity.
  - rewrite frags_of_RG. apply IH.
Qed.

Definition left_frags (l : list scaffold) : list frag := flat_map (fun sc => frags_of (sc_rows sc)) l.

Lemma add_missing_fold c dg found : forall input nm left nm' left',
  foldM (add_missing_one c dg found) input (nm, left) = Ok (nm', left') ->
  left_frags left' = left_frags left ++ filter (not_found found) (in_frags input).
Proof.
  induction input as [|[name rows] input IH]; intros nm left nm' left' H; cbn [foldM] in H.
  - injection H as <- <-. cbn [in_frags flat_map filter]. rewrite app_nil_r. reflexivity.
  - bind_inv H acc Hacc. destruct acc as [nm1 left1]. rewrite (IH _ _ _ _ H).
    unfold in_frags at 2. cbn [flat_map snd]. fold (in_frags input). rewrite filter_app, app_assoc. f_equal.
    unfold add_missing_one in Hacc. pose proof (missing_rows_frags c found dg rows [] 0 None) as Hm.
    destruct (missing_rows c found dg rows [] 0 None) as [|x0 t0] eqn:Em.
    + injection Hacc as <- <-. rewrite <- Hm. cbn [frags_of flat_map]. rewrite app_nil_r. reflexivity.
    + bind_inv Hacc nm2 Hnm2. injection Hacc as <- <-. rewrite <- Hm.
      unfold left_frags. rewrite flat_map_app. cbn [flat_map sc_rows]. rewrite app_nil_r. reflexivity.
Qed.

Lemma wf_by_keys : forall l l' : list frag, map key_of l = map key_of l' ->
  Forall (fun f => f_start f <= f_end f) l' -> Forall (fun f => f_start f <= f_end f) l.
Proof.
  induction l as [|f l IH]; intros [|f' l'] E H; cbn [map] in E; try discriminate; [constructor|].
  assert (E1 : key_of f = key_of f') by congruence.
  assert (E2 : map key_of l = map key_of l') by congruence.
  inversion H as [|? ? Hf Hl]; subst. constructor; [|eapply IH; eassumption].
  unfold key_of in E1. assert (f_start f = f_start f' /\ f_end f = f_end f') by (split; congruence). lia.
Qed.

(* ------------------------------------------------------------ composition *)
Theorem remap_head : qc_partition_ok -> forall c g prefix bpt input pretext rs,
  input_ok input ->
  remap_to_input c g prefix bpt input pretext = Ok rs ->
  let inp := number_input input 0 in
  Post inp (rs_b rs)
  /\ map key_of (flat_map (fun sc => frags_of (sc_rows sc)) (rs_left rs))
     = map key_of (filter (fun f => negb (is_found (rs_b rs) f)) (in_frags inp)).
Proof.
  intros Hqc c g prefix bpt input pretext rs (Hwf0 & Hkeys0) H inp.
  destruct (number_input_spec input 0) as (Ek & Hpos & Hids). fold inp in Ek, Hpos, Hids.
  assert (Hkeys : NoDup (map key_of (in_frags inp))) by (rewrite Ek; exact Hkeys0).
  assert (Hwf : Forall (fun f => f_start f <= f_end f) (in_frags inp)) by (eapply wf_by_keys; eassumption).
  unfold remap_to_input in H. destruct (has_dup_names (map fst input)); [discriminate|].
  cbv zeta in H. fold inp in H.
  bind_inv H b1 Hb1. bind_inv H b2 Hb2. bind_inv H b3 Hb3. bind_inv H st Hst. bind_inv H nl Hnl.
  injection H as <-. cbn [rs_b rs_left].
  assert (I1 : Inv inp b1) by (eapply pretext_inv; eassumption).
  assert (I2 : Inv inp b2) by (eapply discard_loop_inv; eassumption).
  assert (I3 : FinalInv inp b3) by (eapply cut_remaining_ok; eassumption).
  assert (I4 : FinalInv inp (with_namer (with_store b3 st) (fst nl))).
  { apply FinalInv_store_map; [exact I3|]. eapply rename_results_rows. exact Hst. }
  split.
  - eapply FinalInv_Post; eassumption.
  - destruct nl as [nm left]. cbn [fst snd] in *.
    pose proof (add_missing_fold _ _ _ _ _ _ _ _ Hnl) as Hl. unfold left_frags in Hl. cbn [flat_map app] in Hl.
    rewrite Hl. f_equal. apply filter_ext. intros f. unfold not_found, is_found.
    cbn [with_namer with_store b_found]. destruct (aget key_eqb (b_found b3) (key_of f)); reflexivity.
Qed.

Print Assumptions remap_head.
