(* C01, second half of the pipeline: from [Post] (the state after
   cut_remaining_overhangs) to [conserved].  Re-adding the input fragments that
   were never found, fusing, naming and sorting only permute fragments (up to
   strand), so coverage is preserved. *)
From Tola Require Import Py.Base Py.Dec Py.Sort Model.Fragment Model.Scaffold Model.Lookup
  Model.OverlapResult Model.NaturalKey Model.Namer Model.Remap Model.RemapSpec.
From Tola Require Import Proofs.BaseLemmas Proofs.NaturalKey.
From Coq Require Import Lia ZifyBool Permutation Sorted.

(* ================================================================ generic *)
Lemma flat_map_app' {A B} (f : A -> list B) a b :
  flat_map f (a ++ b) = flat_map f a ++ flat_map f b.
Proof. induction a as [|x a IH]; cbn [flat_map app]; [reflexivity|]. rewrite IH, app_assoc. reflexivity. Qed.

Lemma flat_map_map {A B C} (g : A -> B) (f : B -> list C) l :
  flat_map f (map g l) = flat_map (fun x => f (g x)) l.
Proof. induction l as [|x l IH]; cbn [flat_map map]; [reflexivity|]. rewrite IH. reflexivity. Qed.

Lemma flat_map_perm {A B} (f : A -> list B) a b :
  Permutation a b -> Permutation (flat_map f a) (flat_map f b).
Proof.
  induction 1; cbn [flat_map].
  - apply perm_nil.
  - apply Permutation_app_head. assumption.
  - rewrite !app_assoc. apply Permutation_app_tail, Permutation_app_comm.
  - eapply perm_trans; eassumption.
Qed.

Lemma fold_left_inv {S A} (P : S -> Prop) (f : S -> A -> S) :
  (forall s a, P s -> P (f s a)) -> forall l s, P s -> P (fold_left f l s).
Proof. intros H l. induction l as [|x l IH]; intros s0 Hs; cbn [fold_left]; [assumption|]. apply IH, H, Hs. Qed.

Lemma map_set_nth_same {A B} (f : A -> B) : forall l i x y,
  nth_error l i = Some x -> f y = f x -> map f (set_nth l i y) = map f l.
Proof.
  induction l as [|z l IH]; intros [|i] x y H E; cbn in *; try discriminate.
  - injection H as ->. rewrite E. reflexivity.
  - rewrite (IH i x y H E). reflexivity.
Qed.

(* association lists: [aset] after [aget], for an arbitrary key test *)
Lemma aset_found {K V} (keqb : K -> K -> bool) : forall (d : list (K * V)) k v v',
  aget keqb d k = Some v ->
  exists l1 k' l2, d = l1 ++ (k', v) :: l2 /\ aset keqb d k v' = l1 ++ (k', v') :: l2.
Proof.
  induction d as [|[k0 v0] d IH]; intros k v v' H; cbn [aget aset] in *; [discriminate|].
  destruct (keqb k k0).
  - injection H as ->. exists [], k0, d. split; reflexivity.
  - destruct (IH k v v' H) as (l1 & k' & l2 & E1 & E2).
    exists ((k0, v0) :: l1), k', l2. cbn [app]. rewrite <- E1, E2. split; reflexivity.
Qed.

Lemma aset_missing {K V} (keqb : K -> K -> bool) : forall (d : list (K * V)) k v',
  aget keqb d k = None -> aset keqb d k v' = d ++ [(k, v')].
Proof.
  induction d as [|[k0 v0] d IH]; intros k v' H; cbn [aget aset app] in *; [reflexivity|].
  destruct (keqb k k0); [discriminate|]. rewrite (IH k v' H). reflexivity.
Qed.

Lemma mapM_ok_length {A B} (f : A -> res B) : forall l r, mapM f l = Ok r -> length r = length l.
Proof.
  induction l as [|x l IH]; intros r H; cbn [mapM] in H.
  - injection H as <-. reflexivity.
  - destruct (f x); cbn [bind] in H; [|discriminate].
    destruct (mapM f l) eqn:E; cbn [bind] in H; [|discriminate].
    injection H as <-. cbn [length]. rewrite (IH _ eq_refl). reflexivity.
Qed.

Lemma sumZ_perm a b : Permutation a b -> sumZ a = sumZ b.
Proof.
  induction 1; rewrite ?sumZ_cons; lia.
Qed.

(* stable_sort, for an arbitrary comparison *)
Lemma ssort_perm {A} (le : A -> A -> bool) l : Permutation (stable_sort le l) l.
Proof. apply (stable_sort_perm (fun x : A => x) le). Qed.

Lemma ssort_sorted {A} (le : A -> A -> bool) :
  (forall a b c, le a b = true -> le b c = true -> le a c = true) ->
  (forall a b, le a b = true \/ le b a = true) ->
  forall l, StronglySorted (fun a b => le a b = true) (stable_sort le l).
Proof. intros T Tot l. apply (stable_sort_sorted (fun x : A => x) le T Tot). Qed.

(* ======================================================= coverage algebra *)
Lemma coverage_nil n x : coverage [] n x = 0%nat.
Proof. reflexivity. Qed.

Lemma coverage_cons f l n x :
  coverage (f :: l) n x = ((if covers f n x then 1 else 0) + coverage l n x)%nat.
Proof. unfold coverage. cbn [filter]. destruct (covers f n x); reflexivity. Qed.

Lemma coverage_app : forall a b n x, coverage (a ++ b) n x = (coverage a n x + coverage b n x)%nat.
Proof. intros a b n x. unfold coverage. rewrite filter_app, app_length. reflexivity. Qed.

Lemma coverage_perm : forall a b n x, Permutation a b -> coverage a n x = coverage b n x.
Proof.
  intros a b n x P. induction P; rewrite ?coverage_cons; lia.
Qed.

Definition covers_key (k : fkey) (n : str) (x : Z) : bool :=
  let '(nm, st, en) := k in str_eqb nm n && (st <=? x) && (x <=? en).
Lemma covers_key_of f n x : covers f n x = covers_key (key_of f) n x.
Proof. reflexivity. Qed.

Definition coverage_k (l : list fkey) (n : str) (x : Z) : nat :=
  length (filter (fun k => covers_key k n x) l).
Lemma coverage_as_keys l n x : coverage l n x = coverage_k (map key_of l) n x.
Proof.
  unfold coverage, coverage_k. induction l as [|f l IH]; [reflexivity|].
  cbn [map filter]. rewrite <- covers_key_of. destruct (covers f n x); cbn [length]; rewrite IH; reflexivity.
Qed.
Lemma coverage_k_perm a b n x : Permutation a b -> coverage_k a n x = coverage_k b n x.
Proof.
  intro P. unfold coverage_k. induction P; cbn [filter].
  - reflexivity.
  - destruct (covers_key x0 n x); cbn [length]; rewrite IHP; reflexivity.
  - destruct (covers_key x0 n x), (covers_key y n x); reflexivity.
  - congruence.
Qed.

Lemma coverage_same_keys : forall a b n x, map key_of a = map key_of b -> coverage a n x = coverage b n x.
Proof. intros a b n x E. rewrite !coverage_as_keys, E. reflexivity. Qed.

Lemma coverage_perm_keys a b n x :
  Permutation (map key_of a) (map key_of b) -> coverage a n x = coverage b n x.
Proof. intro P. rewrite !coverage_as_keys. apply coverage_k_perm, P. Qed.

Lemma coverage_filter_split (p : frag -> bool) l n x :
  (coverage (filter p l) n x + coverage (filter (fun f => negb (p f)) l) n x)%nat = coverage l n x.
Proof.
  induction l as [|f l IH]; [reflexivity|].
  cbn [filter]. destruct (p f); cbn [negb]; rewrite !coverage_cons; lia.
Qed.

(* ------------------------------------------------------ keys and reversal *)
Lemma key_of_reverse f : key_of (frag_reverse f) = key_of f.
Proof. reflexivity. Qed.

Lemma frags_of_app a b : frags_of (a ++ b) = frags_of a ++ frags_of b.
Proof. apply flat_map_app'. Qed.

Lemma frags_of_rows_reverse rows :
  frags_of (rows_reverse rows) = map frag_reverse (rev (frags_of rows)).
Proof.
  unfold rows_reverse. induction rows as [|r rows IH]; [reflexivity|].
  cbn [rev]. rewrite map_app, frags_of_app, IH. cbn [map].
  destruct r as [f|g]; cbn [row_reverse frags_of flat_map app].
  - change (frags_of rows) with (flat_map (fun r => match r with RF f => [f] | RG _ => [] end) rows).
    cbn [rev]. rewrite map_app. reflexivity.
  - rewrite app_nil_r. reflexivity.
Qed.

Lemma keys_rows_reverse rows :
  Permutation (map key_of (frags_of (rows_reverse rows))) (map key_of (frags_of rows)).
Proof.
  rewrite frags_of_rows_reverse, map_map.
  erewrite map_ext by (intro; apply key_of_reverse).
  apply Permutation_map, Permutation_sym, Permutation_rev.
Qed.

Lemma sub_of_input_key input f g :
  key_of f = key_of g -> sub_of_input input f -> sub_of_input input g.
Proof.
  unfold key_of. intros E (c & Hc & H). injection E as E1 E2 E3.
  exists c. rewrite <- E1, <- E2, <- E3. split; assumption.
Qed.

(* ============================== 2. re-adding what was never found *)
Definition unfound (found : list (fkey * (frag * list rid))) (f : frag) : bool :=
  match aget key_eqb found (key_of f) with Some _ => false | None => true end.

Lemma frags_of_gap_rows : forall l, forallb is_gap_row l = true -> frags_of l = [].
Proof.
  induction l as [|[f|gp] l IH]; cbn [forallb is_gap_row andb]; intro H; [reflexivity|discriminate|].
  change (frags_of (RG gp :: l)) with (frags_of l). apply IH, H.
Qed.

(* in both modes the separator is made of gap rows only *)
Lemma frags_of_missing_sep c g between : frags_of (missing_sep c g between) = [].
Proof.
  unfold missing_sep. destruct (fix_gap_run c && forallb is_gap_row between) eqn:E.
  - apply andb_prop in E. apply frags_of_gap_rows, E.
  - destruct (last between _) as [?|?]; reflexivity.
Qed.

Lemma missing_rows_frags_gen c found g : forall rows between i la,
  frags_of (missing_rows c found g rows between i la) = filter (unfound found) (frags_of rows).
Proof.
  induction rows as [|r rows IH]; intros between i la; [reflexivity|].
  cbn [missing_rows]. destruct r as [f|gp].
  - change (frags_of (RF f :: rows)) with (f :: frags_of rows). cbn [filter]. unfold unfound at 1.
    destruct (aget key_eqb found (key_of f)) as [v|].
    + apply IH.
    + rewrite frags_of_app.
      change (frags_of (RF f :: ?t)) with (f :: frags_of t). rewrite IH.
      match goal with |- frags_of ?sep ++ _ = _ => assert (E : frags_of sep = []) end.
      { destruct la as [l|]; [|reflexivity]. destruct (negb (l =? i - 1)); [|reflexivity].
        apply frags_of_missing_sep. }
      rewrite E. reflexivity.
  - change (frags_of (RG gp :: rows)) with (frags_of rows). apply IH.
Qed.

Theorem missing_rows_frags : forall c found g rows,
  frags_of (missing_rows c found g rows [] 0 None)
  = filter (fun f => match aget key_eqb found (key_of f) with Some _ => false | None => true end) (frags_of rows).
Proof. intros. apply missing_rows_frags_gen. Qed.

Definition left_frags (l : list scaffold) : list frag := flat_map (fun sc => frags_of (sc_rows sc)) l.

Lemma add_missing_frags_gen c g found : forall input nm acc nm' left,
  foldM (add_missing_one c g found) input (nm, acc) = Ok (nm', left) ->
  left_frags left = left_frags acc ++ filter (unfound found) (in_frags input).
Proof.
  induction input as [|[name rows] input IH]; intros nm acc nm' left H; cbn [foldM] in H.
  - injection H as _ <-. cbn. rewrite app_nil_r. reflexivity.
  - unfold in_frags. cbn [flat_map snd]. rewrite filter_app. fold (in_frags input).
    rewrite <- (missing_rows_frags_gen c found g rows [] 0 None).
    unfold add_missing_one at 1 in H.
    destruct (missing_rows c found g rows [] 0 None) as [|r0 new_rows] eqn:M.
    + cbn [bind] in H. apply IH in H. rewrite H. reflexivity.
    + destruct (make_scaffold_name nm name (r0 :: new_rows) []) as [nm1|] eqn:N; cbn [bind] in H; [|discriminate].
      apply IH in H. rewrite H. unfold left_frags at 1. rewrite flat_map_app'. cbn [flat_map sc_rows].
      rewrite app_nil_r, app_assoc. reflexivity.
Qed.

Theorem add_missing_frags : forall c g found input nm nm' left,
  foldM (add_missing_one c g found) input (nm, []) = Ok (nm', left) ->
  flat_map (fun sc => frags_of (sc_rows sc)) left
  = filter (fun f => match aget key_eqb found (key_of f) with Some _ => false | None => true end) (in_frags input).
Proof. intros c g found input nm nm' left H. apply add_missing_frags_gen in H. exact H. Qed.

(* ============================================== 3. fusing, naming, sorting *)
Lemma left_frags_app a b : left_frags (a ++ b) = left_frags a ++ left_frags b.
Proof. apply flat_map_app'. Qed.

Lemma frags_append_rows self othr g :
  frags_of (append_rows self othr g) = frags_of self ++ frags_of othr.
Proof.
  unfold append_rows. destruct g as [g'|], self as [|r self]; rewrite ?frags_of_app; try reflexivity.
Qed.

Lemma fuse_step_frags c g acc sc b :
  Permutation (left_frags (map snd (fuse_step c g acc (sc, b))))
              (left_frags (map snd acc) ++ frags_of (sc_rows sc)).
Proof.
  unfold fuse_step. destruct (sc_rows sc) as [|r0 rows0] eqn:R.
  - cbn [frags_of flat_map]. rewrite app_nil_r. apply Permutation_refl.
  - set (k := (if fix_tag_key c then sc_tag sc else None, sc_hap sc, sc_name sc)).
    set (gg := if b || fix_leftover_gap c then Some g else None).
    destruct (aget fuse_key_eqb acc k) as [bsc|] eqn:G.
    + match goal with |- context [aset fuse_key_eqb acc k ?v] =>
        destruct (aset_found fuse_key_eqb acc k bsc v G) as (l1 & k' & l2 & E1 & E2); rewrite E2 end.
      rewrite E1, !map_app. cbn [map snd]. rewrite !left_frags_app.
      change (left_frags (?x :: ?t)) with (frags_of (sc_rows x) ++ left_frags t).
      cbn [sc_rows]. rewrite frags_append_rows.
      rewrite <- !app_assoc. apply Permutation_app_head. apply Permutation_app_head.
      apply Permutation_app_comm.
    + rewrite (aset_missing fuse_key_eqb acc k _ G), map_app, left_frags_app. cbn [map snd].
      unfold left_frags at 2. cbn [flat_map sc_rows]. rewrite frags_append_rows, app_nil_r.
      apply Permutation_refl.
Qed.

Lemma fuse_fold_frags c g : forall pieces acc,
  Permutation (left_frags (map snd (fold_left (fuse_step c g) pieces acc)))
              (left_frags (map snd acc) ++ flat_map (fun p => frags_of (sc_rows (fst p))) pieces).
Proof.
  induction pieces as [|[sc b] pieces IH]; intro acc; cbn [fold_left flat_map fst].
  - rewrite app_nil_r. apply Permutation_refl.
  - eapply perm_trans; [apply IH|]. rewrite app_assoc. apply Permutation_app_tail, fuse_step_frags.
Qed.

Lemma result_frags_mapM store : forall ids results,
  mapM (get_ovr store) ids = Ok results ->
  flat_map (fun id => match get_ovr store id with Ok r => frags_of (o_rows r) | Err _ => [] end) ids
  = flat_map (fun r => frags_of (o_rows r)) results.
Proof.
  induction ids as [|id ids IH]; intros results H; cbn [mapM] in H.
  - injection H as <-. reflexivity.
  - destruct (get_ovr store id) as [r|] eqn:G; cbn [bind] in H; [|discriminate].
    destruct (mapM (get_ovr store) ids) as [rs'|]; cbn [bind] in H; [|discriminate].
    injection H as <-. cbn [flat_map]. rewrite G, (IH _ eq_refl). reflexivity.
Qed.

Lemma keys_to_scaffold_rows r :
  Permutation (map key_of (frags_of (to_scaffold_rows r))) (map key_of (frags_of (o_rows r))).
Proof.
  unfold to_scaffold_rows. destruct (f_strand (o_bait r) =? -1); [apply keys_rows_reverse | apply Permutation_refl].
Qed.

Theorem fuse_all_keys : forall c g rs fused, fuse_all c g rs = Ok fused ->
  Permutation (map key_of (flat_map (fun sc => frags_of (sc_rows sc)) fused))
              (map key_of (result_frags (rs_b rs) ++ flat_map (fun sc => frags_of (sc_rows sc)) (rs_left rs))).
Proof.
  intros c g rs fused H. unfold fuse_all in H.
  destruct (mapM (get_ovr (b_store (rs_b rs))) (b_added (rs_b rs))) as [results|] eqn:M; cbn [bind] in H; [|discriminate].
  injection H as <-. fold left_frags.
  eapply perm_trans; [apply Permutation_map, fuse_fold_frags|].
  cbn [map left_frags flat_map app]. rewrite flat_map_app', !flat_map_map. cbn [fst piece_of_result sc_rows].
  unfold result_frags. rewrite (result_frags_mapM _ _ _ M). rewrite !map_app.
  apply Permutation_app; [|apply Permutation_refl].
  clear M. induction results as [|r results IH]; cbn [flat_map]; [apply perm_nil|].
  rewrite !map_app. apply Permutation_app; [apply keys_to_scaffold_rows | apply IH].
Qed.

(* naming only renames *)
Lemma left_frags_rows l : left_frags l = flat_map frags_of (map sc_rows l).
Proof. unfold left_frags. rewrite flat_map_map. reflexivity. Qed.

Lemma left_frags_same_rows a b : map sc_rows a = map sc_rows b -> left_frags a = left_frags b.
Proof. intro E. rewrite !left_frags_rows, E. reflexivity. Qed.

Lemma name_group_rows prefix n fused g :
  map sc_rows (name_group prefix n fused g) = map sc_rows fused.
Proof.
  unfold name_group.
  apply (fold_left_inv (fun fs => map sc_rows fs = map sc_rows fused)); [|reflexivity].
  intros fs [h hap_set] Hfs.
  apply (fold_left_inv (fun fs => map sc_rows fs = map sc_rows fused)); [|exact Hfs].
  clear fs Hfs. intros fs [[orig idxs] this_chr] Hfs.
  apply (fold_left_inv (fun fs => map sc_rows fs = map sc_rows fused)); [|exact Hfs].
  clear fs Hfs. intros fs i Hfs.
  destruct (nth_error fs i) as [sc|] eqn:N; [|exact Hfs].
  rewrite (map_set_nth_same sc_rows fs i sc _ N); [exact Hfs | reflexivity].
Qed.

Lemma name_chromosomes_rows prefix fused items r :
  name_chromosomes prefix fused items = Ok r -> map sc_rows r = map sc_rows fused.
Proof.
  unfold name_chromosomes. destruct (dedup str_eqb (map fst items)) as [|h0 haps].
  - intro H. injection H as <-. reflexivity.
  - destruct (foldM _ items _) as [st|]; cbn [bind]; [|discriminate].
    destruct (existsb _ _); [discriminate|]. intro H. injection H as <-.
    apply (fold_left_inv (fun s : list scaffold * Z => map sc_rows (fst s) = map sc_rows fused)); [|reflexivity].
    intros [fs n] g Hfs. cbn [fst] in *. rewrite name_group_rows. exact Hfs.
Qed.

(* grouping by assembly key is a partition *)
Definition group_step (acc : list (option str * (bool * list scaffold))) (sc : scaffold) :=
  let '(k, curated) := asm_key_of sc in
  match aget (opt_eqb str_eqb) acc k with
  | Some (cur, scs) => aset (opt_eqb str_eqb) acc k (cur, scs ++ [sc])
  | None => acc ++ [(k, (curated, [sc]))]
  end.

Definition grouped (acc : list (option str * (bool * list scaffold))) : list scaffold :=
  flat_map (fun e => snd (snd e)) acc.

Lemma group_step_perm acc sc : Permutation (grouped (group_step acc sc)) (grouped acc ++ [sc]).
Proof.
  unfold group_step. destruct (asm_key_of sc) as [k curated].
  destruct (aget (opt_eqb str_eqb) acc k) as [[cur scs]|] eqn:G.
  - destruct (aset_found (opt_eqb str_eqb) acc k (cur, scs) (cur, scs ++ [sc]) G) as (l1 & k' & l2 & E1 & E2).
    rewrite E2, E1. unfold grouped. rewrite !flat_map_app'. cbn [flat_map snd].
    rewrite <- !app_assoc. apply Permutation_app_head. apply Permutation_app_head.
    apply Permutation_app_comm.
  - unfold grouped. rewrite flat_map_app'. cbn [flat_map snd]. rewrite app_nil_r. apply Permutation_refl.
Qed.

Lemma group_fold_perm : forall l acc,
  Permutation (grouped (fold_left group_step l acc)) (grouped acc ++ l).
Proof.
  induction l as [|sc l IH]; intro acc; cbn [fold_left].
  - rewrite app_nil_r. apply Permutation_refl.
  - eapply perm_trans; [apply IH|].
    change (sc :: l) with ([sc] ++ l). rewrite app_assoc. apply Permutation_app_tail, group_step_perm.
Qed.

Lemma sort_groups_perm : forall (asms0 : list (option str * (bool * list scaffold))) asms,
  mapM (fun '(k, (curated, scs)) =>
          do sorted <- smart_sort sc_rank sc_name scs; Ok (mkOutAsm k curated sorted)) asms0 = Ok asms ->
  Permutation (flat_map oa_scaffolds asms) (grouped asms0).
Proof.
  induction asms0 as [|[k [curated scs]] asms0 IH]; intros asms H; cbn [mapM] in H.
  - injection H as <-. apply perm_nil.
  - destruct (smart_sort_total sc_rank sc_name scs) as (r & E & P). rewrite E in H. cbn [bind] in H.
    destruct (mapM _ asms0) as [asms'|]; cbn [bind] in H; [|discriminate].
    injection H as <-. unfold grouped. cbn [flat_map oa_scaffolds snd].
    apply Permutation_app; [exact P | apply IH; reflexivity].
Qed.

Lemma out_frags_left o : out_frags o = left_frags (flat_map oa_scaffolds (out_asms o)).
Proof.
  unfold out_frags, left_frags. induction (out_asms o) as [|a l IH]; [reflexivity|].
  cbn [flat_map]. rewrite flat_map_app', IH. reflexivity.
Qed.

Lemma assemblies_out_perm : forall c g prefix input rs o,
  assemblies_with_scaffolds_fused c g prefix input rs = Ok o ->
  exists fused0 fused, fuse_all c g rs = Ok fused0 /\ map sc_rows fused = map sc_rows fused0
    /\ Permutation (flat_map oa_scaffolds (out_asms o)) fused.
Proof.
  intros c g prefix input rs o H. unfold assemblies_with_scaffolds_fused in H.
  destruct (fuse_all c g rs) as [fused0|]; cbn [bind] in H; [|discriminate].
  match type of H with context [name_chromosomes prefix ?f1 ?it] =>
    destruct (name_chromosomes prefix f1 it) as [fused|] eqn:NC end;
    cbn [bind] in H; [|discriminate].
  match type of H with context [mapM ?f ?a0] =>
    destruct (mapM f a0) as [asms|] eqn:MM end; cbn [bind] in H; [|discriminate].
  destruct (make_stats _ _ _) as [[[breaks joins] per]|]; cbn [bind] in H; [|discriminate].
  injection H as <-. cbn [out_asms].
  exists fused0, fused. split; [reflexivity|]. split.
  - rewrite (name_chromosomes_rows _ _ _ _ NC). rewrite map_map.
    apply map_ext. intro sc. destruct (_ && _); reflexivity.
  - eapply perm_trans; [apply (sort_groups_perm _ _ MM)|].
    apply (group_fold_perm fused []).
Qed.

Theorem assemblies_keys : forall c g prefix input rs o,
  assemblies_with_scaffolds_fused c g prefix input rs = Ok o ->
  Permutation (map key_of (out_frags o))
              (map key_of (result_frags (rs_b rs) ++ flat_map (fun sc => frags_of (sc_rows sc)) (rs_left rs))).
Proof.
  intros c g prefix input rs o H.
  destruct (assemblies_out_perm _ _ _ _ _ _ H) as (fused0 & fused & F & R & P).
  eapply perm_trans; [|apply (fuse_all_keys _ _ _ _ F)].
  apply Permutation_map. rewrite out_frags_left. fold (left_frags fused0).
  rewrite <- (left_frags_same_rows _ _ R). apply flat_map_perm, P.
Qed.

(* ===================================================== helper facts for 4 *)
Lemma number_rows_keys : forall rows n,
  map key_of (frags_of (fst (number_rows rows n))) = map key_of (frags_of rows).
Proof.
  induction rows as [|r rows IH]; intro n; [reflexivity|].
  cbn [number_rows]. specialize (IH (n + 1)).
  destruct r as [f|gp]; destruct (number_rows rows (n + 1)) as [t' n']; cbn [fst] in *.
  - change (frags_of (RF ?x :: ?t)) with (x :: frags_of t). cbn [map]. rewrite IH. reflexivity.
  - change (frags_of (RG gp :: ?t)) with (frags_of t). exact IH.
Qed.

Lemma number_input_keys : forall input n, map key_of (in_frags (number_input input n)) = map key_of (in_frags input).
Proof.
  induction input as [|[name rows] input IH]; intro n; [reflexivity|].
  cbn [number_input]. pose proof (number_rows_keys rows n) as K.
  destruct (number_rows rows n) as [rows' n']. cbn [fst] in K.
  unfold in_frags. cbn [flat_map snd]. rewrite !map_app. fold (in_frags (number_input input n')). fold (in_frags input).
  rewrite K, IH. reflexivity.
Qed.

Lemma set_nth_same {A} : forall (l : list A) i x, nth_error l i = Some x -> set_nth l i x = l.
Proof.
  induction l as [|y l IH]; intros [|i] x H; cbn in *; try discriminate.
  - injection H as ->. reflexivity.
  - rewrite (IH i x H). reflexivity.
Qed.

Lemma map_set_nth {A B} (f : A -> B) : forall l i x, map f (set_nth l i x) = set_nth (map f l) i (f x).
Proof. induction l as [|y l IH]; intros [|i] x; cbn; try reflexivity. rewrite IH. reflexivity. Qed.

Lemma mapM_get_ok store : forall ids rs,
  mapM (fun id => do r <- get_ovr store id; Ok (id, r)) ids = Ok rs ->
  Forall (fun p : rid * ovr => get_ovr store (fst p) = Ok (snd p)) rs.
Proof.
  induction ids as [|id ids IH]; intros rs H; cbn [mapM] in H.
  - injection H as <-. constructor.
  - destruct (get_ovr store id) as [r|] eqn:G; cbn [bind] in H; [|discriminate].
    destruct (mapM _ ids) as [rs'|]; cbn [bind] in H; [|discriminate].
    injection H as <-. constructor; [exact G | apply IH; reflexivity].
Qed.

Lemma Forall_combine_l {A B} (P : A -> Prop) : forall (a : list A) (b : list B),
  Forall P a -> Forall (fun p => P (fst p)) (combine a b).
Proof.
  induction a as [|x a IH]; intros [|y b] H; cbn [combine]; try constructor.
  - inversion H; assumption.
  - apply IH. inversion H; assumption.
Qed.

Lemma rename_results_rows : forall store ids store', rename_results store ids = Ok store' ->
  map o_rows store' = map o_rows store.
Proof.
  intros store ids store' H. unfold rename_results in H.
  destruct (mapM _ ids) as [rs|] eqn:M; cbn [bind] in H; [|discriminate].
  injection H as <-. apply mapM_get_ok in M.
  unfold rename_by_size.
  assert (F : Forall (fun p : (rid * ovr) * str => get_ovr store (fst (fst p)) = Ok (snd (fst p)))
                     (combine (sort_by_Z_desc (fun p => o_length (snd p)) rs) (map (fun p => o_name (snd p)) rs))).
  { apply (Forall_combine_l (fun p : rid * ovr => get_ovr store (fst p) = Ok (snd p))).
    eapply Permutation_Forall; [apply Permutation_sym, ssort_perm | exact M]. }
  revert F. generalize (combine (sort_by_Z_desc (fun p => o_length (snd p)) rs) (map (fun p => o_name (snd p)) rs)).
  intros pairs F.
  assert (G : forall st, map o_rows st = map o_rows store ->
              map o_rows (fold_left (fun st '((id, r), n) => put_ovr st id (set_name r n)) pairs st) = map o_rows store).
  { induction F as [|[[id r] n] pairs Hp F IH]; intros st Hst; cbn [fold_left]; [exact Hst|].
    apply IH. cbn [fst snd] in Hp. unfold put_ovr. rewrite map_set_nth, Hst. cbn [set_name o_rows].
    apply set_nth_same. unfold get_ovr in Hp.
    rewrite nth_error_map. destruct (nth_error store (Z.to_nat id)); [|discriminate].
    injection Hp as ->. reflexivity. }
  apply G. reflexivity.
Qed.

(* ====================================================== 4. the tail theorem *)
(* Without well-formed input contigs the statement is false: an input contig
   with start > end that no bait finds is copied to the output, and
   [sub_of_input] demands start <= end of every output fragment. *)
Definition cex_input : list (str * list row) := [(s "sc", [RF (mkFrag 0 (s "c") 5 3 1 [])])].
Definition cex_rs : run_state :=
  mkRun (mkB [] [] [] [] (new_namer (s "SUPER_")) 0)
        [mkScaffold (s "sc") [RF (mkFrag 0 (s "c") 5 3 1 [])] None None 3 None []].

Lemma remap_tail_needs_wf :
  exists o,
    Post cex_input (rs_b cex_rs)
    /\ map key_of (flat_map (fun sc => frags_of (sc_rows sc)) (rs_left cex_rs))
       = map key_of (filter (fun f => negb (is_found (rs_b cex_rs) f)) (in_frags cex_input))
    /\ assemblies_with_scaffolds_fused repaired (mkGap 200 (s "scaffold")) (s "SUPER_") cex_input cex_rs = Ok o
    /\ ~ conserved cex_input o.
Proof.
  eexists. split; [|split; [|split]].
  - split; [intros; reflexivity | constructor].
  - reflexivity.
  - vm_compute. reflexivity.
  - intros [_ F]. cbn in F. inversion F as [|? ? (c & Hc & _ & _ & W & _) _]. cbn in W. lia.
Qed.

(* [stats_input] only feeds make_stats: in [remap] it is the un-numbered input
   while [Post] speaks about the numbered one *)
Theorem remap_tail_gen : forall c g prefix input stats_input rs o,
  Forall (fun f => f_start f <= f_end f) (in_frags input) ->     (* first half of input_ok; see remap_tail_needs_wf *)
  Post input (rs_b rs) ->
  map key_of (flat_map (fun sc => frags_of (sc_rows sc)) (rs_left rs))
    = map key_of (filter (fun f => negb (is_found (rs_b rs) f)) (in_frags input)) ->
  assemblies_with_scaffolds_fused c g prefix stats_input rs = Ok o ->
  conserved input o.
Proof.
  intros c g prefix input stats_input rs o WF [PC PS] L H.
  pose proof (assemblies_keys _ _ _ _ _ _ H) as K. split.
  - intros n x. rewrite (coverage_perm_keys _ _ n x K), coverage_app, PC.
    rewrite (coverage_same_keys _ _ n x L). apply coverage_filter_split.
  - apply Forall_forall. intros f Hf.
    assert (Hk : In (key_of f) (map key_of (out_frags o))) by (apply in_map, Hf).
    eapply Permutation_in in Hk; [|exact K].
    apply in_map_iff in Hk. destruct Hk as (f' & Ek & Hf'). apply in_app_or in Hf'.
    apply (sub_of_input_key input f' f Ek). destruct Hf' as [Hr|Hl].
    + rewrite Forall_forall in PS. apply PS, Hr.
    + assert (Hk : In (key_of f') (map key_of (flat_map (fun sc => frags_of (sc_rows sc)) (rs_left rs))))
        by (apply in_map, Hl).
      rewrite L in Hk. apply in_map_iff in Hk. destruct Hk as (c0 & Ec & Hc).
      apply filter_In in Hc. destruct Hc as [Hc _].
      apply (sub_of_input_key input c0 f' Ec).
      rewrite Forall_forall in WF. specialize (WF c0 Hc). cbv beta in WF.
      exists c0. repeat split; try assumption; lia.
Qed.

Theorem remap_tail : forall c g prefix input rs o,
  Forall (fun f => f_start f <= f_end f) (in_frags input) ->     (* extra hypothesis; see remap_tail_needs_wf *)
  Post input (rs_b rs) ->
  map key_of (flat_map (fun sc => frags_of (sc_rows sc)) (rs_left rs))
    = map key_of (filter (fun f => negb (is_found (rs_b rs) f)) (in_frags input)) ->
  assemblies_with_scaffolds_fused c g prefix input rs = Ok o ->
  conserved input o.
Proof. intros c g prefix input. apply remap_tail_gen. Qed.

(* ===================================================== 1. the QC after a cut *)
Definition qle (a b : frag) : bool :=
  (f_start a <? f_start b) || ((f_start a =? f_start b) && (f_end a <=? f_end b)).

Lemma qle_trans a b c : qle a b = true -> qle b c = true -> qle a c = true.
Proof. unfold qle. lia. Qed.
Lemma qle_total a b : qle a b = true \/ qle b a = true.
Proof. unfold qle. lia. Qed.

Lemma filter_length_le' {A} (p : A -> bool) l : (length (filter p l) <= length l)%nat.
Proof. induction l as [|x l IH]; cbn [filter length]; [lia|]. destruct (p x); cbn [length]; lia. Qed.

Lemma filter_length_all {A} (p : A -> bool) l :
  length (filter p l) = length l -> Forall (fun x => p x = true) l.
Proof.
  induction l as [|x l IH]; cbn [filter length]; intro H; [constructor|].
  destruct (p x) eqn:E; cbn [length] in H.
  - constructor; [exact E | apply IH; lia].
  - pose proof (filter_length_le' p l). lia.
Qed.

Lemma combine_tl_length {A} (l : list A) : length (combine l (tl l)) = pred (length l).
Proof. rewrite combine_length. destruct l; cbn [tl length]; lia. Qed.

(* consecutive elements: end + 1 = next start *)
Fixpoint chain (l : list frag) : Prop :=
  match l with
  | a :: (b :: _) as t => f_end a + 1 = f_start b /\ chain t
  | _ => True
  end.

Fixpoint lastf (a : frag) (t : list frag) : frag :=
  match t with [] => a | b :: t' => lastf b t' end.

Lemma lastf_in : forall t a, In (lastf a t) (a :: t).
Proof. induction t as [|b t IH]; intro a; cbn [lastf]; [left; reflexivity | right; apply IH]. Qed.

Lemma sorted_abut_chain : forall l,
  StronglySorted (fun a b => qle a b = true) l ->
  Forall (fun f => f_start f <= f_end f) l ->
  Forall (fun p : frag * frag => (let '(a, b) := p in abuts a b) = true) (combine l (tl l)) ->
  chain l.
Proof.
  induction l as [|a [|b t] IH]; intros S W AB; cbn [chain]; try exact I.
  cbn [tl combine] in AB. inversion AB as [|? ? Hab AB']; subst.
  inversion S as [|? ? S' Ha]; subst. inversion W as [|? ? Wa W']; subst.
  split; [|apply IH; assumption].
  inversion Ha as [|? ? Hab' _]; subst. inversion W' as [|? ? Wb _]; subst.
  unfold abuts in Hab. unfold qle in Hab'. destruct (str_eqb (f_name a) (f_name b)); cbn [negb] in Hab; [|discriminate].
  lia.
Qed.

Lemma chain_cov nm : forall t a,
  chain (a :: t) ->
  Forall (fun f => f_name f = nm /\ f_start f <= f_end f) (a :: t) ->
  f_start a <= f_end (lastf a t)
  /\ sumZ (map f_len (a :: t)) = f_end (lastf a t) - f_start a + 1
  /\ forall n x, coverage (a :: t) n x
                 = if str_eqb nm n && (f_start a <=? x) && (x <=? f_end (lastf a t)) then 1%nat else 0%nat.
Proof.
  induction t as [|b t IH]; intros a C F.
  - pose proof (Forall_inv F) as [Na Wa]. cbv beta in Na, Wa. cbn [lastf map]. rewrite sumZ_cons, sumZ_nil. unfold f_len.
    repeat split; try lia. intros n x. rewrite coverage_cons, coverage_nil. unfold covers. rewrite Na.
    destruct (str_eqb nm n && (f_start a <=? x) && (x <=? f_end a)); reflexivity.
  - pose proof (Forall_inv F) as [Na Wa]. cbv beta in Na, Wa. pose proof (Forall_inv_tail F) as F'.
    destruct C as [Cab C].
    destruct (IH b C F') as (B1 & B2 & B3). cbn [lastf].
    split; [lia|]. split.
    + change (map f_len (a :: b :: t)) with (f_len a :: map f_len (b :: t)). rewrite sumZ_cons, B2. unfold f_len. lia.
    + intros n x. rewrite coverage_cons, B3. unfold covers. rewrite Na.
      destruct (str_eqb nm n); cbn [andb]; [|reflexivity].
      destruct (f_start a <=? x) eqn:E1, (x <=? f_end a) eqn:E2, (f_start b <=? x) eqn:E3,
               (x <=? f_end (lastf b t)) eqn:E4; cbn [andb]; try reflexivity; lia.
Qed.

Theorem qc_partition : forall orig subs,
  f_start orig <= f_end orig ->
  Forall (fun f => f_name f = f_name orig /\ f_start orig <= f_start f /\ f_start f <= f_end f /\ f_end f <= f_end orig) subs ->
  qc_sub_fragments orig subs = Ok tt ->
  forall n x, coverage subs n x = coverage [orig] n x.
Proof.
  intros orig subs Worig F H n x. unfold qc_sub_fragments in H. fold qle in H.
  set (srtd := stable_sort qle subs) in *.
  destruct (f_len orig =? sumZ (map f_len subs)) eqn:ELen; cbn [negb] in H; [|discriminate].
  destruct (negb (zlen (filter (fun '(a, b) => overlaps a b) (combine srtd (tl srtd))) =? 0)); [discriminate|].
  destruct (zlen (filter (fun '(a, b) => abuts a b) (combine srtd (tl srtd))) =? zlen subs - 1) eqn:EAb;
    cbn [negb] in H; [|discriminate].
  clear H.
  assert (P : Permutation srtd subs) by apply ssort_perm.
  assert (Lsub : length srtd = length subs) by (apply Permutation_length, P).
  pose proof (filter_length_le' (fun '(a, b) => abuts a b) (combine srtd (tl srtd))) as Le.
  pose proof (combine_tl_length srtd) as Lc.
  unfold zlen in EAb.
  assert (AB : Forall (fun p : frag * frag => (let '(a, b) := p in abuts a b) = true) (combine srtd (tl srtd))).
  { apply filter_length_all. lia. }
  assert (Fs : Forall (fun f => f_name f = f_name orig /\ f_start orig <= f_start f /\ f_start f <= f_end f /\ f_end f <= f_end orig) srtd)
    by (eapply Permutation_Forall; [apply Permutation_sym, P | exact F]).
  assert (C : chain srtd).
  { apply sorted_abut_chain; [apply ssort_sorted; [apply qle_trans | apply qle_total] | | exact AB].
    eapply Forall_impl; [|exact Fs]. cbv beta. intros f Hf. lia. }
  rewrite <- (coverage_perm _ _ n x P).
  assert (ES : sumZ (map f_len subs) = sumZ (map f_len srtd))
    by (apply sumZ_perm, Permutation_map, Permutation_sym, P).
  destruct srtd as [|a t] eqn:Es.
  { cbn [length] in *. assert (length subs = 0)%nat by lia. lia. }
  destruct (chain_cov (f_name orig) t a C) as (B1 & B2 & B3).
  { eapply Forall_impl; [|exact Fs]. cbv beta. intros f Hf. split; [apply Hf | lia]. }
  rewrite Forall_forall in Fs.
  pose proof (Fs a (or_introl eq_refl)) as (_ & Ha & _ & _).
  pose proof (Fs _ (lastf_in t a)) as (_ & _ & _ & Hz).
  change (f_len orig) with (f_end orig - f_start orig + 1) in ELen.
  assert (f_start a = f_start orig /\ f_end (lastf a t) = f_end orig) as [E1 E2] by lia.
  rewrite B3, E1, E2, coverage_cons, coverage_nil. unfold covers.
  destruct (str_eqb (f_name orig) n && (f_start orig <=? x) && (x <=? f_end orig)); reflexivity.
Qed.

(* ================== glue: from the state after the cuts to [remap]'s output *)
Lemma get_ovr_rows store id :
  match get_ovr store id with Ok r => frags_of (o_rows r) | Err _ => [] end
  = match nth_error (map o_rows store) (Z.to_nat id) with Some rows => frags_of rows | None => [] end.
Proof. unfold get_ovr. rewrite nth_error_map. destruct (nth_error store (Z.to_nat id)); reflexivity. Qed.

Lemma result_frags_ext b b' :
  map o_rows (b_store b') = map o_rows (b_store b) -> b_added b' = b_added b ->
  result_frags b' = result_frags b.
Proof.
  intros E1 E2. unfold result_frags. rewrite E2. apply flat_map_ext. intro id.
  rewrite !get_ovr_rows, E1. reflexivity.
Qed.

(* [Post] only looks at the rows of the results, the added ids and found_fragments *)
Lemma Post_ext input b b' :
  map o_rows (b_store b') = map o_rows (b_store b) -> b_added b' = b_added b -> b_found b' = b_found b ->
  Post input b -> Post input b'.
Proof.
  intros E1 E2 E3 [PC PS]. unfold Post. rewrite (result_frags_ext b b' E1 E2).
  split; [|exact PS]. intros n x. rewrite PC.
  rewrite (filter_ext (is_found b') (is_found b)); [reflexivity|].
  intro f. unfold is_found. rewrite E3. reflexivity.
Qed.

Lemma wf_same_keys : forall a b, map key_of a = map key_of b ->
  Forall (fun f => f_start f <= f_end f) a -> Forall (fun f => f_start f <= f_end f) b.
Proof.
  induction a as [|x a IH]; intros [|y b] E F; cbn [map] in E; try discriminate; [constructor|].
  injection E as _ Es Ee E2.
  constructor; [|apply (IH b E2), (Forall_inv_tail F)].
  pose proof (Forall_inv F) as W. cbv beta in W. lia.
Qed.

Lemma conserved_same_keys i1 i2 o :
  map key_of (in_frags i1) = map key_of (in_frags i2) -> conserved i1 o -> conserved i2 o.
Proof.
  intros E [CC CS]. split.
  - intros n x. rewrite CC. apply coverage_same_keys, E.
  - eapply Forall_impl; [|exact CS]. intros f (c & Hc & H).
    assert (Hk : In (key_of c) (map key_of (in_frags i1))) by (apply in_map, Hc).
    rewrite E in Hk. apply in_map_iff in Hk. destruct Hk as (c2 & Ek & Hc2).
    unfold key_of in Ek. injection Ek as E1 E2 E3.
    exists c2. rewrite E1, E2, E3. split; assumption.
Qed.

Lemma remap_to_input_inv c g prefix bpt input0 pretext rs :
  remap_to_input c g prefix bpt input0 pretext = Ok rs ->
  exists b1 b2 b3,
    foldM (one_pretext_scaffold (number_input input0 0) (error_length bpt)) pretext
          (mkB [] [] [] [] (new_namer prefix) 0) = Ok b1
    /\ discard_loop (S (S (total_rows pretext + length (b_store b1)
                           + length (concat (map o_rows (b_store b1)))))) (error_length bpt) b1 = Ok b2
    /\ cut_remaining_overhangs c b2 = Ok b3
    /\ map o_rows (b_store (rs_b rs)) = map o_rows (b_store b3)
    /\ b_added (rs_b rs) = b_added b3
    /\ b_found (rs_b rs) = b_found b3
    /\ left_frags (rs_left rs) = filter (unfound (b_found b3)) (in_frags (number_input input0 0)).
Proof.
  unfold remap_to_input. destruct (has_dup_names (map fst input0)); [discriminate|].
  destruct (foldM _ pretext _) as [b1|] eqn:E1; cbn [bind]; [|discriminate].
  destruct (discard_loop _ _ b1) as [b2|] eqn:E2; cbn [bind]; [|discriminate].
  destruct (cut_remaining_overhangs c b2) as [b3|] eqn:E3; cbn [bind]; [|discriminate].
  destruct (rename_results _ _) as [st|] eqn:E4; cbn [bind]; [|discriminate].
  destruct (foldM _ (number_input input0 0) _) as [[nm' left]|] eqn:E5; cbn [bind]; [|discriminate].
  intro H. injection H as <-. cbn [rs_b rs_left fst snd with_namer with_store b_store b_added b_found] in *.
  exists b1, b2, b3. repeat split; try assumption.
  - apply (rename_results_rows _ _ _ E4).
  - apply add_missing_frags_gen in E5. exact E5.
Qed.

(* C01 for [remap], given the first half's [Post] for the state after the cuts *)
Theorem remap_conserved_of_post : forall c g prefix bpt input0 pretext o,
  Forall (fun f => f_start f <= f_end f) (in_frags input0) ->
  (forall b1 b2 b3,
     foldM (one_pretext_scaffold (number_input input0 0) (error_length bpt)) pretext
           (mkB [] [] [] [] (new_namer prefix) 0) = Ok b1 ->
     discard_loop (S (S (total_rows pretext + length (b_store b1)
                         + length (concat (map o_rows (b_store b1)))))) (error_length bpt) b1 = Ok b2 ->
     cut_remaining_overhangs c b2 = Ok b3 ->
     Post (number_input input0 0) b3) ->
  remap c g prefix bpt input0 pretext = Ok o ->
  conserved input0 o.
Proof.
  intros c g prefix bpt input0 pretext o WF HP H. unfold remap in H.
  destruct (remap_to_input c g prefix bpt input0 pretext) as [rs|] eqn:R; cbn [bind] in H; [|discriminate].
  destruct (remap_to_input_inv _ _ _ _ _ _ _ R) as (b1 & b2 & b3 & E1 & E2 & E3 & Er & Ea & Ef & El).
  apply (conserved_same_keys (number_input input0 0) input0 o (number_input_keys input0 0)).
  apply (remap_tail_gen c g prefix (number_input input0 0) input0 rs o).
  - apply (wf_same_keys (in_frags input0)); [symmetry; apply number_input_keys | exact WF].
  - apply (Post_ext _ b3 _ Er Ea Ef), (HP b1 b2 b3 E1 E2 E3).
  - fold (left_frags (rs_left rs)). rewrite El. f_equal. apply filter_ext. intro f.
    unfold unfound, is_found. rewrite Ef. destruct (aget key_eqb (b_found b3) (key_of f)); reflexivity.
  - exact H.
Qed.

Print Assumptions coverage_app.
Print Assumptions coverage_perm.
Print Assumptions coverage_same_keys.
Print Assumptions coverage_filter_split.
Print Assumptions sub_of_input_key.
Print Assumptions qc_partition.
Print Assumptions missing_rows_frags.
Print Assumptions add_missing_frags.
Print Assumptions fuse_all_keys.
Print Assumptions assemblies_keys.
Print Assumptions number_input_keys.
Print Assumptions rename_results_rows.
Print Assumptions remap_tail_needs_wf.
Print Assumptions remap_tail_gen.
Print Assumptions remap_tail.
Print Assumptions Post_ext.
Print Assumptions conserved_same_keys.
Print Assumptions remap_to_input_inv.
Print Assumptions remap_conserved_of_post.
