(* C15 -- the FastaIndex cache protocol (Model/CacheFS.v): safety of the
   repaired (write-temporary-then-rename) protocol for any number of
   processes, any interleaving, any crashes, and refutation of the in-place
   protocol. *)
From Tola Require Import Py.Base Model.CacheFS.
From Coq Require Import Lia ZifyBool.

(* ------------------------------------------------------------ list basics *)
Lemma cfs_set_nth_same {A} (l : list A) n x :
  (n < length l)%nat -> nth_error (set_nth l n x) n = Some x.
Proof.
  revert n; induction l as [|y l IH]; intros [|n] H; cbn [set_nth nth_error length] in *; try lia.
  - reflexivity.
  - apply IH. lia.
Qed.

Lemma cfs_set_nth_other {A} (l : list A) n m x :
  n <> m -> nth_error (set_nth l n x) m = nth_error l m.
Proof.
  revert n m; induction l as [|y l IH]; intros [|n] [|m] H; cbn [set_nth nth_error]; try reflexivity.
  - congruence.
  - apply IH. congruence.
Qed.

Lemma cfs_set_nth_In {A} (l : list A) n x y : In y (set_nth l n x) -> y = x \/ In y l.
Proof.
  revert n; induction l as [|z l IH]; intros [|n]; cbn [set_nth In]; try tauto.
  - intros [E | H]; [left; congruence | right; right; exact H].
  - intros [E | H]; [right; left; exact E |]. destruct (IH _ H); tauto.
Qed.

Lemma cfs_nth_error_lt {A} (l : list A) n x : nth_error l n = Some x -> (n < length l)%nat.
Proof. intro H. apply nth_error_Some. congruence. Qed.

(* ------------------------------------------------------------- invariant *)
(* file [f] is visible and was derived from the FASTA's current content *)
Definition cur (s : fs) (f : cfile) : Prop :=
  exists pl, get_file s f = Some pl /\ p_content pl = fasta_content s.

(* the process has indexed the FASTA's current content *)
Definition built (s : fs) (p : proc) : Prop :=
  pr_content p = fasta_content s /\ pr_index p = HGood (fasta_content s)
  /\ pr_asm p = HGood (fasta_content s).

(* while working on the .agp, the .fai has already been accepted / installed *)
Definition fai_ready (s : fs) (f : cfile) : Prop :=
  match f with Fai => True | Agp => cur s Fai end.

Definition load_inv (s : fs) (p : proc) (f : cfile) : Prop :=
  match f with
  | Fai => cur s Fai /\ cur s Agp
  | Agp => cur s Agp /\ pr_index p = HGood (fasta_content s)
  end.

Definition proc_inv (s : fs) (p : proc) : Prop :=
  match pr_pc p with
  | PStart | PStatFasta | PIndexRead | PDone | PFailed => True
  | PCheck f _ => pr_fasta_stamp p = fasta_stamp s /\ fai_ready s f
  | PLoadOpen f | PLoadRead f => load_inv s p f
  | PWarnExists f | PWriteOpen f => built s p /\ fai_ready s f
  | PWriteBlocks f | PReplace f => built s p /\ fai_ready s f /\ pr_tmp p <= clock s
  end.

Definition fs_inv (s : fs) : Prop :=
  fasta_stamp s <= clock s /\
  forall f pl, get_file s f = Some pl ->
    p_complete pl = true
    /\ (p_stamp pl > fasta_stamp s -> p_content pl = fasta_content s)
    /\ p_stamp pl <= clock s.

Definition Inv (w : world) : Prop :=
  fs_inv (w_fs w) /\ forall p, In p (w_procs w) -> proc_inv (w_fs w) p.

(* what a live process may rely on while other processes and the clock move *)
Definition fs_le (s s' : fs) : Prop :=
  fasta_content s' = fasta_content s /\ fasta_stamp s' = fasta_stamp s /\ clock s <= clock s'
  /\ forall f, cur s f -> cur s' f.

Lemma fs_le_refl s : fs_le s s.
Proof. unfold fs_le. repeat split; auto; lia. Qed.

Lemma proc_inv_mono s s' p : fs_le s s' -> proc_inv s p -> proc_inv s' p.
Proof.
  intros (Hc & Hs & Hk & Hf). unfold proc_inv, built, fai_ready, load_inv.
  destruct (pr_pc p); try (intros; exact Logic.I); try destruct f; rewrite ?Hc, ?Hs;
    intuition (auto; try lia).
Qed.

Lemma not_live_inv s p : live p = false -> proc_inv s p.
Proof. unfold live, proc_inv. destruct (pr_pc p); try discriminate; intros; exact Logic.I. Qed.

Lemma no_live_inv s l : existsb live l = false -> forall p, In p l -> proc_inv s p.
Proof.
  intros H p Hin. apply not_live_inv. destruct (live p) eqn:E; [| reflexivity].
  assert (existsb live l = true) by (apply existsb_exists; exists p; auto). congruence.
Qed.

Ltac inv H := inversion H; subst; clear H.

Ltac brk H :=
  repeat match type of H with
  | context [match ?x with _ => _ end] => destruct x eqn:?; try discriminate H
  end.

Lemma get_set_file s f g x :
  get_file (set_file s f x) g = if cfile_eqb f g then x else get_file s g.
Proof. destruct f, g; reflexivity. Qed.

Lemma set_file_fields s f x :
  fasta_content (set_file s f x) = fasta_content s /\ fasta_stamp (set_file s f x) = fasta_stamp s
  /\ clock (set_file s f x) = clock s.
Proof. destruct f; repeat split. Qed.

Lemma cfile_eqb_eq f g : cfile_eqb f g = true <-> f = g.
Proof. destruct f, g; cbn; split; congruence. Qed.

(* a file accepted by the freshness check has the current content *)
Lemma accept_cur s f pl st :
  fs_inv s -> get_file s f = Some pl -> (p_stamp pl >? st) = true -> st = fasta_stamp s -> cur s f.
Proof.
  intros [_ G] Hg Hgt ->. exists pl. split; [exact Hg |]. apply (G _ _ Hg). lia.
Qed.

Lemma held_cur s f pl :
  fs_inv s -> cur s f -> get_file s f = Some pl -> held_of pl = HGood (fasta_content s).
Proof.
  intros [_ G] (pl' & Hg' & Hc) Hg. rewrite Hg in Hg'. inv Hg'.
  unfold held_of, complete. destruct (G _ _ Hg) as (-> & _). rewrite Hc. reflexivity.
Qed.

(* os.replace of a finished temporary holding the current content *)
Lemma install_inv s f c t :
  fs_inv s -> c = fasta_content s -> t <= clock s ->
  let s' := set_file s f (Some (mkPayload c 0 true t)) in
  fs_inv s' /\ fs_le s s' /\ cur s' f.
Proof.
  intros [Gc G] -> Ht s'. subst s'.
  destruct (set_file_fields s f (Some (mkPayload (fasta_content s) 0 true t))) as (Ec & Es & Ek).
  split; [| split].
  - split; [rewrite Es, Ek; exact Gc |]. intros g pl. rewrite get_set_file, Ec, Es, Ek.
    destruct (cfile_eqb f g).
    + intro H; inv H. cbn. repeat split; auto.
    + apply G.
  - unfold fs_le. rewrite Ec, Es, Ek. repeat split; try lia.
    intros g (pl & Hg & Hc). unfold cur. rewrite get_set_file, Ec.
    destruct (cfile_eqb f g); [eexists; split; [reflexivity | reflexivity] | exists pl; auto].
  - unfold cur. rewrite get_set_file, Ec. replace (cfile_eqb f f) with true by (destruct f; reflexivity).
    eexists; split; reflexivity.
Qed.

(* one operation of one process *)
Lemma step_inv s p o s' p' :
  fs_inv s -> proc_inv s p -> step true s p o = Some (s', p') ->
  fs_inv s' /\ proc_inv s' p' /\ fs_le s s'.
Proof.
  intros G Hp H. unfold proc_inv in Hp. unfold step in H.
  destruct (pr_pc p) eqn:Epc; destruct o; cbn beta iota in H; try discriminate H;
  repeat match goal with f : cfile |- _ => destruct f end;
  cbn [cfile_eqb] in H; try discriminate H;
  try (inv H; split; [exact G | split; [exact Logic.I | apply fs_le_refl]]).
  all: brk H.
  all: try (inv H; split; [exact G | split; [exact Logic.I | apply fs_le_refl]]).
  all: inv H.
  all: try (split; [exact G | split; [| apply fs_le_refl]]).
  all: unfold proc_inv, with_pc;
       cbn [pr_pc pr_fasta_stamp pr_index pr_asm pr_content pr_tmp next_check after_write load_inv fai_ready] in *.
  all: unfold built in *; cbn [pr_pc pr_fasta_stamp pr_index pr_asm pr_content pr_tmp] in *.
  all: try solve [intuition (eauto using accept_cur, held_cur; try lia)].
  - destruct Hp as ((Hc & Hi & Ha) & _ & Ht).
    destruct (install_inv s Fai _ _ G Hc Ht) as (A & B & C).
    split; [exact A | split; [| exact B]]. cbn [fasta_content]. split; [auto | exact C].
  - destruct Hp as ((Hc & Hi & Ha) & _ & Ht).
    destruct (install_inv s Agp _ _ G Hc Ht) as (A & B & C).
    split; [exact A | split; [exact Logic.I | exact B]].
Qed.

Lemma get_file_mkFs c st a b k f : get_file (mkFs c st a b k) f = match f with Fai => a | Agp => b end.
Proof. destruct f; reflexivity. Qed.

Lemma get_file_same_files s c st k f : get_file (mkFs c st (fai s) (agp s) k) f = get_file s f.
Proof. destruct f; reflexivity. Qed.

(* one step of the whole system *)
Lemma env_step_inv w h w' : Inv w -> env_step true w h = Some w' -> Inv w'.
Proof.
  intros [G P] H. destruct w as [s ps]. cbn [w_fs w_procs] in *.
  destruct h; cbn [env_step w_fs w_procs] in H.
  - (* HRewrite *)
    destruct (existsb live ps) eqn:E; [discriminate |]. inv H. split; cbn [w_fs w_procs].
    + destruct G as [Gc G]. split; [cbn; lia |]. intros f pl. rewrite get_file_same_files. intro Hg.
      destruct (G _ _ Hg) as (A & B & C). cbn [fasta_stamp fasta_content clock].
      destruct tick; repeat split; auto; try lia.
    + apply no_live_inv. exact E.
  - (* HDelete *)
    destruct (existsb live ps) eqn:E; [discriminate |]. inv H. split; cbn [w_fs w_procs].
    + destruct G as [Gc G]. destruct (set_file_fields s f None) as (Ec & Es & Ek).
      split; [rewrite Es, Ek; exact Gc |]. intros g pl. rewrite get_set_file, Ec, Es, Ek.
      destruct (cfile_eqb f g); [discriminate | apply G].
    + apply no_live_inv. exact E.
  - (* HTick *)
    inv H. split; cbn [w_fs w_procs].
    + destruct G as [Gc G]. split; [cbn; lia |]. intros f pl. rewrite get_file_same_files. intro Hg.
      destruct (G _ _ Hg) as (A & B & C). cbn [fasta_stamp fasta_content clock]. repeat split; auto; lia.
    + intros p Hin. apply (proc_inv_mono s); [| apply P; exact Hin].
      unfold fs_le. cbn [fasta_stamp fasta_content clock]. repeat split; try lia.
      intros f (pl & Hg & Hc). exists pl. rewrite get_file_same_files. auto.
  - (* HSpawn *)
    inv H. split; cbn [w_fs w_procs]; [exact G |].
    intros p Hin. apply in_app_or in Hin. destruct Hin as [Hin | [<- | []]]; [apply P; exact Hin | exact Logic.I].
  - (* HOp *)
    destruct (nth_error ps pid) as [p |] eqn:En; [| discriminate].
    destruct (live p); [| discriminate].
    destruct (step true s p o) as [[s' p'] |] eqn:Es; [| discriminate]. inv H. cbn [w_fs w_procs].
    destruct (step_inv _ _ _ _ _ G (P _ (nth_error_In _ _ En)) Es) as (G' & P' & L).
    split; [exact G' |]. intros q Hin. apply cfs_set_nth_In in Hin. destruct Hin as [-> | Hin]; [exact P' |].
    apply (proc_inv_mono s); [exact L | apply P; exact Hin].
Qed.

Lemma init_inv : Inv init_world.
Proof.
  split; cbn.
  - split; [cbn; lia |]. intros [|] pl H; discriminate H.
  - intros p [].
Qed.

Lemma run_inv : forall h w w', Inv w -> run true w h = Some w' -> Inv w'.
Proof.
  induction h as [| x t IH]; intros w w' HI H; cbn [run] in H.
  - inv H. exact HI.
  - destruct (env_step true w x) as [w1 |] eqn:E; [| discriminate]. exact (IH _ _ (env_step_inv _ _ _ HI E) H).
Qed.

(* reachable worlds of the repaired protocol *)
Definition reachable (w : world) : Prop := exists h, run true init_world h = Some w.

Lemma reachable_inv w : reachable w -> Inv w.
Proof. intros [h H]. exact (run_inv _ _ _ init_inv H). Qed.

Lemma step_done s p o s' p' :
  fs_inv s -> proc_inv s p -> step true s p o = Some (s', p') -> pr_pc p' = PDone ->
  proc_ok s' p' = true.
Proof.
  intros G Hp H Hd. unfold proc_inv in Hp. unfold step in H.
  destruct (pr_pc p) eqn:Epc; destruct o; cbn beta iota in H; try discriminate H;
  repeat match goal with f : cfile |- _ => destruct f end;
  cbn [cfile_eqb] in H; try discriminate H; brk H; inv H;
  cbn [with_pc pr_pc next_check after_write] in Hd; try discriminate Hd.
  - destruct Hp as [Hc Hi]. unfold proc_ok. cbn [pr_pc pr_index pr_asm].
    rewrite Hi, (held_cur _ _ _ G Hc Heqo), Z.eqb_refl. reflexivity.
  - destruct Hp as ((Hc & Hi & Ha) & _ & Ht). unfold proc_ok, with_pc. cbn [pr_pc pr_index pr_asm fasta_content].
    rewrite Hi, Ha, Z.eqb_refl. reflexivity.
Qed.

(* 1 -- SAFETY: whenever an operation makes a process complete auto_load, what
   it holds is the index and the assembly of the FASTA's current content *)
Theorem safety_at_completion : forall w pid o w' p',
  reachable w -> env_step true w (HOp pid o) = Some w' ->
  nth_error (w_procs w') pid = Some p' -> pr_pc p' = PDone ->
  (match nth_error (w_procs w) pid with Some p => pr_pc p <> PDone | None => True end) ->
  proc_ok (w_fs w') p' = true.
Proof.
  intros w pid o w' p' Hr Hs Hn Hd _. destruct (reachable_inv _ Hr) as [G P].
  destruct w as [s ps]. cbn [env_step w_fs w_procs] in *.
  destruct (nth_error ps pid) as [p |] eqn:En; [| discriminate].
  destruct (live p); [| discriminate].
  destruct (step true s p o) as [[s1 p1] |] eqn:Es; [| discriminate]. inv Hs. cbn [w_fs w_procs] in *.
  rewrite (cfs_set_nth_same _ _ _ (cfs_nth_error_lt _ _ _ En)) in Hn. inv Hn.
  exact (step_done _ _ _ _ _ G (P _ (nth_error_In _ _ En)) Es Hd).
Qed.

(* 2 -- a visible cache file is always complete, and if it is strictly newer
   than the FASTA it was derived from the FASTA's current content *)
Theorem visible_files_complete : forall w f pl, reachable w -> get_file (w_fs w) f = Some pl ->
  p_complete pl = true /\ (p_stamp pl > fasta_stamp (w_fs w) -> p_content pl = fasta_content (w_fs w)).
Proof.
  intros w f pl Hr Hg. destruct (reachable_inv _ Hr) as [[_ G] _].
  destruct (G _ _ Hg) as (A & B & _). split; assumption.
Qed.

(* 3 -- stale or missing cache files are rebuilt, both together *)
Theorem check_rejects_stale : forall s p f pl s' p',
  pr_pc p = PCheck f true -> get_file s f = Some pl -> p_stamp pl <= pr_fasta_stamp p ->
  step true s p (OStat f) = Some (s', p') -> pr_pc p' = PIndexRead.
Proof.
  intros s p f pl s' p' Hpc Hg Hle H. unfold step in H. rewrite Hpc in H.
  replace (cfile_eqb f f) with true in H by (destruct f; reflexivity). rewrite Hg in H.
  replace (p_stamp pl >? pr_fasta_stamp p) with false in H by lia. inv H. reflexivity.
Qed.

Theorem check_rejects_missing : forall s p f s' p',
  pr_pc p = PCheck f false -> get_file s f = None ->
  step true s p (OExists f) = Some (s', p') -> pr_pc p' = PIndexRead.
Proof.
  intros s p f s' p' Hpc Hg H. unfold step in H. rewrite Hpc in H.
  replace (cfile_eqb f f) with true in H by (destruct f; reflexivity). rewrite Hg in H.
  inv H. reflexivity.
Qed.

Theorem indexing_installs_both : forall w pid w' p p',
  reachable w -> nth_error (w_procs w) pid = Some p -> pr_pc p = PReplace Agp ->
  env_step true w (HOp pid (OReplace Agp)) = Some w' -> nth_error (w_procs w') pid = Some p' ->
  pr_pc p' = PDone
  /\ (exists a b, fai (w_fs w') = Some a /\ agp (w_fs w') = Some b /\ p_complete a = true /\ p_complete b = true
        /\ p_content a = fasta_content (w_fs w') /\ p_content b = fasta_content (w_fs w')).
Proof.
  intros w pid w' p p' Hr En Hpc Hs Hn. destruct (reachable_inv _ Hr) as [G P].
  destruct w as [s ps]. cbn [env_step w_fs w_procs] in *. rewrite En in Hs.
  pose proof (P _ (nth_error_In _ _ En)) as Hp. unfold proc_inv in Hp. rewrite Hpc in Hp.
  destruct Hp as ((Hc & Hi & Ha) & (a & Hfa & Hca) & Ht).
  unfold live, step in Hs. rewrite Hpc in Hs. cbn [cfile_eqb after_write] in Hs. inv Hs.
  cbn [w_fs w_procs] in *.
  rewrite (cfs_set_nth_same _ _ _ (cfs_nth_error_lt _ _ _ En)) in Hn. inv Hn.
  split; [reflexivity |]. cbn [set_file fai agp fasta_content].
  exists a. eexists. split; [exact Hfa |]. split; [reflexivity |]. cbn [p_complete p_content].
  destruct G as [_ G]. destruct (G Fai a Hfa) as (A & _). repeat split; auto.
Qed.

(* ------------------------------------------------ 4 -- the old protocol *)
(* process 0 indexes, crashes after opening (truncating) the .agp in place;
   time passes; a fresh process accepts both files and loads the empty .agp *)
Definition legacy_crash_history : list hop :=
  [HTick; HSpawn;
   HOp 0 OExistsFasta; HOp 0 OStatFasta; HOp 0 (OExists Fai); HOp 0 OReadFasta;
   HOp 0 (OExists Fai); HOp 0 (OOpenWrite Fai); HOp 0 (OWriteBlock Fai); HOp 0 (OClose Fai);
   HOp 0 (OExists Agp); HOp 0 (OOpenWrite Agp); HOp 0 OCrash;
   HTick; HSpawn;
   HOp 1 OExistsFasta; HOp 1 OStatFasta; HOp 1 (OExists Fai); HOp 1 (OStat Fai);
   HOp 1 (OExists Agp); HOp 1 (OStat Agp);
   HOp 1 (OOpenRead Fai); HOp 1 (ORead Fai); HOp 1 (OOpenRead Agp); HOp 1 (ORead Agp)].

(* process 1 checks and loads while process 0 is between opening the .agp and
   writing it; nobody crashes, process 0 then finishes normally *)
Definition legacy_race_history : list hop :=
  [HTick; HSpawn; HSpawn;
   HOp 0 OExistsFasta; HOp 0 OStatFasta; HOp 0 (OExists Fai); HOp 0 OReadFasta;
   HOp 0 (OExists Fai); HOp 0 (OOpenWrite Fai); HOp 0 (OWriteBlock Fai); HOp 0 (OClose Fai);
   HOp 0 (OExists Agp); HOp 0 (OOpenWrite Agp);
   HOp 1 OExistsFasta; HOp 1 OStatFasta; HOp 1 (OExists Fai); HOp 1 (OStat Fai);
   HOp 1 (OExists Agp); HOp 1 (OStat Agp);
   HOp 1 (OOpenRead Fai); HOp 1 (ORead Fai); HOp 1 (OOpenRead Agp); HOp 1 (ORead Agp);
   HOp 0 (OWriteBlock Agp); HOp 0 (OClose Agp)].

Theorem legacy_crash_refuted : exists h w, run false init_world h = Some w /\ world_ok w = false.
Proof. exists legacy_crash_history. eexists. split; vm_compute; reflexivity. Qed.

Theorem legacy_race_refuted : exists h w, run false init_world h = Some w /\ world_ok w = false.
Proof. exists legacy_race_history. eexists. split; vm_compute; reflexivity. Qed.

(* in both, it is process 1 that completes (PDone) holding a partial assembly *)
Lemma legacy_crash_outcome :
  option_map (fun w => map (fun p => (pr_pc p, pr_index p, pr_asm p)) (w_procs w))
             (run false init_world legacy_crash_history)
  = Some [(PFailed, HGood 1, HGood 1); (PDone, HGood 1, HPartial 1)].
Proof. vm_compute. reflexivity. Qed.

Lemma legacy_race_outcome :
  option_map (fun w => map (fun p => (pr_pc p, pr_index p, pr_asm p)) (w_procs w))
             (run false init_world legacy_race_history)
  = Some [(PDone, HGood 1, HGood 1); (PDone, HGood 1, HPartial 1)].
Proof. vm_compute. reflexivity. Qed.

(* ------------------------------------------------------ 5 -- non-vacuity *)
(* the repaired protocol performs different operations (os.replace after
   close), so the two histories above are not histories of it *)
Lemma legacy_histories_rejected :
  run true init_world legacy_crash_history = None /\ run true init_world legacy_race_history = None.
Proof. split; vm_compute; reflexivity. Qed.

(* the same scenarios under the repaired protocol: the crash leaves no .agp,
   so process 1 rebuilds both files *)
Definition atomic_crash_history : list hop :=
  [HTick; HSpawn;
   HOp 0 OExistsFasta; HOp 0 OStatFasta; HOp 0 (OExists Fai); HOp 0 OReadFasta;
   HOp 0 (OExists Fai); HOp 0 (OOpenWrite Fai); HOp 0 (OWriteBlock Fai); HOp 0 (OClose Fai);
   HOp 0 (OReplace Fai);
   HOp 0 (OExists Agp); HOp 0 (OOpenWrite Agp); HOp 0 OCrash;
   HTick; HSpawn;
   HOp 1 OExistsFasta; HOp 1 OStatFasta; HOp 1 (OExists Fai); HOp 1 (OStat Fai);
   HOp 1 (OExists Agp); HOp 1 OReadFasta;
   HOp 1 (OExists Fai); HOp 1 (OOpenWrite Fai); HOp 1 (OWriteBlock Fai); HOp 1 (OClose Fai);
   HOp 1 (OReplace Fai);
   HOp 1 (OExists Agp); HOp 1 (OOpenWrite Agp); HOp 1 (OWriteBlock Agp); HOp 1 (OClose Agp);
   HOp 1 (OReplace Agp)].

(* two racing processes, both indexing: process 1 accepts the .fai process 0
   installed, finds no .agp (it is still a private temporary of process 0),
   rebuilds; both install their files, both complete *)
Definition atomic_race_history : list hop :=
  [HTick; HSpawn; HSpawn;
   HOp 0 OExistsFasta; HOp 0 OStatFasta; HOp 0 (OExists Fai); HOp 0 OReadFasta;
   HOp 0 (OExists Fai); HOp 0 (OOpenWrite Fai); HOp 0 (OWriteBlock Fai); HOp 0 (OClose Fai);
   HOp 0 (OReplace Fai);
   HOp 0 (OExists Agp); HOp 0 (OOpenWrite Agp);
   HOp 1 OExistsFasta; HOp 1 OStatFasta; HOp 1 (OExists Fai); HOp 1 (OStat Fai);
   HOp 1 (OExists Agp); HOp 1 OReadFasta;
   HOp 1 (OExists Fai); HOp 1 (OOpenWrite Fai);
   HOp 0 (OWriteBlock Agp);
   HOp 1 (OWriteBlock Fai); HOp 1 (OClose Fai);
   HOp 0 (OClose Agp);
   HOp 1 (OReplace Fai);
   HOp 0 (OReplace Agp);
   HOp 1 (OExists Agp); HOp 1 (OOpenWrite Agp); HOp 1 (OWriteBlock Agp); HOp 1 (OClose Agp);
   HOp 1 (OReplace Agp)].

(* two racing processes, one indexing and one loading: process 1 checks the
   .fai, process 0 installs the .agp, process 1 checks the .agp and loads both *)
Definition atomic_race_load_history : list hop :=
  [HTick; HSpawn; HSpawn;
   HOp 0 OExistsFasta; HOp 0 OStatFasta; HOp 0 (OExists Fai); HOp 0 OReadFasta;
   HOp 0 (OExists Fai); HOp 0 (OOpenWrite Fai); HOp 0 (OWriteBlock Fai); HOp 0 (OClose Fai);
   HOp 0 (OReplace Fai);
   HOp 1 OExistsFasta; HOp 1 OStatFasta; HOp 1 (OExists Fai);
   HOp 0 (OExists Agp); HOp 0 (OOpenWrite Agp); HOp 0 (OWriteBlock Agp);
   HOp 1 (OStat Fai);
   HOp 0 (OClose Agp); HOp 0 (OReplace Agp);
   HOp 1 (OExists Agp); HOp 1 (OStat Agp);
   HOp 1 (OOpenRead Fai); HOp 1 (ORead Fai); HOp 1 (OOpenRead Agp); HOp 1 (ORead Agp)].

Definition outcome (w : world) := map (fun p => (pr_pc p, pr_index p, pr_asm p)) (w_procs w).

Theorem atomic_crash_safe : exists w,
  run true init_world atomic_crash_history = Some w /\ world_ok w = true
  /\ outcome w = [(PFailed, HGood 1, HGood 1); (PDone, HGood 1, HGood 1)].
Proof. eexists. split; [vm_compute; reflexivity |]. split; vm_compute; reflexivity. Qed.

Theorem atomic_race_safe : exists w,
  run true init_world atomic_race_history = Some w /\ world_ok w = true
  /\ outcome w = [(PDone, HGood 1, HGood 1); (PDone, HGood 1, HGood 1)].
Proof. eexists. split; [vm_compute; reflexivity |]. split; vm_compute; reflexivity. Qed.

Theorem atomic_race_load_safe : exists w,
  run true init_world atomic_race_load_history = Some w /\ world_ok w = true
  /\ outcome w = [(PDone, HGood 1, HGood 1); (PDone, HGood 1, HGood 1)].
Proof. eexists. split; [vm_compute; reflexivity |]. split; vm_compute; reflexivity. Qed.

(* the hypotheses of the safety theorem are met by these histories: their
   final worlds are reachable *)
Lemma atomic_race_reachable : exists w, reachable w /\ outcome w = [(PDone, HGood 1, HGood 1); (PDone, HGood 1, HGood 1)].
Proof.
  destruct atomic_race_safe as (w & H & _ & O). exists w. split; [exists atomic_race_history; exact H | exact O].
Qed.

Print Assumptions safety_at_completion.
Print Assumptions visible_files_complete.
Print Assumptions check_rejects_stale.
Print Assumptions check_rejects_missing.
Print Assumptions indexing_installs_both.
Print Assumptions legacy_crash_refuted.
Print Assumptions legacy_race_refuted.
Print Assumptions legacy_histories_rejected.
Print Assumptions atomic_crash_safe.
Print Assumptions atomic_race_safe.
Print Assumptions atomic_race_load_safe.
