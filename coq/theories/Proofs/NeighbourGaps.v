(* C07, second sentence, END TO END through [remap], for EVERY input and EVERY
   Pretext map: whenever two fragments follow each other in an output scaffold
   with only gap rows [mid] between them (mid = [] : directly adjacent), then
   either mid is exactly the configured join gap, or the two fragments are
   pieces of two input contigs that follow each other in ONE input scaffold
   with exactly the same gap rows between them (read in the same direction, or
   -- for a piece presented reversed -- in the opposite direction with every
   strand inverted), or -- third case, see [skipped] and
   [third_disjunct_needed] -- they are two contigs of one input scaffold that
   were NOT neighbours (contigs placed elsewhere by the map lay between them)
   and mid is the single input gap row that directly preceded the second one.
   In particular: directly adjacent output fragments were directly adjacent in
   the input.

   The third case is add_missing_scaffolds_from_input's branch
   `elif isinstance(between[-1], Gap): new_scffld.add_row(between[-1])`
   ([missing_sep], middle branch).  It needs a contig that a lookup found lying
   between two contigs that no lookup found, inside one input scaffold, which a
   map that tiles every scaffold it shows cannot produce.  Without it the
   statement is false: [neighbour_gaps_original_refuted].  It arises only
   inside a left-over scaffold ([neighbour_gaps_fused]) and disappears when
   every input gap row equals the join gap ([neighbour_gaps_uniform_gaps]). *)
From Tola Require Import Py.Base Py.Sort Model.Fragment Model.Scaffold Model.Lookup
  Model.OverlapResult Model.OvrSpec Model.NaturalKey Model.Namer Model.Remap Model.RemapSpec
  Proofs.BaseLemmas Proofs.Lookup Proofs.OverlapResult Proofs.RemapHead Proofs.JoinGaps
  Proofs.GapProvenance Proofs.PipelineInv.
From Tola Require Proofs.RemapTail.
From Coq Require Import Lia ZifyBool Permutation String.

(* x, then only the gap rows mid, then y *)
Definition consecutive (rows : list row) (x : frag) (mid : list gap) (y : frag) : Prop :=
  exists pre post, rows = pre ++ RF x :: map RG mid ++ RF y :: post.

(* f is a piece of the input contig o, read in direction sg (1 same, -1 reversed) *)
Definition piece_of (sg : Z) (o f : frag) : Prop :=
  f_name f = f_name o /\ f_start o <= f_start f /\ f_end f <= f_end o
  /\ f_strand f = sg * f_strand o.

(* ox ... oy in one scaffold, NOT neighbours: at least one other contig lies
   between them, and gp is the gap row directly before oy *)
Definition skipped (rows : list row) (ox : frag) (gp : gap) (oy : frag) : Prop :=
  exists pre btw post, rows = pre ++ RF ox :: btw ++ RG gp :: RF oy :: post
                       /\ exists f, In (RF f) btw.

(* x and y are pieces of two contigs that were neighbours in ONE input scaffold,
   with the same gap rows between them (second disjunct: presented reversed) *)
Definition same_neighbours (input : list (str * list row)) (x : frag) (mid : list gap) (y : frag) : Prop :=
  exists isc ox oy, In isc input
    /\ ((consecutive (snd isc) ox mid oy /\ piece_of 1 ox x /\ piece_of 1 oy y)
        \/ (consecutive (snd isc) oy (rev mid) ox /\ piece_of (-1) ox x /\ piece_of (-1) oy y)).

(* x before y in ONE input scaffold, at least one other contig between them,
   and mid is the single input gap row directly before y *)
Definition skipped_neighbours (input : list (str * list row)) (x : frag) (mid : list gap) (y : frag) : Prop :=
  exists isc ox oy gp, In isc input
    /\ mid = [gp] /\ skipped (snd isc) ox gp oy /\ piece_of 1 ox x /\ piece_of 1 oy y.

Definition neighbour_gaps_statement : Prop :=
  forall g prefix bpt input pretext o,
  Forall (fun isc => pos_rows (snd isc)) input ->
  remap repaired g prefix bpt input pretext = Ok o ->
  forall a sc x mid y,
    In a (out_asms o) -> In sc (oa_scaffolds a) -> consecutive (sc_rows sc) x mid y ->
    mid = [g] \/ same_neighbours input x mid y \/ skipped_neighbours input x mid y.

(* the statement first proposed, without the third case: FALSE, see
   [neighbour_gaps_original_refuted] *)
Definition neighbour_gaps_original_statement : Prop :=
  forall g prefix bpt input pretext o,
  Forall (fun isc => pos_rows (snd isc)) input ->
  remap repaired g prefix bpt input pretext = Ok o ->
  forall a sc x mid y,
    In a (out_asms o) -> In sc (oa_scaffolds a) -> consecutive (sc_rows sc) x mid y ->
    mid = [g]
    \/ exists isc ox oy, In isc input
         /\ ((consecutive (snd isc) ox mid oy /\ piece_of 1 ox x /\ piece_of 1 oy y)
             \/ (consecutive (snd isc) oy (rev mid) ox /\ piece_of (-1) ox x /\ piece_of (-1) oy y)).

(* ================================================================ pieces *)
Lemma piece_of_refl f : piece_of 1 f f.
Proof. unfold piece_of. repeat split; lia. Qed.

Lemma piece_of_trans sg o0 o f : piece_of 1 o0 o -> piece_of sg o f -> piece_of sg o0 f.
Proof.
  intros (N1 & S1 & E1 & T1) (N2 & S2 & E2 & T2). unfold piece_of.
  split; [congruence|]. split; [lia|]. split; [lia|]. rewrite T2, T1. lia.
Qed.

Lemma trimmed_piece_of o f ls le : trimmed o f ls le -> piece_of 1 o f.
Proof.
  intros (N & S & L1 & L2 & _ & C). unfold piece_of. split; [exact N|].
  destruct (f_strand o =? 1); destruct C as [C1 C2]; repeat split; lia.
Qed.

Lemma piece_of_reverse o f : piece_of 1 o f -> piece_of (-1) o (frag_reverse f).
Proof.
  intros (N & S & E & T). unfold piece_of, frag_reverse. cbn [f_name f_start f_end f_strand].
  repeat split; try assumption. lia.
Qed.

(* ========================================================== consecutive *)
Lemma consecutive_cons c rows x mid y : consecutive rows x mid y -> consecutive (c :: rows) x mid y.
Proof. intros (pre & post & ->). exists (c :: pre), post. reflexivity. Qed.

Lemma consecutive_app a rows b x mid y :
  consecutive rows x mid y -> consecutive (a ++ rows ++ b) x mid y.
Proof.
  intros (pre & post & ->). exists (a ++ pre), (post ++ b).
  rewrite <- !app_assoc. cbn [app]. rewrite <- !app_assoc. reflexivity.
Qed.

Lemma skipped_cons c rows x gp y : skipped rows x gp y -> skipped (c :: rows) x gp y.
Proof. intros (pre & btw & post & -> & Hf). exists (c :: pre), btw, post. split; [reflexivity | exact Hf]. Qed.

(* a list of gap rows followed by a fragment: the decomposition is unique *)
Lemma gaps_then_frag_inj : forall m1 m2 y1 y2 p1 p2,
  map RG m1 ++ RF y1 :: p1 = map RG m2 ++ RF y2 :: p2 -> m1 = m2 /\ y1 = y2 /\ p1 = p2.
Proof.
  induction m1 as [|a m1 IH]; intros [|b m2] y1 y2 p1 p2 E; cbn [map app] in E.
  - injection E as -> ->. repeat split.
  - discriminate.
  - discriminate.
  - injection E as -> E. destruct (IH _ _ _ _ _ E) as (-> & -> & ->). repeat split.
Qed.

Lemma gap_rows_map : forall sp, forallb is_gap_row sp = true -> exists m, sp = map RG m.
Proof.
  induction sp as [|[f|gp] sp IH]; cbn [forallb is_gap_row andb]; intros H.
  - exists []. reflexivity.
  - discriminate.
  - destruct (IH H) as (m & ->). exists (gp :: m). reflexivity.
Qed.

(* leading gap rows can be dropped *)
Lemma consecutive_skip_gaps : forall m rows x mid y,
  consecutive (map RG m ++ rows) x mid y -> consecutive rows x mid y.
Proof.
  induction m as [|a m IH]; intros rows x mid y H; cbn [map app] in H; [exact H|].
  apply IH. destruct H as (pre & post & E). destruct pre as [|c pre]; cbn [app] in E; [discriminate|].
  injection E as _ E. exists pre, post. exact E.
Qed.

Lemma consecutive_head f rows x mid y :
  consecutive (RF f :: rows) x mid y ->
  (x = f /\ exists post, rows = map RG mid ++ RF y :: post) \/ consecutive rows x mid y.
Proof.
  intros (pre & post & E). destruct pre as [|c pre]; cbn [app] in E.
  - injection E as -> ->. left. split; [reflexivity|]. exists post. reflexivity.
  - injection E as _ ->. right. exists pre, post. reflexivity.
Qed.

(* ---------------------------------------------------- across a join gap *)
Lemma last_frag_tail c a : last_frag (c :: a) -> a = [] \/ last_frag a.
Proof.
  intros (f & t & E). destruct t as [|c' t]; cbn [app] in E.
  - injection E as _ ->. left. reflexivity.
  - injection E as _ ->. right. exists f, t. reflexivity.
Qed.

Lemma gaps_into_join g b y post : head_frag b -> forall mid a,
  a = [] \/ last_frag a ->
  map RG mid ++ RF y :: post = a ++ RG g :: b ->
  (exists post', a = map RG mid ++ RF y :: post') \/ (a = [] /\ mid = [g]).
Proof.
  intros (fb & tb & ->). induction mid as [|m mid IH]; intros a Ha E; cbn [map app] in E.
  - destruct a as [|c a]; cbn [app] in E; [discriminate|]. injection E as <- ->.
    left. exists a. reflexivity.
  - destruct a as [|c a]; cbn [app] in E.
    + injection E as -> E. right. split; [reflexivity|].
      destruct mid as [|m' mid]; cbn [map app] in E; [reflexivity | discriminate].
    + injection E as <- E.
      assert (Ha' : a = [] \/ last_frag a).
      { destruct Ha as [Ha | Ha]; [discriminate | eapply last_frag_tail; exact Ha]. }
      destruct (IH a Ha' E) as [(post' & ->) | [-> _]].
      * left. exists post'. reflexivity.
      * exfalso. destruct Ha as [Ha | (f & t & Ha)]; [discriminate|].
        destruct t as [|c' t]; cbn [app] in Ha; [discriminate|].
        injection Ha as _ Ha. destruct t; discriminate.
Qed.

Lemma consecutive_join g b x mid y : head_frag b -> forall pre post a,
  a = [] \/ last_frag a ->
  pre ++ RF x :: map RG mid ++ RF y :: post = a ++ RG g :: b ->
  consecutive a x mid y \/ consecutive b x mid y \/ mid = [g].
Proof.
  intros Hb. induction pre as [|c pre IH]; intros post a Ha E; cbn [app] in E.
  - destruct a as [|c a]; cbn [app] in E; [discriminate|]. injection E as <- E.
    assert (Ha' : a = [] \/ last_frag a).
    { destruct Ha as [Ha | Ha]; [discriminate | eapply last_frag_tail; exact Ha]. }
    destruct (gaps_into_join g b y post Hb mid a Ha' E) as [(post' & ->) | [_ ->]].
    + left. exists [], post'. reflexivity.
    + right. right. reflexivity.
  - destruct a as [|c' a]; cbn [app] in E.
    + injection E as _ <-. right. left. exists pre, post. reflexivity.
    + injection E as <- E.
      assert (Ha' : a = [] \/ last_frag a).
      { destruct Ha as [Ha | Ha]; [discriminate | eapply last_frag_tail; exact Ha]. }
      destruct (IH post a Ha' E) as [H | H]; [left; apply consecutive_cons; exact H | right; exact H].
Qed.

(* ------------------------------------------- row lists related row by row *)
Definition row_rel (R : frag -> frag -> Prop) (a b : row) : Prop :=
  match a, b with
  | RF f, RF o => R f o
  | RG g1, RG g2 => g1 = g2
  | _, _ => False
  end.

Section Rel.
  Variable R : frag -> frag -> Prop.

  Lemma rel_gaps : forall m l, Forall2 (row_rel R) (map RG m) l -> l = map RG m.
  Proof.
    induction m as [|a m IH]; intros l H; cbn [map] in H; inversion H as [|? b ? l' Hab Hl]; subst.
    - reflexivity.
    - destruct b as [f|g2]; cbn [row_rel] in Hab; [contradiction|]. subst g2.
      cbn [map]. f_equal. apply IH. exact Hl.
  Qed.

  Lemma rel_frag_cons x t l : Forall2 (row_rel R) (RF x :: t) l ->
    exists x' t', l = RF x' :: t' /\ R x x' /\ Forall2 (row_rel R) t t'.
  Proof.
    intros H. inversion H as [|? b ? l' Hab Hl]; subst.
    destruct b as [x'|g2]; cbn [row_rel] in Hab; [|contradiction].
    exists x', l'. repeat split; assumption.
  Qed.

  Lemma rel_gap_cons gp t l : Forall2 (row_rel R) (RG gp :: t) l ->
    exists t', l = RG gp :: t' /\ Forall2 (row_rel R) t t'.
  Proof.
    intros H. inversion H as [|? b ? l' Hab Hl]; subst.
    destruct b as [x'|g2]; cbn [row_rel] in Hab; [contradiction|]. subst g2.
    exists l'. split; [reflexivity | exact Hl].
  Qed.

  Lemma rel_has_frag : forall l l' f, Forall2 (row_rel R) l l' -> In (RF f) l -> exists f', In (RF f') l'.
  Proof.
    intros l l' f H. induction H as [|a b l l' Hab Hl IH]; intros Hin; [destruct Hin|].
    destruct Hin as [-> | Hin].
    - destruct b as [f'|g2]; cbn [row_rel] in Hab; [|contradiction]. exists f'. left. reflexivity.
    - destruct (IH Hin) as (f' & Hf'). exists f'. right. exact Hf'.
  Qed.

  Lemma consecutive_rel rows rows' x mid y :
    Forall2 (row_rel R) rows rows' -> consecutive rows x mid y ->
    exists x' y', consecutive rows' x' mid y' /\ R x x' /\ R y y'.
  Proof.
    intros H (pre & post & ->).
    apply Forall2_app_inv_l in H. destruct H as (pre' & l1 & _ & H & ->).
    apply rel_frag_cons in H. destruct H as (x' & l2 & -> & Hx & H).
    apply Forall2_app_inv_l in H. destruct H as (m' & l3 & Hm & H & ->).
    apply rel_gaps in Hm. subst m'.
    apply rel_frag_cons in H. destruct H as (y' & post' & -> & Hy & _).
    exists x', y'. split; [exists pre', post'; reflexivity | split; assumption].
  Qed.

  Lemma skipped_rel rows rows' x gp y :
    Forall2 (row_rel R) rows rows' -> skipped rows x gp y ->
    exists x' y', skipped rows' x' gp y' /\ R x x' /\ R y y'.
  Proof.
    intros H (pre & btw & post & -> & (f & Hf)).
    apply Forall2_app_inv_l in H. destruct H as (pre' & l1 & _ & H & ->).
    apply rel_frag_cons in H. destruct H as (x' & l2 & -> & Hx & H).
    apply Forall2_app_inv_l in H. destruct H as (btw' & l3 & Hb & H & ->).
    apply rel_gap_cons in H. destruct H as (l4 & -> & H).
    apply rel_frag_cons in H. destruct H as (y' & post' & -> & Hy & _).
    destruct (rel_has_frag _ _ _ Hb Hf) as (f' & Hf').
    exists x', y'. split; [|split; assumption].
    exists pre', btw', post'. split; [reflexivity|]. exists f'. exact Hf'.
  Qed.
End Rel.

Lemma Forall2_row_refl (R : frag -> frag -> Prop) : (forall f, R f f) ->
  forall l, Forall2 (row_rel R) l l.
Proof.
  intros HR. induction l as [|[f|gp] l IH]; constructor; try exact IH; cbn [row_rel]; [apply HR | reflexivity].
Qed.

(* ============================================================== reversal *)
Lemma frag_reverse_invol f : frag_reverse (frag_reverse f) = f.
Proof. destruct f as [i n st en sd tg]. unfold frag_reverse. cbn. f_equal. lia. Qed.

Lemma row_reverse_invol r : row_reverse (row_reverse r) = r.
Proof. destruct r as [f|gp]; cbn [row_reverse]; [rewrite frag_reverse_invol|]; reflexivity. Qed.

Lemma rows_reverse_app a b : rows_reverse (a ++ b) = rows_reverse b ++ rows_reverse a.
Proof. unfold rows_reverse. rewrite rev_app_distr, map_app. reflexivity. Qed.

Lemma rows_reverse_cons c a : rows_reverse (c :: a) = rows_reverse a ++ [row_reverse c].
Proof. unfold rows_reverse. cbn [rev]. rewrite map_app. reflexivity. Qed.

Lemma rows_reverse_invol rows : rows_reverse (rows_reverse rows) = rows.
Proof.
  induction rows as [|c rows IH]; [reflexivity|].
  rewrite rows_reverse_cons, rows_reverse_app, IH. cbn [rows_reverse rev app map].
  rewrite row_reverse_invol. reflexivity.
Qed.

Lemma rows_reverse_gaps m : rows_reverse (map RG m) = map RG (rev m).
Proof.
  induction m as [|a m IH]; [reflexivity|]. cbn [map rev].
  rewrite rows_reverse_cons, IH, map_app. reflexivity.
Qed.

Lemma consecutive_rows_reverse rows x mid y :
  consecutive rows x mid y ->
  consecutive (rows_reverse rows) (frag_reverse y) (rev mid) (frag_reverse x).
Proof.
  intros (pre & post & ->).
  exists (rows_reverse post), (rows_reverse pre).
  rewrite rows_reverse_app, rows_reverse_cons, rows_reverse_app, rows_reverse_cons, rows_reverse_gaps.
  cbn [row_reverse]. rewrite <- !app_assoc. cbn [app]. reflexivity.
Qed.

(* read the other way round *)
Lemma consecutive_in_reversed rows x mid y :
  consecutive (rows_reverse rows) x mid y ->
  exists x' y', x = frag_reverse x' /\ y = frag_reverse y' /\ consecutive rows y' (rev mid) x'.
Proof.
  intros H. apply consecutive_rows_reverse in H. rewrite rows_reverse_invol in H.
  exists (frag_reverse x), (frag_reverse y). rewrite !frag_reverse_invol. repeat split. exact H.
Qed.

(* ============================================ (a) pieces that are results *)
Definition is_piece (f o : frag) : Prop := piece_of 1 o f.

Lemma rows_rel_pieces slice rows ls le :
  rows_rel slice rows ls le -> Forall2 (row_rel is_piece) rows slice.
Proof.
  intros [(o & f & -> & -> & Ht) | (o1 & f1 & m & o2 & f2 & -> & -> & Ht1 & Ht2)].
  - constructor; [|constructor]. cbn [row_rel]. eapply trimmed_piece_of. exact Ht.
  - constructor; [cbn [row_rel]; eapply trimmed_piece_of; exact Ht1|].
    apply Forall2_app; [apply Forall2_row_refl; intro f; apply piece_of_refl|].
    constructor; [|constructor]. cbn [row_rel]. eapply trimmed_piece_of. exact Ht2.
Qed.

Lemma consecutive_not_nil x mid y : ~ consecutive [] x mid y.
Proof. intros (pre & post & E). destruct pre; discriminate. Qed.

Lemma result_consecutive src r x mid y :
  OvrSpec.Inv src r -> consecutive (o_rows r) x mid y ->
  exists ox oy, consecutive src ox mid oy /\ piece_of 1 ox x /\ piece_of 1 oy y.
Proof.
  intros [E | (i & n & ls & le & _ & _ & Hrel & _)] H.
  - rewrite E in H. exfalso. eapply consecutive_not_nil. exact H.
  - apply rows_rel_pieces in Hrel.
    destruct (consecutive_rel is_piece _ _ _ _ _ Hrel H) as (ox & oy & Hc & Hx & Hy).
    exists ox, oy. split; [|split; assumption].
    rewrite <- (firstn_skipn i src). rewrite <- (firstn_skipn n (skipn i src)).
    apply consecutive_app. exact Hc.
Qed.

Lemma result_piece_neighbours inp name src r x mid y :
  In (name, src) inp -> OvrSpec.Inv src r ->
  consecutive (to_scaffold_rows r) x mid y -> same_neighbours inp x mid y.
Proof.
  intros Hin HI H. unfold to_scaffold_rows in H. destruct (f_strand (o_bait r) =? -1).
  - apply consecutive_in_reversed in H. destruct H as (x' & y' & -> & -> & H).
    destruct (result_consecutive _ _ _ _ _ HI H) as (oy & ox & Hc & Hy & Hx).
    exists (name, src), ox, oy. split; [exact Hin|]. right. cbn [snd].
    split; [exact Hc|]. split; apply piece_of_reverse; assumption.
  - destruct (result_consecutive _ _ _ _ _ HI H) as (ox & oy & Hc & Hx & Hy).
    exists (name, src), ox, oy. split; [exact Hin|]. left. cbn [snd]. split; [exact Hc|]. split; assumption.
Qed.

(* ================================= (b) pieces that are left-over scaffolds *)
Section Missing.
  Variable found : list (fkey * (frag * list rid)).
  Variable g : gap.

  (* the separator of the repaired code, by cases *)
  Lemma missing_sep_repaired between :
    missing_sep repaired g between = between /\ forallb is_gap_row between = true
    \/ (exists b' gp f, between = b' ++ [RG gp] /\ In (RF f) b' /\ missing_sep repaired g between = [RG gp])
    \/ missing_sep repaired g between = [RG g].
  Proof.
    unfold missing_sep. cbn [repaired fix_gap_run andb].
    destruct (forallb is_gap_row between) eqn:E; [left; split; reflexivity|]. right.
    destruct (exists_last' between) as [-> | (b' & z & ->)]; [discriminate|].
    rewrite last_last. destruct z as [f|gp]; [right; reflexivity|]. left.
    rewrite forallb_app in E. cbn [forallb is_gap_row andb] in E. rewrite andb_true_r in E.
    assert (Hf : exists f, In (RF f) b').
    { clear - E. induction b' as [|[f|g0] b' IH]; cbn [forallb is_gap_row andb] in E.
      - discriminate.
      - exists f. left. reflexivity.
      - destruct (IH E) as (f & Hf). exists f. right. exact Hf. }
    destruct Hf as (f & Hf). exists b', gp, f. repeat split. exact Hf.
  Qed.

  (* the output of missing_rows after a re-added contig: leading gaps m, then y *)
  Definition lead_ok (rows : list row) (m : list gap) (y : frag) : Prop :=
    m = [g]
    \/ (exists post, rows = map RG m ++ RF y :: post)
    \/ (exists gp btw post f, m = [gp] /\ rows = btw ++ RG gp :: RF y :: post /\ In (RF f) btw).

  Lemma missing_rows_lead : forall rows between i j m y post,
    j < i -> (j = i - 1 -> between = []) ->
    missing_rows repaired found g rows between i (Some j) = map RG m ++ RF y :: post ->
    lead_ok (between ++ rows) m y.
  Proof.
    induction rows as [|r t IH]; intros between i j m y post Hj Hb E; cbn [missing_rows] in E.
    - destruct m; discriminate.
    - assert (Hrec : missing_rows repaired found g t (between ++ [r]) (i + 1) (Some j) = map RG m ++ RF y :: post ->
                     lead_ok (between ++ r :: t) m y).
      { intros E'. apply IH in E'; [|lia|intros; lia]. rewrite <- app_assoc in E'. exact E'. }
      destruct r as [f|gg]; [|apply Hrec; exact E].
      destruct (aget key_eqb found (key_of f)); [apply Hrec; exact E|].
      assert (Es : (if negb (j =? i - 1) then missing_sep repaired g between else []) = missing_sep repaired g between).
      { destruct (negb (j =? i - 1)) eqn:N; [reflexivity|]. rewrite Hb by lia. reflexivity. }
      rewrite Es in E. clear Es.
      destruct (missing_sep_repaired between) as [[Em Hg] | [(b' & gp & f' & Eb & Hf' & Em) | Em]]; rewrite Em in E.
      + destruct (gap_rows_map _ Hg) as (m0 & ->).
        apply gaps_then_frag_inj in E. destruct E as (-> & -> & _).
        right. left. exists t. reflexivity.
      + change ([RG gp] ++ RF f :: missing_rows repaired found g t [] (i + 1) (Some i))
          with (map RG [gp] ++ RF f :: missing_rows repaired found g t [] (i + 1) (Some i)) in E.
        apply gaps_then_frag_inj in E. destruct E as (<- & <- & _).
        right. right. exists gp, b', t, f'. split; [reflexivity|]. split; [|exact Hf'].
        rewrite Eb, <- app_assoc. reflexivity.
      + change ([RG g] ++ RF f :: missing_rows repaired found g t [] (i + 1) (Some i))
          with (map RG [g] ++ RF f :: missing_rows repaired found g t [] (i + 1) (Some i)) in E.
        apply gaps_then_frag_inj in E. destruct E as (<- & _ & _). left. reflexivity.
  Qed.

  (* the strengthened form of JoinGaps.missing_rows_adjacent: what lies between
     two consecutive re-added contigs *)
  Lemma missing_rows_consecutive_gen : forall rows between i la x mid y,
    consecutive (missing_rows repaired found g rows between i la) x mid y ->
    mid = [g] \/ consecutive rows x mid y \/ (exists gp, mid = [gp] /\ skipped rows x gp y).
  Proof.
    induction rows as [|r t IH]; intros between i la x mid y H; cbn [missing_rows] in H.
    - exfalso. eapply consecutive_not_nil. exact H.
    - assert (Hrec : forall between' la',
                consecutive (missing_rows repaired found g t between' (i + 1) la') x mid y ->
                mid = [g] \/ consecutive (r :: t) x mid y \/ (exists gp, mid = [gp] /\ skipped (r :: t) x gp y)).
      { intros between' la' H'. destruct (IH _ _ _ _ _ _ H') as [E | [Hc | (gp & E & Hs)]].
        - left. exact E.
        - right. left. apply consecutive_cons. exact Hc.
        - right. right. exists gp. split; [exact E | apply skipped_cons; exact Hs]. }
      destruct r as [f|gg]; [|eapply Hrec; exact H].
      destruct (aget key_eqb found (key_of f)); [eapply Hrec; exact H|].
      match type of H with consecutive (?sep ++ _) _ _ _ =>
        assert (Hsep : forallb is_gap_row sep = true);
        [ destruct la as [la0|]; [destruct (negb (la0 =? i - 1)); [apply missing_sep_gaps|]|]; reflexivity
        | destruct (gap_rows_map _ Hsep) as (m0 & Em0); rewrite Em0 in H; clear Hsep Em0 ]
      end.
      apply consecutive_skip_gaps in H. apply consecutive_head in H.
      destruct H as [[-> (post & E)] | H]; [|eapply Hrec; exact H].
      apply missing_rows_lead in E; [|lia|reflexivity]. cbn [app] in E.
      destruct E as [E | [(post' & ->) | (gp & btw & post' & f' & -> & -> & Hf')]].
      + left. exact E.
      + right. left. exists [], post'. reflexivity.
      + right. right. exists gp. split; [reflexivity|].
        exists [], btw, post'. split; [reflexivity|]. exists f'. exact Hf'.
  Qed.
End Missing.

Theorem missing_rows_consecutive : forall found g rows x mid y,
  consecutive (missing_rows repaired found g rows [] 0 None) x mid y ->
  mid = [g] \/ consecutive rows x mid y \/ (exists gp, mid = [gp] /\ skipped rows x gp y).
Proof. intros found g rows x mid y. apply missing_rows_consecutive_gen. Qed.

(* every left-over scaffold is [missing_rows] of ONE (numbered) input scaffold *)
Definition LO (inp : list (str * list row)) (found : list (fkey * (frag * list rid))) (g : gap)
           (l : list scaffold) : Prop :=
  forall sc, In sc l -> exists isc, In isc inp /\ sc_rows sc = missing_rows repaired found g (snd isc) [] 0 None.

Lemma add_missing_one_LO inp g found acc isc acc' :
  In isc inp -> LO inp found g (snd acc) ->
  add_missing_one repaired g found acc isc = Ok acc' -> LO inp found g (snd acc').
Proof.
  intros Hin Ha H. unfold add_missing_one in H. destruct acc as [nm leftovers]. destruct isc as [name rows].
  cbn [snd] in *.
  destruct (missing_rows repaired found g rows [] 0 None) as [|r0 new_rows] eqn:Em; [injection H as <-; exact Ha|].
  bind_inv H nm' Hnm'. injection H as <-. cbn [snd].
  intros sc Hsc. apply in_app_or in Hsc. destruct Hsc as [Hsc | [<- | []]]; [apply Ha; exact Hsc|].
  exists (name, rows). split; [exact Hin|]. cbn [sc_rows snd]. symmetry. exact Em.
Qed.

Lemma add_missing_LO inp g found : forall l acc acc',
  (forall isc, In isc l -> In isc inp) -> LO inp found g (snd acc) ->
  foldM (add_missing_one repaired g found) l acc = Ok acc' -> LO inp found g (snd acc').
Proof.
  induction l as [|isc l IH]; intros acc acc' Hl Ha H; cbn [foldM] in H.
  - injection H as <-. exact Ha.
  - bind_inv H acc1 Hacc1. eapply IH; [| |exact H].
    + intros x Hx. apply Hl. right. exact Hx.
    + eapply add_missing_one_LO; [apply Hl; left; reflexivity | exact Ha | exact Hacc1].
Qed.

Lemma leftovers_from_missing g prefix bpt input pretext rs :
  remap_to_input repaired g prefix bpt input pretext = Ok rs ->
  exists found, LO (number_input input 0) found g (rs_left rs).
Proof.
  intros H. unfold remap_to_input in H. destruct (has_dup_names (map fst input)); [discriminate|].
  cbv zeta in H. bind_inv H b1 Hb1. bind_inv H b2 Hb2. bind_inv H b3 Hb3. bind_inv H st Hst.
  bind_inv H nl Hnl. injection H as <-. cbn [rs_left].
  eexists. eapply (add_missing_LO _ _ _ _ (_, [])); [| |exact Hnl]; [intros isc Hi; exact Hi | intros sc []].
Qed.

(* ================================================================ fusing *)
Section Fuse.
  Variable g : gap.
  Variable Q : frag -> list gap -> frag -> Prop.

  (* begins and ends with a fragment, and every pair of neighbours is separated
     by the join gap or satisfies Q *)
  Definition good (rows : list row) : Prop :=
    no_terminal_gap rows /\ forall x mid y, consecutive rows x mid y -> mid = [g] \/ Q x mid y.

  Lemma good_append self othr :
    self = [] \/ good self -> good othr -> good (append_rows self othr (Some g)).
  Proof.
    intros [-> | [Hn Hc]] [Hn' Hc']; [exact (conj Hn' Hc')|].
    split.
    - apply append_rows_ntg; [right; exact Hn | exact Hn'].
    - intros x mid y (pre & post & E). unfold append_rows in E.
      destruct self as [|c self]; [destruct Hn as [(? & ? & ?) _]; discriminate|].
      set (a := c :: self) in *. cbn [app] in E. symmetry in E.
      destruct (consecutive_join g othr x mid y (proj1 Hn') pre post a (or_intror (proj2 Hn)) E)
        as [H | [H | H]]; [apply Hc; exact H | apply Hc'; exact H | left; exact H].
  Qed.

  Definition GA' (acc : list (fuse_key * scaffold)) : Prop :=
    forall e, In e acc -> good (sc_rows (snd e)).

  Lemma fuse_step_good acc piece :
    GA' acc -> (sc_rows (fst piece) = [] \/ good (sc_rows (fst piece))) ->
    GA' (fuse_step repaired g acc piece).
  Proof.
    intros Ha Hp. unfold fuse_step. destruct piece as [sc is_result]. cbn [fst] in Hp.
    destruct (sc_rows sc) as [|r0 rows0] eqn:R; [exact Ha|]. rewrite <- R.
    set (k := (if fix_tag_key repaired then sc_tag sc else None, sc_hap sc, sc_name sc)).
    intros e He. apply aset_In_val in He. destruct He as [-> | He]; [|apply Ha; exact He].
    cbn [sc_rows repaired fix_leftover_gap]. rewrite orb_true_r. apply good_append.
    - destruct (aget fuse_key_eqb acc k) as [bsc|] eqn:G.
      + apply aget_In_val in G. destruct G as (k' & Hk). right. exact (Ha _ Hk).
      + left. reflexivity.
    - destruct Hp as [Hp | Hp]; [discriminate | rewrite R; exact Hp].
  Qed.

  Lemma fuse_fold_good : forall pieces acc,
    GA' acc -> (forall p, In p pieces -> sc_rows (fst p) = [] \/ good (sc_rows (fst p))) ->
    GA' (fold_left (fuse_step repaired g) pieces acc).
  Proof.
    induction pieces as [|p pieces IH]; intros acc Ha Hp; cbn [fold_left]; [exact Ha|].
    apply IH.
    - apply fuse_step_good; [exact Ha | apply Hp; left; reflexivity].
    - intros q Hq. apply Hp. right. exact Hq.
  Qed.

  Lemma fuse_all_good rs fused :
    (forall r, In r (b_store (rs_b rs)) -> to_scaffold_rows r = [] \/ good (to_scaffold_rows r)) ->
    (forall sc, In sc (rs_left rs) -> good (sc_rows sc)) ->
    fuse_all repaired g rs = Ok fused -> forall sc, In sc fused -> good (sc_rows sc).
  Proof.
    intros Hs Hl H. unfold fuse_all in H. bind_inv H results Hres. injection H as <-.
    intros sc Hsc. apply in_map_iff in Hsc. destruct Hsc as (e & <- & He).
    revert e He. apply fuse_fold_good; [intros e []|].
    intros p Hp. apply in_app_or in Hp. destruct Hp as [Hp | Hp]; apply in_map_iff in Hp.
    - destruct Hp as (r & <- & Hr). cbn [piece_of_result fst sc_rows].
      destruct (mapM_ok_In _ _ _ Hres _ Hr) as (id & _ & Hget). apply Hs. eapply get_ovr_In. exact Hget.
    - destruct Hp as (sc0 & <- & Hsc0). cbn [fst]. right. apply Hl. exact Hsc0.
  Qed.
End Fuse.

(* ========================================================== number_input *)
(* numbering changes f_id only *)
Lemma number_rows_rel : forall rows n, Forall2 (row_rel is_piece) (fst (number_rows rows n)) rows.
Proof.
  induction rows as [|r rows IH]; intros n; cbn [number_rows]; [constructor|].
  specialize (IH (n + 1)).
  destruct r as [f|g0]; destruct (number_rows rows (n + 1)) as [t' n']; cbn [fst] in *;
    (constructor; [|exact IH]); cbn [row_rel]; [|reflexivity].
  unfold is_piece, piece_of. cbn [f_name f_start f_end f_strand]. repeat split; lia.
Qed.

Lemma number_input_rel : forall input n isc,
  In isc (number_input input n) ->
  exists isc0, In isc0 input /\ Forall2 (row_rel is_piece) (snd isc) (snd isc0).
Proof.
  induction input as [|[name rows] input IH]; intros n isc H; cbn [number_input] in H; [destruct H|].
  pose proof (number_rows_rel rows n) as Hr.
  destruct (number_rows rows n) as [rows' n']. cbn [fst] in Hr.
  destruct H as [<- | H].
  - exists (name, rows). split; [left; reflexivity | exact Hr].
  - destruct (IH _ _ H) as (isc0 & Hin & Hrel). exists isc0. split; [right; exact Hin | exact Hrel].
Qed.

Lemma same_neighbours_number input n x mid y :
  same_neighbours (number_input input n) x mid y -> same_neighbours input x mid y.
Proof.
  intros (isc & ox & oy & Hin & H).
  destruct (number_input_rel _ _ _ Hin) as (isc0 & Hin0 & Hrel).
  destruct H as [(Hc & Hx & Hy) | (Hc & Hx & Hy)].
  - destruct (consecutive_rel is_piece _ _ _ _ _ Hrel Hc) as (ox0 & oy0 & Hc0 & Hx0 & Hy0).
    exists isc0, ox0, oy0. split; [exact Hin0|]. left.
    split; [exact Hc0|]. split; eapply piece_of_trans; eassumption.
  - destruct (consecutive_rel is_piece _ _ _ _ _ Hrel Hc) as (oy0 & ox0 & Hc0 & Hy0 & Hx0).
    exists isc0, ox0, oy0. split; [exact Hin0|]. right.
    split; [exact Hc0|]. split; eapply piece_of_trans; eassumption.
Qed.

Lemma skipped_neighbours_number input n x mid y :
  skipped_neighbours (number_input input n) x mid y -> skipped_neighbours input x mid y.
Proof.
  intros (isc & ox & oy & gp & Hin & E & Hs & Hx & Hy).
  destruct (number_input_rel _ _ _ Hin) as (isc0 & Hin0 & Hrel).
  destruct (skipped_rel is_piece _ _ _ _ _ Hrel Hs) as (ox0 & oy0 & Hs0 & Hx0 & Hy0).
  exists isc0, ox0, oy0, gp. split; [exact Hin0|].
  split; [exact E|]. split; [exact Hs0|]. split; eapply piece_of_trans; eassumption.
Qed.

(* ============================================================ end to end *)
(* The fused scaffolds, before naming / grouping / sorting.  This form also
   says WHERE the third case arises: only between two contigs that no lookup
   found, inside one LEFT-OVER scaffold (never inside an overlap result, never
   across a fusion boundary). *)
Definition fused_neighbours (inp : list (str * list row)) (left : list scaffold)
           (x : frag) (mid : list gap) (y : frag) : Prop :=
  same_neighbours inp x mid y
  \/ (skipped_neighbours inp x mid y /\ exists lsc, In lsc left /\ consecutive (sc_rows lsc) x mid y).

Theorem neighbour_gaps_fused : forall g prefix bpt input pretext rs fused,
  Forall (fun isc => pos_rows (snd isc)) input ->
  remap_to_input repaired g prefix bpt input pretext = Ok rs ->
  fuse_all repaired g rs = Ok fused ->
  forall sc, In sc fused -> good g (fused_neighbours (number_input input 0) (rs_left rs)) (sc_rows sc).
Proof.
  intros g prefix bpt input pretext rs fused Hpos Hrs Hf.
  set (inp := number_input input 0).
  apply (fuse_all_good g (fused_neighbours inp (rs_left rs)) rs fused); [| |exact Hf].
  - intros r Hr.
    destruct (pipeline_Inv _ _ _ _ _ _ _ Hpos Hrs r Hr) as (name & src & Hsrc & HI).
    pose proof (results_no_terminal_gap _ _ _ _ _ _ _ Hrs r Hr) as Hnt.
    apply NT_to_scaffold_rows in Hnt. destruct Hnt as [E | Hn]; [left; exact E|]. right.
    split; [exact Hn|]. intros x mid y Hc. right. left.
    eapply result_piece_neighbours; [exact Hsrc | exact HI | exact Hc].
  - intros sc Hsc. split; [apply (leftovers_no_terminal_gap _ _ _ _ _ _ _ Hrs); exact Hsc|].
    destruct (leftovers_from_missing _ _ _ _ _ _ Hrs) as (found & Hlo).
    destruct (Hlo sc Hsc) as (isc & Hin & E).
    intros x mid y Hc0. pose proof Hc0 as Hc. rewrite E in Hc. apply missing_rows_consecutive in Hc.
    destruct Hc as [Hc | [Hc | (gp & Em & Hs)]]; [left; exact Hc | right; left | right; right].
    + exists isc, x, y. split; [exact Hin|]. left. split; [exact Hc|]. split; apply piece_of_refl.
    + split; [|exists sc; split; assumption].
      exists isc, x, y, gp. split; [exact Hin|].
      split; [exact Em|]. split; [exact Hs|]. split; apply piece_of_refl.
Qed.

Theorem neighbour_gaps_end_to_end : neighbour_gaps_statement.
Proof.
  intros g prefix bpt input pretext o Hpos H a sc x mid y Ha Hsc Hc.
  unfold remap in H. bind_inv H rs Hrs.
  destruct (RemapTail.assemblies_out_perm _ _ _ _ _ _ H) as (fused0 & fused & F & R & P).
  assert (Hin : In sc fused).
  { eapply Permutation_in; [exact P|]. apply in_flat_map. exists a. split; assumption. }
  assert (Hr : In (sc_rows sc) (map sc_rows fused0)) by (rewrite <- R; apply in_map; exact Hin).
  apply in_map_iff in Hr. destruct Hr as (sc0 & E & Hsc0). rewrite <- E in Hc.
  destruct (neighbour_gaps_fused _ _ _ _ _ _ _ Hpos Hrs F sc0 Hsc0) as [_ Hg].
  destruct (Hg x mid y Hc) as [Hm | [Hn | [Hn _]]]; [left; exact Hm | right; left | right; right].
  - eapply same_neighbours_number. exact Hn.
  - eapply skipped_neighbours_number. exact Hn.
Qed.

(* when every input gap row is the join gap itself (e.g. all 200 bp scaffold
   gaps) the third case collapses into the first: the statement first proposed *)
Corollary neighbour_gaps_uniform_gaps : forall g prefix bpt input pretext o,
  Forall (fun isc => pos_rows (snd isc)) input ->
  (forall isc gp, In isc input -> In (RG gp) (snd isc) -> gp = g) ->
  remap repaired g prefix bpt input pretext = Ok o ->
  forall a sc x mid y,
    In a (out_asms o) -> In sc (oa_scaffolds a) -> consecutive (sc_rows sc) x mid y ->
    mid = [g] \/ same_neighbours input x mid y.
Proof.
  intros g prefix bpt input pretext o Hpos Hu H a sc x mid y Ha Hsc Hc.
  destruct (neighbour_gaps_end_to_end _ _ _ _ _ _ Hpos H a sc x mid y Ha Hsc Hc)
    as [E | [Hs | (isc & ox & oy & gp & Hin & -> & (pre & btw & post & E & _) & _)]];
    [left; exact E | right; exact Hs | left].
  f_equal. apply (Hu isc gp Hin). rewrite E.
  apply in_or_app. right. right. apply in_or_app. right. left. reflexivity.
Qed.

(* ===================================== all neighbours of a concrete row list *)
Fixpoint scan (cur : option (frag * list gap)) (rows : list row) : list (frag * list gap * frag) :=
  match rows with
  | [] => []
  | RG gp :: t => scan (match cur with Some (x, m) => Some (x, m ++ [gp]) | None => None end) t
  | RF f :: t => (match cur with Some (x, m) => [(x, m, f)] | None => [] end) ++ scan (Some (f, [])) t
  end.

Lemma scan_gaps x y post : forall mid m0,
  In (x, m0 ++ mid, y) (scan (Some (x, m0)) (map RG mid ++ RF y :: post)).
Proof.
  induction mid as [|a mid IH]; intros m0; cbn [map app scan].
  - rewrite app_nil_r. left. reflexivity.
  - specialize (IH (m0 ++ [a])). rewrite <- app_assoc in IH. exact IH.
Qed.

Lemma scan_complete rows x mid y : consecutive rows x mid y -> In (x, mid, y) (scan None rows).
Proof.
  intros (pre & post & ->). generalize (@None (frag * list gap)).
  induction pre as [|[f|gp] pre IH]; intros cur; cbn [app scan].
  - apply in_or_app. right. apply (scan_gaps x y post mid []).
  - apply in_or_app. right. apply IH.
  - apply IH.
Qed.

(* ====================================== the third case is needed (refutation) *)
(* input A -100- B -57/contig- C, and a map whose only bait covers B: A and C
   are left over, B lay between them, and the separator is the input gap that
   preceded C -- neither the join gap nor a gap between two input neighbours *)
Definition cx_g57 : gap := mkGap 57 (s "contig").
Definition cx_input : list (str * list row) :=
  [ (s "scaffold_1", [ex_F "ctgA" 1 1000 1 []; RG (mkGap 100 (s "scaffold")); ex_F "ctgB" 1 1000 1 [];
                      RG cx_g57; ex_F "ctgC" 1 1000 1 []]) ].
Definition cx_ptx : list (str * list row) := [ (s "Scaffold_1", [ex_F "scaffold_1" 1101 2100 1 []]) ].
Definition cx_A : frag := mkFrag 0 (s "ctgA") 1 1000 1 [].
Definition cx_B : frag := mkFrag 2 (s "ctgB") 1 1000 1 [].
Definition cx_C : frag := mkFrag 4 (s "ctgC") 1 1000 1 [].
Definition cx_out : list row := [RF cx_B; RG ex_gap; RF cx_A; RG cx_g57; RF cx_C].

Lemma cx_run : exists o, remap repaired ex_gap (s "SUPER_") (10, 1) cx_input cx_ptx = Ok o
  /\ map sc_rows (flat_map oa_scaffolds (out_asms o)) = [cx_out].
Proof. eexists. split; vm_compute; reflexivity. Qed.

Lemma cx_pos : Forall (fun isc => pos_rows (snd isc)) cx_input.
Proof. repeat constructor; cbn; lia. Qed.

Lemma rows_in_output o rows :
  In rows (map sc_rows (flat_map oa_scaffolds (out_asms o))) ->
  exists a sc, In a (out_asms o) /\ In sc (oa_scaffolds a) /\ sc_rows sc = rows.
Proof.
  intros H. apply in_map_iff in H. destruct H as (sc & E & Hsc).
  apply in_flat_map in Hsc. destruct Hsc as (a & Ha & Hsc). exists a, sc. repeat split; assumption.
Qed.

Theorem neighbour_gaps_original_refuted : ~ neighbour_gaps_original_statement.
Proof.
  intros Hst. destruct cx_run as (o & Hrun & Hm).
  destruct (rows_in_output o cx_out) as (a & sc & Ha & Hsc & Esc); [rewrite Hm; left; reflexivity|].
  assert (Hc : consecutive (sc_rows sc) cx_A [cx_g57] cx_C).
  { rewrite Esc. exists [RF cx_B; RG ex_gap], []. reflexivity. }
  destruct (Hst _ _ _ _ _ _ cx_pos Hrun a sc _ _ _ Ha Hsc Hc)
    as [E | (isc & ox & oy & Hin & [(H1 & (Nx & _) & _) | (H1 & (Nx & _) & _)])].
  - discriminate E.
  - destruct Hin as [<- | []]. apply scan_complete in H1. vm_compute in H1.
    destruct H1 as [E | [E | []]]; [discriminate E|]. injection E as <- <-.
    vm_compute in Nx. discriminate Nx.
  - destruct Hin as [<- | []]. apply scan_complete in H1. vm_compute in H1.
    destruct H1 as [E | [E | []]]; [discriminate E|]. injection E as <- <-.
    vm_compute in Nx. discriminate Nx.
Qed.

(* ... and the corrected statement says what happened: third case *)
Example third_disjunct_needed :
  exists o a sc, remap repaired ex_gap (s "SUPER_") (10, 1) cx_input cx_ptx = Ok o
    /\ In a (out_asms o) /\ In sc (oa_scaffolds a)
    /\ consecutive (sc_rows sc) cx_A [cx_g57] cx_C
    /\ [cx_g57] <> [ex_gap]
    /\ ~ same_neighbours cx_input cx_A [cx_g57] cx_C
    /\ skipped_neighbours cx_input cx_A [cx_g57] cx_C.
Proof.
  destruct cx_run as (o & Hrun & Hm).
  destruct (rows_in_output o cx_out) as (a & sc & Ha & Hsc & Esc); [rewrite Hm; left; reflexivity|].
  exists o, a, sc. split; [exact Hrun|]. split; [exact Ha|]. split; [exact Hsc|].
  split; [rewrite Esc; exists [RF cx_B; RG ex_gap], []; reflexivity|].
  split; [discriminate|]. split.
  - intros (isc & ox & oy & Hin & [(H1 & (Nx & _) & _) | (H1 & (Nx & _) & _)]);
      destruct Hin as [<- | []]; apply scan_complete in H1; vm_compute in H1;
      (destruct H1 as [E | [E | []]]; [discriminate E|]); injection E as <- <-;
      vm_compute in Nx; discriminate Nx.
  - eexists (_, _), _, _, cx_g57. split; [left; reflexivity|]. split; [reflexivity|]. cbn [snd]. split.
    + exists [], [RG (mkGap 100 (s "scaffold")); ex_F "ctgB" 1 1000 1 []], [].
      split; [reflexivity|]. eexists. right. left. reflexivity.
    + unfold piece_of. cbn. split; repeat split; lia.
Qed.

(* ============================================================ non-vacuity *)
(* GapProvenance's run: scaffold_1 = A -100- B -57/contig- C -8- D.  The map
   cuts B in two, shows [second half of B, gap 57, C] REVERSED, then A, the
   first half of B and D.  Output scaffold_1:
     C(-) -57- B[501..1000](-) -JOIN- A -JOIN- B[1..500] -JOIN- D
   The 57 bp input gap is retained between the two neighbours inside the
   reversed piece (second disjunct of [same_neighbours]); the join gap stands
   between pieces. *)
Definition nx_C : frag := mkFrag 4 (s "ctgC") 1 1000 (-1) [].
Definition nx_B2 : frag := mkFrag (-1) (s "ctgB") 501 1000 (-1) [s "Cut"].
Definition nx_A : frag := mkFrag 0 (s "ctgA") 1 1000 1 [].
Definition nx_B1 : frag := mkFrag (-2) (s "ctgB") 1 500 1 [s "Cut"].
Definition nx_D : frag := mkFrag 6 (s "ctgD") 1 1000 1 [].
Definition nx_out : list row :=
  [RF nx_C; RG cx_g57; RF nx_B2; RG ex_gap; RF nx_A; RG ex_gap; RF nx_B1; RG ex_gap; RF nx_D].

Example neighbour_gaps_instance :
  exists o a sc, remap repaired ex_gap (s "SUPER_") (10, 1) ex_input ex_ptx = Ok o
    /\ In a (out_asms o) /\ In sc (oa_scaffolds a) /\ sc_rows sc = nx_out
    (* an input gap retained inside a reversed piece *)
    /\ consecutive (sc_rows sc) nx_C [cx_g57] nx_B2
    /\ (exists isc ox oy, In isc ex_input /\ consecutive (snd isc) oy (rev [cx_g57]) ox
                          /\ piece_of (-1) ox nx_C /\ piece_of (-1) oy nx_B2)
    (* the join gap between two pieces *)
    /\ consecutive (sc_rows sc) nx_B2 [ex_gap] nx_A
    (* and the theorem, for this run *)
    /\ (forall a sc x mid y,
          In a (out_asms o) -> In sc (oa_scaffolds a) -> consecutive (sc_rows sc) x mid y ->
          mid = [ex_gap] \/ same_neighbours ex_input x mid y \/ skipped_neighbours ex_input x mid y).
Proof.
  assert (Hrun : exists o, remap repaired ex_gap (s "SUPER_") (10, 1) ex_input ex_ptx = Ok o
                           /\ nth 0 (map sc_rows (flat_map oa_scaffolds (out_asms o))) [] = nx_out
                           /\ Datatypes.length (flat_map oa_scaffolds (out_asms o)) = 2%nat).
  { eexists. split; [vm_compute; reflexivity|]. split; vm_compute; reflexivity. }
  destruct Hrun as (o & Hrun & Hm & Hlen).
  assert (Hpos : Forall (fun isc => pos_rows (snd isc)) ex_input) by (repeat constructor; cbn; lia).
  destruct (rows_in_output o nx_out) as (a & sc & Ha & Hsc & Esc).
  { rewrite <- Hm. apply nth_In. rewrite map_length, Hlen. lia. }
  exists o, a, sc. split; [exact Hrun|]. split; [exact Ha|]. split; [exact Hsc|]. split; [exact Esc|].
  split; [rewrite Esc; exists [], [RG ex_gap; RF nx_A; RG ex_gap; RF nx_B1; RG ex_gap; RF nx_D]; reflexivity|].
  split.
  { eexists (_, _), _, _. split; [left; reflexivity|]. cbn [snd rev app]. split.
    - exists [ex_F "ctgA" 1 1000 1 []; RG (mkGap 100 (s "scaffold"))],
             [RG (mkGap 8 (s "short_arm")); ex_F "ctgD" 1 1000 1 []]. reflexivity.
    - unfold piece_of. cbn. split; repeat split; lia. }
  split; [rewrite Esc; exists [RF nx_C; RG cx_g57], [RG ex_gap; RF nx_B1; RG ex_gap; RF nx_D]; reflexivity|].
  exact (neighbour_gaps_end_to_end _ _ _ _ _ _ Hpos Hrun).
Qed.

Print Assumptions missing_rows_consecutive.
Print Assumptions neighbour_gaps_fused.
Print Assumptions neighbour_gaps_uniform_gaps.
Print Assumptions neighbour_gaps_original_refuted.
Print Assumptions third_disjunct_needed.
Print Assumptions neighbour_gaps_instance.
Print Assumptions neighbour_gaps_end_to_end.
