(* PretextViewGaps, part 1: one lookup followed by trim_large_overhangs.
   A contig row that meets the bait is a row of the looked-up result
   ([lookup_split]); trim_large_overhangs keeps it unless it is the first row
   sticking out on the left by more than the error length with a bait overlap
   below the error length, or the last row sticking out on the right likewise
   ([trim_keeps]).  And the converse for the lookup: every row of a looked-up
   result starts at or before the end of the bait ([lookup_row_pos]). *)
From Tola Require Import Py.Base Py.Sort Model.Fragment Model.Scaffold Model.Lookup
  Model.OverlapResult Model.OvrSpec Model.NaturalKey Model.Namer Model.Remap Model.RemapSpec
  Proofs.BaseLemmas Proofs.Lookup Proofs.OverlapResult Proofs.RemapHead Proofs.PipelineInv
  Proofs.CoreKeptGood.
From Coq Require Import Lia ZifyBool.

(* ------------------------------------------------------------- the lookup *)
Lemma lookup_split rows bs be fo a f c :
  lookup_spec rows bs be (Some fo) -> rows = a ++ RF f :: c ->
  rows_len a + 1 <= be -> bs <= rows_len a + f_len f ->
  exists a1 a2 c1 c2, a = a1 ++ a2 /\ c = c1 ++ c2 /\ fo_rows fo = a2 ++ RF f :: c1
    /\ fo_start fo = 1 + rows_len a1 /\ fo_end fo = rows_len a + f_len f + rows_len c1.
Proof.
  intros H E Hlo Hhi. cbn [lookup_spec] in H.
  destruct H as (i & j & L & R & S1 & E1 & Fi & Fj & Mi & Mj & U).
  destruct (split_span rows a (RF f) c E) as (Hn & Hs & He). cbn [row_len] in He.
  assert (Hk : (i <= length a <= j)%nat).
  { apply U; [exists f; exact Hn|]. unfold meets. rewrite Hs, He. lia. }
  exists (firstn i a), (skipn i a), (firstn (j - length a) c), (skipn (j - length a) c).
  split; [symmetry; apply firstn_skipn|]. split; [symmetry; apply firstn_skipn|].
  split; [|split].
  - rewrite R, E, skipn_app.
    replace (i - length a)%nat with 0%nat by lia. cbn [skipn].
    rewrite firstn_app, skipn_length.
    rewrite (firstn_all2 (skipn i a)) by (rewrite skipn_length; lia).
    replace (S j - i - (length a - i))%nat with (S (j - length a)) by lia.
    cbn [firstn]. reflexivity.
  - rewrite S1. unfold span_start. rewrite E, firstn_app.
    replace (i - length a)%nat with 0%nat by lia. cbn [firstn]. rewrite app_nil_r. reflexivity.
  - rewrite E1. unfold span_end. rewrite E, firstn_app.
    rewrite (firstn_all2 a) by lia.
    replace (S j - length a)%nat with (S (j - length a)) by lia.
    cbn [firstn]. rewrite rows_len_app, rows_len_cons. cbn [row_len]. lia.
Qed.

Lemma nth_error_firstn_lt {A} : forall (l : list A) n m, (m < n)%nat ->
  nth_error (firstn n l) m = nth_error l m.
Proof.
  induction l as [|x l IH]; intros n m H; [rewrite firstn_nil; reflexivity|].
  destruct n as [|n]; [lia|]. destruct m as [|m]; cbn [firstn nth_error]; [reflexivity|].
  apply IH. lia.
Qed.

Lemma nth_error_skipn_add {A} : forall i (l : list A) m,
  nth_error (skipn i l) m = nth_error l (i + m).
Proof.
  induction i as [|i IH]; intros l m; [reflexivity|].
  destruct l as [|x l]; cbn [skipn]; [destruct m; reflexivity|]. cbn [Nat.add nth_error]. apply IH.
Qed.

(* a row of a looked-up result sits in the scaffold, starting at or before the bait's end *)
Lemma lookup_row_pos rows bs be fo f :
  pos_rows rows -> lookup_spec rows bs be (Some fo) -> In (RF f) (fo_rows fo) ->
  exists a c, rows = a ++ RF f :: c /\ rows_len a + 1 <= be.
Proof.
  intros Hp H Hin.
  destruct (lookup_spec_convex rows bs be fo Hp H) as (i & j & L & R & M).
  rewrite R in Hin. apply In_nth_error in Hin. destruct Hin as (m & Hm).
  assert (Hlt : (m < S j - i)%nat).
  { assert (X : (m < length (firstn (S j - i) (skipn i rows)))%nat) by (apply nth_error_Some; congruence).
    rewrite firstn_length in X. lia. }
  rewrite nth_error_firstn_lt in Hm by exact Hlt.
  rewrite nth_error_skipn_add in Hm.
  destruct (nth_error_split rows (i + m) Hm) as (a & c & E & La).
  exists a, c. split; [exact E|].
  destruct (split_span rows a (RF f) c E) as (_ & Hs & _).
  destruct (M (i + m)%nat ltac:(lia)) as [M1 _]. rewrite <- La, Hs in M1. lia.
Qed.

(* --------------------------------------------------------- gaps at an end *)
Lemma gaps_prefix f c : forall gaps X a,
  all_gaps gaps -> gaps ++ X = a ++ RF f :: c ->
  exists a', a = gaps ++ a' /\ X = a' ++ RF f :: c.
Proof.
  induction gaps as [|x gaps IH]; intros X a Hg E; cbn [app] in E.
  - exists a. split; [reflexivity | exact E].
  - inversion Hg as [|? ? Hx Hg']; subst.
    destruct a as [|y a]; cbn [app] in E.
    + injection E as -> _. discriminate Hx.
    + injection E as -> E. destruct (IH _ _ Hg' E) as (a' & -> & ->).
      exists a'. split; reflexivity.
Qed.

(* ------------------------------------------------ trim_large_overhangs *)
Lemma ds_bait r r' : discard_start r = Ok r' -> o_bait r' = o_bait r /\ o_end r' = o_end r.
Proof.
  unfold discard_start. destruct (o_rows r) as [|d t]; [discriminate|].
  destruct (pop_gaps_front t (o_start r + row_len d)) as [rows' st]. intros H. injection H as <-.
  split; reflexivity.
Qed.

Lemma trim_keeps err r0 r1 a2 f c1 lo hi :
  o_rows r0 = a2 ++ RF f :: c1 ->
  o_start r0 = lo - rows_len a2 -> o_end r0 = hi + rows_len c1 -> hi = lo + f_len f - 1 ->
  lo <= f_end (o_bait r0) -> f_start (o_bait r0) <= hi ->
  ~ (f_start (o_bait r0) - lo > err
     /\ Z.min (f_end (o_bait r0)) hi - f_start (o_bait r0) + 1 < err) ->
  ~ (hi - f_end (o_bait r0) > err
     /\ f_end (o_bait r0) - Z.max (f_start (o_bait r0)) lo + 1 < err) ->
  trim_large_overhangs r0 err = Ok r1 -> In (RF f) (o_rows r1).
Proof.
  intros Er Hs He Hhi M1 M2 N1 N2 H.
  apply trim_large_cases' in H. destruct H as (r' & H1 & H2).
  assert (G : exists a2', o_rows r' = a2' ++ RF f :: c1 /\ o_end r' = o_end r0 /\ o_bait r' = o_bait r0).
  { destruct H1 as [-> | (Hd & Ho & ov & Hov & Hlt)]; [exists a2; repeat split; exact Er|].
    destruct (discard_start_rows _ _ Hd) as (d & gaps & Erows & Hg).
    destruct (ds_bait _ _ Hd) as [B Een].
    destruct a2 as [|x a2'].
    - exfalso. cbn [app] in Er. rewrite rows_len_nil in Hs.
      pose proof (start_row_bait_overlap_spec r0 (RF f) ov (first_row_cons _ _ _ Er) Hov) as Eov.
      cbn [row_len] in Eov. unfold start_overhang in Ho. apply N1. lia.
    - rewrite Er in Erows. cbn [app] in Erows. injection Erows as _ Erows. symmetry in Erows.
      destruct (gaps_prefix f c1 gaps (o_rows r') a2' Hg Erows) as (a' & _ & Ea').
      exists a'. split; [exact Ea' | split; assumption]. }
  destruct G as (a2' & Er' & Een & B).
  destruct H2 as [-> | (Hd & Ho & ov & Hov & Hlt)].
  { rewrite Er'. apply in_or_app. right. left. reflexivity. }
  destruct (discard_end_rows _ _ Hd) as (d & gaps & Erows & Hg).
  destruct (exists_last' c1) as [-> | (c1' & z & ->)].
  - exfalso. rewrite rows_len_nil in He.
    pose proof (end_row_bait_overlap_spec r' (RF f) ov (last_row_snoc _ _ _ Er') Hov) as Eov.
    cbn [row_len] in Eov. unfold end_overhang in Ho. rewrite B, Een in *. apply N2. lia.
  - rewrite Er' in Erows.
    replace (a2' ++ RF f :: c1' ++ [z]) with ((a2' ++ RF f :: c1') ++ [z]) in Erows
      by (rewrite <- app_assoc; reflexivity).
    rewrite (app_assoc (o_rows r1)) in Erows.
    apply app_inj_tail in Erows. destruct Erows as [Erows _].
    assert (Hin : In (RF f) (o_rows r1 ++ gaps)).
    { rewrite <- Erows. apply in_or_app. right. left. reflexivity. }
    apply in_app_or in Hin. destruct Hin as [Hin | Hin]; [exact Hin|].
    exfalso. eapply not_gap_in; eassumption.
Qed.

Print Assumptions lookup_split.
Print Assumptions lookup_row_pos.
Print Assumptions trim_keeps.
