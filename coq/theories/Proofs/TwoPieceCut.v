(* C02, last clause, end to end on the model: a Pretext cut lying at least
   three error lengths inside a contig splits the contig exactly at the
   position the Pretext coordinate designates.

   One input scaffold [pr ++ RF f :: po], cut once at scaffold coordinate k
   (inside f): the Pretext map has two scaffolds, [1, k] and [k+1, E], each with
   its own orientation.  The theorem follows the two baits through
   remap_to_input:
     A. lookup: bait 1 finds pr ++ [f], bait 2 finds f :: po; neither result is
        touched by trim_large_overhangs; f is recorded twice (b_multi = [key f]),
        every other contig once;
     B. the overhang resolver (discard_loop) finds two premises for f and applies
        neither: this is where the margin 3 * error_length is used, and it is
        sharp (see margin_sharp_left / margin_sharp_right);
     C. cut_remaining_overhangs trims both copies of f at the bait boundary
        (mirrored for a reverse-strand contig), qc passes, one cut is counted;
     D. nothing is renamed, nothing is missing.
   No axioms. *)
From Tola Require Import Py.Base Py.Dec Py.Sort Model.Fragment Model.Scaffold Model.Lookup
  Model.OverlapResult Model.NaturalKey Model.Namer Model.Remap
  Proofs.BaseLemmas Proofs.Lookup Proofs.NullMapAndCuts.
From Coq Require Import Lia ZifyBool.

(* ============================================================ statement *)
(* rows with the object ids erased (number_input assigns ids; the outputs carry them) *)
Definition erase_id (r : row) : row :=
  match r with
  | RF f => RF (mkFrag (-1) (f_name f) (f_start f) (f_end f) (f_strand f) (f_tags f))
  | RG g => RG g
  end.

(* an input scaffold the theorem speaks about (as in the null-map theorem) *)
Definition sc_ok (sc : str * list row) : Prop :=
  snd sc <> [] /\ pos_rows (snd sc)
  /\ (exists f t, snd sc = RF f :: t) /\ (exists f t, snd sc = t ++ [RF f])
  /\ Forall (fun f => f_tags f = [] /\ (f_strand f = 1 \/ f_strand f = -1) /\ f_start f <= f_end f)
            (frags_of (snd sc))
  /\ haplotype_prefix_of_name (fst sc) = None
  /\ (forall f t, snd sc = RF f :: t -> haplotype_prefix_of_name (f_name f) = None).

(* Scaffold orientation chosen in Pretext: -1 = reversed (order and strands) *)
Definition orient (sg : Z) (x : list row) : list row := if sg =? -1 then rows_reverse x else x.

(* the two pieces of a contig cut [m] bases from its scaffold-left end; the
   scaffold-left end of a reverse-strand contig is its high end *)
Definition cut_left (f : frag) (m : Z) : frag :=
  if f_strand f =? 1
  then mkFrag (-1) (f_name f) (f_start f) (f_start f + m - 1) (f_strand f) [s "Cut"]
  else mkFrag (-1) (f_name f) (f_end f - m + 1) (f_end f) (f_strand f) [s "Cut"].
Definition cut_right (f : frag) (m : Z) : frag :=
  if f_strand f =? 1
  then mkFrag (-1) (f_name f) (f_start f + m) (f_end f) (f_strand f) [s "Cut"]
  else mkFrag (-1) (f_name f) (f_start f) (f_end f - m) (f_strand f) [s "Cut"].

(* ======================================================= small utilities *)
Lemma aget_notin {K V} (keqb : K -> K -> bool) (Hk : forall a b, keqb a b = true -> a = b) :
  forall (d : list (K * V)) k, ~ In k (map fst d) -> aget keqb d k = None.
Proof.
  induction d as [|[k0 v0] d IH]; intros k H; cbn [aget]; [reflexivity|].
  destruct (keqb k k0) eqn:E.
  - exfalso. apply H. left. symmetry. apply Hk, E.
  - apply IH. intro G. apply H. right. exact G.
Qed.

Lemma aget_in {K V} (keqb : K -> K -> bool) (Hk : forall a, keqb a a = true) :
  forall (d : list (K * V)) k, In k (map fst d) -> exists v, aget keqb d k = Some v.
Proof.
  induction d as [|[k0 v0] d IH]; intros k H; cbn [aget map fst In] in *; [destruct H|].
  destruct (keqb k k0) eqn:E; [eauto|].
  destruct H as [<-|H]; [rewrite Hk in E; discriminate | apply IH, H].
Qed.

Lemma aget_app {K V} (keqb : K -> K -> bool) (d1 d2 : list (K * V)) k :
  aget keqb (d1 ++ d2) k = match aget keqb d1 k with Some v => Some v | None => aget keqb d2 k end.
Proof.
  induction d1 as [|[k0 v0] d1 IH]; cbn [app aget]; [reflexivity|].
  destruct (keqb k k0); [reflexivity | exact IH].
Qed.

Lemma key_eqb_true a b : key_eqb a b = true -> a = b.
Proof.
  destruct a as [[n1 s1] e1], b as [[n2 s2] e2]. unfold key_eqb.
  destruct (Z.eqb_spec s1 s2); [|discriminate].
  destruct (Z.eqb_spec e1 e2); [|discriminate].
  intro H. apply str_eqb_eq in H. congruence.
Qed.
Lemma key_eqb_rfl a : key_eqb a a = true.
Proof.
  destruct a as [[n1 s1] e1]. unfold key_eqb. rewrite !Z.eqb_refl. apply str_eqb_refl.
Qed.

Lemma aset_present {V} : forall (d : list (fkey * V)) k v,
  In k (map fst d) ->
  map fst (aset key_eqb d k v) = map fst d /\ aget key_eqb (aset key_eqb d k v) k = Some v.
Proof.
  induction d as [|[k0 v0] d IH]; intros k v H; [destruct H|].
  cbn [aset]. destruct (key_eqb k k0) eqn:E.
  - cbn [map fst aget]. rewrite E. split; reflexivity.
  - cbn [map fst aget]. rewrite E. destruct H as [H|H].
    + cbn [fst] in H. subst k0. rewrite key_eqb_rfl in E. discriminate.
    + destruct (IH k v H) as [I1 I2]. rewrite I1, I2. split; reflexivity.
Qed.

Lemma frags_of_cons_RF f t : frags_of (RF f :: t) = f :: frags_of t.
Proof. reflexivity. Qed.
Lemma frags_of_cons_RG g t : frags_of (RG g :: t) = frags_of t.
Proof. reflexivity. Qed.
Lemma frags_of_app a b : frags_of (a ++ b) = frags_of a ++ frags_of b.
Proof. unfold frags_of. apply flat_map_app. Qed.

Lemma In_frags_of g l : In (RF g) l -> In g (frags_of l).
Proof.
  induction l as [|[h|h] l IH]; intro H; [destruct H| |].
  - rewrite frags_of_cons_RF. destruct H as [H|H]; [injection H as ->; left; reflexivity | right; auto].
  - rewrite frags_of_cons_RG. destruct H as [H|H]; [discriminate | auto].
Qed.

Lemma NoDup_app_inv {A} (a b : list A) :
  NoDup (a ++ b) -> NoDup a /\ NoDup b /\ (forall x, In x a -> ~ In x b).
Proof.
  induction a as [|x a IH]; cbn [app]; intro N.
  - split; [constructor|]. split; [exact N|]. intros x [].
  - inversion N as [|? ? N1 N2]; subst. destruct (IH N2) as (I1 & I2 & I3).
    split; [|split; [exact I2|]].
    + constructor; [|exact I1]. intro G. apply N1, in_or_app. left. exact G.
    + intros y [<-|Hy] G; [apply N1, in_or_app; right; exact G | exact (I3 y Hy G)].
Qed.

(* ================================================ numbering is harmless *)
Lemma number_rows_erase : forall rows n,
  map erase_id (fst (number_rows rows n)) = map erase_id rows.
Proof.
  induction rows as [|r rows IH]; intro n; [reflexivity|].
  cbn [number_rows]. specialize (IH (n + 1)).
  destruct r as [f|g]; destruct (number_rows rows (n + 1)) as [t' n']; cbn [fst map] in *;
    rewrite IH; reflexivity.
Qed.

Lemma number_rows_snd : forall rows n, snd (number_rows rows n) = n + zlen rows.
Proof.
  induction rows as [|r rows IH]; intro n; cbn [number_rows].
  - unfold zlen. cbn [snd length]. lia.
  - specialize (IH (n + 1)). destruct r as [f|g]; destruct (number_rows rows (n + 1)) as [t' n'];
      cbn [snd] in *; unfold zlen in *; cbn [length]; lia.
Qed.

Lemma number_rows_app : forall a b n,
  fst (number_rows (a ++ b) n) = fst (number_rows a n) ++ fst (number_rows b (n + zlen a)).
Proof.
  induction a as [|r a IH]; intros b n.
  - cbn [app number_rows fst]. unfold zlen. cbn [length]. f_equal. f_equal. lia.
  - cbn [app number_rows]. specialize (IH b (n + 1)).
    replace (n + zlen (r :: a)) with (n + 1 + zlen a) by (unfold zlen; cbn [length]; lia).
    destruct r as [f|g]; destruct (number_rows (a ++ b) (n + 1)) as [t' n'];
      destruct (number_rows a (n + 1)) as [t'' n'']; cbn [fst app] in *; rewrite IH; reflexivity.
Qed.

Lemma number_rows_ids : forall rows n g,
  In (RF g) (fst (number_rows rows n)) -> n <= f_id g < n + zlen rows.
Proof.
  induction rows as [|r rows IH]; intros n g H; [destruct H|].
  cbn [number_rows] in H. specialize (IH (n + 1) g).
  assert (Z : zlen (r :: rows) = 1 + zlen rows) by (unfold zlen; cbn [length]; lia).
  assert (Z0 : 0 <= zlen rows) by (unfold zlen; lia).
  destruct r as [f|h]; destruct (number_rows rows (n + 1)) as [t' n']; cbn [fst In] in *.
  - destruct H as [H|H]; [injection H as <-; cbn [f_id]; lia | specialize (IH H); lia].
  - destruct H as [H|H]; [discriminate | specialize (IH H); lia].
Qed.

Lemma row_len_erase r : row_len (erase_id r) = row_len r.
Proof. destruct r; reflexivity. Qed.

Lemma erase_same_lens a b : map erase_id a = map erase_id b -> map row_len a = map row_len b.
Proof.
  intro E. apply (f_equal (map row_len)) in E. rewrite !map_map in E.
  erewrite (map_ext _ row_len), (map_ext (fun x => row_len (erase_id x)) row_len) in E
    by (intro; apply row_len_erase).
  exact E.
Qed.

Lemma rows_len_erase a b : map erase_id a = map erase_id b -> rows_len a = rows_len b.
Proof. intro E. unfold rows_len. rewrite (erase_same_lens a b E). reflexivity. Qed.

Lemma map_removelast {A B} (f : A -> B) l : map f (removelast l) = removelast (map f l).
Proof.
  induction l as [|x l IH]; [reflexivity|].
  destruct l as [|y l]; [reflexivity|]. cbn [removelast map] in *. rewrite IH. reflexivity.
Qed.

Definition erase_frag (f : frag) : frag :=
  mkFrag (-1) (f_name f) (f_start f) (f_end f) (f_strand f) (f_tags f).

Lemma frags_of_erase rows : frags_of (map erase_id rows) = map erase_frag (frags_of rows).
Proof.
  induction rows as [|[f|g] rows IH]; [reflexivity| |]; cbn [map erase_id].
  - rewrite !frags_of_cons_RF. cbn [map]. rewrite IH. reflexivity.
  - rewrite !frags_of_cons_RG. exact IH.
Qed.

Lemma erase_same_frags (P : frag -> Prop) a b :
  (forall f, P (erase_frag f) <-> P f) ->
  map erase_id a = map erase_id b -> Forall P (frags_of a) -> Forall P (frags_of b).
Proof.
  intros HP E F.
  assert (G : Forall P (map erase_frag (frags_of b))).
  { rewrite <- frags_of_erase, <- E, frags_of_erase. rewrite Forall_map.
    eapply Forall_impl; [|exact F]. intros f Hf. apply HP, Hf. }
  rewrite Forall_map in G. eapply Forall_impl; [|exact G]. intros f Hf. apply HP, Hf.
Qed.

Lemma erase_same_keys a b :
  map erase_id a = map erase_id b -> map key_of (frags_of a) = map key_of (frags_of b).
Proof.
  intro E. apply (f_equal frags_of) in E. rewrite !frags_of_erase in E.
  apply (f_equal (map key_of)) in E. rewrite !map_map in E. exact E.
Qed.

Lemma erase_last a b f t :
  map erase_id a = map erase_id b -> a = t ++ [RF f] -> exists f' t', b = t' ++ [RF f'].
Proof.
  intros E ->. destruct (exists_last (l := b)) as (t' & x & ->).
  { intros ->. destruct t; discriminate. }
  rewrite !map_app in E. apply app_inj_tail in E as [_ E].
  destruct x as [f'|g]; [eauto | discriminate].
Qed.

Lemma sc_ok_erase name a b :
  map erase_id a = map erase_id b -> sc_ok (name, a) -> sc_ok (name, b).
Proof.
  intros E (H1 & H2 & (f0 & t0 & H3) & (fl & tl & H4) & H5 & H6 & H7). unfold sc_ok. cbn [fst snd] in *.
  assert (EL := erase_same_lens a b E).
  split; [|split; [|split; [|split; [|split; [|split]]]]].
  - intros ->. destruct a; [congruence | discriminate].
  - unfold pos_rows in *. rewrite <- (Forall_map row_len (fun z => 1 <= z)) in *.
    rewrite <- EL. exact H2.
  - subst a. destruct b as [|[f'|g] b']; try discriminate. eauto.
  - eapply erase_last; eassumption.
  - eapply (erase_same_frags _ a b); [|exact E|exact H5]. intro f. reflexivity.
  - exact H6.
  - intros f t ->. subst a. cbn [map erase_id] in E. injection E as E _.
    rewrite <- E. apply (H7 f0 t0 eq_refl).
Qed.

Lemma erase_rows_reverse x : map erase_id (rows_reverse x) = rows_reverse (map erase_id x).
Proof.
  unfold rows_reverse. rewrite <- map_rev, !map_map. apply map_ext.
  intros [f|g]; reflexivity.
Qed.

Lemma erase_orient sg x : map erase_id (orient sg x) = orient sg (map erase_id x).
Proof. unfold orient. destruct (sg =? -1); [apply erase_rows_reverse | reflexivity]. Qed.

(* ======================================================= A. the lookups *)
Lemma pos_rows_app a b : pos_rows (a ++ b) <-> pos_rows a /\ pos_rows b.
Proof. unfold pos_rows. apply Forall_app. Qed.

Lemma pre_app_len a b : Lookup.pre (a ++ b) (length a) = rows_len a.
Proof. unfold Lookup.pre. rewrite firstn_len_app. reflexivity. Qed.

Lemma pre_app_len_S a x b : Lookup.pre (a ++ x :: b) (S (length a)) = rows_len a + row_len x.
Proof.
  unfold Lookup.pre. replace (a ++ x :: b) with ((a ++ [x]) ++ b) by (rewrite <- app_assoc; reflexivity).
  replace (S (length a)) with (length (a ++ [x])) by (rewrite app_length; cbn [length]; lia).
  rewrite firstn_len_app, rows_len_app, rows_len_cons, rows_len_nil. lia.
Qed.

Section Lookups.
  Variables (pr po : list row) (f : frag).
  Let rows := pr ++ RF f :: po.
  Hypothesis Hp : pos_rows rows.
  Hypothesis Hfirst : exists f0 t, rows = RF f0 :: t.
  Hypothesis Hlast : exists fl t, rows = t ++ [RF fl].

  Lemma rows_ne : rows <> [].
  Proof. unfold rows. destruct pr; discriminate. Qed.

  Lemma len_rows : length rows = S (length pr + length po).
  Proof. unfold rows. rewrite app_length. cbn [length]. lia. Qed.

  (* bait [1, k] with k inside f *)
  Lemma left_bait k :
    rows_len pr < k -> k < rows_len pr + f_len f ->
    find_overlaps rows 1 k = Ok (Some (mkFound 1 (rows_len pr + f_len f) (pr ++ [RF f]))).
  Proof.
    intros K1 K2.
    assert (Hppr : pos_rows pr) by (apply pos_rows_app in Hp; tauto).
    assert (S0 := rows_len_nonneg pr Hppr).
    destruct (find_overlaps_spec rows 1 k rows_ne Hp ltac:(lia)) as (r & Er & Hr).
    rewrite Er. f_equal.
    apply (lookup_spec_unique rows 1 k _ _ Hp Hr).
    cbn [lookup_spec fo_rows fo_start fo_end].
    exists 0%nat, (length pr).
    assert (E1 : span_end rows (length pr) = rows_len pr + f_len f).
    { rewrite span_end_pre. unfold rows. rewrite pre_app_len_S. reflexivity. }
    assert (E2 : span_start rows (length pr) = 1 + rows_len pr).
    { rewrite span_start_pre. unfold rows. rewrite pre_app_len. reflexivity. }
    assert (E3 : 1 <= span_end rows 0).
    { assert (G := span_start_le_end rows 0 Hp ltac:(rewrite len_rows; lia)).
      change (span_start rows 0) with 1 in G. lia. }
    split; [rewrite len_rows; lia|]. split.
    { cbn [skipn]. rewrite Nat.sub_0_r. unfold rows.
      replace (pr ++ RF f :: po) with ((pr ++ [RF f]) ++ po) by (rewrite <- app_assoc; reflexivity).
      replace (S (length pr)) with (length (pr ++ [RF f])) by (rewrite app_length; cbn [length]; lia).
      rewrite firstn_len_app. reflexivity. }
    split; [reflexivity|]. split; [symmetry; exact E1|].
    split. { destruct Hfirst as (f0 & t & ->). exists f0. reflexivity. }
    split. { exists f. unfold rows. rewrite nth_error_app2 by lia. rewrite Nat.sub_diag. reflexivity. }
    split. { unfold meets. change (span_start rows 0) with 1. lia. }
    split. { unfold meets. lia. }
    intros j Fj [M1 _]. split; [lia|].
    destruct (le_lt_dec j (length pr)) as [L|L]; [exact L|]. exfalso.
    apply frag_at_lt in Fj. rewrite span_start_pre in M1.
    assert (G := pre_mono_le rows Hp (S (length pr)) j ltac:(lia)).
    rewrite <- span_end_pre in G. lia.
  Qed.

  (* bait [k+1, E] with k inside f and E in the last row *)
  Lemma right_bait k E :
    rows_len pr < k -> k < rows_len pr + f_len f -> k < E ->
    rows_len (removelast rows) < E ->
    find_overlaps rows (k + 1) E = Ok (Some (mkFound (rows_len pr + 1) (rows_len rows) (RF f :: po))).
  Proof.
    intros K1 K2 K3 K4.
    assert (Hppr : pos_rows pr) by (apply pos_rows_app in Hp; tauto).
    assert (S0 := rows_len_nonneg pr Hppr).
    destruct (find_overlaps_spec rows (k + 1) E rows_ne Hp ltac:(lia)) as (r & Er & Hr).
    rewrite Er. f_equal.
    apply (lookup_spec_unique rows (k + 1) E _ _ Hp Hr).
    cbn [lookup_spec fo_rows fo_start fo_end].
    exists (length pr), (length pr + length po)%nat.
    assert (E1 : span_end rows (length pr) = rows_len pr + f_len f).
    { rewrite span_end_pre. unfold rows. rewrite pre_app_len_S. reflexivity. }
    assert (E2 : span_start rows (length pr) = 1 + rows_len pr).
    { rewrite span_start_pre. unfold rows. rewrite pre_app_len. reflexivity. }
    assert (E4 : span_end rows (length pr + length po) = rows_len rows).
    { unfold span_end. rewrite <- len_rows, firstn_all. reflexivity. }
    destruct Hlast as (fl & tl & Hl).
    assert (Hrm : removelast rows = tl) by (rewrite Hl; apply removelast_last).
    assert (Ltl : length tl = (length pr + length po)%nat).
    { assert (G := len_rows). rewrite Hl, app_length in G. cbn [length] in G. lia. }
    assert (E5 : span_start rows (length pr + length po) = 1 + rows_len tl).
    { unfold span_start. rewrite <- Ltl. rewrite Hl at 1. rewrite firstn_len_app. reflexivity. }
    assert (E6 : rows_len pr + f_len f <= rows_len rows).
    { assert (G := pre_mono_le rows Hp (S (length pr)) (length rows) ltac:(rewrite len_rows; lia)).
      rewrite <- span_end_pre, E1 in G. rewrite pre_all in G. exact G. }
    split; [rewrite len_rows; lia|]. split.
    { unfold rows. rewrite skipn_app, skipn_all, Nat.sub_diag. cbn [app skipn].
      replace (S (length pr + length po) - length pr)%nat with (length (RF f :: po)) by (cbn [length]; lia).
      rewrite firstn_all. reflexivity. }
    split; [lia|]. split; [symmetry; exact E4|].
    split. { exists f. unfold rows. rewrite nth_error_app2 by lia. rewrite Nat.sub_diag. reflexivity. }
    split. { exists fl. rewrite Hl, <- Ltl, nth_error_app2 by lia. rewrite Nat.sub_diag. reflexivity. }
    split. { unfold meets. lia. }
    split. { unfold meets. rewrite Hrm in K4. lia. }
    intros j Fj [_ M2]. apply frag_at_lt in Fj. rewrite len_rows in Fj. split; [|lia].
    destruct (le_lt_dec (length pr) j) as [L|L]; [exact L|]. exfalso.
    rewrite span_end_pre in M2.
    assert (G := pre_mono_le rows Hp (S j) (length pr) ltac:(rewrite len_rows; lia)).
    rewrite span_start_pre in E2. lia.
  Qed.
End Lookups.

(* ------------------------------------------------ naming, labels, trimming *)
(* make_scaffold_name for an untagged, unpainted scaffold whose first contig
   does not look like <hap>_..._<n> *)
Lemma msn_plain nm sc_name0 rows fn :
  fragment_tags rows = [] -> first_row_name rows = Ok fn -> haplotype_prefix_of_name fn = None ->
  nm_primary nm = None ->
  make_scaffold_name nm sc_name0 rows [] =
    Ok (mkNamer (nm_prefix nm) (Some fn) 3 None (nm_hap_n nm) (nm_hap_scaffolds nm) None
                (nm_target nm) 0 [] (nm_hap_lc nm)).
Proof.
  intros H1 H2 H3 H4. unfold make_scaffold_name. rewrite H1.
  cbn [foldM bind ts_hap ts_lc ts_primary ts_name ts_painted ts_rank ts_target truthy andb negb].
  rewrite H2. cbn [bind]. rewrite H3. cbn [bind andb]. rewrite H4. reflexivity.
Qed.

Lemma label_plain nm id name : nm_cur_name nm = Some name -> nm_target nm = false ->
  label_scaffold nm id [] [] = Ok (nm, mkLabel name None (nm_cur_hap nm) (nm_cur_rank nm)).
Proof. intros H1 H2. unfold label_scaffold. rewrite H1, H2. reflexivity. Qed.

(* trim_large_overhangs leaves alone a result whose end rows each overlap the
   bait by an error length or more *)
Lemma trim_large_keep r err :
  o_rows r <> [] ->
  (start_overhang r <= err \/ exists v, start_row_bait_overlap r = Ok v /\ err <= v) ->
  (end_overhang r <= err \/ exists v, end_row_bait_overlap r = Ok v /\ err <= v) ->
  trim_large_overhangs r err = Ok r.
Proof.
  intros NE A B. unfold trim_large_overhangs.
  destruct ((zlen (o_rows r) =? 1) && (f_len (o_bait r) >? err)); [reflexivity|].
  assert (A' : (if start_overhang r >? err
                then do ov <- start_row_bait_overlap r; if ov <? err then discard_start r else Ok r
                else Ok r) = Ok r).
  { destruct (start_overhang r >? err) eqn:E; [|reflexivity].
    destruct A as [A|(v & -> & A)]; [lia|]. cbn [bind]. replace (v <? err) with false by lia. reflexivity. }
  rewrite A'. cbn [bind]. destruct (o_rows r) as [|x t] eqn:ER; [congruence|].
  destruct (end_overhang r >? err) eqn:E; [|reflexivity].
  destruct B as [B|(v & -> & B)]; [lia|]. cbn [bind]. replace (v <? err) with false by lia. reflexivity.
Qed.

(* a run of fresh contigs is recorded once each *)
Lemma store_found_fresh id : forall fs found multi,
  NoDup (map fst found ++ map key_of fs) ->
  fold_left (store_found_one id) fs (found, multi)
  = (found ++ map (fun g => (key_of g, (g, [id]))) fs, multi).
Proof.
  induction fs as [|f fs IH]; intros found multi N; cbn [fold_left map].
  - rewrite app_nil_r. reflexivity.
  - cbn [map] in N. pose proof (NoDup_remove_2 _ _ _ N) as NI.
    assert (E : store_found_one id (found, multi) f = (found ++ [(key_of f, (f, [id]))], multi)).
    { unfold store_found_one.
      rewrite (aget_notin key_eqb key_eqb_true found (key_of f))
        by (intro G; apply NI, in_or_app; left; exact G).
      reflexivity. }
    rewrite E, IH.
    + rewrite <- app_assoc. reflexivity.
    + rewrite map_app. cbn [map fst]. rewrite <- app_assoc. exact N.
Qed.

Lemma map_fst_found (id : rid) (fs : list frag) :
  map fst (map (fun g => (key_of g, (g, [id]))) fs) = map key_of fs.
Proof. rewrite map_map. reflexivity. Qed.

Definition nm_after (nm : namer) (name : str) : namer :=
  mkNamer (nm_prefix nm) (Some name) 3 None (nm_hap_n nm) (nm_hap_scaffolds nm) None
          (nm_target nm) 0 [] (nm_hap_lc nm).

Definition result_of (bait : frag) (fo : found) (name pname : str) : ovr :=
  mkOvr bait (fo_start fo) (fo_end fo) (fo_rows fo) name None None 3 (Some pname) [].

(* one Pretext scaffold made of one untagged bait *)
Lemma one_pretext_single rows name pname bs be sg err b fo found' multi' :
  haplotype_prefix_of_name name = None ->
  nm_primary (b_namer b) = None -> nm_target (b_namer b) = false ->
  let bait := mkFrag (-1) name bs be sg [] in
  let r := result_of bait fo name pname in
  find_overlaps rows bs be = Ok (Some fo) ->
  trim_large_overhangs r err = Ok r ->
  fo_rows fo <> [] ->
  fold_left (store_found_one (zlen (b_store b))) (frags_of (fo_rows fo)) (b_found b, b_multi b)
    = (found', multi') ->
  one_pretext_scaffold [(name, rows)] err b (pname, [RF bait])
  = Ok (mkB (b_store b ++ [r]) (b_added b ++ [zlen (b_store b)]) found' multi'
            (nm_after (b_namer b) name) (b_cuts b)).
Proof.
  intros HP NP NT bait r FO TR NE FS.
  unfold one_pretext_scaffold.
  change (fragment_tags [RF bait]) with (@nil str).
  rewrite (msn_plain (b_namer b) pname _ name); [|reflexivity|reflexivity|exact HP|exact NP].
  fold (nm_after (b_namer b) name).
  cbn [bind]. change (frags_of [RF bait]) with [bait].
  cbn [foldM]. unfold one_bait at 1. unfold bait at 1 2 3. cbn [f_name f_start f_end f_tags].
  unfold input_rows. cbn [aget]. rewrite str_eqb_refl. cbn [bind].
  rewrite FO. cbn [bind]. unfold with_namer. cbn [b_store b_added b_found b_multi b_namer b_cuts].
  rewrite (label_plain _ _ name); [|reflexivity|exact NT]. cbn [bind nm_after nm_cur_hap nm_cur_rank].
  fold (nm_after (b_namer b) name).
  change (set_labels (ovr_of_found bait fo) (mkLabel name None None 3) pname []) with r.
  rewrite TR. cbn [bind].
  replace (o_rows r) with (fo_rows fo) by reflexivity.
  destruct (fo_rows fo) as [|x t] eqn:EF; [congruence|]. cbv iota.
  unfold store_fragments_found. cbn [b_store b_added b_found b_multi b_namer b_cuts].
  rewrite FS. cbn [bind foldM].
  unfold rename_results. cbn [b_store b_namer nm_after nm_unloc_scaffolds mapM bind].
  unfold rename_by_size. cbn [map combine fold_left]. unfold with_store.
  cbn [b_store b_added b_found b_multi b_namer b_cuts]. reflexivity.
Qed.

Lemma leading_gaps_nonneg t : pos_rows t -> 0 <= leading_gaps_len t.
Proof.
  induction 1 as [|x t Hx _ IH]; cbn [leading_gaps_len]; [lia|].
  destruct x as [g|g]; [lia|]. cbn [row_len] in Hx. lia.
Qed.

(* a premise whose result has a single row, or whose application would leave an
   overhang of three error lengths or more, is no improvement *)
Lemma improves_false st e p r o :
  get_ovr st (pr_rid p) = Ok r -> p_overhang_if_applied st p = Ok o ->
  zlen (o_rows r) = 1 \/ o <= -3 * e ->
  (exists dd, p_delta st p = Ok dd) /\ p_improves st e p = Ok false.
Proof.
  intros G O C. split.
  - unfold p_delta. rewrite G, O. cbn [bind]. eexists. reflexivity.
  - unfold p_improves. rewrite G. cbn [bind].
    destruct (zlen (o_rows r) =? 1) eqn:Z1; [reflexivity|].
    unfold p_delta. rewrite G, O. cbn [bind].
    destruct (_ <? 0); [|reflexivity]. replace (o >? -3 * e) with false by lia. reflexivity.
Qed.

Lemma py_nth_0_app {A} (l : list A) x : exists x0, py_nth (l ++ [x]) 0 = Ok x0.
Proof. destruct l as [|y l]; cbn [app]; rewrite py_nth_0; eauto. Qed.

(* qc_sub_fragments accepts two abutting pieces that add up to the original *)
Lemma qc_two orig A B :
  f_name A = f_name B -> f_start A <= f_end A -> f_end A + 1 = f_start B -> f_start B <= f_end B ->
  f_len orig = f_len A + f_len B ->
  qc_sub_fragments orig [A; B] = Ok tt.
Proof.
  intros HN HA HAB HB HL. unfold qc_sub_fragments.
  cbn [stable_sort insert_front].
  replace ((f_start A <? f_start B) || (f_start A =? f_start B) && (f_end A <=? f_end B)) with true by lia.
  cbn [tl combine filter].
  assert (AB : abuts A B = true).
  { unfold abuts. rewrite HN, str_eqb_refl. cbn [negb]. lia. }
  assert (OV : overlaps A B = false).
  { unfold overlaps. rewrite HN, str_eqb_refl. cbn [negb]. lia. }
  assert (GB : gap_between A B = Some 0).
  { unfold gap_between. rewrite HN, str_eqb_refl. cbn [negb]. cbv zeta.
    replace (Z.min (f_end A) (f_end B) <? Z.max (f_start A) (f_start B)) with true by lia.
    f_equal. lia. }
  rewrite AB, OV, GB. change (negb (0 =? 0)) with false. cbv iota.
  cbn [map]. unfold sumZ. cbn [fold_left].
  replace (f_len orig =? 0 + f_len A + f_len B) with true by lia.
  reflexivity.
Qed.

(* a scaffold all of whose contigs were found contributes no left-over rows *)
Lemma missing_all_found c found dg : forall rows between i la,
  Forall (fun g => aget key_eqb found (key_of g) <> None) (frags_of rows) ->
  missing_rows c found dg rows between i la = [].
Proof.
  induction rows as [|[g|g] rows IH]; intros between i la A; cbn [missing_rows]; [reflexivity| |].
  - rewrite frags_of_cons_RF in A. inversion A as [|? ? A1 A2]; subst.
    destruct (aget key_eqb found (key_of g)); [apply IH, A2 | congruence].
  - apply IH, A.
Qed.

(* remap_to_input after the duplicate-name check and the numbering *)
Definition run_body (c : cfg) (default_gap : gap) (err : Z) (input pretext : list (str * list row))
           (b0 : bstate) : res run_state :=
  do b1 <- foldM (one_pretext_scaffold input err) pretext b0;
  do b2 <- discard_loop (Datatypes.S (Datatypes.S (total_rows pretext + length (b_store b1)
                               + length (concat (map o_rows (b_store b1)))))) err b1;
  do b3 <- cut_remaining_overhangs c b2;
  do st <- rename_results (b_store b3) (nm_hap_scaffolds (b_namer b3));
  let b4 := with_store b3 st in
  do nl <- foldM (add_missing_one c default_gap (b_found b4)) input (b_namer b4, []);
  Ok (mkRun (with_namer b4 (fst nl)) (snd nl)).

Lemma remap_to_input_body c g prefix bpt input0 pretext :
  remap_to_input c g prefix bpt input0 pretext
  = if has_dup_names (map fst input0) then Err ValueError
    else run_body c g (error_length bpt) (number_input input0 0) pretext
                  (mkB [] [] [] [] (new_namer prefix) 0).
Proof. reflexivity. Qed.

(* ============================================================== the run *)
Section Core.
  Variables (n d : Z) (prefix name p1 p2 : str) (pr po : list row) (f : frag) (k E s1 s2 : Z).
  Let rows := pr ++ RF f :: po.
  Let err := error_length (n, d).
  Let Sp := rows_len pr.
  Let L := rows_len rows.
  Hypothesis Hn : 0 <= n.
  Hypothesis Hd : 0 < d.
  Hypothesis OK : sc_ok (name, rows).
  Hypothesis ND : NoDup (map key_of (frags_of rows)).
  (* object identities: f is not the same object as any other row *)
  Hypothesis IDpr : forall g, In (RF g) pr -> f_id g <> f_id f.
  Hypothesis IDpo : forall g, In (RF g) po -> f_id g <> f_id f.
  (* both pieces of f are at least three error lengths long *)
  Hypothesis M1 : Sp + 3 * err <= k.
  Hypothesis M2 : k + 3 * err <= Sp + f_len f.
  Hypothesis HE1 : rows_len (removelast rows) < E.
  Hypothesis HE2 : d * (L - E) < n.

  Let bait1 := mkFrag (-1) name 1 k s1 [].
  Let bait2 := mkFrag (-1) name (k + 1) E s2 [].
  Let r0 := mkOvr bait1 1 (Sp + f_len f) (pr ++ [RF f]) name None None 3 (Some p1) [].
  Let r1 := mkOvr bait2 (Sp + 1) L (RF f :: po) name None None 3 (Some p2) [].
  Let nm1 := mkNamer prefix (Some name) 3 None 0 [] None false 0 [] [].

  Lemma err_pos : 1 <= err.
  Proof. apply error_length_pos; assumption. Qed.

  Lemma Hp : pos_rows rows.
  Proof. apply OK. Qed.

  Lemma Hppr : pos_rows pr.
  Proof. pose proof Hp as H. unfold rows in H. apply pos_rows_app in H. tauto. Qed.

  Lemma Hppo : pos_rows po.
  Proof.
    pose proof Hp as H. unfold rows in H. apply pos_rows_app in H as [_ H].
    inversion H; assumption.
  Qed.

  Lemma Sp_nonneg : 0 <= Sp.
  Proof. apply rows_len_nonneg, Hppr. Qed.

  Lemma po_nonneg : 0 <= rows_len po.
  Proof. apply rows_len_nonneg, Hppo. Qed.

  Lemma L_eq : L = Sp + f_len f + rows_len po.
  Proof. unfold L, rows, Sp. rewrite rows_len_app, rows_len_cons. cbn [row_len]. lia. Qed.

  Lemma LE : L - E < err.
  Proof.
    pose proof (error_length_spec n d Hn Hd) as G. fold err in G.
    assert (Q : d * (L - E) < d * err) by lia.
    apply Z.mul_lt_mono_pos_l in Q; lia.
  Qed.

  Lemma strand_f : f_strand f = 1 \/ f_strand f = -1.
  Proof.
    destruct OK as (_ & _ & _ & _ & H & _). cbn [snd] in H. rewrite Forall_forall in H.
    apply (H f). unfold rows. rewrite frags_of_app, frags_of_cons_RF. apply in_or_app. right. left. reflexivity.
  Qed.

  Lemma hap_name : haplotype_prefix_of_name name = None.
  Proof. apply OK. Qed.

  Ltac facts :=
    pose proof err_pos; pose proof Sp_nonneg; pose proof po_nonneg; pose proof L_eq; pose proof LE.

  (* ---------------------------------------------------------- A: bait 1 *)
  Lemma fo1 : find_overlaps rows 1 k = Ok (Some (mkFound 1 (Sp + f_len f) (pr ++ [RF f]))).
  Proof. facts. apply left_bait; [apply Hp | apply OK | apply OK | fold Sp; lia | fold Sp; lia]. Qed.

  Lemma fo2 : find_overlaps rows (k + 1) E = Ok (Some (mkFound (Sp + 1) L (RF f :: po))).
  Proof. facts. apply right_bait; [apply Hp | apply OK | apply OK | fold Sp; lia | fold Sp; lia | lia | exact HE1]. Qed.

  Lemma ebo0 : end_row_bait_overlap r0 = Ok (k - Sp).
  Proof.
    facts. unfold end_row_bait_overlap, last_row, r0. cbn [o_rows o_bait o_end].
    rewrite py_nth_m1. cbn [bind row_len]. cbv zeta. unfold bait1. cbn [f_start f_end].
    f_equal. destruct (_ <? _) eqn:Q; lia.
  Qed.

  Lemma sbo1 : start_row_bait_overlap r1 = Ok (Z.min E (Sp + f_len f) - k).
  Proof.
    facts. unfold start_row_bait_overlap, first_row, r1. cbn [o_rows o_bait o_start].
    rewrite py_nth_0. cbn [bind row_len]. cbv zeta. unfold bait2. cbn [f_start f_end].
    f_equal. destruct (_ <? _) eqn:Q; lia.
  Qed.

  Lemma trim0 : trim_large_overhangs r0 err = Ok r0.
  Proof.
    facts. apply trim_large_keep.
    - unfold r0. cbn [o_rows]. destruct pr; discriminate.
    - left. unfold start_overhang, r0, bait1. cbn [o_bait o_start f_start]. lia.
    - right. exists (k - Sp). split; [exact ebo0 | lia].
  Qed.

  Lemma trim1 : trim_large_overhangs r1 err = Ok r1.
  Proof.
    facts. apply trim_large_keep.
    - unfold r1. cbn [o_rows]. discriminate.
    - right. eexists. split; [exact sbo1 | lia].
    - left. unfold end_overhang, r1, bait2. cbn [o_bait o_end f_end]. lia.
  Qed.

  Let found0 : list (fkey * (frag * list rid)) :=
    map (fun g => (key_of g, (g, [0]))) (frags_of (pr ++ [RF f])).
  Let found1 : list (fkey * (frag * list rid)) :=
    aset key_eqb found0 (key_of f) (f, [0; 1]) ++ map (fun g => (key_of g, (g, [1]))) (frags_of po).
  Let b0 := mkB [] [] [] [] (new_namer prefix) 0.
  Let bA := mkB [r0] [0] found0 [] nm1 0.
  Let bB := mkB [r0; r1] [0; 1] found1 [key_of f] nm1 0.

  Lemma rows_split : rows = (pr ++ [RF f]) ++ po.
  Proof. unfold rows. rewrite <- app_assoc. reflexivity. Qed.

  Lemma stageA1 : one_pretext_scaffold [(name, rows)] err b0 (p1, [RF bait1]) = Ok bA.
  Proof.
    pose proof (one_pretext_single rows name p1 1 k s1 err b0
                  (mkFound 1 (Sp + f_len f) (pr ++ [RF f])) found0 [] hap_name eq_refl eq_refl) as H.
    cbv zeta in H. apply H; clear H.
    - exact fo1.
    - exact trim0.
    - cbn [fo_rows]. destruct pr; discriminate.
    - cbn [fo_rows b0 b_store b_found b_multi]. rewrite store_found_fresh; [reflexivity|].
      cbn [map app]. pose proof ND as N. rewrite rows_split, frags_of_app, map_app in N.
      apply NoDup_app_inv in N. tauto.
  Qed.

  Lemma keys_found0 : map fst found0 = map key_of (frags_of (pr ++ [RF f])).
  Proof. unfold found0. apply map_fst_found. Qed.

  Lemma key_f_in0 : In (key_of f) (map fst found0).
  Proof.
    rewrite keys_found0, frags_of_app, map_app. apply in_or_app. right. left. reflexivity.
  Qed.

  Lemma aget_found0 : aget key_eqb found0 (key_of f) = Some (f, [0]).
  Proof.
    unfold found0. rewrite frags_of_app, map_app, aget_app.
    rewrite (aget_notin key_eqb key_eqb_true).
    - cbn [frags_of flat_map app map aget]. rewrite key_eqb_rfl. reflexivity.
    - rewrite map_fst_found. pose proof ND as N. unfold rows in N.
      rewrite frags_of_app, frags_of_cons_RF, map_app in N. cbn [map] in N.
      apply NoDup_remove_2 in N. intro G. apply N, in_or_app. left. exact G.
  Qed.

  Lemma foldA2 :
    fold_left (store_found_one 1) (frags_of (RF f :: po)) (found0, []) = (found1, [key_of f]).
  Proof.
    rewrite frags_of_cons_RF. cbn [fold_left].
    assert (E1 : store_found_one 1 (found0, []) f
                 = (aset key_eqb found0 (key_of f) (f, [0; 1]), [key_of f])).
    { unfold store_found_one. rewrite aget_found0. reflexivity. }
    rewrite E1, store_found_fresh; [reflexivity|].
    destruct (aset_present found0 (key_of f) (f, [0; 1]) key_f_in0) as [-> _].
    rewrite keys_found0, <- map_app, <- frags_of_app, <- rows_split. exact ND.
  Qed.

  Lemma stageA2 : one_pretext_scaffold [(name, rows)] err bA (p2, [RF bait2]) = Ok bB.
  Proof.
    pose proof (one_pretext_single rows name p2 (k + 1) E s2 err bA
                  (mkFound (Sp + 1) L (RF f :: po)) found1 [key_of f] hap_name eq_refl eq_refl) as H.
    cbv zeta in H. apply H; clear H.
    - exact fo2.
    - exact trim1.
    - discriminate.
    - exact foldA2.
  Qed.

  Lemma aget_found1 : aget key_eqb found1 (key_of f) = Some (f, [0; 1]).
  Proof.
    unfold found1. rewrite aget_app.
    destruct (aset_present found0 (key_of f) (f, [0; 1]) key_f_in0) as [_ ->]. reflexivity.
  Qed.

  Lemma keys_found1 : map fst found1 = map key_of (frags_of rows).
  Proof.
    unfold found1. rewrite map_app, map_fst_found.
    destruct (aset_present found0 (key_of f) (f, [0; 1]) key_f_in0) as [-> _].
    rewrite keys_found0, <- map_app, <- frags_of_app, <- rows_split. reflexivity.
  Qed.

  (* ------------------------------------------- B: the overhang resolver *)
  Let kind0 := match pr with [] => PStart | _ => PEnd end.
  Let P0 := mkPrem kind0 0 f.
  Let P1 := mkPrem PStart 1 f.
  Let store := [r0; r1].

  Lemma get0 : get_ovr store 0 = Ok r0.
  Proof. reflexivity. Qed.
  Lemma get1 : get_ovr store 1 = Ok r1.
  Proof. reflexivity. Qed.

  Lemma row_is_pr x : In x pr -> row_is x f = false.
  Proof. intro H. destruct x as [g|g]; [|reflexivity]. cbn [row_is]. apply IDpr in H. lia. Qed.
  Lemma row_is_po x : In x po -> row_is x f = false.
  Proof. intro H. destruct x as [g|g]; [|reflexivity]. cbn [row_is]. apply IDpo in H. lia. Qed.

  Lemma premise0 : premise_for store f 0 = Ok (Some P0).
  Proof.
    unfold premise_for. rewrite get0. cbn [bind]. unfold first_row, last_row, r0. cbn [o_rows].
    unfold P0, kind0. pose proof row_is_pr as R. destruct pr as [|x t].
    - cbn [app]. rewrite py_nth_0. cbn [bind row_is]. rewrite Z.eqb_refl. reflexivity.
    - cbn [app]. rewrite py_nth_0. cbn [bind]. rewrite R by (left; reflexivity).
      change (x :: t ++ [RF f]) with ((x :: t) ++ [RF f]). rewrite py_nth_m1.
      cbn [bind row_is]. rewrite Z.eqb_refl. reflexivity.
  Qed.

  Lemma premise1 : premise_for store f 1 = Ok (Some P1).
  Proof.
    unfold premise_for. rewrite get1. cbn [bind]. unfold first_row, r1. cbn [o_rows].
    rewrite py_nth_0. cbn [bind row_is]. rewrite Z.eqb_refl. reflexivity.
  Qed.

  Lemma premises : premises_of store f [0; 1] = Ok [P0; P1].
  Proof. cbn [premises_of]. rewrite premise0, premise1. reflexivity. Qed.

  Lemma pbo0 : exists v, p_bait_overlap store P0 = Ok v /\ err <= v.
  Proof.
    facts. unfold p_bait_overlap, P0. cbn [pr_rid pr_kind]. rewrite get0. cbn [bind].
    pose proof ebo0 as Q. unfold kind0. unfold r0, Sp in *. destruct pr as [|x t].
    - unfold start_row_bait_overlap, first_row. cbn [o_rows app]. rewrite py_nth_0.
      cbn [bind row_len o_bait o_start]. cbv zeta. unfold bait1. cbn [f_start f_end].
      eexists. split; [reflexivity|]. rewrite rows_len_nil in *.
      destruct (_ <? _) eqn:Z; lia.
    - exists (k - rows_len (x :: t)). split; [exact Q | lia].
  Qed.

  Lemma pr_cases : pr = [] \/ exists x t, pr = x :: t.
  Proof. destruct pr; eauto. Qed.
  Lemma po_cases : po = [] \/ exists x t, po = x :: t.
  Proof. destruct po; eauto. Qed.

  Lemma improves0 : (exists dd, p_delta store P0 = Ok dd) /\ p_improves store err P0 = Ok false.
  Proof.
    facts. pose proof Hppr as PP.
    destruct pr_cases as [EP|(x & t & EP)].
    - assert (K : kind0 = PStart) by (unfold kind0; rewrite EP; reflexivity).
      assert (O : p_overhang_if_applied store P0 = Ok (1 - (1 + f_len f + 0))).
      { unfold p_overhang_if_applied, P0. rewrite K. cbn [pr_rid pr_kind]. rewrite get0. cbn [bind].
        unfold overhang_if_start_removed, r0. rewrite EP. reflexivity. }
      apply (improves_false store err P0 r0 _ get0 O). left. unfold r0. rewrite EP. reflexivity.
    - assert (K : kind0 = PEnd) by (unfold kind0; rewrite EP; reflexivity).
      assert (O : p_overhang_if_applied store P0
                  = Ok (Sp + f_len f - f_len f - leading_gaps_len (rev pr) - k)).
      { unfold p_overhang_if_applied, P0. rewrite K. cbn [pr_rid pr_kind]. rewrite get0. cbn [bind].
        unfold overhang_if_end_removed, r0. cbn [o_rows o_bait o_end].
        rewrite rev_app_distr. reflexivity. }
      apply (improves_false store err P0 r0 _ get0 O). right.
      assert (G : 0 <= leading_gaps_len (rev pr)).
      { apply leading_gaps_nonneg. unfold pos_rows. apply Forall_rev. exact PP. }
      lia.
  Qed.

  Lemma improves1 : (exists dd, p_delta store P1 = Ok dd) /\ p_improves store err P1 = Ok false.
  Proof.
    facts. pose proof Hppo as PP.
    assert (O : p_overhang_if_applied store P1
                = Ok (k + 1 - (Sp + 1 + f_len f + leading_gaps_len po))).
    { unfold p_overhang_if_applied, P1. cbn [pr_rid pr_kind]. rewrite get1. reflexivity. }
    apply (improves_false store err P1 r1 _ get1 O).
    destruct po_cases as [EP|(x & t & EP)]; [left; unfold r1; rewrite EP; reflexivity | right].
    assert (G := leading_gaps_nonneg _ PP). lia.
  Qed.

  Lemma fix_none : fix_one err store [P0; P1] = Ok (store, None).
  Proof.
    destruct pbo0 as (v & B0 & V). destruct improves0 as ((d0 & D0) & I0).
    destruct improves1 as ((d1 & D1) & I1).
    unfold fix_one. rewrite B0. cbn [bind]. replace (v <? err) with false by lia.
    cbn [mapM bind]. rewrite D0, D1. cbn [bind].
    unfold sort_by_Z. cbn [stable_sort insert_front fst].
    destruct (d0 <=? d1); [rewrite I0 | rewrite I1]; reflexivity.
  Qed.

  Lemma stageB fuel : discard_loop (Datatypes.S fuel) err bB = Ok bB.
  Proof.
    cbn [discard_loop]. unfold bB at 1. cbn [b_multi]. unfold bB at 1 2. cbn [b_found b_store mapM].
    rewrite aget_found1. fold store. rewrite premises. cbn [bind filter].
    cbn [make_fixes]. change (b_store bB) with store. rewrite fix_none. cbn [bind]. reflexivity.
  Qed.

  (* ----------------------------------------------------- C: the two cuts *)
  Let e := Sp + f_len f - k.          (* what result 0 overhangs its bait by *)
  Let m := k - Sp.                    (* what result 1 overhangs its bait by *)
  Let fl := mkFrag (-2) (f_name f)
                   (if f_strand f =? 1 then f_start f else f_start f + e)
                   (if f_strand f =? 1 then f_end f - e else f_end f) (f_strand f) [s "Cut"].
  Let idr := match po with [] => -2 | _ => -1 end.
  Let fr := mkFrag idr (f_name f)
                   (if f_strand f =? 1 then f_start f + m else f_start f)
                   (if f_strand f =? 1 then f_end f else f_end f - m) (f_strand f) [s "Cut"].
  Let r0' := set_span_rows r0 1 k (pr ++ [RF fl]).
  Let r1' := set_span_rows r1 (k + 1) L (RF fr :: po).

  Lemma f_len_big : 6 * err <= f_len f.
  Proof. lia. Qed.

  Lemma T0 : trim_fragment r0 f true false = Ok (fl, r0').
  Proof.
    facts. destruct (py_nth_0_app pr (RF f)) as (x0 & F0).
    unfold trim_fragment, first_row, last_row, start_overhang.
    unfold r0', fl, e, r0. cbn [o_rows o_bait o_start o_end set_span_rows].
    rewrite F0, py_nth_m1. cbn [bind]. cbv zeta. cbn [row_is].
    rewrite Z.eqb_refl, !Bool.andb_false_r, Bool.orb_true_r. cbn [negb andb].
    unfold bait1. cbn [f_end cut_tags f_tags filter].
    replace (Sp + f_len f - k >? 0) with true by lia. cbn [andb].
    unfold cut_tags. cbn [f_tags filter].
    replace (Sp + f_len f - (Sp + f_len f - k)) with k by lia.
    unfold new_frag, strand_ok.
    destruct strand_f as [SF|SF]; rewrite SF.
    - change (1 =? 1) with true. change (1 =? 0) with false. cbn [negb orb andb].
      match goal with |- context [?a >? ?b] => replace (a >? b) with false by (unfold f_len in *; lia) end.
      cbn [bind]. rewrite set_last_snoc. reflexivity.
    - change (-1 =? 1) with false. change (-1 =? 0) with false. change (-1 =? -1) with true.
      cbn [negb orb andb].
      match goal with |- context [?a >? ?b] => replace (a >? b) with false by (unfold f_len in *; lia) end.
      cbn [bind]. rewrite set_last_snoc. reflexivity.
  Qed.

  Lemma last_row_r1 : exists y, py_nth (RF f :: po) (-1) = Ok y
    /\ row_is y f = match po with [] => true | _ => false end.
  Proof.
    destruct po_cases as [EP|(x & t & EP)].
    - exists (RF f). rewrite EP. split; [apply (py_nth_m1 [] (RF f))|]. cbn [row_is]. apply Z.eqb_refl.
    - assert (NE : po <> []) by (rewrite EP; discriminate).
      destruct (exists_last NE) as (t' & y & EQ). exists y. split.
      + rewrite EQ. apply (py_nth_m1 (RF f :: t') y).
      + rewrite EP. apply row_is_po. rewrite EQ. apply in_or_app. right. left. reflexivity.
  Qed.

  Lemma T1 : trim_fragment r1 f false true = Ok (fr, r1').
  Proof.
    facts. destruct last_row_r1 as (y & LY & RY).
    unfold trim_fragment, first_row, last_row, start_overhang.
    unfold r1', fr, idr, m, r1. cbn [o_rows o_bait o_start o_end set_span_rows].
    rewrite py_nth_0, LY. cbn [bind]. cbv zeta. cbn [row_is].
    rewrite Z.eqb_refl, RY, !Bool.andb_false_r. cbn [negb andb orb].
    unfold bait2. cbn [f_start f_end]. unfold cut_tags. cbn [f_tags filter].
    replace (k + 1 - (Sp + 1)) with (k - Sp) by lia.
    replace (k - Sp >? 0) with true by lia. cbn [andb].
    replace (Sp + 1 + (k - Sp)) with (k + 1) by lia.
    unfold new_frag, strand_ok.
    destruct strand_f as [SF|SF]; rewrite SF.
    - change (1 =? 1) with true. change (1 =? 0) with false. cbn [negb orb andb].
      match goal with |- context [?a >? ?b] => replace (a >? b) with false by (unfold f_len in *; lia) end.
      cbn [bind]. destruct po_cases as [EP|(x & t & EP)]; rewrite EP; reflexivity.
    - change (-1 =? 1) with false. change (-1 =? 0) with false. change (-1 =? -1) with true.
      cbn [negb orb andb].
      match goal with |- context [?a >? ?b] => replace (a >? b) with false by (unfold f_len in *; lia) end.
      cbn [bind]. destruct po_cases as [EP|(x & t & EP)]; rewrite EP; reflexivity.
  Qed.

  (* the order in which cut_fragments visits the two results *)
  Lemma fsit : exists st0 st1,
    fragment_start_if_trimmed r0 f = Ok st0 /\ fragment_start_if_trimmed r1 f = Ok st1
    /\ (f_strand f = 1 -> st0 <= st1) /\ (f_strand f = -1 -> st1 < st0).
  Proof.
    facts. destruct (py_nth_0_app pr (RF f)) as (x0 & F0). destruct last_row_r1 as (y & LY & RY).
    unfold fragment_start_if_trimmed, first_row, last_row, start_overhang, end_overhang.
    unfold r0, r1. cbn [o_rows o_bait o_start o_end]. unfold bait1, bait2. cbn [f_start f_end].
    destruct strand_f as [SF|SF]; rewrite SF.
    - change (1 =? 1) with true. cbv iota. rewrite F0, py_nth_0. cbn [bind row_is]. rewrite Z.eqb_refl.
      eexists _, _. split; [reflexivity|]. split; [reflexivity|]. split; [|lia].
      intros _. destruct (row_is x0 f); lia.
    - change (-1 =? 1) with false. cbv iota. rewrite py_nth_m1, LY. cbn [bind row_is]. rewrite Z.eqb_refl, RY.
      eexists _, _. split; [reflexivity|]. split; [reflexivity|]. split; [lia|].
      intros _. destruct po_cases as [EP|(x & t & EP)]; rewrite EP; [|lia].
      assert (rows_len po = 0) by (rewrite EP; reflexivity). lia.
  Qed.

  Lemma trim_all_fwd : f_strand f = 1 ->
    trim_all repaired store f (@cons rid 0 (@cons rid 1 (@nil rid))) 0 1 = Ok ([r0'; r1'], [fl; fr]).
  Proof.
    intro SF. cbn [trim_all fix_swap_keep repaired]. rewrite SF.
    change (1 =? 1) with true. change (0 =? 0) with true. change (0 =? 1) with false.
    change (0 + 1 =? 0) with false. change (0 + 1 =? 1) with true. cbn [negb andb].
    rewrite get0. cbn [bind]. rewrite T0. cbn [bind].
    change (put_ovr store 0 r0') with [r0'; r1].
    change (get_ovr [r0'; r1] 1) with (Ok r1). cbn [bind]. rewrite T1. cbn [bind fst snd].
    reflexivity.
  Qed.

  Lemma trim_all_rev : f_strand f = -1 ->
    trim_all repaired store f (@cons rid 1 (@cons rid 0 (@nil rid))) 0 1 = Ok ([r0'; r1'], [fr; fl]).
  Proof.
    intro SF. cbn [trim_all fix_swap_keep repaired]. rewrite SF.
    change (-1 =? 1) with false. change (0 =? 0) with true. change (0 =? 1) with false.
    change (0 + 1 =? 0) with false. change (0 + 1 =? 1) with true. cbn [negb andb].
    rewrite get1. cbn [bind]. rewrite T1. cbn [bind].
    change (put_ovr store 1 r1') with [r0; r1'].
    change (get_ovr [r0; r1'] 0) with (Ok r0). cbn [bind]. rewrite T0. cbn [bind fst snd].
    reflexivity.
  Qed.

  Lemma qc_fwd : f_strand f = 1 -> qc_sub_fragments f [fl; fr] = Ok tt.
  Proof.
    intro SF. facts. unfold f_len in *.
    apply qc_two; unfold fl, fr, e, m, f_len; rewrite SF; change (1 =? 1) with true;
      cbn [f_name f_start f_end]; try reflexivity; lia.
  Qed.

  Lemma qc_rev : f_strand f = -1 -> qc_sub_fragments f [fr; fl] = Ok tt.
  Proof.
    intro SF. facts. unfold f_len in *.
    apply qc_two; unfold fl, fr, e, m, f_len; rewrite SF; change (-1 =? 1) with false;
      cbn [f_name f_start f_end]; try reflexivity; lia.
  Qed.

  Let bC := mkB [r0'; r1'] [0; 1] found1 [] nm1 1.

  Lemma stageC : cut_remaining_overhangs repaired bB = Ok bC.
  Proof.
    destruct fsit as (st0 & st1 & F0 & F1 & O1 & O2).
    unfold cut_remaining_overhangs. unfold bB at 1. cbn [b_multi foldM].
    unfold cut_fragments. unfold bB at 1. cbn [b_found]. rewrite aget_found1.
    unfold bB at 1 2. cbn [b_store mapM]. fold store. rewrite get0, get1. cbn [bind].
    rewrite F0, F1. cbn [bind]. unfold sort_by_Z. cbn [stable_sort insert_front fst].
    destruct strand_f as [SF|SF].
    - replace (st0 <=? st1) with true by (specialize (O1 SF); lia). cbn [map snd].
      change (zlen [0; 1] - 1) with 1. rewrite (trim_all_fwd SF). cbn [bind].
      rewrite (qc_fwd SF). cbn [bind]. reflexivity.
    - replace (st0 <=? st1) with false by (specialize (O2 SF); lia). cbn [map snd].
      change (zlen [1; 0] - 1) with 1. rewrite (trim_all_rev SF). cbn [bind].
      rewrite (qc_rev SF). cbn [bind]. reflexivity.
  Qed.

  (* ------------------------------------------- D: nothing left, no rename *)
  Lemma stageD g :
    add_missing_one repaired g found1 (nm1, []) (name, rows) = Ok (nm1, []).
  Proof.
    unfold add_missing_one. rewrite missing_all_found; [reflexivity|].
    rewrite Forall_forall. intros h Hh.
    destruct (aget_in key_eqb key_eqb_rfl found1 (key_of h)) as (v & ->); [|discriminate].
    rewrite keys_found1. apply in_map, Hh.
  Qed.

  Lemma core_run g :
    run_body repaired g err [(name, rows)] [(p1, [RF bait1]); (p2, [RF bait2])] b0
    = Ok (mkRun bC []).
  Proof.
    unfold run_body. cbn [foldM]. rewrite stageA1. cbn [bind]. rewrite stageA2. cbn [bind].
    rewrite stageB. cbn [bind]. rewrite stageC. cbn [bind].
    unfold bC at 1 2. cbn [b_namer b_store nm1 nm_hap_scaffolds]. unfold rename_results.
    cbn [mapM bind]. unfold rename_by_size. cbn [map combine fold_left].
    unfold with_store. cbn [b_store b_added b_found b_multi b_namer b_cuts bC].
    fold nm1. rewrite stageD. cbn [bind fst snd]. reflexivity.
  Qed.

  (* what the two results look like *)
  Lemma rows_r0' : map erase_id (o_rows r0') = map erase_id pr ++ [RF (cut_left f (k - Sp))].
  Proof.
    unfold r0'. cbn [set_span_rows o_rows]. rewrite map_app. cbn [map erase_id]. f_equal.
    unfold fl, cut_left, e, f_len. cbn [f_name f_start f_end f_strand f_tags].
    destruct (f_strand f =? 1); do 3 f_equal; lia.
  Qed.

  Lemma rows_r1' : map erase_id (o_rows r1') = RF (cut_right f (k - Sp)) :: map erase_id po.
  Proof.
    unfold r1'. cbn [set_span_rows o_rows map erase_id]. f_equal.
    unfold fr, cut_right, m. cbn [f_name f_start f_end f_strand f_tags].
    destruct (f_strand f =? 1); reflexivity.
  Qed.

  Lemma core_result g :
    exists ra rb bfinal,
      run_body repaired g err [(name, rows)] [(p1, [RF bait1]); (p2, [RF bait2])] b0
        = Ok (mkRun bfinal [])
      /\ b_cuts bfinal = 1
      /\ mapM (get_ovr (b_store bfinal)) (b_added bfinal) = Ok [ra; rb]
      /\ map erase_id (to_scaffold_rows ra) = orient s1 (map erase_id pr ++ [RF (cut_left f (k - Sp))])
      /\ map erase_id (to_scaffold_rows rb) = orient s2 (RF (cut_right f (k - Sp)) :: map erase_id po)
      /\ (o_name ra = name /\ o_orig ra = Some p1 /\ o_start ra = 1 /\ o_end ra = k)
      /\ (o_name rb = name /\ o_orig rb = Some p2 /\ o_start rb = k + 1 /\ o_end rb = rows_len rows).
  Proof.
    exists r0', r1', bC. split; [apply core_run|]. split; [reflexivity|]. split; [reflexivity|].
    split; [|split; [|split; [repeat split | repeat split]]].
    - unfold to_scaffold_rows. change (f_strand (o_bait r0')) with s1.
      rewrite <- rows_r0', <- erase_orient. reflexivity.
    - unfold to_scaffold_rows. change (f_strand (o_bait r1')) with s2.
      rewrite <- rows_r1', <- erase_orient. reflexivity.
  Qed.
End Core.

(* ============================================================ theorem *)
Lemma number_input_single name rows :
  number_input [(name, rows)] 0 = [(name, fst (number_rows rows 0))].
Proof. cbn [number_input]. destruct (number_rows rows 0). reflexivity. Qed.

Lemma number_rows_cons_RF f t n :
  fst (number_rows (RF f :: t) n)
  = RF (mkFrag n (f_name f) (f_start f) (f_end f) (f_strand f) (f_tags f)) :: fst (number_rows t (n + 1)).
Proof. cbn [number_rows]. destruct (number_rows t (n + 1)). reflexivity. Qed.

Theorem two_piece_cut : forall g prefix n d name pr f po k E s1 s2 p1 p2,
  0 <= n -> 0 < d ->
  let rows := pr ++ RF f :: po in
  let err := error_length (n, d) in
  let Sp := rows_len pr in               (* f occupies scaffold coordinates Sp+1 .. Sp+f_len f *)
  sc_ok (name, rows) ->
  NoDup (map key_of (frags_of rows)) ->   (* distinct contigs *)
  Sp + 3 * err <= k ->                    (* the piece of f left of the cut is >= 3 error lengths *)
  k + 3 * err <= Sp + f_len f ->          (* and so is the piece right of it *)
  rows_len (removelast rows) < E -> d * (rows_len rows - E) < n ->   (* E: scaffold end, rounded by < 1 texel *)
  exists rs ra rb,
    remap_to_input repaired g prefix (n, d) [(name, rows)]
       [(p1, [RF (mkFrag (-1) name 1 k s1 [])]); (p2, [RF (mkFrag (-1) name (k + 1) E s2 [])])] = Ok rs
    /\ b_cuts (rs_b rs) = 1
    /\ rs_left rs = []
    /\ mapM (get_ovr (b_store (rs_b rs))) (b_added (rs_b rs)) = Ok [ra; rb]
    /\ map erase_id (to_scaffold_rows ra) = orient s1 (map erase_id pr ++ [RF (cut_left f (k - Sp))])
    /\ map erase_id (to_scaffold_rows rb) = orient s2 (RF (cut_right f (k - Sp)) :: map erase_id po)
    /\ (o_name ra = name /\ o_orig ra = Some p1 /\ o_start ra = 1 /\ o_end ra = k)
    /\ (o_name rb = name /\ o_orig rb = Some p2 /\ o_start rb = k + 1 /\ o_end rb = rows_len rows).
Proof.
  intros g prefix n d name pr f po k E s1 s2 p1 p2 Hn Hd rows err Sp OK ND M1 M2 HE1 HE2.
  rewrite remap_to_input_body.
  change (has_dup_names (map fst [(name, rows)])) with false. cbv iota.
  rewrite number_input_single.
  unfold rows at 1. rewrite number_rows_app, number_rows_cons_RF.
  set (pr' := fst (number_rows pr 0)).
  set (f' := mkFrag (0 + zlen pr) (f_name f) (f_start f) (f_end f) (f_strand f) (f_tags f)).
  set (po' := fst (number_rows po (0 + zlen pr + 1))).
  assert (Epr : map erase_id pr' = map erase_id pr) by apply number_rows_erase.
  assert (Epo : map erase_id po' = map erase_id po) by apply number_rows_erase.
  assert (Er : map erase_id (pr' ++ RF f' :: po') = map erase_id rows).
  { unfold rows. rewrite !map_app. cbn [map]. rewrite Epr, Epo. reflexivity. }
  assert (Lpr : rows_len pr' = rows_len pr) by (apply rows_len_erase, Epr).
  destruct (core_result n d prefix name p1 p2 pr' po' f' k E s1 s2 Hn Hd) with (g := g)
    as (ra & rb & bf & RUN & C & MM & RA & RB & NA & NB).
  - apply (sc_ok_erase name rows); [symmetry; exact Er | exact OK].
  - rewrite (erase_same_keys _ _ Er). exact ND.
  - intros h Hh. apply number_rows_ids in Hh. unfold f'. cbn [f_id]. lia.
  - intros h Hh. apply number_rows_ids in Hh. unfold f'. cbn [f_id]. lia.
  - rewrite Lpr. exact M1.
  - rewrite Lpr. exact M2.
  - rewrite (rows_len_erase (removelast (pr' ++ RF f' :: po')) (removelast rows)); [exact HE1|].
    rewrite !map_removelast, Er. reflexivity.
  - rewrite (rows_len_erase _ _ Er). exact HE2.
  - exists (mkRun bf []), ra, rb. split; [exact RUN|]. cbn [rs_b rs_left].
    split; [exact C|]. split; [reflexivity|]. split; [exact MM|].
    rewrite Lpr, Epr in RA. rewrite Lpr, Epo in RB.
    split; [exact RA|]. split; [exact RB|]. split; [exact NA|].
    rewrite (rows_len_erase _ _ Er) in NB. exact NB.
Qed.

(* ============================================================= examples *)
Definition ex_F (nm : string) (a b st : Z) : row := RF (mkFrag (-1) (list_ascii_of_string nm) a b st []).
Arguments ex_F nm%string_scope a b st.
Definition ex_C (nm : string) (a b st : Z) : row :=
  RF (mkFrag (-1) (list_ascii_of_string nm) a b st [s "Cut"]).
Arguments ex_C nm%string_scope a b st.
Definition ex_G (len : Z) : row := RG (mkGap len (s "scaffold")).
Definition ex_dg : gap := mkGap 200 (s "scaffold").
Definition ex_ptx (k E s1 s2 : Z) : list (str * list row) :=
  [ (s "Scaffold_1", [RF (mkFrag (-1) (s "scaffold_1") 1 k s1 [])]);
    (s "Scaffold_2", [RF (mkFrag (-1) (s "scaffold_1") (k + 1) E s2 [])]) ].

Ltac sc_ok_tac fl tl :=
  unfold sc_ok; cbn [fst snd];
  split; [discriminate|]; split; [repeat constructor; cbn; lia|];
  split; [eexists _, _; reflexivity|]; split; [exists fl, tl; reflexivity|];
  split; [repeat constructor; cbn; lia|]; split; [reflexivity|];
  let f := fresh in let t := fresh in let E := fresh in
  intros f t E; injection E as <- _; reflexivity.

(* ----- a non-trivial instance: texel 7/2 bp (error length 4), gaps on both
   sides of the contig, the contig on the reverse strand, the first Pretext
   scaffold reversed.  Scaffold coordinates: ctg1 1-20, gap 21-25, ctg2 26-125
   (contig 101-200 reversed), gap 126-132, ctg3 133-162.  Cut after 60: 35 bases
   of ctg2 (its high end, 166-200) go left, 65 (101-165) go right. *)
Definition ex_pre : list row := [ex_F "ctg1" 1 20 1; ex_G 5].
Definition ex_f : frag := mkFrag (-1) (s "ctg2") 101 200 (-1) [].
Definition ex_post : list row := [ex_G 7; ex_F "ctg3" 1 30 1].

Definition instance_statement : Prop :=
  exists rs ra rb,
    remap_to_input repaired ex_dg (s "SUPER_") (7, 2) [(s "scaffold_1", ex_pre ++ RF ex_f :: ex_post)]
                   (ex_ptx 60 161 (-1) 1) = Ok rs
    /\ b_cuts (rs_b rs) = 1
    /\ rs_left rs = []
    /\ mapM (get_ovr (b_store (rs_b rs))) (b_added (rs_b rs)) = Ok [ra; rb]
    /\ map erase_id (to_scaffold_rows ra) = [ex_C "ctg2" 166 200 1; ex_G 5; ex_F "ctg1" 1 20 (-1)]
    /\ map erase_id (to_scaffold_rows rb) = [ex_C "ctg2" 101 165 (-1); ex_G 7; ex_F "ctg3" 1 30 1].

(* by running the model *)
Example two_piece_cut_instance : instance_statement.
Proof.
  unfold instance_statement. eexists _, _, _.
  split; [vm_compute; reflexivity|]. split; [vm_compute; reflexivity|].
  split; [vm_compute; reflexivity|]. split; [vm_compute; reflexivity|].
  split; vm_compute; reflexivity.
Qed.

(* by the theorem: its hypotheses are satisfiable *)
Example two_piece_cut_instance_by_theorem : instance_statement.
Proof.
  destruct (two_piece_cut ex_dg (s "SUPER_") 7 2 (s "scaffold_1") ex_pre ex_f ex_post 60 161 (-1) 1
              (s "Scaffold_1") (s "Scaffold_2"))
    as (rs & ra & rb & H1 & H2 & H3 & H4 & H5 & H6 & _).
  - lia.
  - lia.
  - sc_ok_tac (mkFrag (-1) (s "ctg3") 1 30 1 []) [ex_F "ctg1" 1 20 1; ex_G 5; RF ex_f; ex_G 7].
  - cbn. repeat constructor; cbn; intuition discriminate.
  - vm_compute. easy.
  - vm_compute. easy.
  - vm_compute. easy.
  - vm_compute. easy.
  - exists rs, ra, rb. split; [exact H1|]. split; [exact H2|]. split; [exact H3|]. split; [exact H4|].
    split; [rewrite H5 | rewrite H6]; vm_compute; reflexivity.
Qed.

(* ----- the margin is sharp.  No gap next to the contig; error length 4, so the
   margin is 12.  ctg2 (100 bases) occupies 21-120. *)
Definition sh_pre : list row := [ex_F "ctg1" 1 20 1].
Definition sh_f : frag := mkFrag (-1) (s "ctg2") 101 200 1 [].
Definition sh_post : list row := [ex_F "ctg3" 1 30 1].

Lemma sh_ok : sc_ok (s "scaffold_1", sh_pre ++ RF sh_f :: sh_post)
  /\ NoDup (map key_of (frags_of (sh_pre ++ RF sh_f :: sh_post))).
Proof.
  split.
  - sc_ok_tac (mkFrag (-1) (s "ctg3") 1 30 1 []) [ex_F "ctg1" 1 20 1; RF sh_f].
  - cbn. repeat constructor; cbn; intuition discriminate.
Qed.

(* a cut 11 = 3*4 - 1 bases into ctg2 is not made: ctg2 goes whole to the right *)
Example margin_sharp_left :
  rows_len sh_pre + 3 * error_length (7, 2) = 31 + 1
  /\ 31 + 3 * error_length (7, 2) <= rows_len sh_pre + f_len sh_f
  /\ exists rs ra rb,
    remap_to_input repaired ex_dg (s "SUPER_") (7, 2) [(s "scaffold_1", sh_pre ++ RF sh_f :: sh_post)]
                   (ex_ptx 31 150 1 1) = Ok rs
    /\ b_cuts (rs_b rs) = 0
    /\ mapM (get_ovr (b_store (rs_b rs))) (b_added (rs_b rs)) = Ok [ra; rb]
    /\ map erase_id (to_scaffold_rows ra) = [ex_F "ctg1" 1 20 1]
    /\ map erase_id (to_scaffold_rows rb) = [ex_F "ctg2" 101 200 1; ex_F "ctg3" 1 30 1].
Proof.
  split; [reflexivity|]. split; [vm_compute; easy|]. eexists _, _, _.
  split; [vm_compute; reflexivity|]. split; [vm_compute; reflexivity|].
  split; [vm_compute; reflexivity|]. split; vm_compute; reflexivity.
Qed.

(* ... and 12 bases in, it is *)
Example margin_attained_left :
  rows_len sh_pre + 3 * error_length (7, 2) = 32
  /\ exists rs ra rb,
    remap_to_input repaired ex_dg (s "SUPER_") (7, 2) [(s "scaffold_1", sh_pre ++ RF sh_f :: sh_post)]
                   (ex_ptx 32 150 1 1) = Ok rs
    /\ b_cuts (rs_b rs) = 1
    /\ mapM (get_ovr (b_store (rs_b rs))) (b_added (rs_b rs)) = Ok [ra; rb]
    /\ map erase_id (to_scaffold_rows ra) = [ex_F "ctg1" 1 20 1; ex_C "ctg2" 101 112 1]
    /\ map erase_id (to_scaffold_rows rb) = [ex_C "ctg2" 113 200 1; ex_F "ctg3" 1 30 1].
Proof.
  split; [reflexivity|]. eexists _, _, _.
  split; [vm_compute; reflexivity|]. split; [vm_compute; reflexivity|].
  split; [vm_compute; reflexivity|]. split; vm_compute; reflexivity.
Qed.

(* a cut 11 bases before the end of ctg2 is not made either: ctg2 goes whole to the left *)
Example margin_sharp_right :
  rows_len sh_pre + 3 * error_length (7, 2) <= 109
  /\ 109 + 3 * error_length (7, 2) = rows_len sh_pre + f_len sh_f + 1
  /\ exists rs ra rb,
    remap_to_input repaired ex_dg (s "SUPER_") (7, 2) [(s "scaffold_1", sh_pre ++ RF sh_f :: sh_post)]
                   (ex_ptx 109 150 1 1) = Ok rs
    /\ b_cuts (rs_b rs) = 0
    /\ mapM (get_ovr (b_store (rs_b rs))) (b_added (rs_b rs)) = Ok [ra; rb]
    /\ map erase_id (to_scaffold_rows ra) = [ex_F "ctg1" 1 20 1; ex_F "ctg2" 101 200 1]
    /\ map erase_id (to_scaffold_rows rb) = [ex_F "ctg3" 1 30 1].
Proof.
  split; [vm_compute; easy|]. split; [reflexivity|]. eexists _, _, _.
  split; [vm_compute; reflexivity|]. split; [vm_compute; reflexivity|].
  split; [vm_compute; reflexivity|]. split; vm_compute; reflexivity.
Qed.

(* ----- the hypothesis is sufficient, not necessary: a gap next to the contig is
   credited to the margin (here 5 + 7 = 12), and at the very start of a scaffold an
   error length (4) is enough.  Observations by computation only. *)
Example gap_counts_towards_margin :
  exists rs ra rb,
    remap_to_input repaired ex_dg (s "SUPER_") (7, 2) [(s "scaffold_1", ex_pre ++ RF ex_f :: ex_post)]
                   (ex_ptx 32 161 1 1) = Ok rs
    /\ b_cuts (rs_b rs) = 1
    /\ mapM (get_ovr (b_store (rs_b rs))) (b_added (rs_b rs)) = Ok [ra; rb]
    /\ map erase_id (to_scaffold_rows ra) = [ex_F "ctg1" 1 20 1; ex_G 5; ex_C "ctg2" 194 200 (-1)]
    /\ map erase_id (to_scaffold_rows rb) = [ex_C "ctg2" 101 193 (-1); ex_G 7; ex_F "ctg3" 1 30 1].
Proof.
  eexists _, _, _.
  split; [vm_compute; reflexivity|]. split; [vm_compute; reflexivity|].
  split; [vm_compute; reflexivity|]. split; vm_compute; reflexivity.
Qed.

Example first_contig_needs_one_error_length :
  exists rs ra rb,
    remap_to_input repaired ex_dg (s "SUPER_") (7, 2) [(s "scaffold_1", RF sh_f :: sh_post)]
                   (ex_ptx 4 130 1 1) = Ok rs
    /\ b_cuts (rs_b rs) = 1
    /\ mapM (get_ovr (b_store (rs_b rs))) (b_added (rs_b rs)) = Ok [ra; rb]
    /\ map erase_id (to_scaffold_rows ra) = [ex_C "ctg2" 101 104 1]
    /\ map erase_id (to_scaffold_rows rb) = [ex_C "ctg2" 105 200 1; ex_F "ctg3" 1 30 1].
Proof.
  eexists _, _, _.
  split; [vm_compute; reflexivity|]. split; [vm_compute; reflexivity|].
  split; [vm_compute; reflexivity|]. split; vm_compute; reflexivity.
Qed.

Print Assumptions two_piece_cut.
Print Assumptions two_piece_cut_instance.
Print Assumptions two_piece_cut_instance_by_theorem.
Print Assumptions sh_ok.
Print Assumptions margin_sharp_left.
Print Assumptions margin_attained_left.
Print Assumptions margin_sharp_right.
Print Assumptions gap_counts_towards_margin.
Print Assumptions first_contig_needs_one_error_length.
