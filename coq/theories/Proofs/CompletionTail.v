(* Progress of the last stage of remap_to_input: renaming an empty list of
   results, and re-adding the input contigs that no bait found
   (add_missing_scaffolds_from_input) when no input contig carries a tag. *)
From Tola Require Import Py.Base Py.Sort Model.Fragment Model.Scaffold Model.Lookup
  Model.OverlapResult Model.Namer Model.Remap Model.RemapSpec
  Proofs.BaseLemmas Proofs.RemapHead Proofs.JoinGaps.
From Coq Require Import Lia ZifyBool.

(* ------------------------------------------------------- rename_results *)
Lemma rename_results_nil st : rename_results st [] = Ok st.
Proof. reflexivity. Qed.

(* ---------------------------------------------------------- untagged rows *)
Lemma flat_map_tags_nil : forall l : list frag,
  Forall (fun f => f_tags f = []) l -> flat_map f_tags l = [].
Proof.
  induction l as [|f l IH]; intro H; [reflexivity|].
  inversion H as [|f' l' Hf Hl]; subst. cbn [flat_map]. rewrite Hf, (IH Hl). reflexivity.
Qed.

Lemma fragment_tags_untagged rows :
  Forall (fun f => f_tags f = []) (frags_of rows) -> fragment_tags rows = [].
Proof. intro H. unfold fragment_tags. rewrite (flat_map_tags_nil _ H). reflexivity. Qed.

(* ----------------------------------- make_scaffold_name without any tag *)
Lemma make_scaffold_name_untagged nm name rows f t :
  rows = RF f :: t -> fragment_tags rows = [] ->
  exists nm', make_scaffold_name nm name rows [] = Ok nm'
              /\ nm_unloc_scaffolds nm' = []
              /\ nm_hap_scaffolds nm' = nm_hap_scaffolds nm
              /\ nm_target nm' = nm_target nm.
Proof.
  intros Hrows Htags. unfold make_scaffold_name. rewrite Htags. subst rows.
  cbn [foldM bind ts_hap ts_lc ts_primary ts_name ts_painted ts_rank ts_target truthy andb negb
       first_row_name].
  destruct (haplotype_prefix_of_name (f_name f)) as [p|] eqn:Ehp.
  - destruct (get_set_haplotype (nm_hap_lc nm) p) as [h lc] eqn:Egs.
    cbn [bind]. eexists. split; [reflexivity|].
    cbn [nm_unloc_scaffolds nm_hap_scaffolds nm_target]. repeat split; reflexivity.
  - cbn [bind]. eexists. split; [reflexivity|].
    cbn [nm_unloc_scaffolds nm_hap_scaffolds nm_target]. repeat split; reflexivity.
Qed.

(* ------------------------------------------------------- add_missing_one *)
Lemma add_missing_one_ok c dg found nm left isc :
  Forall (fun f => f_tags f = []) (frags_of (snd isc)) ->
  exists r, add_missing_one c dg found (nm, left) isc = Ok r.
Proof.
  destruct isc as [name rows]. cbn [snd]. intro Hun. unfold add_missing_one.
  pose proof (missing_rows_frags c found dg rows [] 0 None) as Hfr.
  destruct (missing_rows_first c found dg rows [] 0) as [E|(f & t & E)].
  - rewrite E. eexists. reflexivity.
  - assert (Hnt : fragment_tags (missing_rows c found dg rows [] 0 None) = []).
    { apply fragment_tags_untagged. rewrite Hfr. rewrite Forall_forall in Hun |- *.
      intros g Hg. apply filter_In in Hg. destruct Hg as [Hg _]. apply Hun, Hg. }
    destruct (make_scaffold_name_untagged nm name _ f t E Hnt) as (nm' & Hm & _).
    rewrite E in Hm |- *. rewrite Hm. cbn [bind]. eexists. reflexivity.
Qed.

Lemma add_missing_fold_ok c dg found : forall input nm left,
  Forall (fun f => f_tags f = []) (in_frags input) ->
  exists r, foldM (add_missing_one c dg found) input (nm, left) = Ok r.
Proof.
  induction input as [|isc input IH]; intros nm left Hun; cbn [foldM].
  - eexists. reflexivity.
  - unfold in_frags in Hun. cbn [flat_map] in Hun. apply Forall_app in Hun.
    destruct Hun as [H1 H2].
    destruct (add_missing_one_ok c dg found nm left isc H1) as ([nm1 left1] & E).
    rewrite E. cbn [bind]. apply IH. exact H2.
Qed.

Print Assumptions rename_results_nil.
Print Assumptions make_scaffold_name_untagged.
Print Assumptions add_missing_one_ok.
Print Assumptions add_missing_fold_ok.
