(* C02 completion for well-paired TWO-HAPLOTYPE painted maps.
   Part 1: the labels.  Every bait of Pretext scaffold [nm] carries exactly
   ["Painted"; hapf nm]; then every stored result carries the labels
   (nm, no tag, haplotype hapf nm, rank 1, original name nm). *)
From Tola Require Import Py.Base Py.Dec Py.Sort Model.Fragment Model.Scaffold Model.Lookup
  Model.OverlapResult Model.NaturalKey Model.Namer Model.Remap Model.RemapSpec
  Proofs.BaseLemmas Proofs.OverlapResult Proofs.RemapHead Proofs.PipelineInv Proofs.CoreKept
  Proofs.Junctions Proofs.Routing Proofs.NaturalKey Proofs.Naming Proofs.UniqueNames
  Proofs.CompletionLookup Proofs.CompletionTail Proofs.Completion Proofs.MultiHap
  Proofs.CompletionPainted Proofs.CompletionTagged.
From Tola Require Proofs.RemapFinal Proofs.RemapTail Proofs.JoinGaps.
From Coq Require Import Lia ZifyBool Permutation Bool.

Section Labels.
  Variables h1 h2 : str.
  Hypothesis Hlow : lower h1 <> lower h2.
  Hypothesis Hh1 : is_hap_tag h1 = true.
  Hypothesis Hh2 : is_hap_tag h2 = true.

  Definition is12 (h : str) : Prop := h = h1 \/ h = h2.

  Lemma is12_hap h : is12 h -> is_hap_tag h = true.
  Proof. intros [-> | ->]; assumption. Qed.

  Definition lcg (lc : list (str * str)) : Prop :=
    forall h, is12 h -> aget str_eqb lc (lower h) = None \/ aget str_eqb lc (lower h) = Some h.

  Lemma gsh_12 lc h : lcg lc -> is12 h -> exists lc', get_set_haplotype lc h = (h, lc') /\ lcg lc'.
  Proof.
    intros L I. unfold get_set_haplotype. destruct (L h I) as [E|E]; rewrite E.
    - eexists. split; [reflexivity|]. intros x Ix.
      destruct (L x Ix) as [Ex|Ex].
      + rewrite (aget_app_r _ _ _ _ Ex). cbn [aget].
        destruct (str_eqb (lower x) (lower h)) eqn:Q; [|left; reflexivity].
        apply str_eqb_eq in Q. right. f_equal.
        destruct I as [-> | ->], Ix as [-> | ->]; try reflexivity; exfalso; apply Hlow; congruence.
      + right. apply aget_app_l. exact Ex.
    - eexists. split; [reflexivity | exact L].
  Qed.

  Definition NI (nm : namer) : Prop :=
    nm_target nm = false /\ truthy (nm_primary nm) = false /\ nm_unloc_scaffolds nm = []
    /\ nm_hap_scaffolds nm = [] /\ lcg (nm_hap_lc nm).

  Lemma scan_painted st : scan_tag st (s "Painted")
    = Ok (mkScan (ts_name st) (ts_hap st) true (ts_rank st) (ts_primary st) (ts_target st) (ts_lc st)).
  Proof. reflexivity. Qed.

  Lemma msn_hap nm name rows f t h :
    NI nm -> rows = RF f :: t -> is12 h ->
    exists nm', make_scaffold_name nm name rows [s "Painted"; h] = Ok nm' /\ NI nm'
      /\ nm_cur_name nm' = Some name /\ nm_cur_rank nm' = 1 /\ nm_cur_hap nm' = Some h.
  Proof.
    intros (T & P & U & Hs & L) Hrows I. rewrite msn_unfold. cbn [foldM]. rewrite scan_painted. cbn [bind].
    set (st1 := mkScan _ _ _ _ _ _ _).
    pose proof (is12_hap h I) as Hh.
    destruct (scan_tag_cases st1 h) as [(Hn & _) | [(_ & E) | (_ & Hn & _)]];
      [rewrite (name_not_hap h Hn) in Hh; discriminate | | congruence].
    rewrite E. unfold st1. cbn [ts_hap truthy ts_lc ts_name ts_painted ts_rank ts_primary ts_target].
    destruct (gsh_12 (nm_hap_lc nm) h L I) as (lc' & -> & L'). cbn [bind ts_hap ts_lc].
    assert (Et : truthy (Some h) = true) by (apply truthy_nonempty, hap_tag_nonempty, Hh). setoid_rewrite Et. cbn [bind].
    unfold msn_tail. cbn [ts_primary andb bind ts_name ts_painted ts_rank ts_target]. rewrite P.
    eexists. split; [reflexivity|].
    cbn [nm_cur_name nm_cur_rank nm_cur_hap]. repeat split; cbn; assumption.
  Qed.

  Lemma known_not_hap X h : is_hap_tag h = true -> In X other_known_tags ->
    mem_str X [s "Painted"; h] = false.
  Proof.
    intros H I. destruct (mem_str X [s "Painted"; h]) eqn:E; [|reflexivity]. exfalso.
    apply mem_str_in in E. destruct E as [E|[E|[]]]; subst X.
    - cbn in I. intuition discriminate.
    - unfold is_hap_tag in H. destruct h; [discriminate|].
      apply andb_true_iff in H as [_ H]. apply negb_true_iff in H. apply mem_str_in in I. congruence.
  Qed.

  Lemma label_hap nm id h stags : nm_target nm = false -> is_hap_tag h = true ->
    label_scaffold nm id [s "Painted"; h] stags
    = Ok (nm, mkLabel (match nm_cur_name nm with Some n => n | None => [] end) None (nm_cur_hap nm) (nm_cur_rank nm)).
  Proof.
    intros T H. unfold label_scaffold. rewrite T.
    rewrite !(known_not_hap _ h H) by (cbn; tauto). reflexivity.
  Qed.

  (* ------------------------------------------------------------- the store *)
  Variable names : list str.
  Variable hapf : str -> str.

  Definition lab_of (nm : str) : labs := (nm, None, Some (hapf nm), 1, Some nm).
  Definition labP (l : labs) : Prop := exists nm, In nm names /\ nm <> [] /\ l = lab_of nm.
  Definition SI (b : bstate) : Prop := NI (b_namer b) /\ Forall (fun r => labP (o_labs r)) (b_store b).

  Lemma one_bait_SI inp err sc_tags pname b bait b' :
    In pname names -> pname <> [] -> f_tags bait = [s "Painted"; hapf pname] -> is12 (hapf pname) ->
    nm_cur_name (b_namer b) = Some pname -> nm_cur_rank (b_namer b) = 1 ->
    nm_cur_hap (b_namer b) = Some (hapf pname) ->
    SI b -> one_bait inp err sc_tags pname b bait = Ok b' -> SI b' /\ b_namer b' = b_namer b.
  Proof.
    intros Hin Hne Ht I C1 C2 C3 [N F] H. unfold one_bait in H. unfold bind in H.
    destruct (input_rows inp (f_name bait)) as [rows|]; [|discriminate].
    destruct (find_overlaps rows (f_start bait) (f_end bait)) as [[fo|]|];
      [|injection H as <-; split; [split; assumption | reflexivity]|discriminate].
    rewrite Ht, (label_hap _ _ _ _ (proj1 N) (is12_hap _ I)) in H. rewrite C1, C2, C3 in H.
    destruct (trim_large_overhangs _ err) as [r1|] eqn:ET; [|discriminate].
    assert (EB : b_store b' = b_store b ++ [r1] /\ b_namer b' = b_namer b).
    { destruct (o_rows r1); injection H as <-; [split; reflexivity|].
      unfold store_fragments_found. cbn [b_store b_found b_multi b_added b_namer b_cuts].
      destruct (fold_left _ _ _). split; reflexivity. }
    destruct EB as [E1 E2]. split; [|exact E2]. unfold SI. rewrite E1, E2. split; [exact N|].
    apply Forall_app. split; [exact F|]. constructor; [|constructor].
    rewrite (trim_large_labs _ _ _ ET). exists pname. split; [exact Hin|]. split; [exact Hne|]. reflexivity.
  Qed.

  Lemma rename_nil st st' : rename_results st [] = Ok st' -> st' = st.
  Proof. intro H. cbn in H. injection H as <-. reflexivity. Qed.

  Lemma one_pretext_SI inp err b pname prows b' :
    In pname names -> pname <> [] -> (exists b0 t, prows = RF b0 :: t) ->
    Forall (fun bt => f_tags bt = [s "Painted"; hapf pname]) (frags_of prows) -> is12 (hapf pname) ->
    SI b -> one_pretext_scaffold inp err b (pname, prows) = Ok b' -> SI b'.
  Proof.
    intros Hin Hne (f & t & Hrows) Hb I [N F] H. unfold one_pretext_scaffold, bind in H.
    assert (Et : fragment_tags prows = [s "Painted"; hapf pname]).
    { subst prows. change (frags_of (RF f :: t)) with (f :: frags_of t) in *.
      inversion Hb as [|? ? B1 B2]; subst.
      unfold fragment_tags. change (frags_of (RF f :: t)) with (f :: frags_of t).
      cbn [flat_map]. rewrite B1.
      assert (K : forall l seen, Forall (fun bt => f_tags bt = [s "Painted"; hapf pname]) l ->
                    In (s "Painted") seen -> In (hapf pname) seen ->
                    dedup_acc str_eqb seen (flat_map f_tags l) = []).
      { induction l as [|x l IH]; intros seen Fl S1 S2; [reflexivity|].
        inversion Fl as [|? ? X1 X2]; subst. cbn [flat_map]. rewrite X1. cbn [app dedup_acc].
        rewrite !existsb_str_in by assumption. apply IH; assumption. }
      unfold dedup. cbn [app dedup_acc existsb].
      assert (Q : str_eqb (hapf pname) (s "Painted") = false).
      { apply str_eqb_neq. intro Q. pose proof (is12_hap _ I) as X. rewrite Q in X. vm_compute in X. discriminate. }
      rewrite Q. cbn [orb]. rewrite K; [reflexivity | exact B2 | right; left; reflexivity | left; reflexivity]. }
    cbv zeta in H. rewrite Et in H.
    destruct (msn_hap (b_namer b) pname prows f t (hapf pname) N Hrows I) as (nm & Em & N' & C1 & C2 & C3). rewrite Em in H.
    destruct (foldM _ (frags_of prows) (with_namer b nm)) as [b1|] eqn:EF; [|discriminate].
    assert (I1 : SI b1 /\ b_namer b1 = nm).
    { apply (foldM_inv_in (one_bait inp err [s "Painted"; hapf pname] pname)
               (fun b => SI b /\ b_namer b = nm) (frags_of prows)) with (3 := EF).
      - intros s0 a s1 Ia [Hs En] E. rewrite Forall_forall in Hb.
        destruct (one_bait_SI _ _ _ _ _ _ _ Hin Hne (Hb a Ia) I
                    ltac:(rewrite En; exact C1) ltac:(rewrite En; exact C2) ltac:(rewrite En; exact C3) Hs E) as [K1 K2].
        split; [exact K1 | congruence].
      - split; [|reflexivity]. split; [exact N' | exact F]. }
    destruct I1 as [[J1 J2] J3]. destruct J1 as (T1 & T2 & T3 & T4).
    rewrite T3 in H. destruct (rename_results (b_store b1) []) as [st|] eqn:ER; [|discriminate].
    apply rename_nil in ER. subst st. injection H as <-.
    split; [exact (conj T1 (conj T2 (conj T3 T4))) | exact J2].
  Qed.
End Labels.

(* ================================================================ Part 2 *)
From Tola Require Import Proofs.ChromosomeNumbersHead Proofs.CompletionTwoHapsTail Proofs.CompletionTwoHapsGlue.
From Coq Require Import Sorted.

Definition hap_baits (hapf : str -> str) (pretext : list (str * list row)) : Prop :=
  Forall (fun p => Forall (fun bt => f_tags bt = [s "Painted"; hapf (fst p)]) (frags_of (snd p))) pretext.

Lemma concat_tags_two h : forall frs, Forall (fun bt : frag => f_tags bt = [s "Painted"; h]) frs ->
  forall t, In t (concat (map f_tags frs)) -> t = s "Painted" \/ t = h.
Proof.
  induction frs as [|x l IH]; intros F t I; [destruct I|]. inversion F as [|? ? X1 X2]; subst.
  cbn [map concat] in I. rewrite X1 in I. destruct I as [<-|[<-|I]]; auto.
Qed.

Lemma two_tags_consistent h frs : is_hap_tag h = true ->
  Forall (fun bt : frag => f_tags bt = [s "Painted"; h]) frs ->
  scaffold_tags_consistent (map f_tags frs).
Proof.
  intros Hh F. pose proof (concat_tags_two h frs F) as C.
  assert (Nn : is_name_tag h = false).
  { destruct (is_name_tag h) eqn:E; [|reflexivity]. rewrite (name_not_hap h E) in Hh. discriminate. }
  split; [|split; [|split]].
  - intros t1 t2 I1 _ N1 _. destruct (C t1 I1) as [-> | ->]; [vm_compute in N1|]; congruence.
  - intros t1 t2 I1 I2 N1 N2. destruct (C t1 I1) as [-> | ->]; [vm_compute in N1; discriminate|].
    destruct (C t2 I2) as [-> | ->]; [vm_compute in N2; discriminate | reflexivity].
  - intro I. destruct (C _ I) as [E|E]; [discriminate E|]. rewrite <- E in Hh. vm_compute in Hh. discriminate.
  - intros l Il Hu. exfalso. apply in_map_iff in Il as (bt & <- & Ib). rewrite Forall_forall in F.
    rewrite (F bt Ib) in Hu. unfold unloc_piece in Hu.
    rewrite (known_not_hap (s "Unloc") h Hh) in Hu by (cbn; tauto). discriminate.
Qed.

Definition left3 (l : labs) : Prop := let '(_, tag, _, rank, orig) := l in tag = None /\ rank = 3 /\ orig = None.

(* PARTIAL: the last hypothesis (every Pretext scaffold leaves at least one
   fused rank-1 scaffold) is stated on the run, not on the input.  It should
   follow from CoreKept.core_kept_end_to_end when every Pretext scaffold has a
   bait with a contig base in its core; that step is NOT proved here. *)
Theorem two_haplotype_maps_complete_partial : forall g prefix n d input pretext h1 h2 (hapf : str -> str) k,
  0 < d -> d <= n ->
  Forall input_ok input -> NoDup (map fst input) ->
  NoDup (map key_of (in_frags input)) ->
  Forall (fun f => f_tags f = []) (in_frags input) ->
  Forall (fun f => f_strand f = 1 \/ f_strand f = -1) (in_frags input) ->
  Forall (fun p => exists b t, snd p = RF b :: t) pretext ->
  Forall (fun b => (f_strand b = 1 \/ f_strand b = -1) /\ In (f_name b) (map fst input)) (baits_of pretext) ->
  Forall (scaffold_tiled n d (baits_of pretext)) input ->
  lower h1 <> lower h2 -> is_hap_tag h1 = true -> is_hap_tag h2 = true ->
  (* every bait of Pretext scaffold nm carries exactly Painted and the haplotype hapf nm;
     the haplotypes alternate h1, h2, h1, h2, ... down the map *)
  hap_baits hapf pretext ->
  map hapf (map fst pretext) = alternating h1 h2 (S k) ->
  NoDup (map fst pretext) -> Forall (fun p => fst p <> []) pretext ->
  (forall rs fused0, remap_to_input repaired g prefix (n, d) input pretext = Ok rs ->
     fuse_all repaired g rs = Ok fused0 ->
     forall nm, In nm (map fst pretext) -> exists sc, In sc fused0 /\ sc_rank sc = 1 /\ sc_orig sc = Some nm) ->
  exists o, remap repaired g prefix (n, d) input pretext = Ok o.
Proof.
  intros g prefix n d input pretext h1 h2 hapf k Hd Hdn Hin Hnm Hkeys Hunt Hpm Hpre Hb Htile
    Hlow Hh1 Hh2 Hbaits Halt Hnd Hne Hex.
  set (names := map fst pretext) in *.
  assert (H12 : forall nm, In nm names -> is12 h1 h2 (hapf nm)).
  { intros nm I. assert (X : In (hapf nm) (alternating h1 h2 (S k))) by (rewrite <- Halt; apply in_map, I).
    clear -X. induction (S k) as [|m IH]; [destruct X|]. cbn [alternating] in X.
    destruct X as [X|[X|X]]; [left; auto | right; auto | exact (IH X)]. }
  assert (Hdiff : h1 <> h2) by (intro E; apply Hlow; rewrite E; reflexivity).
  destruct (completion_of_tagged_tiling_maps g prefix n d input pretext Hd Hdn Hin Hnm Hkeys Hunt Hpre Hb)
    as (rs & Hrs); [|exact Htile|].
  { apply Forall_forall. intros p Ip. unfold hap_baits in Hbaits. rewrite Forall_forall in Hbaits.
    apply (two_tags_consistent (hapf (fst p))); [|exact (Hbaits p Ip)].
    apply (is12_hap h1 h2 Hh1 Hh2), H12. apply in_map, Ip. }
  unfold remap. rewrite Hrs. cbn [bind].
  assert (Hwf0 : Forall (fun f => f_start f <= f_end f) (in_frags input)).
  { apply in_frags_Forall. eapply Forall_impl; [|exact Hin]. intros isc (_ & _ & _ & _ & H).
    eapply Forall_impl; [|exact H]. intros f [_ Hw]. exact Hw. }
  destruct (fuse_all_total _ g _ _ _ _ _ Hwf0 Hrs) as (fused0 & HF).
  specialize (Hex rs fused0 Hrs HF).
  (* labels *)
  assert (HQ : Forall (fun sc => labP names hapf (sc_labs sc) \/ left3 (sc_labs sc)) fused0).
  { destruct (run_stages _ _ _ _ _ _ _ Hrs) as (fuel & b1 & b2 & b3 & st & nm & left & E1 & E2 & E3 & E4 & E5 & ->).
    assert (Hunt' : Forall (fun f => f_tags f = []) (in_frags (number_input input 0))).
    { apply number_input_frags; [intros f id P; exact P | exact Hunt]. }
    assert (O1 : SI h1 h2 names hapf b1).
    { apply (foldM_inv_in _ (SI h1 h2 names hapf) pretext) with (3 := E1).
      - intros s0 [pname prows] s1 Ia Hs E. unfold hap_baits in Hbaits. rewrite Forall_forall in Hpre, Hbaits, Hne.
        apply (one_pretext_SI h1 h2 Hlow Hh1 Hh2 names hapf (number_input input 0) (error_length (n, d)) s0 pname prows s1); try assumption.
        + apply (in_map fst _ _ Ia).
        + exact (Hne _ Ia).
        + exact (Hpre _ Ia).
        + exact (Hbaits _ Ia).
        + apply H12. apply (in_map fst _ _ Ia).
      - split; [|constructor]. repeat split. intros h _. left. reflexivity. }
    destruct (discard_loop_labs _ _ _ _ E2) as (L2 & _ & N2).
    destruct (cut_remaining_labs _ _ _ E3) as (L3 & _ & N3).
    destruct O1 as [(T1 & T2 & T3 & T4 & T5) F1].
    assert (F3 : Forall (fun r => labP names hapf (o_labs r)) (b_store b3)).
    { apply (Forall_map_eq o_labs (labP names hapf) (b_store b1)); [congruence | exact F1]. }
    assert (Nb3 : b_namer b3 = b_namer b1) by congruence.
    rewrite Nb3, T4 in E4. apply rename_nil in E4. subst st.
    assert (T3' : nm_target (b_namer b3) = false) by (rewrite Nb3; exact T1).
    pose proof (leftovers_fine repaired g _ _ _ _ _ _ Hunt' T3' (Forall_nil _) E5) as FL.
    pose proof (leftovers_left_lab repaired g _ _ _ _ _ _ (Forall_nil _) E5) as FL2.
    apply (fuse_all_labs (fun l => labP names hapf l \/ left3 l) repaired g _ fused0) with (3 := HF).
    - cbn [rs_b with_namer with_store b_store]. eapply Forall_impl; [|exact F3]. intros r Hr. left. exact Hr.
    - cbn [rs_left]. rewrite Forall_forall in *. intros sc Isc. right.
      destruct (FL sc Isc) as [K1 K2]. destruct (FL2 sc Isc) as [_ K3]. unfold left3, sc_labs. auto. }
  assert (Hrows0 : forall sc, In sc fused0 -> spm (sc_rows sc)).
  { apply (fuse_all_spm repaired g rs fused0);
      [exact (store_pm _ _ _ _ _ _ _ Hpm Hrs) | exact (left_pm _ _ _ _ _ _ _ Hpm Hrs) | exact HF]. }
  destruct (fused_order repaired g prefix (n, d) input pretext rs fused0 Hnd Hrs HF) as [Hsorted _].
  pose proof (fuse_keys_nodup g rs fused0 HF) as Hkeysnd.
  rewrite Forall_forall in HQ.
  assert (Hr1 : forall sc, In sc fused0 -> sc_rank sc = 1 ->
            exists nm, In nm names /\ nm <> [] /\ sc_labs sc = lab_of hapf nm).
  { intros sc I R. destruct (HQ sc I) as [(nm & A & B & C)|L]; [exists nm; auto|].
    unfold left3, sc_labs in L. destruct L as (_ & L & _). lia. }
  set (fused1 := map (prefix_rank2 prefix) fused0).
  destruct (two_hap_items_shape fused1 names hapf h1 h2 k Hnd) as (p0 & pairs & Eitems & Hsub & Hndi).
  - apply Forall_forall. intros sc1 I1 R1. apply in_map_iff in I1 as (sc0 & <- & I0).
    destruct (prefix_rank2_sbn prefix sc0) as (_ & _ & _ & Rk & Ro & _). rewrite Rk in R1.
    destruct (Hr1 sc0 I0 R1) as (nm & A & B & C). exists nm. split; [exact A|]. split; [exact B|].
    unfold sc_labs, lab_of in C. injection C as _ Ct Ch _ Co. split; [congruence|].
    rewrite (same_but_name_asm_k _ _ (prefix_rank2_sbn prefix sc0)). unfold asm_k, asm_key_of.
    rewrite Ct, Ch. change (truthy None) with false. cbv iota.
    pose proof (hap_tag_nonempty _ (is12_hap h1 h2 Hh1 Hh2 _ (H12 nm A))) as Xne.
    destruct (hapf nm) as [|c0 t0]; [congruence | reflexivity].
  - unfold fused1. rewrite map_map.
    erewrite map_ext; [exact Hsorted|]. intro sc0. unfold skey.
    destruct (prefix_rank2_sbn prefix sc0) as (_ & _ & _ & _ & Ro & _). rewrite Ro. reflexivity.
  - intros i j a b Ea Eb Ra Rb Eo. unfold fused1 in Ea, Eb. rewrite nth_error_map in Ea, Eb.
    destruct (nth_error fused0 i) as [a0|] eqn:Ia; [|discriminate].
    destruct (nth_error fused0 j) as [b0|] eqn:Ib; [|discriminate].
    cbn [option_map] in Ea, Eb. injection Ea as <-. injection Eb as <-.
    destruct (prefix_rank2_sbn prefix a0) as (_ & _ & _ & Rka & Roa & _).
    destruct (prefix_rank2_sbn prefix b0) as (_ & _ & _ & Rkb & Rob & _).
    rewrite Rka in Ra. rewrite Rkb in Rb. rewrite Roa, Rob in Eo.
    destruct (Hr1 a0 (nth_error_In _ _ Ia) Ra) as (na & _ & _ & Ca).
    destruct (Hr1 b0 (nth_error_In _ _ Ib) Rb) as (nb & _ & _ & Cb).
    destruct (Nat.eq_dec i j) as [E|NE]; [exact E|]. exfalso.
    apply (NoDup_map_nth fuse_key_of fused0 i j a0 b0 Hkeysnd NE Ia Ib).
    unfold sc_labs, lab_of in Ca, Cb. injection Ca as Ca1 Ca2 Ca3 _ Ca5. injection Cb as Cb1 Cb2 Cb3 _ Cb5.
    assert (na = nb) by congruence. subst nb.
    unfold fuse_key_of, key_of_piece. congruence.
  - intros nm Inm. destruct (Hex nm Inm) as (sc0 & I0 & R0 & O0). exists (prefix_rank2 prefix sc0).
    destruct (prefix_rank2_sbn prefix sc0) as (_ & _ & _ & Rk & Ro & _).
    split; [apply in_map, I0|]. split; congruence.
  - exact Halt.
  - apply (two_hap_tail_total g prefix input rs fused0 h1 h2 p0 pairs Hpm HF Hrows0 Hdiff Eitems Hsub Hndi).
Qed.

(* ============================================================== examples *)
Module TwoHapEx.
  Definition g10 := mkGap 10 (s "scaffold").
  Definition ctg (name : str) : frag := mkFrag 0 name 1 100 1 [].
  Definition hb (name h : str) : frag := mkFrag 0 name 1 100 1 [s "Painted"; h].
  Definition input := [(s "sA", [RF (ctg (s "cA"))]); (s "sB", [RF (ctg (s "cB"))]);
                       (s "sC", [RF (ctg (s "cC"))]); (s "sD", [RF (ctg (s "cD"))])].
  (* NOT paired: two first-haplotype scaffolds in a row *)
  Definition input3 := [(s "sA", [RF (ctg (s "cA"))]); (s "sB", [RF (ctg (s "cB"))]); (s "sC", [RF (ctg (s "cC"))])].
  Definition pretext_bad := [(s "P1", [RF (hb (s "sA") (s "HAP1"))]); (s "P2", [RF (hb (s "sB") (s "HAP1"))]);
                             (s "P3", [RF (hb (s "sC") (s "HAP2"))])].
  (* two pairs *)
  Definition pretext_ok := [(s "P1", [RF (hb (s "sA") (s "HAP1"))]); (s "P2", [RF (hb (s "sB") (s "HAP2"))]);
                            (s "P3", [RF (hb (s "sC") (s "HAP1"))]); (s "P4", [RF (hb (s "sD") (s "HAP2"))])].
  Definition hapf (nm : str) : str :=
    if str_eqb nm (s "P1") || str_eqb nm (s "P3") then s "HAP1" else s "HAP2".
End TwoHapEx.

(* the pairing is needed: h1, h1, h2 passes the first half and fails in ChrNamer *)
Example two_haplotype_maps_need_pairing :
  (exists rs, remap_to_input repaired TwoHapEx.g10 (s "SUPER_") (2, 1) TwoHapEx.input3 TwoHapEx.pretext_bad = Ok rs)
  /\ remap repaired TwoHapEx.g10 (s "SUPER_") (2, 1) TwoHapEx.input3 TwoHapEx.pretext_bad = Err ChrNamerError.
Proof. split; [eexists|]; vm_compute; reflexivity. Qed.

(* non-vacuity: a two-pair map, its tag hypotheses, and the run *)
Example two_pair_map_completes :
  hap_baits TwoHapEx.hapf TwoHapEx.pretext_ok
  /\ map TwoHapEx.hapf (map fst TwoHapEx.pretext_ok) = alternating (s "HAP1") (s "HAP2") 2
  /\ is_hap_tag (s "HAP1") = true /\ is_hap_tag (s "HAP2") = true /\ lower (s "HAP1") <> lower (s "HAP2")
  /\ exists o, remap repaired TwoHapEx.g10 (s "SUPER_") (2, 1) TwoHapEx.input TwoHapEx.pretext_ok = Ok o
       /\ map (fun a => (oa_key a, map sc_name (oa_scaffolds a))) (out_asms o)
          = [(Some (s "HAP1"), [s "SUPER_1"; s "SUPER_2"]); (Some (s "HAP2"), [s "SUPER_1"; s "SUPER_2"])].
Proof.
  split; [repeat constructor|]. split; [reflexivity|]. split; [reflexivity|]. split; [reflexivity|].
  split; [vm_compute; discriminate|]. eexists. split; vm_compute; reflexivity.
Qed.

Print Assumptions two_haplotype_maps_complete_partial.
Print Assumptions two_haplotype_maps_need_pairing.
Print Assumptions two_pair_map_completes.

(* ================================================================ Part 3 *)
(* the run-side hypothesis of the partial theorem, from the input: every
   Pretext scaffold has a bait with a contig base in its core *)
From Tola Require Import Proofs.CompletionTwoHapsExist.

Lemma two_hap_store_labels g prefix bpt input pretext h1 h2 (hapf : str -> str) rs :
  Forall (fun p => exists b t, snd p = RF b :: t) pretext ->
  lower h1 <> lower h2 -> is_hap_tag h1 = true -> is_hap_tag h2 = true ->
  hap_baits hapf pretext ->
  (forall nm, In nm (map fst pretext) -> is12 h1 h2 (hapf nm)) ->
  Forall (fun p => fst p <> []) pretext ->
  remap_to_input repaired g prefix bpt input pretext = Ok rs ->
  Forall (fun r => labP (map fst pretext) hapf (o_labs r)) (b_store (rs_b rs)).
Proof.
  intros Hpre Hlow Hh1 Hh2 Hbaits H12 Hne Hrs. set (names := map fst pretext) in *.
  destruct (run_stages _ _ _ _ _ _ _ Hrs) as (fuel & b1 & b2 & b3 & st & nm & left & E1 & E2 & E3 & E4 & E5 & ->).
  assert (O1 : SI h1 h2 names hapf b1).
  { apply (foldM_inv_in _ (SI h1 h2 names hapf) pretext) with (3 := E1).
    - intros s0 [pname prows] s1 Ia Hs E. unfold hap_baits in Hbaits. rewrite Forall_forall in Hpre, Hbaits, Hne.
      apply (one_pretext_SI h1 h2 Hlow Hh1 Hh2 names hapf (number_input input 0) (error_length bpt) s0 pname prows s1); try assumption.
      + apply (in_map fst _ _ Ia).
      + exact (Hne _ Ia).
      + exact (Hpre _ Ia).
      + exact (Hbaits _ Ia).
      + apply H12. apply (in_map fst _ _ Ia).
    - split; [|constructor]. repeat split. intros h _. left. reflexivity. }
  destruct (discard_loop_labs _ _ _ _ E2) as (L2 & _ & N2).
  destruct (cut_remaining_labs _ _ _ E3) as (L3 & _ & N3).
  destruct O1 as [(T1 & T2 & T3 & T4 & T5) F1].
  assert (F3 : Forall (fun r => labP names hapf (o_labs r)) (b_store b3)).
  { apply (Forall_map_eq o_labs (labP names hapf) (b_store b1)); [congruence | exact F1]. }
  assert (Nb3 : b_namer b3 = b_namer b1) by congruence.
  rewrite Nb3, T4 in E4. apply rename_nil in E4. subst st.
  cbn [rs_b with_namer with_store b_store]. exact F3.
Qed.

Theorem two_haplotype_maps_complete : forall g prefix n d input pretext h1 h2 (hapf : str -> str) k,
  0 < d -> d <= n ->
  Forall input_ok input -> NoDup (map fst input) ->
  NoDup (map key_of (in_frags input)) ->
  Forall (fun f => f_tags f = []) (in_frags input) ->
  Forall (fun f => f_strand f = 1 \/ f_strand f = -1) (in_frags input) ->
  Forall (fun p => exists b t, snd p = RF b :: t) pretext ->
  Forall (fun b => (f_strand b = 1 \/ f_strand b = -1) /\ In (f_name b) (map fst input)) (baits_of pretext) ->
  Forall (scaffold_tiled n d (baits_of pretext)) input ->
  lower h1 <> lower h2 -> is_hap_tag h1 = true -> is_hap_tag h2 = true ->
  hap_baits hapf pretext ->
  map hapf (map fst pretext) = alternating h1 h2 (S k) ->
  NoDup (map fst pretext) -> Forall (fun p => fst p <> []) pretext ->
  (* every Pretext scaffold has a bait with a contig base in its core *)
  Forall (fun p => exists b src x, In b (frags_of (snd p)) /\ In (f_name b, src) (number_input input 0)
                     /\ in_core (error_length (n, d)) b x /\ contig_base src x) pretext ->
  exists o, remap repaired g prefix (n, d) input pretext = Ok o.
Proof.
  intros g prefix n d input pretext h1 h2 hapf k Hd Hdn Hin Hnm Hkeys Hunt Hpm Hpre Hb Htile
    Hlow Hh1 Hh2 Hbaits Halt Hnd Hne Hcore.
  apply (two_haplotype_maps_complete_partial g prefix n d input pretext h1 h2 hapf k); try assumption.
  intros rs fused0 Hrs HF nm Inm.
  assert (H12 : forall nm, In nm (map fst pretext) -> is12 h1 h2 (hapf nm)).
  { intros nm0 I. assert (X : In (hapf nm0) (alternating h1 h2 (S k))) by (rewrite <- Halt; apply in_map, I).
    clear -X. induction (S k) as [|m IH]; [destruct X|]. cbn [alternating] in X.
    destruct X as [X|[X|X]]; [left; auto | right; auto | exact (IH X)]. }
  pose proof (two_hap_store_labels g prefix (n, d) input pretext h1 h2 hapf rs Hpre Hlow Hh1 Hh2 Hbaits H12 Hne Hrs) as FQ.
  apply in_map_iff in Inm as (p & <- & Ip).
  rewrite Forall_forall in Hcore. destruct (Hcore p Ip) as (b & src & x & Ib & Hsrc & Hc & Hbase).
  assert (Hnamed : Forall (fun b => In (f_name b) (map fst input)) (baits_of pretext)).
  { eapply Forall_impl; [|exact Hb]. intros b0 (_ & H). exact H. }
  destruct (core_scaffold_in_fused (labP (map fst pretext) hapf) g prefix n d input pretext rs fused0
              Hd Hdn Hin Hnm Hkeys Hnamed Htile Hrs HF FQ p b src x Ip Ib Hsrc Hc Hbase)
    as (r & v & Hr & Eo & Iv & Nv & (nv & _ & _ & Lv)).
  rewrite Forall_forall in FQ. destruct (FQ r Hr) as (nr & _ & _ & Lr).
  unfold o_labs, lab_of in Lr. injection Lr as Lr1 _ _ _ Lr5.
  assert (nr = fst p) by congruence. subst nr.
  unfold sc_labs, lab_of in Lv. injection Lv as Lv1 _ _ Lv4 Lv5.
  assert (nv = fst p) by congruence. subst nv.
  exists v. split; [exact Iv|]. split; congruence.
Qed.

Print Assumptions two_haplotype_maps_complete.

(* non-vacuity of the full theorem: the two-pair map satisfies every hypothesis *)
Example two_pair_map_completes_by_theorem :
  exists o, remap repaired TwoHapEx.g10 (s "SUPER_") (2, 1) TwoHapEx.input TwoHapEx.pretext_ok = Ok o.
Proof.
  apply (two_haplotype_maps_complete TwoHapEx.g10 (s "SUPER_") 2 1 TwoHapEx.input TwoHapEx.pretext_ok
           (s "HAP1") (s "HAP2") TwoHapEx.hapf 1).
  - lia.
  - lia.
  - constructor; [|constructor; [|constructor; [|constructor; [|constructor]]]].
    + Needs.one_contig_ok (TwoHapEx.ctg (s "cA")).
    + Needs.one_contig_ok (TwoHapEx.ctg (s "cB")).
    + Needs.one_contig_ok (TwoHapEx.ctg (s "cC")).
    + Needs.one_contig_ok (TwoHapEx.ctg (s "cD")).
  - cbn. repeat constructor; cbn; intuition discriminate.
  - cbn. repeat constructor; cbn; intuition discriminate.
  - repeat constructor.
  - cbn. repeat (apply Forall_cons; [cbn; lia|]). apply Forall_nil.
  - repeat constructor; eexists _, _; reflexivity.
  - cbn. repeat (apply Forall_cons; [split; [left; reflexivity | cbn; auto 6]|]). apply Forall_nil.
  - constructor; [|constructor; [|constructor; [|constructor; [|constructor]]]].
    + Needs.one_bait_tiled (TwoHapEx.hb (s "sA") (s "HAP1")) 100.
    + Needs.one_bait_tiled (TwoHapEx.hb (s "sB") (s "HAP2")) 100.
    + Needs.one_bait_tiled (TwoHapEx.hb (s "sC") (s "HAP1")) 100.
    + Needs.one_bait_tiled (TwoHapEx.hb (s "sD") (s "HAP2")) 100.
  - vm_compute. discriminate.
  - reflexivity.
  - reflexivity.
  - repeat constructor.
  - reflexivity.
  - cbn. repeat constructor; cbn; intuition discriminate.
  - repeat constructor; discriminate.
  - repeat (apply Forall_cons; [eexists _, _, 50; split; [left; reflexivity|];
      split; [cbn; auto 6|]; split; [unfold in_core; vm_compute; split; discriminate|];
      exists 0%nat; split; [eexists; reflexivity | vm_compute; split; discriminate]|]).
    apply Forall_nil.
Qed.
Print Assumptions two_pair_map_completes_by_theorem.
