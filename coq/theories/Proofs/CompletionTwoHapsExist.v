(* every Pretext scaffold with a core contig base leaves a fused scaffold that
   carries the labels of one of its results *)
From Tola Require Import Py.Base Py.Dec Py.Sort Model.Fragment Model.Scaffold Model.Lookup
  Model.OverlapResult Model.NaturalKey Model.Namer Model.Remap Model.RemapSpec
  Proofs.BaseLemmas Proofs.OverlapResult Proofs.RemapHead Proofs.PipelineInv Proofs.CoreKept
  Proofs.Junctions Proofs.Routing Proofs.NaturalKey Proofs.Naming Proofs.UniqueNames
  Proofs.CompletionLookup Proofs.CompletionTail Proofs.Completion Proofs.CompletionPainted.
From Tola Require Proofs.PretextOrder Proofs.NullMap Proofs.RoutingEndToEnd Proofs.JoinGaps
  Proofs.EndToEndC02 Proofs.EndToEndC02PaintedHead Proofs.EndToEndC02Order Proofs.CompletionTiling.
From Coq Require Import Lia ZifyBool Permutation Bool.

(* ---------------------------------------- bait and original name of a result *)
Definition bo (r : ovr) : frag * option str := (o_bait r, o_orig r).
Definition BOr (pretext : list (str * list row)) (x : frag * option str) : Prop :=
  exists p, In p pretext /\ In (fst x) (frags_of (snd p)) /\ snd x = Some (fst p).
Definition BO pretext (b : bstate) : Prop := Forall (fun r => BOr pretext (bo r)) (b_store b).

Lemma one_bait_BO pretext inp err sc_tags pname prows b bait b' :
  In (pname, prows) pretext -> In bait (frags_of prows) ->
  BO pretext b -> one_bait inp err sc_tags pname b bait = Ok b' -> BO pretext b'.
Proof.
  intros Ip Ib F H. unfold one_bait in H. unfold bind in H.
  destruct (input_rows inp (f_name bait)) as [rows|]; [|discriminate].
  destruct (find_overlaps rows (f_start bait) (f_end bait)) as [[fo|]|]; [|injection H as <-; exact F|discriminate].
  destruct (label_scaffold _ _ _ _) as [[nm lab]|]; [|discriminate].
  destruct (trim_large_overhangs _ err) as [r1|] eqn:ET; [|discriminate].
  assert (EB : b_store b' = b_store b ++ [r1]).
  { destruct (o_rows r1); injection H as <-; [reflexivity|].
    unfold store_fragments_found. cbn [b_store b_found b_multi b_added b_namer b_cuts].
    destruct (fold_left _ _ _). reflexivity. }
  unfold BO. rewrite EB. apply Forall_app. split; [exact F|]. constructor; [|constructor].
  exists (pname, prows). split; [exact Ip|]. unfold bo. cbn [fst snd].
  rewrite (Proofs.PretextOrder.trim_large_bait _ _ _ ET).
  pose proof (trim_large_labs _ _ _ ET) as L. unfold o_labs in L. injection L as _ _ _ _ L5. rewrite L5.
  split; [exact Ib | reflexivity].
Qed.

Lemma one_pretext_BO pretext inp err b pname prows b' :
  In (pname, prows) pretext ->
  BO pretext b -> one_pretext_scaffold inp err b (pname, prows) = Ok b' -> BO pretext b'.
Proof.
  intros Ip F H. unfold one_pretext_scaffold, bind in H. cbv zeta in H.
  destruct (make_scaffold_name _ _ _ _) as [nm|]; [|discriminate].
  destruct (foldM _ (frags_of prows) (with_namer b nm)) as [b1|] eqn:EF; [|discriminate].
  destruct (rename_results _ _) as [st|] eqn:ER; [|discriminate]. injection H as <-.
  assert (I1 : BO pretext b1).
  { apply (foldM_inv_in _ (BO pretext) (frags_of prows)) with (3 := EF); [|exact F].
    intros s0 a s1 Ia Hs E. exact (one_bait_BO pretext _ _ _ pname prows _ _ _ Ip Ia Hs E). }
  destruct (rename_results_spec _ _ _ ER) as [R1 _].
  unfold BO. cbn [with_store b_store].
  apply (Forall_map_eq bo (BOr pretext) (b_store b1)); [apply R1; reflexivity | exact I1].
Qed.

Lemma head_BO c g prefix bpt input pretext rs :
  remap_to_input c g prefix bpt input pretext = Ok rs -> BO pretext (rs_b rs).
Proof.
  intro H.
  destruct (run_stages _ _ _ _ _ _ _ H) as (fuel & b1 & b2 & b3 & st & nm & left & E1 & E2 & E3 & E4 & E5 & ->).
  assert (O1 : BO pretext b1).
  { apply (foldM_inv_in _ (BO pretext) pretext) with (3 := E1); [|constructor].
    intros s0 [pname prows] s1 Ia Hs E. exact (one_pretext_BO pretext _ _ _ pname prows _ Ia Hs E). }
  destruct (discard_loop_labs _ _ _ _ E2) as (L2 & _ & _).
  destruct (cut_remaining_labs _ _ _ E3) as (L3 & _ & _).
  destruct (Proofs.PretextOrder.discard_loop_order _ _ _ _ E2) as [B2 _].
  destruct (Proofs.PretextOrder.cut_remaining_order _ _ _ E3) as [B3 _].
  unfold Proofs.PretextOrder.SBo in B2, B3.
  destruct (rename_results_spec _ _ _ E4) as [R1 _].
  unfold BO. cbn [rs_b with_namer with_store b_store].
  apply (Forall_map_eq bo (BOr pretext) (b_store b3)); [apply R1; reflexivity|].
  apply (Forall_map_eq bo (BOr pretext) (b_store b1)); [|exact O1].
  assert (Eb : map o_bait (b_store b3) = map o_bait (b_store b1)) by congruence.
  assert (El : map o_labs (b_store b3) = map o_labs (b_store b1)) by congruence.
  clear -Eb El. revert Eb El. generalize (b_store b1) as l1. generalize (b_store b3) as l3.
  induction l3 as [|x l IH]; intros [|y l1] Eb El; try discriminate; [reflexivity|].
  change (o_bait x :: map o_bait l = o_bait y :: map o_bait l1) in Eb.
  change (o_labs x :: map o_labs l = o_labs y :: map o_labs l1) in El.
  pose proof (f_equal (@tl _) Eb) as Eb2. pose proof (f_equal (@tl _) El) as El2. cbn [tl] in Eb2, El2.
  pose proof (f_equal (fun l => match l with a :: _ => Some a | [] => None end) Eb) as Eb1.
  pose proof (f_equal (fun l : list labs => match l with a :: _ => let '(_, _, _, _, o) := a in o | [] => None end) El) as E5.
  cbv beta iota in Eb1, E5. unfold o_labs in E5. injection Eb1 as Eb1.
  change (bo x :: map bo l = bo y :: map bo l1). f_equal; [|apply IH; assumption].
  unfold bo. congruence.
Qed.

(* ------------------------------------------------------------- the fusion *)
Lemma fuse_fold_keeps c g : forall pieces acc k v0, In (k, v0) acc ->
  exists v, In (k, v) (fold_left (fuse_step c g) pieces acc) /\ sc_labs v = sc_labs v0.
Proof.
  induction pieces as [|[sc isr] pieces IH]; intros acc k v0 I; cbn [fold_left]; [exists v0; auto|].
  assert (S : exists v1, In (k, v1) (fuse_step c g acc (sc, isr)) /\ sc_labs v1 = sc_labs v0).
  { destruct (Proofs.ChromosomeNumbersHead.fuse_step_cases c g acc sc isr)
      as [E|[(l1 & k' & w0 & w & l2 & E1 & E2 & E3)|(k' & w & E2 & E3)]].
    - rewrite E. exists v0. auto.
    - rewrite E2. rewrite E1 in I. apply in_app_or in I as [I|[I|I]].
      + exists v0. split; [apply in_or_app; left; exact I | reflexivity].
      + injection I as <- <-. exists w. split; [apply in_or_app; right; left; reflexivity | exact E3].
      + exists v0. split; [apply in_or_app; right; right; exact I | reflexivity].
    - rewrite E2. exists v0. split; [apply in_or_app; left; exact I | reflexivity]. }
  destruct S as (v1 & I1 & L1). destruct (IH _ k v1 I1) as (v & Iv & Lv). exists v. split; [exact Iv | congruence].
Qed.

(* a stored result with rows that was added lands in a fused scaffold that has
   its name and the labels of some stored result *)
Lemma result_in_fused_labs (Q : labs -> Prop) g rs fused0 id r :
  Forall (fun r => Q (o_labs r)) (b_store (rs_b rs)) ->
  fuse_all repaired g rs = Ok fused0 ->
  In id (b_added (rs_b rs)) -> get_ovr (b_store (rs_b rs)) id = Ok r -> o_rows r <> [] ->
  exists v, In v fused0 /\ sc_name v = o_name r /\ Q (sc_labs v).
Proof.
  intros FQ F Hid Hget NE. unfold fuse_all in F. bind_inv F results Hres. injection F as <-.
  rewrite fold_left_app.
  set (sc := fst (piece_of_result r)).
  assert (Hin : In (sc, true) (map piece_of_result results)).
  { apply in_map_iff. exists r. split; [reflexivity|].
    eapply Proofs.RoutingEndToEnd.mapM_ok_In_l; eassumption. }
  assert (NE' : sc_rows sc <> []).
  { unfold sc. cbn [piece_of_result fst sc_rows]. intros E. apply NE.
    apply Proofs.JoinGaps.to_scaffold_rows_nil_iff. exact E. }
  destruct (Proofs.Routing.routing_gen g _ [] sc true Proofs.Routing.fused_ok_nil Hin NE')
    as (b & pre & suf & Hg & _ & _ & _ & Nm).
  apply (aget_In fuse_key_eqb Proofs.Routing.fuse_key_eqb_eq) in Hg.
  assert (Qb : Q (sc_labs b)).
  { assert (K : Forall (fun kb : fuse_key * scaffold => Q (sc_labs (snd kb)))
                       (fold_left (fuse_step repaired g) (map piece_of_result results) [])).
    { apply fuse_fold_labs; [|constructor]. apply Forall_map.
      pose proof (mapM_get_in _ _ _ Hres) as I. rewrite Forall_forall in I, FQ |- *.
      intros x Hx. exact (FQ x (I x Hx)). }
    rewrite Forall_forall in K. exact (K _ Hg). }
  destruct (fuse_fold_keeps repaired g (map (fun sc => (sc, false)) (rs_left rs)) _ _ _ Hg) as (v & Iv & Lv).
  exists v. split; [apply in_map_iff; exists (Proofs.Routing.key_of_piece sc, v); split; [reflexivity | exact Iv]|].
  split; [|rewrite Lv; exact Qb].
  unfold sc_labs in Lv. injection Lv as Ln _ _ _ _. rewrite Ln, Nm. reflexivity.
Qed.

Lemma nodup_flat_map_unique {A B} (f : A -> list B) : forall l a b x,
  NoDup (flat_map f l) -> In a l -> In b l -> In x (f a) -> In x (f b) -> a = b.
Proof.
  induction l as [|y l IH]; intros a b x N Ia Ib Xa Xb; [destruct Ia|].
  cbn [flat_map] in N.
  assert (D : forall z, In z l -> In x (f y) -> In x (f z) -> False).
  { intros z Iz X1 X2. clear IH. induction (f y) as [|w fy IHy]; [destruct X1|].
    cbn [app] in N. inversion N as [|? ? N1 N2]; subst. destruct X1 as [->|X1]; [|exact (IHy N2 X1)].
    apply N1. apply in_or_app. right. apply in_flat_map. exists z. split; assumption. }
  destruct Ia as [->|Ia], Ib as [->|Ib]; [reflexivity | exfalso; eapply D; eassumption
    | exfalso; eapply D; eassumption |].
  apply (IH a b x); try assumption. clear -N. induction (f y) as [|w fy IHy]; [exact N|].
  inversion N; subst. apply IHy. assumption.
Qed.

(* ----------------------------------------------------------- the existence *)
Theorem core_scaffold_in_fused : forall (Q : labs -> Prop) g prefix n d input pretext rs fused0,
  0 < d -> d <= n ->
  Forall input_ok input -> NoDup (map fst input) ->
  NoDup (map key_of (in_frags input)) ->
  Forall (fun b => In (f_name b) (map fst input)) (baits_of pretext) ->
  Forall (scaffold_tiled n d (baits_of pretext)) input ->
  remap_to_input repaired g prefix (n, d) input pretext = Ok rs ->
  fuse_all repaired g rs = Ok fused0 ->
  Forall (fun r => Q (o_labs r)) (b_store (rs_b rs)) ->
  forall p b src x, In p pretext -> In b (frags_of (snd p)) ->
    In (f_name b, src) (number_input input 0) ->
    in_core (error_length (n, d)) b x -> contig_base src x ->
    exists r v, In r (b_store (rs_b rs)) /\ o_orig r = Some (fst p)
      /\ In v fused0 /\ sc_name v = o_name r /\ Q (sc_labs v).
Proof.
  intros Q g prefix n d input pretext rs fused0 Hd Hdn Hin Hnm Hkeys Hnamed Htile Hrs HF FQ
    p bait src x Ip Ib Hsrc Hcore Hbase.
  set (all := baits_of pretext) in *.
  pose proof (Proofs.CompletionTiling.tiled_valid n d input all Hnamed Htile) as Hvalid.
  pose proof (Proofs.CompletionTiling.tiled_disjoint n d input all Hnamed Htile) as Hdisj.
  assert (Hpos0 : Forall (fun isc => pos_rows (snd isc)) input).
  { eapply Forall_impl; [|exact Hin]. intros isc (_ & H & _). exact H. }
  assert (Hn0 : 0 <= fst (n, d)) by (cbn [fst]; lia).
  assert (Hd0 : 0 < snd (n, d)) by (cbn [snd]; lia).
  pose proof (Proofs.CoreKept.core_kept_end_to_end repaired g prefix (n, d) input pretext rs
                Hn0 Hd0 Hpos0 Hkeys Hvalid Hdisj Hrs) as HAB.
  cbv zeta in HAB. destruct HAB as [HA HB].
  destruct (Proofs.EndToEndC02PaintedHead.head_added repaired g prefix (n, d) input pretext rs Hrs) as (_ & Hadd).
  assert (Hbait : In bait all) by (apply (Proofs.EndToEndC02Order.in_baits_of p); assumption).
  destruct (Proofs.EndToEndC02.store_find (b_store (rs_b rs)) bait) as [(r & Hr & Eb) | Hnone].
  2:{ exfalso. exact (HB bait src Hbait Hsrc Hnone x Hcore Hbase). }
  destruct (HA r Hr) as (src' & Hsrc' & _ & _ & HK).
  assert (Es : src' = src).
  { assert (Hnn : NoDup (map fst (number_input input 0))) by (rewrite Proofs.CoreKept.number_input_fst; exact Hnm).
    rewrite Eb in Hsrc'. exact (Proofs.NullMap.nodup_names_inj _ _ _ _ Hnn Hsrc' Hsrc). }
  subst src'.
  assert (Hne : o_rows r <> []).
  { rewrite <- Eb in Hcore. exact (proj1 (HK x Hcore Hbase)). }
  pose proof Hr as Hr'. apply In_nth_error in Hr'. destruct Hr' as (k & Hk).
  pose proof (Hadd k r Hk Hne) as Hin_added.
  assert (Hget : get_ovr (b_store (rs_b rs)) (Z.of_nat k) = Ok r).
  { unfold get_ovr. rewrite Nat2Z.id, Hk. reflexivity. }
  destruct (result_in_fused_labs Q g rs fused0 _ r FQ HF Hin_added Hget Hne) as (v & Iv & Nv & Qv).
  exists r, v. split; [exact Hr|]. split; [|auto].
  pose proof (head_BO _ _ _ _ _ _ _ Hrs) as BOs. unfold BO in BOs. rewrite Forall_forall in BOs.
  destruct (BOs r Hr) as (p' & Ip' & Ib' & Eo). unfold bo in Ib', Eo. cbn [fst snd] in Ib', Eo.
  rewrite Eb in Ib'.
  assert (ND : NoDup all) by (apply Proofs.EndToEndC02Order.disjoint_valid_nodup; assumption).
  rewrite (nodup_flat_map_unique (fun p => frags_of (snd p)) pretext p p' bait ND Ip Ip' Ib Ib'). exact Eo.
Qed.
Print Assumptions core_scaffold_in_fused.
