(* asm-format as a whole (Model/AsmFormat.v): what it writes is the
   concatenation of what it writes per file; --qc-overlaps never changes what is
   written; canonical AGP in, the same bytes out; the STDERR report has one
   block per overlapping pair of the scan. *)
From Coq Require Import Lia.
From Tola Require Import Py.Base Py.Dec Model.Fragment Model.Scaffold Model.Fasta Model.AgpTpf Model.AgpTpfSpec
  Model.OutputPlan Model.AsmFormat Proofs.AgpTpfRoundTrip.

(* ------------------------------------------------------------ small facts *)
Lemma mapM_total {A B} (f : A -> res B) (P : A -> Prop) :
  (forall x, P x -> exists y, f x = Ok y) ->
  forall l, Forall P l -> exists l', mapM f l = Ok l' /\ length l' = length l.
Proof.
  intros Hf l. induction l as [|x t IH]; intros HF.
  - exists []. split; reflexivity.
  - inversion HF as [|? ? Hx Ht]; subst. destruct (Hf x Hx) as [y Ey]. destruct (IH Ht) as (t' & Et & Lt).
    exists (y :: t'). cbn [mapM bind]. rewrite Ey. cbn [bind]. rewrite Et. cbn [bind length]. split; [reflexivity | lia].
Qed.

Lemma mapM_length {A B} (f : A -> res B) : forall l l', mapM f l = Ok l' -> length l' = length l.
Proof.
  induction l as [|x t IH]; intros l' H; cbn [mapM bind] in H.
  - inversion H. reflexivity.
  - destruct (f x) as [y|e]; cbn [bind] in H; [|discriminate].
    destruct (mapM f t) as [t'|e] eqn:Et; cbn [bind] in H; [|discriminate].
    inversion H; subst. cbn [length]. rewrite (IH t' eq_refl). reflexivity.
Qed.

Lemma mapM_Forall_out {A B} (f : A -> res B) (Q : B -> Prop) :
  (forall x y, f x = Ok y -> Q y) -> forall l l', mapM f l = Ok l' -> Forall Q l'.
Proof.
  intros Hf. induction l as [|x t IH]; intros l' H; cbn [mapM bind] in H.
  - inversion H. constructor.
  - destruct (f x) as [y|e] eqn:Ey; cbn [bind] in H; [|discriminate].
    destruct (mapM f t) as [t'|e] eqn:Et; cbn [bind] in H; [|discriminate].
    inversion H; subst. constructor; [eapply Hf; eassumption | apply IH; reflexivity].
Qed.

(* ------------------------------------------------------------ Fragment.__str__ *)
Definition strand_printable (f : frag) : Prop := f_strand f = 0 \/ f_strand f = 1 \/ f_strand f = -1.

Lemma frag_str_total f : strand_printable f -> exists t, frag_str f = Ok t.
Proof.
  intros [E|[E|E]]; unfold frag_str, strand_str; rewrite E; cbn [Z.eqb orb bind]; eexists; reflexivity.
Qed.

Lemma overlap_block_total names p :
  strand_printable (fst (fst p)) -> strand_printable (fst (snd p)) -> exists t, overlap_block names p = Ok t.
Proof.
  destruct p as [[f1 i1] [f2 i2]]. cbn [fst snd]. intros H1 H2.
  destruct (frag_str_total f1 H1) as [t1 E1]. destruct (frag_str_total f2 H2) as [t2 E2].
  unfold overlap_block. rewrite E1. cbn [bind]. rewrite E2. cbn [bind]. eexists; reflexivity.
Qed.

Definition block_head : str := [LF] ++ s "Overlap:" ++ [LF].

Lemma overlap_block_head names p t : overlap_block names p = Ok t -> exists rest, t = block_head ++ rest.
Proof.
  destruct p as [[f1 i1] [f2 i2]]. unfold overlap_block.
  destruct (frag_str f1) as [t1|e]; cbn [bind]; [|discriminate].
  destruct (frag_str f2) as [t2|e]; cbn [bind]; [|discriminate].
  intros H. inversion H. unfold block_head. eexists. repeat rewrite <- app_assoc. reflexivity.
Qed.

(* ------------------------------------------------------------ the report *)
Definition report_header (asm_name : str) : str :=
  [LF] ++ s "Overlaps detected in assembly '" ++ asm_name ++ s "'" ++ [LF].

(* one block per pair, each beginning "\nOverlap:\n" *)
Lemma report_overlaps_shape nm names pairs rep :
  report_overlaps nm names pairs = Ok rep ->
  exists blocks, rep = report_header nm ++ concat blocks
                 /\ length blocks = length pairs
                 /\ Forall (fun b => exists rest, b = block_head ++ rest) blocks.
Proof.
  unfold report_overlaps, report_blocks. destruct (mapM (overlap_block names) pairs) as [blocks|e] eqn:E; cbn [bind]; [|discriminate].
  intros H. inversion H; subst. exists blocks. split; [|split].
  - unfold report_header. repeat rewrite <- app_assoc. reflexivity.
  - eapply mapM_length; eassumption.
  - eapply mapM_Forall_out; [|eassumption]. intros x y Hxy. eapply overlap_block_head; eassumption.
Qed.

Lemma report_overlaps_total nm names pairs :
  Forall (fun p => strand_printable (fst (fst p)) /\ strand_printable (fst (snd p))) pairs ->
  exists rep, report_overlaps nm names pairs = Ok rep.
Proof.
  intros HF. unfold report_overlaps, report_blocks.
  destruct (mapM_total (overlap_block names) _ (fun p H => overlap_block_total names p (proj1 H) (proj2 H)) pairs HF)
    as (blocks & E & _).
  rewrite E. cbn [bind]. eexists; reflexivity.
Qed.

(* ------------------------------------------------------------ process_fh *)
Definition parse_as (in_fmt text : str) : res assembly :=
  if str_eqb in_fmt (s "AGP") then parse_agp text
  else if str_eqb in_fmt (s "TPF") then parse_tpf text
  else Err ValueError.
Definition format_as (out_fmt : str) (a : assembly) : res str :=
  if str_eqb out_fmt (s "AGP") then format_agp a
  else if str_eqb out_fmt (s "TPF") then format_tpf a
  else Err ValueError.
Definition qc_report (nm : str) (a : assembly) : res str :=
  match find_overlapping_fragments (map snd (a_scaffolds a)) with
  | Some pairs => report_overlaps nm (map fst (a_scaffolds a)) pairs
  | None => Ok []
  end.

Lemma process_fh_unfold in_fmt nm text out_fmt qc :
  process_fh in_fmt nm text out_fmt qc =
  (do a <- parse_as in_fmt text;
   do rep <- (if qc then qc_report nm a else Ok []);
   do out <- format_as out_fmt a;
   Ok (out, rep)).
Proof. reflexivity. Qed.

(* --qc-overlaps is a diagnostics flag: what is written does not depend on it *)
Theorem qc_flag_does_not_change_output in_fmt nm text out_fmt t r :
  process_fh in_fmt nm text out_fmt true = Ok (t, r) ->
  process_fh in_fmt nm text out_fmt false = Ok (t, []).
Proof.
  rewrite !process_fh_unfold. destruct (parse_as in_fmt text) as [a|e]; cbn [bind]; [|discriminate].
  destruct (qc_report nm a) as [rep|e]; cbn [bind]; [|discriminate].
  destruct (format_as out_fmt a) as [out|e]; cbn [bind]; [|discriminate].
  intros H. inversion H. reflexivity.
Qed.

(* the report of a successful run: silent exactly when the scan finds no pair,
   else the header and one block per pair of the scan, in scan order *)
Theorem qc_report_blocks in_fmt nm text out_fmt t rep :
  process_fh in_fmt nm text out_fmt true = Ok (t, rep) ->
  exists a, parse_as in_fmt text = Ok a
    /\ let pairs := scan_pairs (flat_frags (map snd (a_scaffolds a))) in
       (pairs = [] /\ rep = [])
       \/ (pairs <> []
           /\ exists blocks, rep = report_header nm ++ concat blocks
                /\ length blocks = length pairs
                /\ Forall (fun b => exists rest, b = block_head ++ rest) blocks).
Proof.
  rewrite process_fh_unfold. destruct (parse_as in_fmt text) as [a|e]; cbn [bind]; [|discriminate].
  destruct (qc_report nm a) as [r|e] eqn:Er; cbn [bind]; [|discriminate].
  destruct (format_as out_fmt a) as [out|e]; cbn [bind]; [|discriminate].
  intros H. inversion H; subst. exists a. split; [reflexivity|]. cbn zeta.
  unfold qc_report, find_overlapping_fragments in Er.
  destruct (scan_pairs (flat_frags (map snd (a_scaffolds a)))) as [|p ps] eqn:Es.
  - left. inversion Er. split; reflexivity.
  - right. split; [discriminate|]. eapply report_overlaps_shape. exact Er.
Qed.

(* ------------------------------------------------------------ several files *)
Definition file_result (o : af_opts) (f : str * str) : res (str * str) :=
  process_fh (in_format o (Some (fst f))) (asm_name_of o (Some (fst f))) (snd f) (out_format o) (af_qc o).

Lemma run_files_ok o : forall files outs out err,
  Forall2 (fun f tr => file_result o f = Ok tr) files outs ->
  run_files o files out err = mkAFR (out ++ concat (map fst outs)) (err ++ concat (map snd outs)) None.
Proof.
  induction files as [|[name text] rest IH]; intros outs out err HF; inversion HF as [|? tr ? outs' Hx Hr]; subst.
  - cbn [run_files map concat]. rewrite !app_nil_r. reflexivity.
  - cbn [run_files]. unfold file_result in Hx. cbn [fst snd] in Hx. rewrite Hx. destruct tr as [t r].
    rewrite (IH outs' (out ++ t) (err ++ r) Hr). cbn [map concat fst snd]. rewrite <- !app_assoc. reflexivity.
Qed.

(* every input file is converted on its own and the results are written one
   after the other, in command-line order; the reports likewise *)
Theorem asm_format_concatenates o files stdin outs :
  files <> [] ->
  Forall2 (fun f tr => file_result o f = Ok tr) files outs ->
  run o files stdin = mkAFR (concat (map fst outs)) (concat (map snd outs)) None.
Proof.
  intros Hne HF. destruct files as [|f rest]; [contradiction|]. unfold run.
  rewrite (run_files_ok o (f :: rest) outs [] [] HF). reflexivity.
Qed.

(* the first file that cannot be processed ends the run with an exception;
   what the earlier files produced has been written *)
Theorem asm_format_stops_at_first_error o : forall pre outs f rest out err e,
  Forall2 (fun f tr => file_result o f = Ok tr) pre outs ->
  file_result o f = Err e ->
  run_files o (pre ++ f :: rest) out err
  = mkAFR (out ++ concat (map fst outs)) (err ++ concat (map snd outs)) (Some ValueError).
Proof.
  induction pre as [|[name text] pre IH]; intros outs f rest out err e HF He; inversion HF as [|? tr ? outs' Hx Hr]; subst.
  - destruct f as [name text]. cbn [app run_files map concat]. unfold file_result in He. cbn [fst snd] in He. rewrite He.
    rewrite !app_nil_r. reflexivity.
  - cbn [app run_files]. unfold file_result in Hx. cbn [fst snd] in Hx. rewrite Hx. destruct tr as [t r].
    rewrite (IH outs' f rest (out ++ t) (err ++ r) e Hr He). cbn [map concat fst snd]. rewrite <- !app_assoc. reflexivity.
Qed.

(* ------------------------------------------------------------ canonical AGP *)
Lemma flat_frags_in (scs : list (list row)) f i :
  In (f, i) (flat_frags scs) -> exists rows, In rows scs /\ In f (frags_of rows).
Proof.
  unfold flat_frags. intros H. apply in_flat_map in H as ([j rows] & Hj & Hf).
  apply in_map_iff in Hf as (f' & E & If). inversion E; subst.
  exists rows. split; [|exact If]. apply in_combine_r in Hj. exact Hj.
Qed.

Lemma pairs_from_in {A} (l : list A) x y : In (x, y) (pairs_from l) -> In x l /\ In y l.
Proof.
  induction l as [|a t IH]; cbn [pairs_from]; intros H; [destruct H|].
  apply in_app_or in H as [H|H].
  - apply in_map_iff in H as (b & E & Ib). inversion E; subst. split; [left; reflexivity | right; exact Ib].
  - destruct (IH H) as [Hx Hy]. split; right; assumption.
Qed.

Lemma frags_of_in_rows rows f : In f (frags_of rows) -> In (RF f) rows.
Proof.
  induction rows as [|r t IH]; cbn [frags_of]; intros H; [destruct H|].
  destruct r as [f'|g].
  - change (frags_of (RF f' :: t)) with (f' :: frags_of t) in H. destruct H as [<-|H]; [left; reflexivity | right; apply IH; exact H].
  - change (frags_of (RG g :: t)) with (frags_of t) in H. right. apply IH. exact H.
Qed.

Lemma qc_report_total_wf nm a : agp_wf a -> exists rep, qc_report nm a = Ok rep.
Proof.
  intros (_ & Hsc & _). unfold qc_report, find_overlapping_fragments.
  destruct (scan_pairs (flat_frags (map snd (a_scaffolds a)))) as [|p ps] eqn:Es; [eexists; reflexivity|].
  apply report_overlaps_total. rewrite <- Es. unfold scan_pairs. apply Forall_forall. intros [[f1 i1] [f2 i2]] Hin.
  apply filter_In in Hin as [Hin _]. apply pairs_from_in in Hin as [H1 H2]. cbn [fst snd].
  assert (P : forall f i, In (f, i) (flat_frags (map snd (a_scaffolds a))) -> strand_printable f).
  { intros f i Hf. apply flat_frags_in in Hf as (rows & Hr & If). apply in_map_iff in Hr as ([n rows'] & E & Isc).
    cbn [snd] in E. subst rows'. rewrite Forall_forall in Hsc. destruct (Hsc _ Isc) as (_ & _ & Hrows). cbn [snd] in Hrows.
    rewrite Forall_forall in Hrows. specialize (Hrows _ (frags_of_in_rows _ _ If)). cbn [row_ok_agp] in Hrows.
    destruct Hrows as (_ & _ & _ & Hs & _). exact Hs. }
  split; eapply P; eassumption.
Qed.

(* canonical AGP text in, AGP out: the same bytes, for any assembly name, with
   or without the QC *)
Theorem process_fh_identity_agp nm a t qc :
  agp_wf a -> format_agp a = Ok t ->
  exists rep, process_fh (s "AGP") nm t (s "AGP") qc = Ok (t, rep).
Proof.
  intros Hwf Hf. destruct (parse_format_agp a Hwf) as (t' & Ht' & Hp). rewrite Hf in Ht'. inversion Ht'; subst t'.
  rewrite process_fh_unfold. unfold parse_as, format_as. cbn [str_eqb].
  change (str_eqb (s "AGP") (s "AGP")) with true. cbn iota. rewrite Hp. cbn [bind].
  destruct qc.
  - destruct (qc_report_total_wf nm a Hwf) as [rep Er]. rewrite Er. cbn [bind]. rewrite Hf. cbn [bind]. eexists; reflexivity.
  - cbn [bind]. rewrite Hf. cbn [bind]. eexists; reflexivity.
Qed.

(* the command on any number of canonical AGP files: their concatenation, untouched *)
Theorem asm_format_identity_on_canonical_agp o files stdin :
  files <> [] ->
  out_format o = s "AGP" ->
  Forall (fun f => in_format o (Some (fst f)) = s "AGP"
                   /\ exists a, agp_wf a /\ format_agp a = Ok (snd f)) files ->
  exists err, run o files stdin = mkAFR (concat (map snd files)) err None.
Proof.
  intros Hne Ho HF.
  assert (H : exists outs, Forall2 (fun f tr => file_result o f = Ok tr) files outs /\ map fst outs = map snd files).
  { clear Hne. induction files as [|f rest IH]; [exists []; split; [constructor | reflexivity]|].
    inversion HF as [|? ? Hf Hrest]; subst. destruct (IH Hrest) as (outs & H2 & Em).
    destruct Hf as (Hin & a & Hwf & Hfmt).
    destruct (process_fh_identity_agp (asm_name_of o (Some (fst f))) a (snd f) (af_qc o) Hwf Hfmt) as [rep Er].
    exists ((snd f, rep) :: outs). split.
    - constructor; [|exact H2]. unfold file_result. rewrite Hin, Ho. exact Er.
    - cbn [map fst]. rewrite Em. reflexivity. }
  destruct H as (outs & H2 & Em). exists (concat (map snd outs)).
  rewrite (asm_format_concatenates o files stdin outs Hne H2). rewrite Em. reflexivity.
Qed.

(* non-vacuity and a worked report: two copies of c:1-10 in scaffold s1 and c:5-6 in s2 *)
Definition ex_text : str :=
  s "s1" ++ [TAB] ++ s "1" ++ [TAB] ++ s "10" ++ [TAB] ++ s "1" ++ [TAB] ++ s "W" ++ [TAB] ++ s "c" ++ [TAB] ++ s "1" ++ [TAB] ++ s "10" ++ [TAB] ++ s "+" ++ [LF]
  ++ s "s1" ++ [TAB] ++ s "11" ++ [TAB] ++ s "20" ++ [TAB] ++ s "2" ++ [TAB] ++ s "W" ++ [TAB] ++ s "c" ++ [TAB] ++ s "1" ++ [TAB] ++ s "10" ++ [TAB] ++ s "-" ++ [TAB] ++ s "Painted" ++ [LF]
  ++ s "s2" ++ [TAB] ++ s "1" ++ [TAB] ++ s "2" ++ [TAB] ++ s "1" ++ [TAB] ++ s "W" ++ [TAB] ++ s "c" ++ [TAB] ++ s "5" ++ [TAB] ++ s "6" ++ [TAB] ++ s "?" ++ [LF].

Example ex_run :
  run (mkAF None None None None true) [(s "asm.agp", ex_text)] []
  = mkAFR ex_text
      ([LF] ++ s "Overlaps detected in assembly 'asm'" ++ [LF]
       ++ [LF] ++ s "Overlap:" ++ [LF] ++ s "s1 c:1-10(+)" ++ [LF] ++ s "s1 c:1-10(-) Painted" ++ [LF]
       ++ [LF] ++ s "Overlap:" ++ [LF] ++ s "s1 c:1-10(+)" ++ [LF] ++ s "s2 c:5-6(.)" ++ [LF]
       ++ [LF] ++ s "Overlap:" ++ [LF] ++ s "s1 c:1-10(-) Painted" ++ [LF] ++ s "s2 c:5-6(.)" ++ [LF])
      None.
Proof. vm_compute. reflexivity. Qed.

(* ------------------------------------------------------------ AGP -> TPF -> AGP through the command *)
Lemma tags_ok_nil : tags_ok [].
Proof. unfold tags_ok. cbn. auto. Qed.

Lemma agp_wf_drop_tags a : agp_wf a -> agp_wf (drop_tags a).
Proof.
  intros (Hh & Hs & Ha). unfold drop_tags. split; [exact Hh|]. cbn [a_header a_scaffolds]. split.
  - apply Forall_forall. intros sc Hin. apply in_map_iff in Hin as (sc0 & E & Hin0). subst sc. cbn [fst snd].
    rewrite Forall_forall in Hs. destruct (Hs _ Hin0) as (Hn & Hne & Hr). split; [exact Hn|]. split.
    + destruct (snd sc0); [contradiction Hne; reflexivity | discriminate].
    + apply Forall_forall. intros r Hr0. apply in_map_iff in Hr0 as (r0 & E & Hr1). subst r.
      rewrite Forall_forall in Hr. specialize (Hr _ Hr1). destruct r0 as [f|g]; cbn [drop_tags_row row_ok_agp] in *; [|exact Hr].
      destruct Hr as (H1 & H2 & H3 & H4 & _). unfold frag_ok_agp. cbn. repeat split; try assumption. apply tags_ok_nil.
  - rewrite map_map. cbn [fst]. exact Ha.
Qed.

(* converting an assembly from AGP to TPF with the command, and the result back to
   AGP with the command, changes nothing except dropping the tags *)
Theorem asm_format_agp_tpf_agp nm nm' a t :
  agp_wf a -> tpf_wf (drop_tags a) -> format_agp a = Ok t ->
  exists t_tpf t2,
    process_fh (s "AGP") nm t (s "TPF") false = Ok (t_tpf, [])
    /\ process_fh (s "TPF") nm' t_tpf (s "AGP") false = Ok (t2, [])
    /\ format_agp (drop_tags a) = Ok t2.
Proof.
  intros Hwf Htpf Hf.
  destruct (parse_format_agp a Hwf) as (t' & Ht' & Hp). rewrite Hf in Ht'. inversion Ht'; subst t'.
  destruct (agp_tpf_agp a Hwf Htpf) as (t_tpf & Hft & Hpt).
  destruct (parse_format_agp (drop_tags a) (agp_wf_drop_tags a Hwf)) as (t2 & Hf2 & _).
  exists t_tpf, t2. split; [|split; [|exact Hf2]].
  - rewrite process_fh_unfold. unfold parse_as, format_as.
    change (str_eqb (s "AGP") (s "AGP")) with true. cbn iota. rewrite Hp. cbn [bind].
    change (str_eqb (s "TPF") (s "AGP")) with false. change (str_eqb (s "TPF") (s "TPF")) with true. cbn iota.
    rewrite Hft. cbn [bind]. reflexivity.
  - rewrite process_fh_unfold. unfold parse_as, format_as.
    change (str_eqb (s "TPF") (s "AGP")) with false. change (str_eqb (s "TPF") (s "TPF")) with true. cbn iota.
    rewrite Hpt. cbn [bind]. change (str_eqb (s "AGP") (s "AGP")) with true. cbn iota. rewrite Hf2. cbn [bind]. reflexivity.
Qed.
