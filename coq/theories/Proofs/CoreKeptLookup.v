(* C02 core clause, part 3: the lookups (one_bait, one_pretext_scaffold and
   their folds) establish, for every stored result, [GoodU] w.r.t. the input
   scaffold its bait names; the baits of the stored results are pairwise
   distinct baits of the map; the id lists of the found table are
   duplicate-free; and a bait that got no result has no contig base in its
   scaffold at all. *)
From Tola Require Import Py.Base Py.Sort Model.Fragment Model.Scaffold Model.Lookup
  Model.OverlapResult Model.OvrSpec Model.NaturalKey Model.Namer Model.Remap Model.RemapSpec
  Proofs.BaseLemmas Proofs.Lookup Proofs.OverlapResult Proofs.RemapHead Proofs.PipelineInv
  Proofs.CoreKeptGood Proofs.CoreKeptResolver.
From Coq Require Import Lia ZifyBool.

(* folding with the list of what is still to come *)
Lemma foldM_inv_rem {A S} (f : S -> A -> res S) (P : S -> list A -> Prop) :
  (forall s a rest s', P s (a :: rest) -> f s a = Ok s' -> P s' rest) ->
  forall l rest s s', P s (l ++ rest) -> foldM f l s = Ok s' -> P s' rest.
Proof.
  intros Hstep. induction l as [|a l IH]; intros rest s s' Hs H; cbn [foldM app] in *.
  - injection H as <-. exact Hs.
  - bind_inv H s1 Hs1. eapply IH; [|exact H]. eapply Hstep; eassumption.
Qed.

Lemma FOP_remove_mid {A} (R : A -> A -> Prop) x : forall a c,
  ForallOrdPairs R (a ++ x :: c) -> ForallOrdPairs R (a ++ c).
Proof.
  induction a as [|y a IH]; intros c H; cbn [app] in *.
  - inversion H; subst. assumption.
  - inversion H as [|? ? Hy Hrest]; subst. constructor; [|apply IH; exact Hrest].
    apply Forall_app in Hy. destruct Hy as [H1 H2]. apply Forall_app. split; [exact H1|].
    inversion H2; assumption.
Qed.

(* rename_results only changes names: the baits stay *)
Lemma rename_results_baits st ids st' :
  rename_results st ids = Ok st' -> map o_bait st' = map o_bait st.
Proof.
  unfold rename_results. intros H. bind_inv H rs Hrs. injection H as <-.
  set (pairs := rename_by_size rs _ _).
  assert (Hp : forall id r n, In ((id, r), n) pairs ->
                 nth_error (map o_bait st) (Z.to_nat id) = Some (o_bait r)).
  { intros id r n Hin. unfold pairs, rename_by_size in Hin. apply in_combine_l in Hin.
    unfold sort_by_Z_desc in Hin. apply In_stable_sort in Hin.
    destruct (mapM_ok_In _ _ _ Hrs _ Hin) as (id0 & _ & Hf).
    bind_inv Hf r0 Hr0. injection Hf as <- <-. apply get_ovr_nth_map. exact Hr0. }
  clearbody pairs. clear Hrs.
  assert (G : forall cur, map o_bait cur = map o_bait st ->
    map o_bait (fold_left (fun st0 '(id, r, n) => put_ovr st0 id (set_name r n)) pairs cur)
    = map o_bait st).
  { induction pairs as [|[[id r] n] pairs IH]; intros cur Hc; cbn [fold_left]; [exact Hc|].
    apply IH.
    - intros id' r' n' Hin. apply (Hp id' r' n'). right. exact Hin.
    - rewrite <- Hc. unfold put_ovr. apply map_set_nth_same.
      rewrite Hc. cbn [set_name o_bait]. apply (Hp id r n). left. reflexivity. }
  apply G. reflexivity.
Qed.

(* ------------------------------------------------------- one_bait, opened *)
Lemma one_bait_cases inp err tags orig b bait b' :
  one_bait inp err tags orig b bait = Ok b' ->
  exists rows fo,
    input_rows inp (f_name bait) = Ok rows
    /\ find_overlaps rows (f_start bait) (f_end bait) = Ok fo
    /\ match fo with
       | None => b' = b
       | Some fo' =>
           exists lab r1,
             trim_large_overhangs (set_labels (ovr_of_found bait fo') lab orig tags) err = Ok r1
             /\ b_store b' = b_store b ++ [r1]
             /\ (b_found b', b_multi b')
                = match o_rows r1 with
                  | [] => (b_found b, b_multi b)
                  | _ => fold_left (store_found_one (zlen (b_store b))) (frags_of (o_rows r1))
                                   (b_found b, b_multi b)
                  end
       end.
Proof.
  intros H. unfold one_bait in H.
  bind_inv H rows Hrows. bind_inv H fo Hfo. exists rows, fo. split; [exact Hrows|]. split; [exact Hfo|].
  destruct fo as [fo|]; [|injection H as <-; reflexivity].
  bind_inv H nl Hnl. destruct nl as [nm lab]. bind_inv H r1 Hr1.
  exists lab, r1. split; [exact Hr1|].
  destruct (o_rows r1) as [|x0 t0] eqn:Er1.
  - injection H as <-. cbn [b_store b_found b_multi]. split; reflexivity.
  - injection H as <-. unfold store_fragments_found.
    cbn [b_store b_added b_found b_multi b_namer b_cuts].
    destruct (fold_left _ _ _) as [found' multi'] eqn:Ef.
    cbn [b_store b_found b_multi]. split; reflexivity.
Qed.

(* -------------------------------------- the id lists stay duplicate-free *)
Definition JI (id : rid) (gs : list frag) (found : list (fkey * (frag * list rid))) : Prop :=
  Forall (fun e => NoDup (snd (snd e))
                   /\ (In id (snd (snd e)) -> ~ In (fst e) (map key_of gs))) found.

Lemma store_found_one_JI id g gs found multi found' multi' :
  ~ In (key_of g) (map key_of gs) -> JI id (g :: gs) found ->
  store_found_one id (found, multi) g = (found', multi') -> JI id gs found'.
Proof.
  intros Hk HJ H. unfold store_found_one in H.
  assert (Hw : forall e : fkey * (frag * list rid), (NoDup (snd (snd e))
                 /\ (In id (snd (snd e)) -> ~ In (fst e) (map key_of (g :: gs)))) ->
               NoDup (snd (snd e)) /\ (In id (snd (snd e)) -> ~ In (fst e) (map key_of gs))).
  { intros e [H1 H2]. split; [exact H1|]. intros Hi Hin. apply (H2 Hi). right. exact Hin. }
  destruct (aget key_eqb found (key_of g)) as [[f0 ids]|] eqn:E.
  - destruct (aget_split key_eqb key_eqb_eq _ _ _ E) as (l1 & l2 & Ef & _ & Hs).
    rewrite Hs in H. injection H as <- _.
    unfold JI in *. rewrite Ef in HJ. apply Forall_app in HJ. destruct HJ as [J1 J2].
    apply Forall_cons_iff in J2. destruct J2 as [Jk J2]. cbn [fst snd] in Jk.
    apply Forall_app. split; [eapply Forall_impl; [|exact J1]; exact Hw|].
    constructor; [|eapply Forall_impl; [|exact J2]; exact Hw].
    cbn [fst snd]. split; [|intros _; exact Hk].
    apply NoDup_snoc; [apply Jk|]. intros Hi. apply (proj2 Jk Hi). left. reflexivity.
  - injection H as <- _. unfold JI in *. apply Forall_app. split.
    + eapply Forall_impl; [|exact HJ]. exact Hw.
    + constructor; [|constructor]. cbn [fst snd]. split; [|intros _; exact Hk].
      constructor; [intros []|constructor].
Qed.

Lemma store_found_fold_JI id : forall gs found multi found' multi',
  NoDup (map key_of gs) -> JI id gs found ->
  fold_left (store_found_one id) gs (found, multi) = (found', multi') -> NDI found'.
Proof.
  induction gs as [|g gs IH]; intros found multi found' multi' Hnd HJ H; cbn [fold_left] in H.
  - injection H as <- _. eapply Forall_impl; [|exact HJ]. intros e [H1 _]. exact H1.
  - cbn [map] in Hnd. inversion Hnd as [|? ? Hn Hnd']; subst.
    destruct (store_found_one id (found, multi) g) as [f1 m1] eqn:E1.
    eapply IH; [exact Hnd' | | exact H]. eapply store_found_one_JI; eassumption.
Qed.

Section Lookups.
  Variable inp : list (str * list row).
  Variable err : Z.
  Variable all : list frag.
  Hypothesis Hids : NoDup (map f_id (in_frags inp)).
  Hypothesis Hidpos : Forall (fun f => 0 <= f_id f) (in_frags inp).
  Hypothesis Hkeys : NoDup (map key_of (in_frags inp)).
  Hypothesis Hnames : NoDup (map fst inp).
  Hypothesis Hposr : forall name src, In (name, src) inp -> pos_rows src.
  Hypothesis Herr : 1 <= err.
  Hypothesis Hall : Forall (fun b => 1 <= f_start b <= f_end b) all.

  Definition SB (b : bstate) : list frag := map o_bait (b_store b).

  (* the scaffold the bait names holds no contig base of the bait's core *)
  Definition nocore_all (bait : frag) : Prop :=
    forall src, In (f_name bait, src) inp -> all_at (FNC err bait) 0 src.

  Definition Cov (b : bstate) (rem : list frag) : Prop :=
    forall bait, In bait all -> In bait rem \/ In bait (SB b) \/ nocore_all bait.

  Definition LInv (b : bstate) (rem : list frag) : Prop :=
    RemapHead.Inv inp b /\ SG inp err all (b_store b)
    /\ ForallOrdPairs Rdisj (SB b ++ rem) /\ incl (SB b ++ rem) all
    /\ NDI (b_found b) /\ Cov b rem.

  Lemma input_rows_In name rows : input_rows inp name = Ok rows -> In (name, rows) inp.
  Proof.
    unfold input_rows. destruct (aget str_eqb inp name) as [rows0|] eqn:E; [|discriminate].
    intros H. injection H as <-. apply (aget_In str_eqb str_eqb_eq) in E. exact E.
  Qed.

  Lemma input_rows_unique name rows src :
    input_rows inp name = Ok rows -> In (name, src) inp -> src = rows.
  Proof.
    intros H Hin. unfold input_rows in H.
    rewrite (In_aget str_eqb str_eqb_eq inp name src Hnames Hin) in H. injection H as ->. reflexivity.
  Qed.

  Lemma find_overlaps_lookup rows bs be fo :
    pos_rows rows -> 1 <= bs <= be -> find_overlaps rows bs be = Ok fo -> lookup_spec rows bs be fo.
  Proof.
    intros Hp Hb H.
    assert (Hne : rows <> []) by (intros ->; discriminate).
    destruct (find_overlaps_spec rows bs be Hne Hp Hb) as (r & Er & Hr).
    rewrite Er in H. injection H as <-. exact Hr.
  Qed.

  Lemma one_bait_LInv tags orig b bait rest b' :
    LInv b (bait :: rest) -> one_bait inp err tags orig b bait = Ok b' -> LInv b' rest.
  Proof.
    intros (HI & HS & HF & Hinc & Hnd & Hc) H.
    pose proof (one_bait_inv inp err tags orig b bait b' HI H) as HI'.
    destruct (one_bait_cases _ _ _ _ _ _ _ H) as (rows & fo & Hrows & Hfo & Hm).
    assert (Hba : In bait all) by (apply Hinc; apply in_or_app; right; left; reflexivity).
    assert (Hbv : 1 <= f_start bait <= f_end bait) by (rewrite Forall_forall in Hall; apply Hall; exact Hba).
    pose proof (input_rows_In _ _ Hrows) as Hin.
    pose proof (Hposr _ _ Hin) as Hp.
    pose proof (find_overlaps_lookup _ _ _ _ Hp Hbv Hfo) as Hl.
    destruct fo as [fo|].
    - destruct Hm as (lab & r1 & Htl & Hst & Hfm).
      set (r0 := set_labels (ovr_of_found bait fo) lab orig tags) in *.
      assert (G0 : GoodU err rows r0).
      { apply (GoodU_ext err rows (ovr_of_found bait fo)); try reflexivity.
        apply lookup_good; [lia | exact Hp | exact Hl]. }
      destruct (trim_large_good err rows r0 r1 ltac:(lia)) as [G1 B1]; [cbn; lia | exact G0 | exact Htl|].
      change (o_bait r0) with bait in B1.
      assert (HSB : SB b' = SB b ++ [bait]).
      { unfold SB. rewrite Hst, map_app. cbn [map]. rewrite B1. reflexivity. }
      split; [exact HI'|]. split; [|split; [|split; [|split]]].
      + intros r Hr. rewrite Hst in Hr. apply in_app_or in Hr.
        destruct Hr as [Hr | [<- | []]]; [apply HS; exact Hr|].
        split; [rewrite B1; exact Hba|]. exists rows. rewrite B1. split; assumption.
      + rewrite HSB, <- app_assoc. exact HF.
      + rewrite HSB, <- app_assoc. exact Hinc.
      + destruct (o_rows r1) as [|x0 t0] eqn:Er1; [injection Hfm as -> _; exact Hnd|].
        rewrite <- Er1 in Hfm.
        destruct (fold_left (store_found_one (zlen (b_store b))) (frags_of (o_rows r1)) (b_found b, b_multi b))
          as [found' multi'] eqn:Ef.
        injection Hfm as -> _. eapply store_found_fold_JI; [| |exact Ef].
        * destruct G1 as [[E _] | (pre & post & Hsrc & _)]; [rewrite E in Er1; discriminate|].
          pose proof (src_nodup_g key_of inp _ _ Hkeys Hin) as Hk.
          rewrite Hsrc, !frags_of_app, !map_app in Hk.
          apply NoDup_app_right in Hk. apply NoDup_app_left in Hk. exact Hk.
        * destruct HI as (_ & (_ & A2) & (_ & _ & F3 & _) & _).
          unfold JI. unfold NDI in Hnd. rewrite Forall_forall in *. intros e He. split; [apply (Hnd e He)|].
          intros Hi. exfalso. destruct (F3 e He) as (_ & _ & K3 & _).
          apply K3 in Hi. apply A2 in Hi. lia.
      + intros bait0 Hb0. destruct (Hc bait0 Hb0) as [[<- | Hr] | [Hs | Hn]].
        * right. left. rewrite HSB. apply in_or_app. right. left. reflexivity.
        * left. exact Hr.
        * right. left. rewrite HSB. apply in_or_app. left. exact Hs.
        * right. right. exact Hn.
    - subst b'. split; [exact HI|]. split; [exact HS|]. split; [|split; [|split]].
      + eapply FOP_remove_mid. exact HF.
      + intros x Hx. apply Hinc. apply in_app_or in Hx. apply in_or_app.
        destruct Hx as [Hx | Hx]; [left; exact Hx | right; right; exact Hx].
      + exact Hnd.
      + intros bait0 Hb0. destruct (Hc bait0 Hb0) as [[<- | Hr] | [Hs | Hn]].
        * right. right. intros src Hsrc. rewrite (input_rows_unique _ _ _ Hrows Hsrc).
          apply lookup_none_all; [lia | exact Hp | exact Hl].
        * left. exact Hr.
        * right. left. exact Hs.
        * right. right. exact Hn.
  Qed.

  Lemma RGd_set_name r n : RGd inp err all r -> RGd inp err all (set_name r n).
  Proof.
    intros (Ha & src & Hsrc & HG). split; [exact Ha|]. exists src. split; [exact Hsrc|].
    apply (GoodU_ext err src r); try reflexivity. exact HG.
  Qed.

  Definition baits (pretext : list (str * list row)) : list frag :=
    flat_map (fun p => frags_of (snd p)) pretext.

  Lemma one_pretext_LInv b psc rest b' :
    LInv b (frags_of (snd psc) ++ baits rest) ->
    one_pretext_scaffold inp err b psc = Ok b' -> LInv b' (baits rest).
  Proof.
    intros HL H. unfold one_pretext_scaffold in H. destruct psc as [pname prows]. cbn [snd] in HL.
    bind_inv H nm Hnm. bind_inv H b1 Hb1. bind_inv H st Hst. injection H as <-.
    assert (HL0 : LInv (with_namer b nm) (frags_of prows ++ baits rest)) by exact HL.
    pose proof (foldM_inv_rem _ LInv (one_bait_LInv (fragment_tags prows) pname) _ _ _ _ HL0 Hb1)
      as (HI & HS & HF & Hinc & Hnd & Hc).
    assert (HB : map o_bait st = map o_bait (b_store b1)) by (eapply rename_results_baits; exact Hst).
    split; [apply Inv_store_map; [exact HI | eapply rename_results_rows; exact Hst]|].
    unfold SB, Cov, SB. cbn [with_store b_store b_found]. rewrite HB.
    split; [|split; [exact HF|split; [exact Hinc|split; [exact Hnd | exact Hc]]]].
    intros x Hx. destruct (rename_results_In _ _ _ Hst x Hx) as (r & Hr & [-> | (n & ->)]).
    - apply HS. exact Hr.
    - apply RGd_set_name. apply HS. exact Hr.
  Qed.

  Lemma pretext_LInv pretext b0 b1 :
    LInv b0 (baits pretext) -> foldM (one_pretext_scaffold inp err) pretext b0 = Ok b1 ->
    LInv b1 [].
  Proof.
    intros HL H.
    apply (foldM_inv_rem (one_pretext_scaffold inp err) (fun b rem => LInv b (baits rem))
             (fun s a rest s' => one_pretext_LInv s a rest s') pretext [] b0 b1); [|exact H].
    rewrite app_nil_r. exact HL.
  Qed.

  Lemma LInv_init nm : ForallOrdPairs Rdisj all -> LInv (mkB [] [] [] [] nm 0) all.
  Proof.
    intros Hd. split; [apply RemapHead.Inv_init|]. unfold SB. cbn [b_store b_found map app].
    split; [intros r []|]. split; [exact Hd|]. split; [apply incl_refl|].
    split; [constructor|]. intros bait Hb. left. exact Hb.
  Qed.
End Lookups.
