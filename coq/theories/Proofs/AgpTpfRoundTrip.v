(* C05: AGP / TPF writers and parsers are mutually inverse on well-formed
   assemblies; no data line is skipped or merged. *)
From Tola Require Import Py.Base Py.Dec Model.Fragment Model.Fasta Model.AgpTpf Model.AgpTpfSpec.
From Tola Require Import Proofs.BaseLemmas Proofs.Dec Proofs.AgpValid.
From Coq Require Import Lia ZifyBool.

(* ================================================================ generic *)
Lemma foldM_app {A S} (f : S -> A -> res S) l1 l2 st :
  foldM f (l1 ++ l2) st = (do s' <- foldM f l1 st; foldM f l2 s').
Proof.
  revert st; induction l1 as [|x l1 IH]; intro st; cbn [app foldM bind]; [reflexivity|].
  destruct (f st x); cbn [bind]; [apply IH | reflexivity].
Qed.

Lemma mapM_Forall2 {A B} (f : A -> res B) l : forall l',
  mapM f l = Ok l' -> Forall2 (fun x y => f x = Ok y) l l'.
Proof.
  induction l as [|x l IH]; intros l' H; cbn [mapM] in H.
  - injection H as <-. constructor.
  - destruct (f x) eqn:E; cbn [bind] in H; [|discriminate].
    destruct (mapM f l) eqn:E2; cbn [bind] in H; [|discriminate].
    injection H as <-. constructor; [exact E | apply IH; reflexivity].
Qed.

Lemma concat_concat {A} (lss : list (list (list A))) :
  concat (map (@concat A) lss) = concat (concat lss).
Proof.
  induction lss as [|x l IH]; [reflexivity|].
  cbn [map concat]. rewrite concat_app, IH. reflexivity.
Qed.

Lemma last_app_ne {A} (l l' : list A) d : l' <> [] -> last (l ++ l') d = last l' d.
Proof.
  intro H. induction l as [|x l IH]; [reflexivity|].
  cbn [app]. rewrite <- IH. apply last_cons_ne.
  destruct l; [exact H | discriminate].
Qed.

Lemma Forall_last {A} (P : A -> Prop) l d : Forall P l -> l <> [] -> P (last l d).
Proof.
  induction 1 as [|x l Hx Hl IH]; [congruence|]. intros _.
  destruct l as [|y l]; [exact Hx|].
  change (P (last (y :: l) d)). apply IH. discriminate.
Qed.

(* ------------------------------------------------------------ characters *)
Definition ntl (c : ascii) : bool := negb (Ascii.eqb c TAB) && negb (Ascii.eqb c LF).
Definition nolf (x : str) : Prop := forallb not_lf x = true.
Definition notab (x : str) : Prop := forallb (fun c => negb (Ascii.eqb c TAB)) x = true.

Lemma no_tab_lf_nolf x : no_tab_lf x -> nolf x.
Proof.
  unfold no_tab_lf, nolf. induction x as [|c x IH]; [reflexivity|].
  cbn [forallb]. intro H. apply andb_true_iff in H as [H1 H2].
  apply andb_true_iff in H1 as [_ H1]. rewrite (IH H2). unfold not_lf. rewrite H1. reflexivity.
Qed.

Lemma no_tab_lf_notab x : no_tab_lf x -> notab x.
Proof.
  unfold no_tab_lf, notab. induction x as [|c x IH]; [reflexivity|].
  cbn [forallb]. intro H. apply andb_true_iff in H as [H1 H2].
  apply andb_true_iff in H1 as [H1 _]. rewrite H1, (IH H2). reflexivity.
Qed.

Lemma no_tab_lf_app x y : no_tab_lf x -> no_tab_lf y -> no_tab_lf (x ++ y).
Proof. unfold no_tab_lf. intros Hx Hy. rewrite forallb_app, Hx, Hy. reflexivity. Qed.

Lemma is_digit_ntl c : is_digit c = true -> ntl c = true.
Proof.
  destruct c as [[] [] [] [] [] [] [] []]; vm_compute; intro H; try discriminate H; reflexivity.
Qed.

Lemma digits_no_tab_lf d : forallb is_digit d = true -> no_tab_lf d.
Proof.
  unfold no_tab_lf. induction d as [|c d IH]; [reflexivity|].
  cbn [forallb]. intro H. apply andb_true_iff in H as [H1 H2].
  change (ntl c && forallb (fun c => negb (Ascii.eqb c TAB) && negb (Ascii.eqb c LF)) d = true).
  rewrite (is_digit_ntl c H1), (IH H2). reflexivity.
Qed.

Lemma str_of_Z_no_tab_lf z : no_tab_lf (str_of_Z z).
Proof.
  unfold str_of_Z. destruct (Z.to_int z) as [u|u].
  - apply digits_no_tab_lf, chars_of_uint_digits.
  - change (no_tab_lf ([("-")%char] ++ chars_of_uint u)).
    apply no_tab_lf_app; [reflexivity | apply digits_no_tab_lf, chars_of_uint_digits].
Qed.

(* ----------------------------------------------------------- split_lines *)
Definition lf_line (l : str) : Prop := exists x, l = x ++ [LF] /\ nolf x.

Lemma split_lines_acc_line x : nolf x -> forall rest cur,
  split_lines_acc (x ++ LF :: rest) cur = (rev cur ++ x ++ [LF]) :: split_lines_acc rest [].
Proof.
  unfold nolf. induction x as [|c x IH]; intros H rest cur.
  - cbn [app split_lines_acc]. rewrite Ascii.eqb_refl. reflexivity.
  - cbn [forallb] in H. apply andb_true_iff in H as [H1 H2].
    unfold not_lf in H1. apply negb_true_iff in H1.
    cbn [app split_lines_acc]. rewrite H1, (IH H2). cbn [rev]. rewrite <- app_assoc. reflexivity.
Qed.

Lemma split_lines_concat ls : Forall lf_line ls -> split_lines (concat ls) = ls.
Proof.
  unfold split_lines. induction 1 as [|l ls (x & -> & Hx) Hls IH]; [reflexivity|].
  cbn [concat]. rewrite <- app_assoc. cbn [app].
  rewrite (split_lines_acc_line x Hx), IH. reflexivity.
Qed.

(* --------------------------------------------------------- split / join *)
Definition nosep (sep : ascii) (x : str) : Prop :=
  forallb (fun c => negb (Ascii.eqb c sep)) x = true.

Lemma split_on_last sep x : nosep sep x -> forall cur, split_on sep x cur = [rev cur ++ x].
Proof.
  unfold nosep. induction x as [|c x IH]; intros H cur.
  - cbn [split_on]. rewrite app_nil_r. reflexivity.
  - cbn [forallb] in H. apply andb_true_iff in H as [H1 H2]. apply negb_true_iff in H1.
    cbn [split_on]. rewrite H1, (IH H2). cbn [rev]. rewrite <- app_assoc. reflexivity.
Qed.

Lemma split_on_cons sep x : nosep sep x -> forall rest cur,
  split_on sep (x ++ sep :: rest) cur = (rev cur ++ x) :: split_on sep rest [].
Proof.
  unfold nosep. induction x as [|c x IH]; intros H rest cur.
  - cbn [app split_on]. rewrite Ascii.eqb_refl, app_nil_r. reflexivity.
  - cbn [forallb] in H. apply andb_true_iff in H as [H1 H2]. apply negb_true_iff in H1.
    cbn [app split_on]. rewrite H1, (IH H2). cbn [rev]. rewrite <- app_assoc. reflexivity.
Qed.

Lemma join_cons2 sep x y t : join sep (x :: y :: t) = x ++ sep ++ join sep (y :: t).
Proof. reflexivity. Qed.

Lemma split_on_join sep cs : forall c, Forall (nosep sep) (c :: cs) ->
  split_on sep (join [sep] (c :: cs)) [] = c :: cs.
Proof.
  induction cs as [|c' cs IH]; intros c H.
  - inversion H; subst. cbn [join]. rewrite split_on_last by assumption. reflexivity.
  - inversion H; subst. rewrite join_cons2. cbn [app].
    rewrite split_on_cons by assumption. rewrite IH by assumption. reflexivity.
Qed.

Lemma split_tab_join cols : cols <> [] -> Forall no_tab_lf cols -> split_tab (join [TAB] cols) = cols.
Proof.
  intros Hne H. destruct cols as [|c cs]; [congruence|].
  apply split_on_join. eapply Forall_impl; [|exact H]. intros x Hx. apply no_tab_lf_notab, Hx.
Qed.

Lemma join_no_tab_lf_nolf cols : Forall no_tab_lf cols -> nolf (join [TAB] cols).
Proof.
  induction 1 as [|c cs Hc Hcs IH]; [reflexivity|].
  destruct cs as [|c' cs]; [apply no_tab_lf_nolf, Hc|].
  rewrite join_cons2. unfold nolf in *. rewrite !forallb_app, IH.
  rewrite (no_tab_lf_nolf c Hc). reflexivity.
Qed.

Lemma join_last sep cols : cols <> [] -> exists pre, join sep cols = pre ++ last cols [].
Proof.
  induction cols as [|c cs IH]; [congruence|]. intros _.
  destruct cs as [|c' cs]; [exists []; reflexivity|].
  destruct IH as [pre Hp]; [discriminate|].
  rewrite join_cons2, Hp. exists (c ++ sep ++ pre).
  rewrite <- !app_assoc. reflexivity.
Qed.

Lemma join_head sep c n cs : exists tl, join sep ((c :: n) :: cs) = c :: tl.
Proof. destruct cs; eexists; cbn [join app]; reflexivity. Qed.

(* ---------------------------------------------------------------- rstrip *)
Definition ends_nonspace (x : str) : Prop := exists y c, x = y ++ [c] /\ is_space c = false.

Lemma rstrip_space_line x : ends_nonspace x -> rstrip_space (x ++ [LF]) = x.
Proof.
  intros (y & c & -> & Hc). unfold rstrip_space.
  rewrite !rev_app_distr. cbn [rev app lstrip_space].
  change (is_space LF) with true. cbv iota. rewrite Hc.
  cbn [rev]. rewrite rev_involutive. reflexivity.
Qed.

Lemma is_blank_nonspace x c y : is_space c = false -> is_blank (x ++ c :: y) = false.
Proof.
  intro H. unfold is_blank. rewrite forallb_app. cbn [forallb]. rewrite H.
  cbn [andb]. apply andb_false_r.
Qed.

Lemma ends_nonspace_not_blank x y : ends_nonspace x -> is_blank (x ++ y) = false.
Proof.
  intros (z & c & -> & Hc). rewrite <- app_assoc. cbn [app]. apply is_blank_nonspace, Hc.
Qed.

Lemma ends_nonspace_app pre x : ends_nonspace x -> ends_nonspace (pre ++ x).
Proof. intros (y & c & -> & Hc). exists (pre ++ y), c. rewrite app_assoc. auto. Qed.

Lemma join_ends_nonspace sep cols :
  cols <> [] -> ends_nonspace (last cols []) -> ends_nonspace (join sep cols).
Proof.
  intros Hne H. destruct (join_last sep cols Hne) as [pre ->]. apply ends_nonspace_app, H.
Qed.

Lemma no_trailing_space_ends t : t <> [] -> no_trailing_space t -> ends_nonspace t.
Proof.
  unfold no_trailing_space, last_opt. intros Hne H.
  destruct (rev t) as [|c r] eqn:E.
  - apply (f_equal (@rev _)) in E. rewrite rev_involutive in E. contradiction.
  - apply (f_equal (@rev _)) in E. rewrite rev_involutive in E. cbn [rev] in E.
    exists (rev r), c. auto.
Qed.

Lemma add_row_last_snoc scs n rows r :
  add_row_last (scs ++ [(n, rows)]) r = scs ++ [(n, rows ++ [r])].
Proof.
  induction scs as [|x scs IH]; [reflexivity|].
  cbn [app]. destruct x as [m rs].
  destruct (scs ++ [(n, rows)]) as [|y l] eqn:E.
  - destruct scs; discriminate.
  - cbn [add_row_last]. rewrite <- IH. reflexivity.
Qed.

(* ============================================== the fold over written lines *)
Section Fold.
  Variable step : pstate -> str -> res pstate.
  Variable is_line : str -> row -> str -> Prop.
  Variable first_ok : row -> Prop.
  Variable is_hline : str -> str -> Prop.
  Hypothesis step_same : forall h scs name done r line, is_line name r line ->
    step (mkP h (scs ++ [(name, done)]) name true) line
    = Ok (mkP h (scs ++ [(name, done ++ [r])]) name true).
  Hypothesis step_new : forall h scs prev have name r line, is_line name r line ->
    first_ok r -> prev <> name ->
    step (mkP h scs prev have) line = Ok (mkP h (scs ++ [(name, [r])]) name true).
  Hypothesis step_hdr : forall hs scs nm hv h line, is_hline h line ->
    step (mkP hs scs nm hv) line = Ok (mkP (hs ++ [h]) scs nm hv).

  Lemma fold_rows h scs name : forall rows lines, Forall2 (is_line name) rows lines ->
    forall done, foldM step lines (mkP h (scs ++ [(name, done)]) name true)
                 = Ok (mkP h (scs ++ [(name, done ++ rows)]) name true).
  Proof.
    induction 1 as [|r line rows lines Hl Hrest IH]; intro done.
    - rewrite app_nil_r. reflexivity.
    - cbn [foldM]. rewrite (step_same _ _ _ _ _ _ Hl). cbn [bind].
      rewrite IH, <- app_assoc. reflexivity.
  Qed.

  Definition sc_lines (sc : str * list row) (ls : list str) : Prop :=
    Forall2 (is_line (fst sc)) (snd sc) ls /\ exists r t, snd sc = r :: t /\ first_ok r.

  Lemma fold_scs : forall scl lss, Forall2 sc_lines scl lss ->
    forall h scs prev have, adjacent_distinct (prev :: map fst scl) ->
    exists nm hv, foldM step (concat lss) (mkP h scs prev have) = Ok (mkP h (scs ++ scl) nm hv).
  Proof.
    induction 1 as [|sc ls scl lss Hsc Hrest IH]; intros h scs prev have Had.
    - exists prev, have. rewrite app_nil_r. reflexivity.
    - destruct sc as [name rows]. destruct Hsc as (Hl & r & t & Hrows & Hf).
      cbn [fst snd] in *. subst rows.
      inversion Hl as [|? line ? lines Hl1 Hl2]; subst.
      cbn [map] in Had. destruct Had as [Hne Had].
      cbn [concat]. rewrite foldM_app. cbn [foldM].
      rewrite (step_new h scs prev have name r line Hl1 Hf Hne). cbn [bind].
      rewrite (fold_rows h scs name t lines Hl2 [r]). cbn [bind app].
      destruct (IH h (scs ++ [(name, r :: t)]) name true Had) as (nm & hv & E).
      exists nm, hv. rewrite E, <- app_assoc. reflexivity.
  Qed.

  Lemma fold_hdrs : forall hs lines, Forall2 is_hline hs lines ->
    forall h0 scs nm hv, foldM step lines (mkP h0 scs nm hv) = Ok (mkP (h0 ++ hs) scs nm hv).
  Proof.
    induction 1 as [|h line hs lines Hl Hrest IH]; intros h0 scs nm hv.
    - rewrite app_nil_r. reflexivity.
    - cbn [foldM]. rewrite (step_hdr _ _ _ _ _ _ Hl). cbn [bind].
      rewrite IH, <- app_assoc. reflexivity.
  Qed.

  Lemma fold_all hs hlines scl lss :
    Forall2 is_hline hs hlines -> Forall2 sc_lines scl lss ->
    adjacent_distinct ([] :: map fst scl) ->
    exists st, foldM step (hlines ++ concat lss) (mkP [] [] [] false) = Ok st
               /\ p_header st = hs /\ p_scs st = scl.
  Proof.
    intros Hh Hs Had. rewrite foldM_app, (fold_hdrs _ _ Hh). cbn [bind app].
    destruct (fold_scs _ _ Hs hs [] [] false Had) as (nm & hv & E).
    rewrite E. eexists; repeat split.
  Qed.
End Fold.

(* =================================================================== AGP *)
Definition agp_fields (st : pstate) (fields : list str) : res pstate :=
    do f0 <- nth_field fields 0;
    let st1 := if str_eqb f0 (p_name st) then st
               else mkP (p_header st) (p_scs st ++ [(f0, [])]) f0 true in
    do f4 <- nth_field fields 4;
    if str_eqb f4 (s "U") || str_eqb f4 (s "N") then
      if negb (p_have st1) then Err AttributeError else
      do f5 <- nth_field fields 5;
      do f6 <- nth_field fields 6;
      do len <- int_of_str f5;
      Ok (mkP (p_header st1) (add_row_last (p_scs st1) (RG (mkGap len f6))) (p_name st1) true)
    else
      if negb (p_have st1) then
        do f5 <- nth_field fields 5; do f6 <- nth_field fields 6; do f7 <- nth_field fields 7;
        do f8 <- nth_field fields 8; do sd <- strand_of_agp f8;
        do a <- int_of_str f6; do b <- int_of_str f7; do f <- new_frag (-1) f5 a b sd (skipn 9 fields);
        Err AttributeError
      else
      do f5 <- nth_field fields 5;
      do f6 <- nth_field fields 6;
      do f7 <- nth_field fields 7;
      do f8 <- nth_field fields 8;
      do sd <- strand_of_agp f8;
      do a <- int_of_str f6;
      do b <- int_of_str f7;
      do f <- new_frag (-1) f5 a b sd (skipn 9 fields);
      Ok (mkP (p_header st1) (add_row_last (p_scs st1) (RF f)) (p_name st1) true).

Lemma agp_line_data st line :
  is_blank line = false -> starts_with (s "#") line = false ->
  agp_line st line = agp_fields st (split_tab (rstrip_space line)).
Proof.
  intros Hb Hh. unfold agp_line. rewrite Hb, Hh.
  replace (starts_with (s "##") line) with false; [reflexivity|].
  change (s "##") with [hash; hash]. change (s "#") with [hash] in Hh.
  destruct line as [|c [|d l]]; try reflexivity.
  - cbn [starts_with] in Hh |- *. rewrite andb_true_r in Hh. rewrite Hh. reflexivity.
  - cbn [starts_with] in Hh |- *. rewrite andb_true_r in Hh. rewrite Hh. reflexivity.
Qed.

Lemma new_frag_ok f : f_id f = -1 -> f_start f <= f_end f ->
  f_strand f = 0 \/ f_strand f = 1 \/ f_strand f = -1 ->
  new_frag (-1) (f_name f) (f_start f) (f_end f) (f_strand f) (f_tags f) = Ok f.
Proof.
  intros Hid Hle Hs. unfold new_frag, strand_ok.
  replace (negb ((f_strand f =? 0) || (f_strand f =? 1) || (f_strand f =? -1))) with false by lia.
  replace (f_start f >? f_end f) with false by lia.
  destruct f; cbn in *; subst; reflexivity.
Qed.

Lemma agp_fields_row st name l cols st1 :
  render_num name l = Ok cols -> row_ok_agp (an_row l) ->
  st1 = (if str_eqb name (p_name st) then st
         else mkP (p_header st) (p_scs st ++ [(name, [])]) name true) ->
  p_have st1 = true ->
  agp_fields st cols
  = Ok (mkP (p_header st1) (add_row_last (p_scs st1) (an_row l)) (p_name st1) true).
Proof.
  intros Hr Hok Hst1 Hhave. unfold render_num in Hr.
  destruct (an_row l) as [f|g].
  - destruct Hok as (Hid & Hnm & Hle & Hs & Htags).
    assert (Esd : exists sd, strand_str_agp (f_strand f) = Ok sd /\ strand_of_agp sd = Ok (f_strand f)).
    { destruct Hs as [-> | [-> | ->]]; eexists; split; reflexivity. }
    destruct Esd as (sd & E1 & E2). rewrite E1 in Hr. cbn [bind] in Hr. injection Hr as <-.
    unfold agp_fields. cbn [app nth_field nth_error bind]. rewrite <- Hst1.
    change (str_eqb (s "W") (s "U") || str_eqb (s "W") (s "N")) with false. cbv iota.
    rewrite Hhave. cbn [negb]. cbv iota.
    rewrite E2. cbn [bind]. rewrite !int_of_str_of_Z. cbn [bind skipn].
    rewrite new_frag_ok by assumption. reflexivity.
  - injection Hr as <-.
    unfold agp_fields. cbn [app nth_field nth_error bind]. rewrite <- Hst1.
    change (str_eqb (s "U") (s "U") || str_eqb (s "U") (s "N")) with true. cbv iota.
    rewrite Hhave. cbn [negb]. cbv iota.
    rewrite int_of_str_of_Z. cbn [bind]. destruct g; reflexivity.
Qed.

(* shape of the rendered columns *)
Lemma render_num_cols name l cols :
  no_tab_lf name -> row_ok_agp (an_row l) -> render_num name l = Ok cols ->
  Forall no_tab_lf cols /\ ends_nonspace (last cols []) /\ exists tl, cols = name :: tl.
Proof.
  intros Hn Hok Hr. unfold render_num in Hr.
  destruct (an_row l) as [f|g].
  - destruct Hok as (Hid & Hnm & Hle & Hs & Htags).
    assert (Esd : exists sd, strand_str_agp (f_strand f) = Ok sd /\ no_tab_lf sd /\ ends_nonspace sd).
    { destruct Hs as [-> | [-> | ->]]; eexists; (split; [reflexivity|]); (split; [reflexivity|]);
        eexists [], _; split; reflexivity. }
    destruct Esd as (sd & E1 & Hsd1 & Hsd2). rewrite E1 in Hr. cbn [bind] in Hr. injection Hr as <-.
    split; [|split].
    + cbn [app]. repeat (constructor; [first [assumption | apply str_of_Z_no_tab_lf | reflexivity]|]).
      exact (proj1 Htags).
    + destruct Htags as [_ Htl]. destruct (f_tags f) as [|t ts] eqn:Et.
      * cbn [app last]. exact Hsd2.
      * repeat (rewrite last_cons_ne by discriminate).
        apply no_trailing_space_ends; tauto.
    + eexists; reflexivity.
  - injection Hr as <-. split; [|split].
    + cbn [app]. repeat (constructor; [first [assumption | apply str_of_Z_no_tab_lf | reflexivity]|]).
      constructor.
    + cbn [app last]. exists (s "proximity_ligatio"), "n"%char. split; reflexivity.
    + eexists; reflexivity.
Qed.

Definition is_line_agp (name : str) (r : row) (line : str) : Prop :=
  scaffold_name_ok name /\ row_ok_agp r /\
  exists l cols, an_row l = r /\ render_num name l = Ok cols /\ line = join [TAB] cols ++ [LF].

Lemma scaffold_name_ok_ntl name : scaffold_name_ok name -> no_tab_lf name.
Proof. destruct name; cbn; tauto. Qed.

Lemma agp_line_row st name r line st1 :
  is_line_agp name r line ->
  st1 = (if str_eqb name (p_name st) then st
         else mkP (p_header st) (p_scs st ++ [(name, [])]) name true) ->
  p_have st1 = true ->
  agp_line st line = Ok (mkP (p_header st1) (add_row_last (p_scs st1) r) (p_name st1) true).
Proof.
  intros (Hn & Hok & l & cols & <- & Hr & ->) Hst1 Hhave.
  destruct (render_num_cols name l cols (scaffold_name_ok_ntl _ Hn) Hok Hr) as (Hc & He & tl & Hcols).
  assert (Hne : cols <> []) by (subst cols; discriminate).
  pose proof (join_ends_nonspace [TAB] cols Hne He) as Hj.
  rewrite agp_line_data.
  - rewrite rstrip_space_line, split_tab_join by assumption.
    apply agp_fields_row with (name := name); assumption.
  - apply ends_nonspace_not_blank, Hj.
  - subst cols. destruct name as [|c n]; [destruct Hn|]. destruct Hn as [Hc1 _].
    change (s "#") with [hash].
    destruct tl; cbn [join app starts_with];
      rewrite andb_true_r; apply Ascii.eqb_neq; congruence.
Qed.

Lemma is_line_agp_lf name r line : is_line_agp name r line -> lf_line line.
Proof.
  intros (Hn & Hok & l & cols & <- & Hr & ->).
  destruct (render_num_cols name l cols (scaffold_name_ok_ntl _ Hn) Hok Hr) as (Hc & _).
  eexists; split; [reflexivity|]. apply join_no_tab_lf_nolf, Hc.
Qed.

Definition is_hline_agp (h line : str) : Prop :=
  header_ok h /\ line = hash :: " "%char :: h ++ [LF].

Lemma span_all_then p x y :
  forallb p x = true -> match y with [] => True | c :: _ => p c = false end ->
  span p (x ++ y) = (x, y).
Proof.
  intros Hx Hy. induction x as [|c x IH]; cbn [app].
  - destruct y as [|d y]; [reflexivity|]. cbn [span]. rewrite Hy. reflexivity.
  - cbn [forallb] in Hx. apply andb_true_iff in Hx as [H1 H2].
    cbn [span]. rewrite H1, (IH H2). reflexivity.
Qed.

Lemma header_text_line pre h :
  pre <> [] -> forallb is_hash_or_space pre = true -> header_ok h ->
  header_text (pre ++ h ++ [LF]) = Some h.
Proof.
  intros Hpre Hp Hh. unfold header_text.
  destruct h as [|c h]; [destruct Hh|]. destruct Hh as [Hc Hlf].
  rewrite (span_all_then is_hash_or_space pre ((c :: h) ++ [LF]) Hp) by exact Hc.
  cbn [app].
  change (c :: h ++ [LF]) with ((c :: h) ++ [LF]).
  rewrite (span_all_then not_lf (c :: h) [LF] Hlf) by reflexivity.
  reflexivity.
Qed.

Lemma agp_step_hdr hs scs nm hv h line : is_hline_agp h line ->
  agp_line (mkP hs scs nm hv) line = Ok (mkP (hs ++ [h]) scs nm hv).
Proof.
  intros (Hh & ->). unfold agp_line.
  change (hash :: " "%char :: h ++ [LF]) with ([hash; " "%char] ++ h ++ [LF]).
  rewrite header_text_line by (try discriminate; auto).
  reflexivity.
Qed.

Lemma is_hline_agp_lf h line : is_hline_agp h line -> lf_line line.
Proof.
  intros (Hh & ->). exists (hash :: " "%char :: h). split; [reflexivity|].
  destruct h as [|c h]; [destruct Hh|]. destruct Hh as [_ Hh]. exact Hh.
Qed.

Definition dl (cols : list str) : str := join [TAB] cols ++ [LF].

Lemma agp_rows_lines name rows :
  scaffold_name_ok name -> Forall row_ok_agp rows ->
  forall p i colss, agp_rows name rows p i = Ok colss ->
  Forall2 (is_line_agp name) rows (map dl colss).
Proof.
  intros Hn Hrows. induction Hrows as [|r rows Hr Hrows IH]; intros p i colss H.
  - cbn in H. injection H as <-. constructor.
  - rewrite agp_rows_render in H. cbn [agp_nums mapM] in H.
    destruct (render_num name _) as [cols|] eqn:E1; cbn [bind] in H; [|discriminate].
    rewrite <- agp_rows_render in H.
    destruct (agp_rows name rows _ _) as [rest|] eqn:E2; cbn [bind] in H; [|discriminate].
    injection H as <-. cbn [map]. constructor; [|eapply IH; exact E2].
    split; [exact Hn|]. split; [exact Hr|].
    eexists _, cols. split; [|split; [exact E1 | reflexivity]]. reflexivity.
Qed.

Definition sc_ok_agp (sc : str * list row) : Prop :=
  scaffold_name_ok (fst sc) /\ snd sc <> [] /\ Forall row_ok_agp (snd sc).

Lemma agp_lines_sc scl : Forall sc_ok_agp scl ->
  forall lss, mapM (fun '(n, rows) => agp_rows n rows 0 0) scl = Ok lss ->
  Forall2 (sc_lines is_line_agp (fun _ => True)) scl (map (map dl) lss).
Proof.
  induction 1 as [|[n rows] scl (Hn & Hne & Hrows) Hscl IH]; intros lss H; cbn [mapM] in H.
  - injection H as <-. constructor.
  - destruct (agp_rows n rows 0 0) as [colss|] eqn:E1; cbn [bind] in H; [|discriminate].
    destruct (mapM _ scl) as [rest|] eqn:E2; cbn [bind] in H; [|discriminate].
    injection H as <-. cbn [map]. constructor; [|apply IH; reflexivity].
    cbn [fst snd] in *. split.
    + cbn [fst snd]. eapply agp_rows_lines; eassumption.
    + cbn [snd]. destruct rows as [|r t]; [congruence|]. exists r, t. auto.
Qed.

Lemma Forall2_Forall_r {A B} (R : A -> B -> Prop) (P : B -> Prop) l l' :
  (forall x y, R x y -> P y) -> Forall2 R l l' -> Forall P l'.
Proof. intros H; induction 1; constructor; eauto. Qed.

Lemma sc_lines_lf (is_line : str -> row -> str -> Prop) first_ok scl lss :
  (forall n r l, is_line n r l -> lf_line l) ->
  Forall2 (sc_lines is_line first_ok) scl lss -> Forall lf_line (concat lss).
Proof.
  intros H. induction 1 as [|sc ls scl lss (Hl & _) Hrest IH]; [constructor|].
  cbn [concat]. apply Forall_app. split; [|exact IH].
  eapply Forall2_Forall_r; [|exact Hl]. intros x y. apply H.
Qed.

Lemma adjacent_distinct_init scl :
  Forall (fun sc : str * list row => fst sc <> []) scl ->
  adjacent_distinct (map fst scl) -> adjacent_distinct ([] :: map fst scl).
Proof.
  destruct scl as [|sc scl]; [intros; exact I|].
  intros H Had. inversion H; subst. cbn [map] in *. split; [congruence | exact Had].
Qed.

Lemma agp_wf_strands a : agp_wf a ->
  Forall (fun sc => Forall (fun r => match r with RF f => f_strand f = 0 \/ f_strand f = 1 \/ f_strand f = -1 | RG _ => True end) (snd sc)) (a_scaffolds a).
Proof.
  intros (_ & Hs & _). eapply Forall_impl; [|exact Hs]. intros sc (_ & _ & Hr).
  eapply Forall_impl; [|exact Hr]. intros [f|g]; cbn; [|tauto]. unfold frag_ok_agp. tauto.
Qed.

Theorem parse_format_agp : forall a, agp_wf a -> exists t, format_agp a = Ok t /\ parse_agp t = Ok a.
Proof.
  intros a Hwf. destruct (format_agp_total a (agp_wf_strands a Hwf)) as [t Ht].
  exists t. split; [exact Ht|].
  destruct Hwf as (Hh & Hs & Had).
  unfold format_agp, agp_lines in Ht.
  destruct (mapM _ (a_scaffolds a)) as [lss|] eqn:E; cbn [bind] in Ht; [|discriminate].
  injection Ht as <-.
  pose proof (agp_lines_sc (a_scaffolds a) Hs lss E) as Hsc.
  set (hlines := map (fun h => hash :: " "%char :: h ++ [LF]) (a_header a)).
  assert (Hhl : Forall2 is_hline_agp (a_header a) hlines).
  { subst hlines. clear - Hh. induction Hh; cbn [map]; constructor; auto. split; auto. }
  change (map (fun cols => join [TAB] cols ++ [LF]) (concat lss)) with (map dl (concat lss)).
  rewrite concat_map, <- concat_app. unfold parse_agp.
  rewrite split_lines_concat.
  - destruct (fold_all agp_line is_line_agp (fun _ => True) is_hline_agp) with
      (hs := a_header a) (hlines := hlines) (scl := a_scaffolds a) (lss := map (map dl) lss)
      as (st & Est & H1 & H2); try assumption.
    + intros. rewrite (agp_line_row _ name r line _ H eq_refl); cbn [p_name];
        rewrite str_eqb_refl; [|reflexivity]. cbn [p_header p_scs p_name].
      rewrite add_row_last_snoc. reflexivity.
    + intros h scs prev have name r line Hl _ Hne.
      assert (En : str_eqb name prev = false) by (apply str_eqb_neq; congruence).
      rewrite (agp_line_row _ name r line _ Hl eq_refl); cbn [p_name];
        rewrite En; [|reflexivity]. cbn [p_header p_scs p_name].
      rewrite (add_row_last_snoc scs name [] r). reflexivity.
    + apply agp_step_hdr.
    + apply adjacent_distinct_init; [|exact Had].
      eapply Forall_impl; [|exact Hs]. intros [n rows] (Hn & _). cbn [fst] in *.
      destruct n; [destruct Hn | discriminate].
    + enough (G : forall r, r = Ok st ->
                (do st0 <- r; Ok (mkAsm (p_header st0) (p_scs st0))) = Ok a) by (apply G, Est).
      intros r ->. cbn [bind]. rewrite H1, H2. destruct a; reflexivity.
  - apply Forall_app. split.
    + eapply Forall2_Forall_r; [|exact Hhl]. intros x y. apply is_hline_agp_lf.
    + eapply sc_lines_lf; [|exact Hsc]. apply is_line_agp_lf.
Qed.

Corollary format_parse_agp : forall a t, agp_wf a -> format_agp a = Ok t ->
  exists a', parse_agp t = Ok a' /\ format_agp a' = Ok t.
Proof.
  intros a t Hwf Ht. destruct (parse_format_agp a Hwf) as (t' & Ht' & Hp).
  assert (t' = t) by congruence. subst t'. exists a. auto.
Qed.

(* ============================================= one row per data line *)
Definition nrows (scs : list (str * list row)) : nat := length (concat (map snd scs)).
Definition pinv (st : pstate) : Prop := p_have st = true -> p_scs st <> [].
Definition is_data (l : str) : bool := negb (is_blank l) && negb (starts_with (s "#") l).

Lemma nrows_cons x l : nrows (x :: l) = (length (snd x) + nrows l)%nat.
Proof. unfold nrows. cbn [map concat]. apply app_length. Qed.

Lemma nrows_add_row_last scs r : scs <> [] -> nrows (add_row_last scs r) = S (nrows scs).
Proof.
  induction scs as [|[n rows] scs IH]; [congruence|]. intros _.
  destruct scs as [|y t].
  - cbn [add_row_last]. rewrite !nrows_cons. cbn [snd]. rewrite app_length. change (nrows []) with 0%nat. cbn [length]. lia.
  - change (add_row_last ((n, rows) :: y :: t) r) with ((n, rows) :: add_row_last (y :: t) r).
    rewrite nrows_cons, IH by discriminate. rewrite (nrows_cons (n, rows)). lia.
Qed.

Lemma add_row_last_nonempty scs r : scs <> [] -> add_row_last scs r <> [].
Proof. destruct scs as [|[n rows] [|y t]]; [congruence| |]; intros _; discriminate. Qed.

Lemma nrows_snoc_empty scs n : nrows (scs ++ [(n, [])]) = nrows scs.
Proof.
  induction scs as [|x scs IH]; [reflexivity|]. cbn [app]. rewrite !nrows_cons, IH. reflexivity.
Qed.

Lemma st1_facts st f0 st1 :
  st1 = (if str_eqb f0 (p_name st) then st
         else mkP (p_header st) (p_scs st ++ [(f0, [])]) f0 true) ->
  pinv st -> pinv st1 /\ nrows (p_scs st1) = nrows (p_scs st).
Proof.
  intros -> Hinv. destruct (str_eqb f0 (p_name st)); [auto|].
  cbn [p_scs p_have]. split; [|apply nrows_snoc_empty].
  intros _. destruct (p_scs st); discriminate.
Qed.

Ltac step_bind H :=
  match type of H with
  | bind ?x _ = Ok _ => let E := fresh "E" in destruct x eqn:E; cbn [bind] in H; [|discriminate H]
  | (if ?b then _ else _) = Ok _ => let E := fresh "E" in destruct b eqn:E; try discriminate H
  | match ?x with Some _ => _ | None => _ end = Ok _ =>
      let E := fresh "E" in destruct x eqn:E; try discriminate H
  | (let '(_, _) := ?x in _) = Ok _ => destruct x
  end.

Lemma agp_fields_count st fields st' : pinv st -> agp_fields st fields = Ok st' ->
  pinv st' /\ nrows (p_scs st') = S (nrows (p_scs st)).
Proof.
  intros Hinv H. unfold agp_fields in H.
  destruct (nth_field fields 0) as [f0|]; cbn [bind] in H; [|discriminate].
  remember (if str_eqb f0 (p_name st) then st
            else mkP (p_header st) (p_scs st ++ [(f0, [])]) f0 true) as st1 eqn:Est1.
  destruct (st1_facts st f0 st1 Est1 Hinv) as [Hinv1 Hn1]. clear Est1.
  repeat step_bind H; try discriminate H.
  all: injection H as <-; cbn [p_have p_scs]; apply negb_false_iff in E1;
    (split; [intros _; apply add_row_last_nonempty, Hinv1, E1
            | rewrite nrows_add_row_last by (apply Hinv1, E1); congruence]).
Qed.

Lemma starts_with_hh line : starts_with (s "##") line = true -> starts_with (s "#") line = true.
Proof.
  change (s "##") with [hash; hash]. change (s "#") with [hash].
  destruct line as [|c l]; cbn [starts_with]; [discriminate|].
  intro H. apply andb_true_iff in H as [H _]. rewrite H. reflexivity.
Qed.

Lemma agp_line_count st line st' : pinv st -> agp_line st line = Ok st' ->
  pinv st' /\ nrows (p_scs st') = ((if is_data line then 1 else 0) + nrows (p_scs st))%nat.
Proof.
  intros Hinv H. unfold agp_line in H. unfold is_data.
  destruct (is_blank line) eqn:Hb.
  { injection H as <-. auto. }
  destruct (starts_with (s "##") line) eqn:H2.
  { injection H as <-. rewrite (starts_with_hh _ H2). auto. }
  destruct (starts_with (s "#") line) eqn:H1.
  { destruct (header_text line); injection H as <-; auto. }
  apply (agp_fields_count st _ st' Hinv) in H. exact H.
Qed.

Lemma tpf_line_count st line st' : pinv st -> tpf_line st line = Ok st' ->
  pinv st' /\ nrows (p_scs st') = ((if is_data line then 1 else 0) + nrows (p_scs st))%nat.
Proof.
  intros Hinv H. unfold tpf_line in H. unfold is_data.
  destruct (is_blank line) eqn:Hb.
  { injection H as <-. auto. }
  destruct (starts_with (s "#") line) eqn:H1.
  { destruct (header_text line); injection H as <-; auto. }
  cbn [negb andb].
  destruct (nth_field (split_tab (rstrip_eol line)) 0) as [f0|]; cbn [bind] in H; [|discriminate].
  destruct (str_eqb f0 (s "GAP")).
  - repeat step_bind H; try discriminate H.
    injection H as <-; cbn [p_have p_scs].
    split; [intros _; apply add_row_last_nonempty, Hinv, E
           | rewrite nrows_add_row_last by (apply Hinv, E); reflexivity].
  - destruct (Nat.eqb _ 4); [|discriminate].
    destruct (nth_field _ 2) as [f2|]; cbn [bind] in H; [|discriminate].
    remember (if str_eqb f2 (p_name st) then st
              else mkP (p_header st) (p_scs st ++ [(f2, [])]) f2 true) as st1 eqn:Est1.
    destruct (st1_facts st f2 st1 Est1 Hinv) as [Hinv1 Hn1]. clear Est1.
    repeat step_bind H; try discriminate H.
    match goal with E : negb (p_have st1) = false |- _ => apply negb_false_iff in E; rename E into Eh end.
    injection H as <-; cbn [p_have p_scs].
    split; [intros _; apply add_row_last_nonempty, Hinv1, Eh
           | rewrite nrows_add_row_last by (apply Hinv1, Eh); rewrite Hn1; reflexivity].
Qed.

Section Count.
  Variable step : pstate -> str -> res pstate.
  Hypothesis step_count : forall st line st', pinv st -> step st line = Ok st' ->
    pinv st' /\ nrows (p_scs st') = ((if is_data line then 1 else 0) + nrows (p_scs st))%nat.

  Lemma fold_count ls : forall st st', pinv st -> foldM step ls st = Ok st' ->
    nrows (p_scs st') = (length (filter is_data ls) + nrows (p_scs st))%nat.
  Proof.
    induction ls as [|l ls IH]; intros st st' Hinv H; cbn [foldM] in H.
    - injection H as <-. reflexivity.
    - destruct (step st l) as [st1|] eqn:E; cbn [bind] in H; [|discriminate].
      destruct (step_count _ _ _ Hinv E) as [Hinv1 Hn].
      rewrite (IH _ _ Hinv1 H), Hn. cbn [filter]. destruct (is_data l); cbn [length]; lia.
  Qed.
End Count.

Lemma pinv_init : pinv (mkP [] [] [] false).
Proof. intro H. discriminate H. Qed.

Theorem parse_agp_rows_eq_lines : forall t a, parse_agp t = Ok a -> n_rows a = length (data_lines t).
Proof.
  intros t a H. unfold parse_agp in H.
  destruct (foldM agp_line _ _) as [st|] eqn:E; cbn [bind] in H; [|discriminate].
  injection H as <-.
  pose proof (fold_count agp_line agp_line_count _ _ _ pinv_init E) as Hc.
  unfold n_rows, data_lines. cbn [a_scaffolds p_scs] in *. unfold nrows in Hc at 1.
  rewrite Hc. change (nrows []) with 0%nat. rewrite Nat.add_0_r. reflexivity.
Qed.

Theorem parse_tpf_rows_eq_lines : forall t a, parse_tpf t = Ok a -> n_rows a = length (data_lines t).
Proof.
  intros t a H. unfold parse_tpf in H.
  destruct (foldM tpf_line _ _) as [st|] eqn:E; cbn [bind] in H; [|discriminate].
  injection H as <-.
  pose proof (fold_count tpf_line tpf_line_count _ _ _ pinv_init E) as Hc.
  unfold n_rows, data_lines. cbn [a_scaffolds p_scs] in *. unfold nrows in Hc at 1.
  rewrite Hc. change (nrows []) with 0%nat. rewrite Nat.add_0_r. reflexivity.
Qed.

(* =================================================================== TPF *)
Definition ends_noeol (x : str) : Prop :=
  exists y c, x = y ++ [c] /\ (Ascii.eqb c LF || Ascii.eqb c CR) = false.

Lemma rstrip_eol_line x : ends_noeol x -> rstrip_eol (x ++ [LF]) = x.
Proof.
  intros (y & c & -> & Hc). unfold rstrip_eol, rstrip_crlf.
  rewrite !rev_app_distr. cbn [rev app rstrip_crlf_rev].
  change (Ascii.eqb LF LF || Ascii.eqb LF CR) with true. cbv iota. rewrite Hc.
  cbn [rev]. rewrite rev_involutive. reflexivity.
Qed.

Lemma join_ends_noeol sep cols :
  cols <> [] -> ends_noeol (last cols []) -> ends_noeol (join sep cols).
Proof.
  intros Hne (y & c & E & Hc). destruct (join_last sep cols Hne) as [pre Hp].
  exists (pre ++ y), c. split; [|exact Hc]. rewrite Hp, <- app_assoc. f_equal. exact E.
Qed.

Lemma is_digit_noeol c : is_digit c = true -> (Ascii.eqb c LF || Ascii.eqb c CR) = false.
Proof.
  destruct c as [[] [] [] [] [] [] [] []]; vm_compute; intro H; try discriminate H; reflexivity.
Qed.

Lemma digits_ends d : d <> [] -> forallb is_digit d = true ->
  exists y c, d = y ++ [c] /\ is_digit c = true.
Proof.
  intros Hne Hd. exists (removelast d), (last d "0"%char). split.
  - apply app_removelast_last, Hne.
  - apply last_forallb; assumption.
Qed.

Lemma str_of_Z_ends z : ends_noeol (str_of_Z z).
Proof.
  destruct z as [|p|p].
  - exists [], "0"%char. split; reflexivity.
  - destruct (str_of_Z_digits (Z.pos p)) as [Hne Hd]; [lia|].
    destruct (digits_ends _ Hne Hd) as (y & c & E & Hc).
    exists y, c. split; [exact E | apply is_digit_noeol, Hc].
  - destruct (str_of_Z_digits (Z.pos p)) as [Hne Hd]; [lia|].
    destruct (digits_ends _ Hne Hd) as (y & c & E & Hc).
    assert (E' : str_of_Z (Z.neg p) = "-"%char :: str_of_Z (Z.pos p)) by reflexivity.
    exists ("-"%char :: y), c. rewrite E', E. split; [reflexivity | apply is_digit_noeol, Hc].
Qed.

Lemma blank_hash_join c n cs : is_space c = false -> c <> hash ->
  is_blank (join [TAB] ((c :: n) :: cs) ++ [LF]) = false
  /\ starts_with (s "#") (join [TAB] ((c :: n) :: cs) ++ [LF]) = false.
Proof.
  intros Hs Hh. change (s "#") with [hash]. unfold is_blank.
  destruct cs; cbn [join app starts_with forallb]; rewrite Hs, andb_true_r;
    (split; [reflexivity | apply Ascii.eqb_neq; congruence]).
Qed.

Lemma forallb_rev {A} (p : A -> bool) l : forallb p l = true -> forallb p (rev l) = true.
Proof.
  intro H. apply forallb_forall. intros x Hx. apply in_rev in Hx.
  rewrite forallb_forall in H. apply H, Hx.
Qed.

Lemma rev_nonempty {A} (l : list A) : l <> [] -> rev l <> [].
Proof.
  intros H E. apply (f_equal (@rev A)) in E. rewrite rev_involutive in E. contradiction.
Qed.

Lemma tpf_name_rev x rn r1 r2 :
  rev x = r2 ++ "-"%char :: r1 ++ ":"%char :: rn ->
  rn <> [] -> forallb not_lf rn = true ->
  r1 <> [] -> forallb is_digit r1 = true ->
  r2 <> [] -> forallb is_digit r2 = true ->
  tpf_name x = Some (rev rn, rev r1, rev r2).
Proof.
  intros E Hn Hnl H1 Hd1 H2 Hd2. unfold tpf_name. rewrite E.
  rewrite (span_all_then is_digit r2 _ Hd2) by reflexivity.
  destruct r2 as [|c2 r2]; [congruence|]. cbv iota beta.
  rewrite Ascii.eqb_refl.
  rewrite (span_all_then is_digit r1 _ Hd1) by reflexivity.
  destruct r1 as [|c1 r1]; [congruence|]. cbv iota beta.
  rewrite Ascii.eqb_refl.
  destruct rn as [|cn rn]; [congruence|]. rewrite Hnl. reflexivity.
Qed.

Lemma tpf_name_ok name d1 d2 :
  name <> [] -> nolf name -> d1 <> [] -> forallb is_digit d1 = true ->
  d2 <> [] -> forallb is_digit d2 = true ->
  tpf_name (name ++ ":"%char :: d1 ++ "-"%char :: d2) = Some (name, d1, d2).
Proof.
  intros Hn Hnl H1 Hd1 H2 Hd2.
  rewrite (tpf_name_rev _ (rev name) (rev d1) (rev d2)).
  - rewrite !rev_involutive. reflexivity.
  - rewrite rev_app_distr. cbn [rev]. rewrite rev_app_distr. cbn [rev].
    rewrite <- !app_assoc. reflexivity.
  - apply rev_nonempty, Hn.
  - apply forallb_rev, Hnl.
  - apply rev_nonempty, H1.
  - apply forallb_rev, Hd1.
  - apply rev_nonempty, H2.
  - apply forallb_rev, Hd2.
Qed.

Definition tpf_frag_field (f : frag) : str :=
  f_name f ++ ":"%char :: str_of_Z (f_start f) ++ "-"%char :: str_of_Z (f_end f).

Lemma tpf_frag_field_ntl f : no_tab_lf (f_name f) -> no_tab_lf (tpf_frag_field f).
Proof.
  intro H. unfold tpf_frag_field.
  apply no_tab_lf_app; [exact H|].
  change (no_tab_lf ([":"%char] ++ str_of_Z (f_start f) ++ ["-"%char] ++ str_of_Z (f_end f))).
  repeat apply no_tab_lf_app; try apply str_of_Z_no_tab_lf; reflexivity.
Qed.

Lemma tpf_line_frag st scname f st1 sd :
  frag_ok_tpf f -> tpf_scaffold_name_ok scname ->
  st1 = (if str_eqb scname (p_name st) then st
         else mkP (p_header st) (p_scs st ++ [(scname, [])]) scname true) ->
  p_have st1 = true ->
  strand_str_tpf (f_strand f) = Ok sd ->
  tpf_line st (join [TAB] [s "?"; tpf_frag_field f; scname; sd] ++ [LF])
  = Ok (mkP (p_header st1) (add_row_last (p_scs st1) (RF f)) (p_name st1) true).
Proof.
  intros (Hid & Hne & Hnm & [H0 Hle] & Hs & Htags) [Hsn1 Hsn2] Hst1 Hhave Hsd.
  assert (Esd : strand_of_tpf sd = Ok (f_strand f) /\ no_tab_lf sd /\ ends_noeol sd).
  { destruct Hs as [Hs|Hs]; rewrite Hs in Hsd |- *; injection Hsd as <-;
      (split; [reflexivity|]); (split; [reflexivity|]).
    - exists (s "PLU"), "S"%char. split; reflexivity.
    - exists (s "MINU"), "S"%char. split; reflexivity. }
  destruct Esd as (E2 & Hsd1 & Hsd2).
  set (cols := [s "?"; tpf_frag_field f; scname; sd]).
  assert (Hc : Forall no_tab_lf cols).
  { subst cols. repeat (constructor; [first [assumption | reflexivity | apply tpf_frag_field_ntl; assumption]|]).
    constructor. }
  destruct (blank_hash_join "?"%char [] [tpf_frag_field f; scname; sd]) as [Hb Hh];
    [reflexivity | discriminate |].
  change (("?"%char :: []) :: [tpf_frag_field f; scname; sd]) with cols in Hb, Hh.
  unfold tpf_line. rewrite Hb, Hh.
  rewrite rstrip_eol_line by (apply join_ends_noeol; [discriminate | exact Hsd2]).
  rewrite split_tab_join by (try discriminate; exact Hc).
  subst cols. cbn [nth_field nth_error bind length Nat.eqb].
  change (str_eqb (s "?") (s "GAP")) with false. cbv iota.
  rewrite <- Hst1.
  assert (En : tpf_name (tpf_frag_field f) = Some (f_name f, str_of_Z (f_start f), str_of_Z (f_end f))).
  { unfold tpf_frag_field.
    destruct (str_of_Z_digits (f_start f)) as [? ?]; [lia|].
    destruct (str_of_Z_digits (f_end f)) as [? ?]; [lia|].
    apply tpf_name_ok; try assumption. apply no_tab_lf_nolf, Hnm. }
  rewrite En. cbv iota beta.
  rewrite E2. cbn [bind]. rewrite !int_of_str_of_Z. cbn [bind].
  rewrite <- Htags, new_frag_ok by (try assumption; tauto).
  cbn [bind]. rewrite Hhave. reflexivity.
Qed.

Lemma tpf_line_gap st g :
  gap_type_ok_tpf (g_type g) -> p_have st = true ->
  tpf_line st (join [TAB] [s "GAP"; tpf_gap_type_out (g_type g); str_of_Z (g_len g)] ++ [LF])
  = Ok (mkP (p_header st) (add_row_last (p_scs st) (RG g)) (p_name st) true).
Proof.
  intros (Hrt & Hntl & _) Hhave.
  set (cols := [s "GAP"; tpf_gap_type_out (g_type g); str_of_Z (g_len g)]).
  assert (Hc : Forall no_tab_lf cols).
  { subst cols. repeat (constructor; [first [assumption | reflexivity | apply str_of_Z_no_tab_lf]|]).
    constructor. }
  destruct (blank_hash_join "G"%char (s "AP") [tpf_gap_type_out (g_type g); str_of_Z (g_len g)]) as [Hb Hh];
    [reflexivity | discriminate |].
  change (("G"%char :: s "AP") :: [tpf_gap_type_out (g_type g); str_of_Z (g_len g)]) with cols in Hb, Hh.
  unfold tpf_line. rewrite Hb, Hh.
  rewrite rstrip_eol_line by (apply join_ends_noeol; [discriminate | apply str_of_Z_ends]).
  rewrite split_tab_join by (try discriminate; exact Hc).
  subst cols. cbn [nth_field nth_error bind].
  change (str_eqb (s "GAP") (s "GAP")) with true. cbv iota.
  rewrite Hhave. rewrite int_of_str_of_Z. cbn [bind]. rewrite Hrt. destruct g; reflexivity.
Qed.

Definition is_line_tpf (name : str) (r : row) (line : str) : Prop :=
  tpf_scaffold_name_ok name /\ row_ok_tpf r /\ tpf_row name r = Ok line.
Definition first_ok_tpf (r : row) : Prop := exists f, r = RF f.

Lemma tpf_line_row st name r line st1 :
  is_line_tpf name r line ->
  st1 = (if str_eqb name (p_name st) then st
         else mkP (p_header st) (p_scs st ++ [(name, [])]) name true) ->
  p_have st1 = true -> (first_ok_tpf r \/ st1 = st) ->
  tpf_line st line = Ok (mkP (p_header st1) (add_row_last (p_scs st1) r) (p_name st1) true).
Proof.
  intros (Hn & Hok & Hrow) Hst1 Hhave Hfirst. destruct r as [f|g]; cbn [tpf_row] in Hrow.
  - destruct (strand_str_tpf (f_strand f)) as [sd|] eqn:Esd; cbn [bind] in Hrow; [|discriminate].
    injection Hrow as <-. apply tpf_line_frag; assumption.
  - injection Hrow as <-. destruct Hfirst as [[f Hf]|Hst]; [discriminate|].
    rewrite Hst in *. apply tpf_line_gap; assumption.
Qed.

Lemma tpf_row_total name r : row_ok_tpf r -> exists line, tpf_row name r = Ok line.
Proof.
  destruct r as [f|g]; intro H; cbn [tpf_row]; [|eexists; reflexivity].
  destruct H as (_ & _ & _ & _ & [Hs|Hs] & _); rewrite Hs; eexists; reflexivity.
Qed.

Lemma is_line_tpf_lf name r line : is_line_tpf name r line -> lf_line line.
Proof.
  intros ([Hn1 Hn2] & Hok & Hrow). destruct r as [f|g]; cbn [tpf_row] in Hrow.
  - destruct Hok as (Hid & Hne & Hnm & _ & Hs & _).
    destruct (strand_str_tpf (f_strand f)) as [sd|] eqn:Esd; cbn [bind] in Hrow; [|discriminate].
    injection Hrow as <-. exists (join [TAB] [s "?"; tpf_frag_field f; name; sd]).
    split; [reflexivity|]. apply join_no_tab_lf_nolf.
    repeat (constructor; [first [assumption | reflexivity | apply (tpf_frag_field_ntl f); assumption | idtac]|]).
    + destruct Hs as [Hs|Hs]; rewrite Hs in Esd; injection Esd as <-; reflexivity.
    + constructor.
  - destruct Hok as (_ & Hntl & _).
    injection Hrow as <-.
    exists (join [TAB] [s "GAP"; tpf_gap_type_out (g_type g); str_of_Z (g_len g)]).
    split; [reflexivity|]. apply join_no_tab_lf_nolf.
    repeat (constructor; [first [assumption | reflexivity | apply str_of_Z_no_tab_lf]|]).
    constructor.
Qed.

Definition is_hline_tpf (h line : str) : Prop :=
  header_ok h /\ line = hash :: hash :: " "%char :: h ++ [LF].

Lemma tpf_step_hdr hs scs nm hv h line : is_hline_tpf h line ->
  tpf_line (mkP hs scs nm hv) line = Ok (mkP (hs ++ [h]) scs nm hv).
Proof.
  intros (Hh & ->). unfold tpf_line.
  change (hash :: hash :: " "%char :: h ++ [LF]) with ([hash; hash; " "%char] ++ h ++ [LF]).
  rewrite header_text_line by (try discriminate; auto).
  reflexivity.
Qed.

Lemma is_hline_tpf_lf h line : is_hline_tpf h line -> lf_line line.
Proof.
  intros (Hh & ->). exists (hash :: hash :: " "%char :: h). split; [reflexivity|].
  destruct h as [|c h]; [destruct Hh|]. destruct Hh as [_ Hh]. exact Hh.
Qed.

Definition sc_ok_tpf (sc : str * list row) : Prop :=
  tpf_scaffold_name_ok (fst sc) /\ (exists f t, snd sc = RF f :: t) /\ Forall row_ok_tpf (snd sc).

Lemma tpf_rows_lines name rows : tpf_scaffold_name_ok name -> Forall row_ok_tpf rows ->
  exists lines, mapM (tpf_row name) rows = Ok lines /\ Forall2 (is_line_tpf name) rows lines.
Proof.
  intros Hn. induction 1 as [|r rows Hr Hrows (lines & E & IH)].
  - exists []. split; [reflexivity | constructor].
  - destruct (tpf_row_total name r Hr) as [line El].
    exists (line :: lines). cbn [mapM]. rewrite El, E. split; [reflexivity|].
    constructor; [|exact IH]. split; [exact Hn | split; [exact Hr | exact El]].
Qed.

Lemma tpf_lines_sc scl : Forall sc_ok_tpf scl ->
  exists lss,
    mapM (fun '(n, rows) => do l <- mapM (tpf_row n) rows; Ok (concat l)) scl = Ok (map (@concat _) lss)
    /\ Forall2 (sc_lines is_line_tpf first_ok_tpf) scl lss.
Proof.
  induction 1 as [|[n rows] scl (Hn & (f & t & Hft) & Hrows) Hscl (lss & E & IH)].
  - exists []. split; [reflexivity | constructor].
  - cbn [fst snd] in *. destruct (tpf_rows_lines n rows Hn Hrows) as (lines & El & Hl).
    exists (lines :: lss). cbn [mapM]. rewrite El. cbn [bind]. rewrite E. split; [reflexivity|].
    constructor; [|exact IH]. split; [exact Hl|]. cbn [snd]. exists (RF f), t. split; [exact Hft|].
    exists f. reflexivity.
Qed.

Theorem parse_format_tpf : forall a, tpf_wf a -> exists t, format_tpf a = Ok t /\ parse_tpf t = Ok a.
Proof.
  intros a (Hh & Hs & Had).
  destruct (tpf_lines_sc (a_scaffolds a) Hs) as (lss & E & Hsc).
  unfold format_tpf. rewrite E. cbn [bind]. eexists; split; [reflexivity|].
  set (hlines := map (fun h => hash :: hash :: " "%char :: h ++ [LF]) (a_header a)).
  assert (Hhl : Forall2 is_hline_tpf (a_header a) hlines).
  { subst hlines. clear - Hh. induction Hh; cbn [map]; constructor; auto. split; auto. }
  rewrite concat_concat, <- concat_app. unfold parse_tpf.
  rewrite split_lines_concat.
  - destruct (fold_all tpf_line is_line_tpf first_ok_tpf is_hline_tpf) with
      (hs := a_header a) (hlines := hlines) (scl := a_scaffolds a) (lss := lss)
      as (st & Est & H1 & H2); try assumption.
    + intros. rewrite (tpf_line_row _ name r line _ H eq_refl); cbn [p_name];
        rewrite str_eqb_refl; [|reflexivity|right; reflexivity]. cbn [p_header p_scs p_name].
      rewrite add_row_last_snoc. reflexivity.
    + intros h scs prev have name r line Hl Hf Hne.
      assert (En : str_eqb name prev = false) by (apply str_eqb_neq; congruence).
      rewrite (tpf_line_row _ name r line _ Hl eq_refl); cbn [p_name];
        rewrite En; [|reflexivity|left; exact Hf]. cbn [p_header p_scs p_name].
      rewrite (add_row_last_snoc scs name [] r). reflexivity.
    + apply tpf_step_hdr.
    + apply adjacent_distinct_init; [|exact Had].
      eapply Forall_impl; [|exact Hs]. intros [n rows] ([Hn _] & _). exact Hn.
    + enough (G : forall r, r = Ok st ->
                (do st0 <- r; Ok (mkAsm (p_header st0) (p_scs st0))) = Ok a) by (apply G, Est).
      intros r ->. cbn [bind]. rewrite H1, H2. destruct a; reflexivity.
  - apply Forall_app. split.
    + eapply Forall2_Forall_r; [|exact Hhl]. intros x y. apply is_hline_tpf_lf.
    + eapply sc_lines_lf; [|exact Hsc]. apply is_line_tpf_lf.
Qed.

(* ------------------------------------------- AGP -> TPF -> back drops tags *)
Lemma tpf_row_drop n r : tpf_row n (drop_tags_row r) = tpf_row n r.
Proof. destruct r; reflexivity. Qed.

Lemma format_tpf_drop_tags a : format_tpf (drop_tags a) = format_tpf a.
Proof.
  unfold format_tpf, drop_tags. cbn [a_header a_scaffolds].
  replace (mapM (fun '(n, rows) => do l <- mapM (tpf_row n) rows; Ok (concat l))
             (map (fun sc => (fst sc, map drop_tags_row (snd sc))) (a_scaffolds a)))
    with (mapM (fun '(n, rows) => do l <- mapM (tpf_row n) rows; Ok (concat l)) (a_scaffolds a));
    [reflexivity|].
  induction (a_scaffolds a) as [|[n rows] l IH]; [reflexivity|].
  cbn [map mapM fst snd]. rewrite <- IH. f_equal.
  replace (mapM (tpf_row n) (map drop_tags_row rows)) with (mapM (tpf_row n) rows); [reflexivity|].
  clear. induction rows as [|r rows IH]; [reflexivity|].
  cbn [map mapM]. rewrite tpf_row_drop, <- IH. reflexivity.
Qed.

Theorem agp_tpf_agp : forall a, agp_wf a -> tpf_wf (drop_tags a) ->
  exists t, format_tpf a = Ok t /\ parse_tpf t = Ok (drop_tags a).
Proof.
  intros a _ Hwf. destruct (parse_format_tpf _ Hwf) as (t & Ht & Hp).
  exists t. rewrite <- format_tpf_drop_tags. auto.
Qed.

(* gap-type table round trips *)
Theorem gap_type_roundtrip_examples :
  tpf_gap_type_in (tpf_gap_type_out (s "scaffold")) = s "scaffold"
  /\ tpf_gap_type_in (tpf_gap_type_out (s "contig")) = s "contig"
  /\ tpf_gap_type_in (tpf_gap_type_out (s "short_arm")) = s "short_arm"
  /\ tpf_gap_type_out (s "scaffold") = s "TYPE-2"
  /\ tpf_gap_type_out (s "contig") = s "TYPE-3".
Proof. vm_compute. repeat split. Qed.

(* ------------------------------------------------------------ non-vacuity *)
Ltac wf_solve :=
  repeat match goal with
  | |- _ => progress cbn [fst snd f_id f_name f_start f_end f_strand f_tags g_len g_type]
  | |- _ /\ _ => split
  | |- Forall _ [] => constructor
  | |- Forall _ (_ :: _) => constructor
  | |- True => exact I
  | |- _ <= _ => lia
  | |- _ <> _ => let H := fresh in intro H; vm_compute in H; discriminate H
  | |- _ = _ => reflexivity
  | |- _ \/ _ => first [left; reflexivity | right; reflexivity | right; left; reflexivity | right; right; reflexivity]
  | |- exists _, _ => eexists
  | |- _ => progress cbn [fst snd]
  | |- _ => progress hnf
  end.

Definition ex_agp : assembly :=
  mkAsm [s "HiC MAP RESOLUTION: 8666.66 bp/texel"; s "second header # line"]
    [(s "scaffold_1",
      [RF (mkFrag (-1) (s "ctg1") 1 100 1 [s "Painted"]);
       RG (mkGap 200 (s "scaffold"));
       RF (mkFrag (-1) (s "ctg2") 5 50 0 [])]);
     (s "scaffold 2",
      [RF (mkFrag (-1) (s "ctg:3-4") 1 10 (-1) [s "X"; s "Haplotig"]);
       (* an empty tag column BETWEEN two tags survives the round trip *)
       RF (mkFrag (-1) (s "ctg4") 1 10 1 [s "Painted"; []; s "Hap2"])])].

Example ex_agp_wf : agp_wf ex_agp.
Proof. unfold agp_wf, ex_agp. cbn [a_header a_scaffolds map fst snd]. wf_solve. Qed.

Example ex_agp_roundtrip :
  exists t, format_agp ex_agp = Ok t /\ parse_agp t = Ok ex_agp.
Proof. apply parse_format_agp, ex_agp_wf. Qed.

(* the same, by evaluation (checks the theorem against the executable model) *)
Example ex_agp_roundtrip_eval :
  (do t <- format_agp ex_agp; parse_agp t) = Ok ex_agp.
Proof. vm_compute. reflexivity. Qed.

Definition ex_tpf : assembly :=
  mkAsm [s "HiC MAP RESOLUTION: 8666.66 bp/texel"]
    [(s "scaffold_1",
      [RF (mkFrag (-1) (s "ctg1") 1 100 1 []);
       RG (mkGap 200 (s "scaffold"));
       RG (mkGap 10 (s "short_arm"));
       RF (mkFrag (-1) (s "ctg-2:7") 0 50 (-1) [])]);
     (s "scaffold 2",
      [RF (mkFrag (-1) (s "ctg:3-4") 1 10 (-1) [])])].

Example ex_tpf_wf : tpf_wf ex_tpf.
Proof. unfold tpf_wf, ex_tpf. cbn [a_header a_scaffolds map fst snd]. wf_solve. Qed.

Example ex_tpf_roundtrip_eval :
  (do t <- format_tpf ex_tpf; parse_tpf t) = Ok ex_tpf.
Proof. vm_compute. reflexivity. Qed.

(* an assembly satisfying both hypotheses of agp_tpf_agp *)
Definition ex_both : assembly :=
  mkAsm [s "hdr"]
    [(s "scaffold_1",
      [RF (mkFrag (-1) (s "ctg1") 1 100 1 [s "Painted"]);
       RG (mkGap 200 (s "scaffold"));
       RF (mkFrag (-1) (s "ctg2") 5 50 (-1) [])])].
Example ex_both_wf : agp_wf ex_both /\ tpf_wf (drop_tags ex_both).
Proof.
  split.
  - unfold agp_wf, ex_both. cbn [a_header a_scaffolds map fst snd]. wf_solve.
  - unfold tpf_wf, drop_tags, ex_both. cbn [a_header a_scaffolds map fst snd drop_tags_row]. wf_solve.
Qed.

Print Assumptions parse_format_agp.
Print Assumptions format_parse_agp.
Print Assumptions parse_format_tpf.
Print Assumptions agp_tpf_agp.
Print Assumptions parse_agp_rows_eq_lines.
Print Assumptions parse_tpf_rows_eq_lines.
Print Assumptions gap_type_roundtrip_examples.
Print Assumptions ex_agp_wf.
Print Assumptions ex_tpf_wf.
Print Assumptions ex_both_wf.
