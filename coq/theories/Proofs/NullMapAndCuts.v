(* C08 / C02 ingredient theorems.
   A. error_length is strictly above the texel size, by at most one.
   B. null map: a bait [1, E] reaching into the last row of a scaffold without
      terminal gaps returns all rows, and trim_large_overhangs leaves the
      result untouched when E is within one error length of the scaffold end.
   C. trim_fragment cuts at the exact bait coordinate, with the strand
      handling and keep flags of the Python code.
   D. the keep-flag order of the pinned commit is refuted for a reverse-strand
      contig; the repaired order cuts it once.
   No axioms. *)
From Tola Require Import Py.Base Py.Dec Py.Sort Model.Fragment Model.Scaffold Model.Lookup
  Model.OverlapResult Model.NaturalKey Model.Namer Model.Remap
  Proofs.BaseLemmas Proofs.Lookup.
From Coq Require Import Lia ZifyBool.

(* ================================================================== A *)
Theorem error_length_spec : forall n d, 0 <= n -> 0 < d ->
  d * (error_length (n, d) - 1) <= n < d * error_length (n, d).
Proof.
  intros n d Hn Hd. unfold error_length. cbn [fst snd].
  Z.div_mod_to_equations. lia.
Qed.

Corollary error_length_pos : forall n d, 0 <= n -> 0 < d -> 1 <= error_length (n, d).
Proof.
  intros n d Hn Hd. unfold error_length. cbn [fst snd].
  assert (0 <= n / d) by (apply Z.div_pos; lia). lia.
Qed.

(* ================================================================== D *)
Definition c1 : frag := mkFrag 0 (s "c1") 1 1000 (-1) [].
Definition wit_store : list ovr :=
  [ mkOvr (mkFrag (-1) (s "S1") 1 500 1 []) 1 1000 [RF c1] [] None None 0 None [];
    mkOvr (mkFrag (-1) (s "S1") 501 1000 1 []) 1 1000 [RF c1] [] None None 0 None [] ].
Definition wit_b : bstate :=
  mkB wit_store [0; 1] [(key_of c1, (c1, [0; 1]))] [key_of c1] (new_namer (s "x")) 0.

Theorem legacy_keep_flags_refuted :
  exists (b : bstate) (k : fkey), cut_fragments (mkCfg false true true true true) b k = Err ValueError
    /\ exists b', cut_fragments repaired b k = Ok b' /\ b_cuts b' = b_cuts b + 1.
Proof.
  exists wit_b, (key_of c1). split.
  - vm_compute. reflexivity.
  - eexists. split.
    + vm_compute. reflexivity.
    + vm_compute. reflexivity.
Qed.

(* the two pieces the repaired code produces are cut at the bait boundary
   500 | 501, in contig coordinates mirrored because the contig is reversed *)
Lemma repaired_cut_pieces :
  exists b', cut_fragments repaired wit_b (key_of c1) = Ok b' /\
    map o_rows (b_store b') =
      [ [RF (mkFrag (-2) (s "c1") 501 1000 (-1) [s "Cut"])];
        [RF (mkFrag (-2) (s "c1") 1 500 (-1) [s "Cut"])] ]
    /\ map o_start (b_store b') = [1; 501] /\ map o_end (b_store b') = [500; 1000].
Proof. eexists. split; [vm_compute; reflexivity|]. vm_compute. auto. Qed.

(* ================================================================== B *)
Lemma rows_len_nonneg rows : pos_rows rows -> 0 <= rows_len rows.
Proof.
  induction 1 as [|r t Hr Ht IH]; [rewrite rows_len_nil; lia|].
  rewrite rows_len_cons. lia.
Qed.

Lemma pos_rows_app_l a b : pos_rows (a ++ b) -> pos_rows a.
Proof. unfold pos_rows. intro H. apply Forall_app in H. tauto. Qed.

Lemma firstn_len_app {A} (a b : list A) : firstn (length a) (a ++ b) = a.
Proof.
  rewrite firstn_app, Nat.sub_diag, firstn_all. cbn [firstn]. apply app_nil_r.
Qed.

Theorem whole_scaffold_bait : forall rows E,
  rows <> [] -> pos_rows rows ->
  (exists f t, rows = RF f :: t) -> (exists f t, rows = t ++ [RF f]) ->
  rows_len (removelast rows) < E ->
  find_overlaps rows 1 E = Ok (Some (mkFound 1 (rows_len rows) rows)).
Proof.
  intros rows E Hne Hp (f0 & t0 & H0) (fl & tl & Hl) HE.
  assert (Hrm : removelast rows = tl) by (rewrite Hl; apply removelast_last).
  rewrite Hrm in HE.
  assert (Hptl : pos_rows tl) by (rewrite Hl in Hp; exact (pos_rows_app_l _ _ Hp)).
  assert (Htl := rows_len_nonneg tl Hptl).
  destruct (find_overlaps_spec rows 1 E Hne Hp ltac:(lia)) as (r & Er & Hr).
  rewrite Er. f_equal.
  apply (lookup_spec_unique rows 1 E _ _ Hp Hr).
  cbn [lookup_spec fo_rows fo_start fo_end].
  assert (Hlen : length rows = S (length tl)).
  { rewrite Hl, app_length. cbn [length]. lia. }
  exists 0%nat, (length tl).
  assert (S1 : span_start rows 0 = 1) by reflexivity.
  assert (S2 : span_end rows (length tl) = rows_len rows).
  { unfold span_end. rewrite <- Hlen, firstn_all. reflexivity. }
  assert (S3 : span_start rows (length tl) = 1 + rows_len tl).
  { unfold span_start. rewrite Hl at 1. rewrite firstn_len_app. reflexivity. }
  assert (S4 : 1 <= span_end rows 0).
  { assert (G := span_start_le_end rows 0 Hp ltac:(lia)). lia. }
  assert (S5 : 1 <= rows_len rows).
  { rewrite Hl, rows_len_app, rows_len_cons, rows_len_nil.
    rewrite Hl in Hp. apply Forall_app in Hp as [_ Hp]. inversion Hp; subst. lia. }
  split; [lia|]. split.
  { cbn [skipn]. rewrite Nat.sub_0_r, <- Hlen, firstn_all. reflexivity. }
  split; [reflexivity|]. split; [symmetry; exact S2|].
  split. { exists f0. rewrite H0. reflexivity. }
  split. { exists fl. rewrite Hl, nth_error_app2 by lia. rewrite Nat.sub_diag. reflexivity. }
  split. { unfold meets. lia. }
  split. { unfold meets. lia. }
  intros k Fk _. apply frag_at_lt in Fk. lia.
Qed.

Theorem trim_large_noop : forall bait fo err,
  f_start bait = fo_start fo ->
  0 <= err -> fo_end fo - f_end bait <= err ->
  trim_large_overhangs (ovr_of_found bait fo) err = Ok (ovr_of_found bait fo).
Proof.
  intros bait fo err Hs He Ho. unfold trim_large_overhangs.
  set (r := ovr_of_found bait fo).
  assert (A : start_overhang r >? err = false).
  { unfold start_overhang, r. cbn [ovr_of_found o_bait o_start]. lia. }
  assert (B : end_overhang r >? err = false).
  { unfold end_overhang, r. cbn [ovr_of_found o_bait o_end]. lia. }
  destruct ((zlen (o_rows r) =? 1) && (f_len (o_bait r) >? err)); [reflexivity|].
  rewrite A. cbn [bind andb]. rewrite B.
  destruct (o_rows r); reflexivity.
Qed.

Corollary null_bait_result : forall rows name E strand tags n d,
  rows <> [] -> pos_rows rows -> (exists f t, rows = RF f :: t) -> (exists f t, rows = t ++ [RF f]) ->
  1 <= E -> rows_len (removelast rows) < E -> 0 <= n -> 0 < d ->
  d * (rows_len rows - E) < n ->
  let bait := mkFrag (-1) name 1 E strand tags in
  exists fo, find_overlaps rows 1 E = Ok (Some fo) /\ fo_rows fo = rows /\ fo_start fo = 1
    /\ fo_end fo = rows_len rows
    /\ trim_large_overhangs (ovr_of_found bait fo) (error_length (n, d)) = Ok (ovr_of_found bait fo).
Proof.
  intros rows name E strand tags n d Hne Hp Hf Hl HE1 HE Hn Hd Hr bait.
  exists (mkFound 1 (rows_len rows) rows).
  split; [apply whole_scaffold_bait; assumption|].
  split; [reflexivity|]. split; [reflexivity|]. split; [reflexivity|].
  apply trim_large_noop.
  - reflexivity.
  - assert (G := error_length_pos n d Hn Hd). lia.
  - cbn [fo_end f_end bait].
    assert (G := error_length_spec n d Hn Hd).
    assert (L : d * (rows_len rows - E) < d * error_length (n, d)) by lia.
    apply Z.mul_lt_mono_pos_l in L; lia.
Qed.

(* ================================================================== C *)
Lemma last_opt_snoc {A} (l : list A) x : last_opt (l ++ [x]) = Some x.
Proof. unfold last_opt. rewrite rev_app_distr. reflexivity. Qed.

Lemma py_nth_0 {A} (x : A) l : py_nth (x :: l) 0 = Ok x.
Proof.
  unfold py_nth, zlen. cbv zeta. cbn [length].
  change (0 <? 0) with false. cbv iota.
  destruct (Z.of_nat (S (length l)) <=? 0) eqn:E; [lia|]. reflexivity.
Qed.

Lemma py_nth_m1 {A} (l : list A) x : py_nth (l ++ [x]) (-1) = Ok x.
Proof.
  unfold py_nth, zlen. cbv zeta. rewrite app_length. cbn [length].
  change (-1 <? 0) with true. cbv iota.
  replace (-1 + Z.of_nat (length l + 1)) with (Z.of_nat (length l)) by lia.
  destruct (Z.of_nat (length l) <? 0) eqn:E1; [lia|].
  destruct (Z.of_nat (length l + 1) <=? Z.of_nat (length l)) eqn:E2; [lia|].
  cbn [orb]. rewrite Nat2Z.id. rewrite nth_error_app2 by lia.
  rewrite Nat.sub_diag. reflexivity.
Qed.

Lemma new_frag_inv id name st en strand tags nf :
  new_frag id name st en strand tags = Ok nf ->
  nf = mkFrag id name st en strand tags /\ st <= en.
Proof.
  unfold new_frag. destruct (negb (strand_ok strand)); [discriminate|].
  destruct (st >? en) eqn:E; [discriminate|]. intros H; injection H as <-. split; [reflexivity | lia].
Qed.

Lemma set_last_snoc {A} (l : list A) x y : set_last (l ++ [x]) y = l ++ [y].
Proof.
  unfold set_last. destruct (l ++ [x]) eqn:E.
  - destruct l; discriminate.
  - rewrite <- E. rewrite removelast_last. reflexivity.
Qed.

(* what trim_fragment does to a first row that is not also the last row *)
Lemma trim_first_unfold r f t ks ke :
  o_rows r = RF f :: t -> t <> [] ->
  (forall g, last_opt (o_rows r) = Some (RF g) -> f_id g <> f_id f) ->
  trim_fragment r f ks ke =
    let s_ovr := start_overhang r in
    let move_s := (s_ovr >? 0) && negb ks in
    do new <- new_frag (-1) (f_name f)
                (if move_s && (f_strand f =? 1) then f_start f + s_ovr else f_start f)
                (if move_s && negb (f_strand f =? 1) then f_end f - s_ovr else f_end f)
                (f_strand f) (cut_tags (o_bait r));
    Ok (new, set_span_rows r (if move_s then o_start r + s_ovr else o_start r) (o_end r)
               (RF new :: t)).
Proof.
  intros Er Ht Hid.
  destruct (exists_last Ht) as (t' & x & ->).
  assert (Hx : row_is x f = false).
  { destruct x as [g|g]; [|reflexivity]. cbn [row_is].
    assert (G : f_id g <> f_id f).
    { apply Hid. rewrite Er. change (RF f :: t' ++ [RF g]) with ((RF f :: t') ++ [RF g]).
      apply last_opt_snoc. }
    lia. }
  unfold trim_fragment, first_row, last_row. rewrite Er.
  rewrite py_nth_0. change (RF f :: t' ++ [x]) with ((RF f :: t') ++ [x]).
  rewrite py_nth_m1. cbn [bind]. cbv zeta.
  rewrite Hx. unfold row_is. rewrite Z.eqb_refl. cbn [andb orb negb set_nth app].
  reflexivity.
Qed.

(* ... and to a last row that is not also the first row *)
Lemma trim_last_unfold r f t ks ke :
  o_rows r = t ++ [RF f] -> t <> [] ->
  (forall g, hd_error (o_rows r) = Some (RF g) -> f_id g <> f_id f) ->
  trim_fragment r f ks ke =
    let e_ovr := end_overhang r in
    let move_e := (e_ovr >? 0) && negb ke in
    do new <- new_frag (-2) (f_name f)
                (if move_e && negb (f_strand f =? 1) then f_start f + e_ovr else f_start f)
                (if move_e && (f_strand f =? 1) then f_end f - e_ovr else f_end f)
                (f_strand f) (cut_tags (o_bait r));
    Ok (new, set_span_rows r (o_start r) (if move_e then o_end r - e_ovr else o_end r)
               (t ++ [RF new])).
Proof.
  intros Er Ht Hid.
  destruct t as [|x t']; [congruence|].
  assert (Hx : row_is x f = false).
  { destruct x as [g|g]; [|reflexivity]. cbn [row_is].
    assert (G : f_id g <> f_id f) by (apply Hid; rewrite Er; reflexivity).
    lia. }
  unfold trim_fragment, first_row, last_row, end_overhang. rewrite Er.
  rewrite py_nth_m1. cbn [app]. rewrite py_nth_0. cbn [bind]. cbv zeta.
  rewrite Hx. unfold row_is. rewrite Z.eqb_refl. cbn [andb orb negb].
  change (x :: t' ++ [RF f]) with ((x :: t') ++ [RF f]).
  destruct (new_frag _ _ _ _ _ _) as [nf|e]; [|reflexivity].
  cbn [bind]. rewrite set_last_snoc. reflexivity.
Qed.

Theorem trim_first_exact : forall r f t new r',
  o_rows r = RF f :: t -> t <> [] ->
  (forall g, last_opt (o_rows r) = Some (RF g) -> f_id g <> f_id f) ->
  0 < start_overhang r ->
  trim_fragment r f false true = Ok (new, r') ->
  o_start r' = f_start (o_bait r)
  /\ o_end r' = o_end r
  /\ f_len new = f_len f - start_overhang r
  /\ (if f_strand f =? 1 then f_start new = f_start f + start_overhang r /\ f_end new = f_end f
      else f_end new = f_end f - start_overhang r /\ f_start new = f_start f)
  /\ o_rows r' = RF new :: t.
Proof.
  intros r f t new r' Er Ht Hid Hov H.
  rewrite (trim_first_unfold r f t false true Er Ht Hid) in H. cbv zeta in H.
  replace (start_overhang r >? 0) with true in H by lia. cbn [andb negb] in H.
  destruct (new_frag _ _ _ _ _ _) as [nf|e] eqn:Hnf; [|discriminate].
  cbn [bind] in H. injection H as <- <-.
  apply new_frag_inv in Hnf as [-> _].
  cbn [set_span_rows o_start o_end o_rows f_start f_end f_len]. unfold f_len.
  cbn [f_start f_end]. unfold start_overhang in *.
  destruct (f_strand f =? 1); cbn [negb]; repeat split; lia.
Qed.

Theorem trim_last_exact : forall r f t new r',
  o_rows r = t ++ [RF f] -> t <> [] ->
  (forall g, hd_error (o_rows r) = Some (RF g) -> f_id g <> f_id f) ->
  0 < end_overhang r ->
  trim_fragment r f true false = Ok (new, r') ->
  o_end r' = f_end (o_bait r)
  /\ o_start r' = o_start r
  /\ f_len new = f_len f - end_overhang r
  /\ (if f_strand f =? 1 then f_end new = f_end f - end_overhang r /\ f_start new = f_start f
      else f_start new = f_start f + end_overhang r /\ f_end new = f_end f)
  /\ o_rows r' = t ++ [RF new].
Proof.
  intros r f t new r' Er Ht Hid Hov H.
  rewrite (trim_last_unfold r f t true false Er Ht Hid) in H. cbv zeta in H.
  replace (end_overhang r >? 0) with true in H by lia. cbn [andb negb] in H.
  destruct (new_frag _ _ _ _ _ _) as [nf|e] eqn:Hnf; [|discriminate].
  cbn [bind] in H. injection H as <- <-.
  apply new_frag_inv in Hnf as [-> _].
  cbn [set_span_rows o_start o_end o_rows f_start f_end f_len]. unfold f_len.
  cbn [f_start f_end]. unfold end_overhang in *.
  destruct (f_strand f =? 1); cbn [negb]; repeat split; lia.
Qed.

Theorem trim_first_kept : forall r f t new r',
  o_rows r = RF f :: t -> t <> [] ->
  (forall g, last_opt (o_rows r) = Some (RF g) -> f_id g <> f_id f) ->
  trim_fragment r f true true = Ok (new, r') ->
  f_start new = f_start f /\ f_end new = f_end f /\ o_start r' = o_start r /\ o_end r' = o_end r.
Proof.
  intros r f t new r' Er Ht Hid H.
  rewrite (trim_first_unfold r f t true true Er Ht Hid) in H. cbv zeta in H.
  rewrite Bool.andb_false_r in H. cbn [andb negb] in H.
  destruct (new_frag _ _ _ _ _ _) as [nf|e] eqn:Hnf; [|discriminate].
  cbn [bind] in H. injection H as <- <-.
  apply new_frag_inv in Hnf as [-> _].
  cbn [set_span_rows o_start o_end f_start f_end]. repeat split; reflexivity.
Qed.

Theorem trim_last_kept : forall r f t new r',
  o_rows r = t ++ [RF f] -> t <> [] ->
  (forall g, hd_error (o_rows r) = Some (RF g) -> f_id g <> f_id f) ->
  trim_fragment r f true true = Ok (new, r') ->
  f_start new = f_start f /\ f_end new = f_end f /\ o_start r' = o_start r /\ o_end r' = o_end r.
Proof.
  intros r f t new r' Er Ht Hid H.
  rewrite (trim_last_unfold r f t true true Er Ht Hid) in H. cbv zeta in H.
  rewrite Bool.andb_false_r in H. cbn [andb negb] in H.
  destruct (new_frag _ _ _ _ _ _) as [nf|e] eqn:Hnf; [|discriminate].
  cbn [bind] in H. injection H as <- <-.
  apply new_frag_inv in Hnf as [-> _].
  cbn [set_span_rows o_start o_end f_start f_end]. repeat split; reflexivity.
Qed.

Theorem start_if_trimmed_agrees : forall r f t new r' st,
  o_rows r = RF f :: t -> t <> [] ->
  (forall g, last_opt (o_rows r) = Some (RF g) -> f_id g <> f_id f) ->
  f_strand f = 1 -> 0 < start_overhang r ->
  fragment_start_if_trimmed r f = Ok st -> trim_fragment r f false true = Ok (new, r') ->
  f_start new = st.
Proof.
  intros r f t new r' st Er Ht Hid Hs Hov Hst H.
  destruct (trim_first_exact r f t new r' Er Ht Hid Hov H) as (_ & _ & _ & G & _).
  unfold fragment_start_if_trimmed, first_row in Hst.
  rewrite Hs in *. change (1 =? 1) with true in *. cbv iota in *.
  rewrite Er, py_nth_0 in Hst. cbn [bind row_is] in Hst.
  rewrite Z.eqb_refl in Hst. injection Hst as <-. tauto.
Qed.

(* the mirrored prediction for a reverse (or unstranded) contig at the END of a result *)
Theorem start_if_trimmed_agrees_rev : forall r f t new r' st,
  o_rows r = t ++ [RF f] -> t <> [] ->
  (forall g, hd_error (o_rows r) = Some (RF g) -> f_id g <> f_id f) ->
  f_strand f <> 1 -> 0 < end_overhang r ->
  fragment_start_if_trimmed r f = Ok st -> trim_fragment r f true false = Ok (new, r') ->
  f_start new = st.
Proof.
  intros r f t new r' st Er Ht Hid Hs Hov Hst H.
  destruct (trim_last_exact r f t new r' Er Ht Hid Hov H) as (_ & _ & _ & G & _).
  unfold fragment_start_if_trimmed, last_row in Hst.
  replace (f_strand f =? 1) with false in * by lia.
  rewrite Er, py_nth_m1 in Hst. cbn [bind row_is] in Hst.
  rewrite Z.eqb_refl in Hst. injection Hst as <-. tauto.
Qed.

Print Assumptions error_length_spec.
Print Assumptions legacy_keep_flags_refuted.
Print Assumptions whole_scaffold_bait.
Print Assumptions trim_large_noop.
Print Assumptions null_bait_result.
Print Assumptions trim_first_exact.
Print Assumptions trim_last_exact.
Print Assumptions trim_first_kept.
Print Assumptions trim_last_kept.
Print Assumptions start_if_trimmed_agrees.
Print Assumptions start_if_trimmed_agrees_rev.
