(* Completion, part 2: the cut stage.  [Geo f lo hi r]: result r holds the
   input contig f (scaffold span lo .. hi) at one of its ends, untouched.
   What trim_fragment does to such a result, in scaffold coordinates and in
   "directed" coordinates (offsets along the contig's own direction); the
   pieces cut by trim_all from a run of holders with abutting baits form an
   ascending chain, which qc_sub_fragments accepts (Proofs.CompletionQC). *)
From Tola Require Import Py.Base Py.Sort Model.Fragment Model.Scaffold Model.Lookup
  Model.OverlapResult Model.OvrSpec Model.NaturalKey Model.Namer Model.Remap Model.RemapSpec
  Proofs.BaseLemmas Proofs.Lookup Proofs.OverlapResult Proofs.RemapHead Proofs.PipelineInv
  Proofs.CoreKeptGood Proofs.CoreKeptResolver Proofs.CoreKeptLookup Proofs.CoreKeptHeld
  Proofs.CoreKeptDeepK Proofs.CoreKept Proofs.CoreKeptDeepCut Proofs.CompletionQC.
From Tola Require Proofs.NaturalKey Proofs.RemapTail.
From Coq Require Import Lia ZifyBool Permutation Sorted.

Lemma new_frag_mk id name st en strand tags :
  strand_ok strand = true -> st <= en ->
  new_frag id name st en strand tags = Ok (mkFrag id name st en strand tags).
Proof.
  intros H1 H2. unfold new_frag. rewrite H1. cbn [negb].
  replace (st >? en) with false by lia. reflexivity.
Qed.

Section Geo.
  Variable f : frag.
  Variables lo hi : Z.

  Definition Geo (r : ovr) : Prop :=
    (o_rows r = [RF f] /\ o_start r = lo /\ o_end r = hi)
    \/ (exists t x, o_rows r = RF f :: t ++ [x] /\ row_is x f = false
                    /\ o_start r = lo /\ hi <= f_end (o_bait r))
    \/ (exists x t, o_rows r = x :: t ++ [RF f] /\ row_is x f = false
                    /\ o_end r = hi /\ f_start (o_bait r) <= lo).

  Lemma Geo_nonempty r : Geo r -> o_rows r <> [].
  Proof.
    intros [(E & _) | [(t & x & E & _) | (x & t & E & _)]]; rewrite E; discriminate.
  Qed.

  Lemma Geo_holds r : Geo r -> In (RF f) (o_rows r).
  Proof.
    intros [(E & _) | [(t & x & E & _) | (x & t & E & _)]]; rewrite E.
    - left. reflexivity.
    - left. reflexivity.
    - right. apply in_or_app. right. left. reflexivity.
  Qed.

  Ltac finish_trim Hso Hle :=
    cbn [andb negb orb] in *; rewrite new_frag_mk by (assumption || lia); cbn [bind];
    eexists _, _; split; [reflexivity|]; cbn [f_name f_start f_end];
    split; [reflexivity|]; split; lia.

  Lemma trim_geo r ks ke :
    Geo r -> strand_ok (f_strand f) = true ->
    let s := f_start (o_bait r) in
    let e := f_end (o_bait r) in
    let st2 := if f_strand f =? 1
               then (if (lo <? s) && negb ks then f_start f + (s - lo) else f_start f)
               else (if (e <? hi) && negb ke then f_start f + (hi - e) else f_start f) in
    let en2 := if f_strand f =? 1
               then (if (e <? hi) && negb ke then f_end f - (hi - e) else f_end f)
               else (if (lo <? s) && negb ks then f_end f - (s - lo) else f_end f) in
    st2 <= en2 ->
    exists new r', trim_fragment r f ks ke = Ok (new, r')
                   /\ f_name new = f_name f /\ f_start new = st2 /\ f_end new = en2.
  Proof.
    intros HG Hso s e st2 en2 Hle. subst st2 en2. unfold trim_fragment.
    destruct HG as [(Er & Es & Ee) | [(t & x & Er & Hx & Es & Hhe) | (x & t & Er & Hx & Ee & Hsl)]].
    - rewrite (first_row_cons r (RF f) [] Er), (last_row_snoc r [] (RF f) Er). cbn [bind]. cbv zeta.
      cbn [row_is]. rewrite Z.eqb_refl. unfold start_overhang. rewrite Es, Ee. fold s e.
      replace (s - lo >? 0) with (lo <? s) by lia. replace (hi - e >? 0) with (e <? hi) by lia.
      cbn [andb orb negb].
      destruct (f_strand f =? 1) eqn:E1, ((lo <? s) && negb ks) eqn:E2, ((e <? hi) && negb ke) eqn:E3;
        finish_trim Hso Hle.
    - rewrite (first_row_cons r (RF f) _ Er), (last_row_snoc r (RF f :: t) x Er). cbn [bind]. cbv zeta.
      cbn [row_is]. rewrite Z.eqb_refl, Hx. unfold start_overhang. rewrite Es. fold s e.
      replace (s - lo >? 0) with (lo <? s) by lia.
      replace (e <? hi) with false in * by (subst e; lia).
      cbn [andb orb negb] in *.
      destruct (f_strand f =? 1) eqn:E1, ((lo <? s) && negb ks) eqn:E2; finish_trim Hso Hle.
    - rewrite (first_row_cons r x _ Er), (last_row_snoc r (x :: t) (RF f) Er). cbn [bind]. cbv zeta.
      cbn [row_is]. rewrite Z.eqb_refl, Hx. rewrite Ee. fold s e.
      replace (hi - e >? 0) with (e <? hi) by lia.
      replace (lo <? s) with false in * by (subst s; lia).
      cbn [andb orb negb] in *.
      destruct (f_strand f =? 1) eqn:E1, ((e <? hi) && negb ke) eqn:E3; finish_trim Hso Hle.
  Qed.

  (* a cut for another contig does not disturb the end where f sits *)
  Lemma Geo_tf_other r t ks ke new r' :
    f_id t <> f_id f -> 0 <= f_id f -> Geo r -> trim_fragment r t ks ke = Ok (new, r') -> Geo r'.
  Proof.
    intros Hne Hf0 HG H.
    destruct (trim_fragment_inv2 _ _ _ _ _ _ H) as (r0 & rl & Hr0 & Hrl & Hor & Hneg & Erows & B & Es & Ee).
    assert (Hnew : row_is (RF new) f = false) by (cbn [row_is]; lia).
    assert (Hft : row_is (RF f) t = false) by (cbn [row_is]; lia).
    destruct HG as [(Er & Es0 & Ee0) | [(tt & x & Er & Hx & Es0 & Hhe) | (x & tt & Er & Hx & Ee0 & Hsl)]].
    - exfalso. pose proof (first_row_inj _ _ _ _ Er Hr0) as ->.
      pose proof (last_row_inj r [] _ _ Er Hrl) as ->. rewrite Hft in Hor. discriminate.
    - pose proof (first_row_inj _ _ _ _ Er Hr0) as ->.
      pose proof (last_row_inj r (RF f :: tt) _ _ Er Hrl) as ->.
      rewrite Hft in Hor, Es. cbn [orb andb] in Hor, Es. rewrite Hor in Erows.
      right. left. exists tt, (RF new). rewrite Erows, Er, B, Es.
      split; [apply (set_last_app (RF f :: tt))|]. split; [exact Hnew|]. split; assumption.
    - pose proof (first_row_inj _ _ _ _ Er Hr0) as ->.
      pose proof (last_row_inj r (x :: tt) _ _ Er Hrl) as ->.
      rewrite Hft in Hor, Ee, Erows. rewrite Bool.orb_false_r in Hor. cbn [andb] in Ee.
      right. right. exists (RF new), tt. rewrite Erows, Er, B, Ee.
      split; [reflexivity|]. split; [exact Hnew|]. split; assumption.
  Qed.

  Lemma fsit_geo r :
    Geo r ->
    let s := f_start (o_bait r) in
    let e := f_end (o_bait r) in
    exists kk, fragment_start_if_trimmed r f = Ok kk
      /\ (if f_strand f =? 1
          then kk = f_start f + (s - lo) \/ (kk = f_start f /\ s <= lo)
          else kk = f_start f + (hi - e) \/ (kk = f_start f /\ hi <= e)).
  Proof.
    intros HG s e. unfold fragment_start_if_trimmed, start_overhang, end_overhang. fold s e.
    destruct HG as [(Er & Es & Ee) | [(t & x & Er & Hx & Es & Hhe) | (x & t & Er & Hx & Ee & Hsl)]].
    - rewrite (first_row_cons r (RF f) [] Er), (last_row_snoc r [] (RF f) Er). cbn [bind row_is].
      rewrite Z.eqb_refl, Es, Ee. destruct (f_strand f =? 1); eexists; (split; [reflexivity|]); left; reflexivity.
    - rewrite (first_row_cons r (RF f) _ Er), (last_row_snoc r (RF f :: t) x Er). cbn [bind row_is].
      rewrite Z.eqb_refl, Hx, Es. destruct (f_strand f =? 1); eexists; (split; [reflexivity|]).
      + left. reflexivity.
      + right. split; [reflexivity | exact Hhe].
    - rewrite (first_row_cons r x _ Er), (last_row_snoc r (x :: t) (RF f) Er). cbn [bind row_is].
      rewrite Z.eqb_refl, Hx, Ee. destruct (f_strand f =? 1); eexists; (split; [reflexivity|]).
      + right. split; [reflexivity | exact Hsl].
      + left. reflexivity.
  Qed.
End Geo.

(* ============================================== directed (contig) coordinates *)
Section Dir.
  Variable c : cfg.
  Hypothesis Hfix : fix_swap_keep c = true.
  Variable f : frag.
  Variables lo hi : Z.
  Hypothesis Hhi : hi = lo + f_len f - 1.
  Hypothesis Hso : strand_ok (f_strand f) = true.
  Hypothesis Hwf : f_start f <= f_end f.

  (* offsets of a bait's ends from the contig's first base, along the contig *)
  Definition dU (b : frag) : Z := if f_strand f =? 1 then f_start b - lo else hi - f_end b.
  Definition dV (b : frag) : Z := if f_strand f =? 1 then f_end b - lo else hi - f_start b.
  Let L := f_len f.

  Lemma trim_dir r first last :
    Geo f lo hi r ->
    let u := dU (o_bait r) in
    let v := dV (o_bait r) in
    let a := if (0 <? u) && negb first then u else 0 in
    let b := if (v <? L - 1) && negb last then v else L - 1 in
    a <= b ->
    exists new r',
      trim_fragment r f (if negb (f_strand f =? 1) then last else first)
                        (if negb (f_strand f =? 1) then first else last) = Ok (new, r')
      /\ f_name new = f_name f /\ f_start new = f_start f + a /\ f_end new = f_start f + b.
  Proof.
    intros HG u v a b Hab. subst a b u v. unfold dU, dV, L in *.
    set (s := f_start (o_bait r)) in *. set (e := f_end (o_bait r)) in *.
    destruct (f_strand f =? 1) eqn:E1; cbn [negb].
    - pose proof (trim_geo f lo hi r first last HG Hso) as T. cbv zeta in T. rewrite E1 in T.
      fold s e in T.
      replace (0 <? s - lo) with (lo <? s) in * by lia.
      replace (e - lo <? f_len f - 1) with (e <? hi) in * by lia.
      destruct T as (new & r' & HT & N1 & N2 & N3).
      { destruct ((lo <? s) && negb first), ((e <? hi) && negb last); unfold f_len in *; lia. }
      exists new, r'. split; [exact HT|]. split; [exact N1|]. rewrite N2, N3.
      destruct ((lo <? s) && negb first), ((e <? hi) && negb last); unfold f_len in *; split; lia.
    - pose proof (trim_geo f lo hi r last first HG Hso) as T. cbv zeta in T. rewrite E1 in T.
      fold s e in T.
      replace (0 <? hi - e) with (e <? hi) in * by lia.
      replace (hi - s <? f_len f - 1) with (lo <? s) in * by lia.
      destruct T as (new & r' & HT & N1 & N2 & N3).
      { destruct ((lo <? s) && negb last), ((e <? hi) && negb first); unfold f_len in *; lia. }
      exists new, r'. split; [exact HT|]. split; [exact N1|]. rewrite N2, N3.
      destruct ((lo <? s) && negb last), ((e <? hi) && negb first); unfold f_len in *; split; lia.
  Qed.

  Lemma fsit_dir r :
    Geo f lo hi r ->
    exists kk, fragment_start_if_trimmed r f = Ok kk
      /\ (kk = f_start f + dU (o_bait r) \/ (kk = f_start f /\ dU (o_bait r) <= 0)).
  Proof.
    intros HG. destruct (fsit_geo f lo hi r HG) as (kk & Hk & Hc). cbv zeta in Hc.
    exists kk. split; [exact Hk|]. unfold dU. destruct (f_strand f =? 1).
    - destruct Hc as [-> | (-> & H)]; [left; reflexivity | right; split; [reflexivity | lia]].
    - destruct Hc as [-> | (-> & H)]; [left; reflexivity | right; split; [reflexivity | lia]].
  Qed.

  (* ------------------------------------------------------------- trim_all *)
  Variable bt : rid -> frag.

  Definition HolderOK (st : list ovr) (id : rid) : Prop :=
    exists r, get_ovr st id = Ok r /\ o_bait r = bt id /\ Geo f lo hi r.

  Lemma zlen_cons {A} (x : A) l : zlen (x :: l) = 1 + zlen l.
  Proof. unfold zlen. cbn [length]. lia. Qed.

  Lemma zlen_nonneg {A} (l : list A) : 0 <= zlen l.
  Proof. unfold zlen. lia. Qed.

  Lemma trim_all_chain : forall (l : list rid) st i a0,
    NoDup l -> Forall (fun a => 0 <= a) l -> (forall id, In id l -> HolderOK st id) ->
    (forall id, In id l -> dU (bt id) <= dV (bt id) /\ 0 <= dV (bt id) /\ dU (bt id) <= L - 1) ->
    (forall j id id', nth_error l j = Some id -> nth_error l (S j) = Some id' ->
                      dV (bt id) + 1 = dU (bt id')) ->
    l <> [] -> 0 <= i ->
    ((i = 0 /\ a0 = 0) \/ (0 < i /\ 0 < a0 /\ exists id t, l = id :: t /\ dU (bt id) = a0)) ->
    exists st' subs, trim_all c st f l i (i + zlen l - 1) = Ok (st', subs)
                     /\ chain (f_name f) (f_start f + a0) subs (f_end f).
  Proof.
    induction l as [|id t IH]; intros st i a0 Hnd Hpos Hok Hgeo Hcons Hne Hi Hhead; [congruence|].
    inversion Hnd as [|? ? Hnin Hnd']; subst. inversion Hpos as [|? ? Hid Hpos']; subst.
    destruct (Hok id (or_introl eq_refl)) as (r & Hg & Hb & HG).
    destruct (Hgeo id (or_introl eq_refl)) as (G1 & G2 & G3).
    cbn [trim_all]. rewrite Hfix, Hg. cbn [andb bind].
    assert (Ha : (if (0 <? dU (o_bait r)) && negb (i =? 0) then dU (o_bait r) else 0) = a0).
    { rewrite Hb. destruct Hhead as [(-> & ->) | (H1 & H2 & id0 & t0 & E & H3)].
      - rewrite Z.eqb_refl, Bool.andb_false_r. reflexivity.
      - injection E as <- <-. rewrite H3. replace (0 <? a0) with true by lia.
        replace (i =? 0) with false by lia. reflexivity. }
    pose proof (zlen_nonneg t) as Zt. rewrite zlen_cons.
    remember (zlen t) as n eqn:En.
    destruct t as [|id' t'].
    - (* the last holder keeps the far end *)
      assert (n = 0) by (subst n; reflexivity).
      replace (i =? i + (1 + n) - 1) with true by lia.
      destruct (trim_dir r (i =? 0) true HG) as (new & r' & HT & N1 & N2 & N3).
      { rewrite Ha. cbn [negb]. rewrite Bool.andb_false_r. rewrite Hb in *.
        destruct Hhead as [(-> & ->) | (H1 & H2 & id0 & t0 & E & H3)]; [unfold L, f_len; lia|].
        injection E as <- <-. lia. }
      rewrite HT. cbn [bind trim_all fst snd]. eexists _, _. split; [reflexivity|].
      apply chain_one. rewrite N1, N2, N3, Ha. cbn [negb]. rewrite Bool.andb_false_r.
      split; [reflexivity|]. split; [reflexivity|].
      rewrite Ha in *. cbn [negb] in *.
      split; [|unfold L, f_len; lia].
      rewrite Hb in *. destruct Hhead as [(-> & ->) | (H1 & H2 & id0 & t0 & E & H3)]; [unfold L, f_len; lia|].
      injection E as <- <-. unfold L, f_len in *. lia.
    - (* an inner cut at the end of this holder's bait *)
      pose proof (Hcons 0%nat id id' eq_refl eq_refl) as Hc0.
      destruct (Hgeo id' (or_intror (or_introl eq_refl))) as (G1' & G2' & G3').
      pose proof (zlen_nonneg t') as Zt'. rewrite zlen_cons in En.
      replace (i =? i + (1 + n) - 1) with false by lia.
      assert (Hbv : (if (dV (o_bait r) <? L - 1) && negb false then dV (o_bait r) else L - 1) = dV (bt id)).
      { rewrite Hb. replace (dV (bt id) <? L - 1) with true by lia. reflexivity. }
      destruct (trim_dir r (i =? 0) false HG) as (new & r' & HT & N1 & N2 & N3).
      { rewrite Ha, Hbv. destruct Hhead as [(-> & ->) | (H1 & H2 & id0 & t0 & E & H3)]; [lia|].
        injection E as <- <-. lia. }
      rewrite HT. cbn [bind]. rewrite Ha in N2. rewrite Hbv in N3.
      replace (i + (1 + n) - 1) with ((i + 1) + n - 1) by lia.
      destruct (IH (put_ovr st id r') (i + 1) (dV (bt id) + 1)) as (st' & subs & HT' & Hch).
      + exact Hnd'.
      + exact Hpos'.
      + intros x Hx. destruct (Hok x (or_intror Hx)) as (rx & Hgx & Hbx & HGx).
        exists rx. split; [|split; assumption].
        rewrite get_put_other; [exact Hgx | exact Hid | | intros ->; contradiction].
        rewrite Forall_forall in Hpos'. apply Hpos'. exact Hx.
      + intros x Hx. apply Hgeo. right. exact Hx.
      + intros j x y Hx Hy. apply (Hcons (S j) x y); assumption.
      + discriminate.
      + lia.
      + right. split; [lia|]. split; [lia|]. exists id', t'. split; [reflexivity|]. lia.
      + rewrite HT'. cbn [bind fst snd]. eexists _, _. split; [reflexivity|].
        destruct subs as [|y ys]; [destruct Hch|].
        apply chain_more. split; [exact N1|]. split; [exact N2|]. split.
        * rewrite N3. destruct Hhead as [(-> & ->) | (H1 & H2 & id0 & t0 & E & H3)]; [lia|].
          injection E as <- <-. lia.
        * rewrite N3. replace (f_start f + dV (bt id) + 1) with (f_start f + (dV (bt id) + 1)) by lia.
          exact Hch.
  Qed.
End Dir.

(* ======================================================== the visiting order *)
Lemma order_consecutive (ids : list Z) (key u v : Z -> Z) (base : Z) :
  NoDup ids ->
  (forall id, In id ids -> u id <= v id /\ 0 <= v id
                           /\ (key id = base + u id \/ (key id = base /\ u id <= 0))) ->
  (forall id id', In id ids -> In id' ids -> id <> id' -> v id < u id' \/ v id' < u id) ->
  (forall id id', In id ids -> In id' ids -> v id < u id' ->
                  exists id'', In id'' ids /\ u id'' = v id + 1) ->
  let ordered := map snd (sort_by_Z fst (map (fun id => (key id, id)) ids)) in
  Permutation ordered ids
  /\ (forall j id id', nth_error ordered j = Some id -> nth_error ordered (S j) = Some id' ->
                       v id + 1 = u id').
Proof.
  intros Hnd Hgeo Hdisj Habut ordered.
  set (keyed := map (fun id => (key id, id)) ids) in *.
  set (sorted := sort_by_Z fst keyed) in *.
  assert (Hperm : Permutation ordered ids).
  { unfold ordered, sorted, sort_by_Z.
    rewrite (Permutation_map snd (RemapTail.ssort_perm _ keyed)).
    unfold keyed. rewrite map_map. cbn [snd]. rewrite map_id. apply Permutation_refl. }
  split; [exact Hperm|].
  assert (Hnd' : NoDup ordered) by (eapply Permutation_NoDup; [apply Permutation_sym; exact Hperm | exact Hnd]).
  assert (Hin : forall id, In id ordered <-> In id ids).
  { intros id. split; intros H; [eapply Permutation_in; [exact Hperm | exact H]|].
    eapply Permutation_in; [apply Permutation_sym; exact Hperm | exact H]. }
  assert (Hss : StronglySorted (fun a b : Z * Z => (fst a <=? fst b) = true) sorted).
  { unfold sorted, sort_by_Z. apply (NaturalKey.stable_sort_sorted (@fst Z Z) Z.leb); intros; lia. }
  assert (Hnth : forall j id, nth_error ordered j = Some id -> nth_error sorted j = Some (key id, id)).
  { intros j id Hj. unfold ordered in Hj. rewrite nth_error_map in Hj.
    destruct (nth_error sorted j) as [[kk id0]|] eqn:En; [|discriminate]. cbn [option_map snd] in Hj.
    injection Hj as ->. f_equal.
    assert (Hx : In (kk, id) keyed).
    { apply (In_stable_sort (fun x y : Z * Z => fst x <=? fst y)). eapply nth_error_In. exact En. }
    unfold keyed in Hx. apply in_map_iff in Hx. destruct Hx as (id1 & E & _).
    injection E as <- <-. reflexivity. }
  (* A: a smaller start means a smaller key *)
  assert (HA : forall id id', In id ids -> In id' ids -> id <> id' -> u id < u id' -> key id < key id').
  { intros id id' Hi Hi' Hne Hlt.
    destruct (Hgeo id Hi) as (A1 & A2 & A3). destruct (Hgeo id' Hi') as (B1 & B2 & B3).
    destruct (Hdisj id id' Hi Hi' Hne) as [D | D]; [|lia].
    destruct B3 as [B3 | (B3 & B4)]; [|lia]. destruct A3 as [A3 | (A3 & A4)]; lia. }
  (* B: along the order the starts increase *)
  assert (HB : forall j j' id id', (j < j')%nat -> nth_error ordered j = Some id ->
                nth_error ordered j' = Some id' -> u id < u id').
  { intros j j' id id' Hlt Hj Hj'.
    pose proof (SS_nth _ _ Hss j j' _ _ Hlt (Hnth _ _ Hj) (Hnth _ _ Hj')) as Hk. cbn [fst] in Hk.
    assert (Hi : In id ids) by (apply Hin; eapply nth_error_In; exact Hj).
    assert (Hi' : In id' ids) by (apply Hin; eapply nth_error_In; exact Hj').
    assert (Hne : id <> id').
    { intros ->. rewrite NoDup_nth_error in Hnd'.
      assert (j = j'); [|lia]. apply Hnd'; [apply nth_error_Some; congruence | congruence]. }
    destruct (Z.lt_trichotomy (u id) (u id')) as [T | [T | T]]; [exact T | |].
    - exfalso. destruct (Hgeo id Hi) as (A1 & _). destruct (Hgeo id' Hi') as (B1 & _).
      destruct (Hdisj id id' Hi Hi' Hne); lia.
    - exfalso. pose proof (HA id' id Hi' Hi (fun E => Hne (eq_sym E)) T). lia. }
  intros j id id' Hj Hj'.
  assert (Hi : In id ids) by (apply Hin; eapply nth_error_In; exact Hj).
  assert (Hi' : In id' ids) by (apply Hin; eapply nth_error_In; exact Hj').
  pose proof (HB j (S j) id id' ltac:(lia) Hj Hj') as Hlt.
  assert (Hne : id <> id') by (intros ->; lia).
  destruct (Hgeo id Hi) as (A1 & A2 & _). destruct (Hgeo id' Hi') as (B1 & B2 & _).
  assert (Hvu : v id < u id') by (destruct (Hdisj id id' Hi Hi' Hne); lia).
  destruct (Habut id id' Hi Hi' Hvu) as (id2 & Hi2 & Hu2).
  assert (Ho2 : In id2 ordered) by (apply Hin; exact Hi2).
  apply In_nth_error in Ho2. destruct Ho2 as (m & Hm).
  destruct (lt_eq_lt_dec m (S j)) as [[Lm | Em] | Gm].
  - exfalso. destruct (lt_eq_lt_dec m j) as [[Lm' | Em'] | Gm']; [| |lia].
    + pose proof (HB m j id2 id Lm' Hm Hj). lia.
    + subst m. rewrite Hj in Hm. injection Hm as <-. lia.
  - subst m. rewrite Hj' in Hm. injection Hm as <-. lia.
  - exfalso. pose proof (HB (S j) m id' id2 Gm Hj' Hm). lia.
Qed.

(* ==================================================== what trim_all leaves *)
Inductive trimmed_from (f : frag) : ovr -> ovr -> Prop :=
  | tf_refl r : trimmed_from f r r
  | tf_step r r1 r' ks ke new :
      trim_fragment r f ks ke = Ok (new, r1) -> trimmed_from f r1 r' -> trimmed_from f r r'.

Lemma trimmed_from_pres f (P : ovr -> Prop) :
  (forall r ks ke new r', P r -> trim_fragment r f ks ke = Ok (new, r') -> P r') ->
  forall r r', trimmed_from f r r' -> P r -> P r'.
Proof.
  intros Hstep r r' H. induction H as [r | r r1 r' ks ke new HT _ IH]; intros HP; [exact HP|].
  apply IH. eapply Hstep; eassumption.
Qed.

Lemma trim_all_rel c f : forall ids st i last st' subs,
  Forall (fun a => 0 <= a) ids ->
  trim_all c st f ids i last = Ok (st', subs) ->
  forall id r, 0 <= id -> get_ovr st id = Ok r ->
    exists r', get_ovr st' id = Ok r' /\ trimmed_from f r r'.
Proof.
  induction ids as [|id0 ids IH]; intros st i last st' subs Hpos H id r Hid Hg; cbn [trim_all] in H.
  - injection H as <- _. exists r. split; [exact Hg | apply tf_refl].
  - inversion Hpos as [|? ? Hid0 Hpos']; subst.
    bind_inv H r0 Hr0. bind_inv H fr Hfr. destruct fr as [new r0']. bind_inv H rest Hrest.
    injection H as <- _. destruct rest as [st2 subs2]. cbn [fst].
    destruct (Z.eq_dec id0 id) as [-> | Hne].
    + rewrite Hr0 in Hg. injection Hg as <-.
      destruct (IH _ _ _ _ _ Hpos' Hrest id r0' Hid (get_put_same _ _ _ _ Hr0)) as (r' & Hg' & Ht).
      exists r'. split; [exact Hg'|]. eapply tf_step; eassumption.
    + apply (IH _ _ _ _ _ Hpos' Hrest id r Hid). rewrite get_put_other by assumption. exact Hg.
Qed.

(* ============================================================ cut_fragments *)
Section CutStage.
  Variable inp : list (str * list row).
  Variable c : cfg.
  Hypothesis Hfix : fix_swap_keep c = true.
  Hypothesis Hids : NoDup (map f_id (in_frags inp)).
  Hypothesis Hidpos : Forall (fun f => 0 <= f_id f) (in_frags inp).
  Hypothesis Hwf : Forall (fun f => strand_ok (f_strand f) = true /\ f_start f <= f_end f) (in_frags inp).
  Variable bt : rid -> frag.

  Definition Ready (st : list ovr) (found : list (fkey * (frag * list rid))) (k : fkey) : Prop :=
    exists f ids lo hi,
      aget key_eqb found k = Some (f, ids)
      /\ key_of f = k /\ In f (in_frags inp)
      /\ hi = lo + f_len f - 1
      /\ NoDup ids /\ ids <> [] /\ Forall (fun a => 0 <= a) ids
      /\ (forall id, In id ids -> HolderOK f lo hi bt st id)
      /\ (forall id, In id ids -> f_start (bt id) <= f_end (bt id)
                                  /\ lo <= f_end (bt id) /\ f_start (bt id) <= hi)
      /\ (forall id id', In id ids -> In id' ids -> id <> id' ->
            f_end (bt id) < f_start (bt id') \/ f_end (bt id') < f_start (bt id))
      /\ (forall id id', In id ids -> In id' ids -> f_end (bt id) < f_start (bt id') ->
            exists id'', In id'' ids /\ f_start (bt id'') = f_end (bt id) + 1)
      /\ (forall id id', In id ids -> In id' ids -> f_end (bt id') < f_start (bt id) ->
            exists id'', In id'' ids /\ f_end (bt id'') + 1 = f_start (bt id)).

  Definition keyf (st : list ovr) (f : frag) (id : rid) : Z :=
    match get_ovr st id with
    | Ok r => match fragment_start_if_trimmed r f with Ok k => k | Err _ => 0 end
    | Err _ => 0
    end.

  Lemma keyed_eq st f lo hi : forall ids,
    (forall id, In id ids -> HolderOK f lo hi bt st id) ->
    mapM (fun id => do r <- get_ovr st id; do s0 <- fragment_start_if_trimmed r f; Ok (s0, id)) ids
    = Ok (map (fun id => (keyf st f id, id)) ids).
  Proof.
    induction ids as [|id ids IH]; intros H; cbn [mapM map]; [reflexivity|].
    destruct (H id (or_introl eq_refl)) as (r & Hg & _ & HG).
    destruct (fsit_geo f lo hi r HG) as (kk & Hk & _).
    rewrite Hg. cbn [bind]. rewrite Hk. cbn [bind]. rewrite IH by (intros x Hx; apply H; right; exact Hx).
    cbn [bind]. assert (E : keyf st f id = kk) by (unfold keyf; rewrite Hg, Hk; reflexivity).
    rewrite E. reflexivity.
  Qed.

  Lemma in_frags_facts f : In f (in_frags inp) ->
    0 <= f_id f /\ strand_ok (f_strand f) = true /\ f_start f <= f_end f.
  Proof.
    intros H. rewrite Forall_forall in Hidpos, Hwf. destruct (Hwf f H). split; [apply Hidpos; exact H|]. auto.
  Qed.

  Lemma cut_fragments_progress b k :
    Ready (b_store b) (b_found b) k ->
    exists b', cut_fragments c b k = Ok b'
      /\ b_found b' = b_found b /\ b_namer b' = b_namer b /\ b_multi b' = b_multi b
      /\ exists f, In f (in_frags inp) /\ key_of f = k
           /\ forall id r, 0 <= id -> get_ovr (b_store b) id = Ok r ->
                exists r', get_ovr (b_store b') id = Ok r' /\ trimmed_from f r r'.
  Proof.
    intros (f & ids & lo & hi & Hag & Hk & Hf & Hhi & Hnd & Hne & Hpos & Hok & Hb & Hdisj & Hnext & Hprev).
    destruct (in_frags_facts f Hf) as (Hf0 & Hso & Hfw).
    unfold cut_fragments. rewrite Hag. rewrite (keyed_eq _ f lo hi ids Hok). cbn [bind]. cbv zeta.
    set (ordered := map snd (sort_by_Z fst (map (fun id => (keyf (b_store b) f id, id)) ids))).
    set (u := fun id => dU f lo hi (bt id)). set (v := fun id => dV f lo hi (bt id)).
    assert (Q1 : forall id, In id ids -> u id <= v id /\ 0 <= v id
               /\ (keyf (b_store b) f id = f_start f + u id \/ (keyf (b_store b) f id = f_start f /\ u id <= 0))).
    { intros id Hi. destruct (Hb id Hi) as (B1 & B2 & B3). unfold u, v, dU, dV.
      split; [destruct (f_strand f =? 1); lia|]. split; [destruct (f_strand f =? 1); lia|].
      destruct (Hok id Hi) as (r & Hg & Hbr & HG).
      destruct (fsit_dir c Hfix f lo hi Hso r HG) as (kk & Hkk & Hc). unfold keyf. rewrite Hg, Hkk.
      rewrite Hbr in Hc. exact Hc. }
    assert (Q2 : forall id id', In id ids -> In id' ids -> id <> id' -> v id < u id' \/ v id' < u id).
    { intros id id' Hi Hi' Hn. unfold u, v, dU, dV.
      destruct (Hdisj id id' Hi Hi' Hn); destruct (f_strand f =? 1); lia. }
    assert (Q3 : forall id id', In id ids -> In id' ids -> v id < u id' ->
               exists id'', In id'' ids /\ u id'' = v id + 1).
    { intros id id' Hi Hi' Hlt. unfold u, v, dU, dV in *. destruct (f_strand f =? 1).
      + destruct (Hnext id id' Hi Hi' ltac:(lia)) as (id2 & Hi2 & E). exists id2. split; [exact Hi2 | lia].
      + destruct (Hprev id id' Hi Hi' ltac:(lia)) as (id2 & Hi2 & E). exists id2. split; [exact Hi2 | lia]. }
    assert (Hoc : Permutation ordered ids
                  /\ (forall j id id', nth_error ordered j = Some id -> nth_error ordered (S j) = Some id' ->
                                       v id + 1 = u id'))
      by exact (order_consecutive ids (keyf (b_store b) f) u v (f_start f) Hnd Q1 Q2 Q3).
    destruct Hoc as (Hperm & Hcons).
    - 
      assert (Hin : forall id, In id ordered -> In id ids).
      { intros id H. eapply Permutation_in; [exact Hperm | exact H]. }
      destruct (trim_all_chain c Hfix f lo hi Hhi Hso Hfw bt ordered (b_store b) 0 0) as (st' & subs & HT & Hch).
      + eapply Permutation_NoDup; [apply Permutation_sym; exact Hperm | exact Hnd].
      + eapply Permutation_Forall; [apply Permutation_sym; exact Hperm | exact Hpos].
      + intros id Hi. apply Hok. apply Hin. exact Hi.
      + intros id Hi. destruct (Hb id (Hin id Hi)) as (B1 & B2 & B3). unfold dU, dV.
        destruct (f_strand f =? 1); lia.
      + exact Hcons.
      + intros E. apply Hne. pose proof (Permutation_length Hperm) as Hl.
        apply (f_equal (@length Z)) in E.
        assert (Hl2 : length ids = 0%nat) by (etransitivity; [symmetry; exact Hl | exact E]).
        destruct ids; [reflexivity | discriminate].
      + lia.
      + left. split; reflexivity.
      + replace (zlen ordered - 1) with (0 + zlen ordered - 1) by lia. rewrite HT. cbn [bind].
        rewrite Z.add_0_r in Hch. rewrite (qc_chain f subs Hch). cbn [bind].
        eexists. split; [reflexivity|]. cbn [b_found b_namer b_multi b_store].
        split; [reflexivity|]. split; [reflexivity|]. split; [reflexivity|].
        exists f. split; [exact Hf|]. split; [exact Hk|].
        intros id r Hid Hg. eapply trim_all_rel; [|exact HT|exact Hid|exact Hg].
        eapply Permutation_Forall; [apply Permutation_sym; exact Hperm | exact Hpos].
  Qed.

  Lemma Ready_pres st st' found k f :
    In f (in_frags inp) -> key_of f <> k ->
    (forall id r, 0 <= id -> get_ovr st id = Ok r ->
       exists r', get_ovr st' id = Ok r' /\ trimmed_from f r r') ->
    Ready st found k -> Ready st' found k.
  Proof.
    intros Hf Hk Hrel (f' & ids & lo & hi & Hag & Hk' & Hf' & Hhi & Hnd & Hne & Hpos & Hok & Hrest).
    exists f', ids, lo, hi. split; [exact Hag|]. split; [exact Hk'|]. split; [exact Hf'|].
    split; [exact Hhi|]. split; [exact Hnd|]. split; [exact Hne|]. split; [exact Hpos|].
    split; [|exact Hrest].
    intros id Hi. destruct (Hok id Hi) as (r & Hg & Hb & HG).
    assert (Hid : 0 <= id) by (rewrite Forall_forall in Hpos; apply Hpos; exact Hi).
    destruct (Hrel id r Hid Hg) as (r' & Hg' & Ht). exists r'. split; [exact Hg'|].
    assert (Hneq : f_id f <> f_id f').
    { intros E. apply Hk. rewrite <- Hk'. f_equal.
      eapply (NoDup_map_inj f_id); [exact Hids | exact Hf | exact Hf' | exact E]. }
    destruct (in_frags_facts f' Hf') as (Hf0 & _).
    apply (trimmed_from_pres f (fun x => o_bait x = bt id /\ Geo f' lo hi x)) with (r := r);
      [|exact Ht|split; assumption].
    intros x ks ke new x' (X1 & X2) HT. split.
    - destruct (trim_fragment_inv2 _ _ _ _ _ _ HT) as (_ & _ & _ & _ & _ & _ & _ & B & _). congruence.
    - eapply Geo_tf_other; [exact Hneq | exact Hf0 | exact X2 | exact HT].
  Qed.

  Lemma cut_fold_progress : forall todo b,
    NoDup todo -> (forall k, In k todo -> Ready (b_store b) (b_found b) k) ->
    exists b', foldM (cut_fragments c) todo b = Ok b' /\ b_namer b' = b_namer b.
  Proof.
    induction todo as [|k todo IH]; intros b Hnd Hr; cbn [foldM]; [eauto|].
    inversion Hnd as [|? ? Hnk Hnd']; subst.
    destruct (cut_fragments_progress b k (Hr k (or_introl eq_refl)))
      as (b1 & H1 & Ef & En & _ & f & Hf & Hk & Hrel).
    rewrite H1. cbn [bind].
    destruct (IH b1 Hnd') as (b' & H' & En').
    - intros k' Hk'. rewrite Ef. apply (Ready_pres (b_store b) _ _ k' f Hf); [|exact Hrel|].
      + rewrite Hk. intros ->. contradiction.
      + apply Hr. right. exact Hk'.
    - exists b'. split; [exact H' | congruence].
  Qed.

  Lemma cut_remaining_progress b :
    NoDup (b_multi b) -> (forall k, In k (b_multi b) -> Ready (b_store b) (b_found b) k) ->
    exists b', cut_remaining_overhangs c b = Ok b' /\ b_namer b' = b_namer b.
  Proof.
    intros Hnd Hr. unfold cut_remaining_overhangs.
    destruct (cut_fold_progress _ b Hnd Hr) as (b' & H & En). rewrite H. cbn [bind].
    eexists. split; [reflexivity|]. cbn [b_namer]. exact En.
  Qed.
End CutStage.

Print Assumptions cut_remaining_progress.
