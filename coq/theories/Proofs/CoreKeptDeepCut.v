(* Deep cuts, part 3: the cut stage, and the theorem [deep_cut_exact].

   Two abutting baits b1 | b2 (f_end b1 + 1 = f_start b2) of the same input
   scaffold, both overlapping the span of source fragment f in at least three
   error lengths.  Then the completed run stores a result for b1 that ends
   exactly at f_end b1 with a shortened copy of f as its last row, and a
   result for b2 that begins exactly at f_start b2 with a shortened copy of f
   as its first row: f is cut exactly at the bait boundary.  Needs the C02
   repair (fix_swap_keep) so that the keep flags follow the contig strand. *)
From Tola Require Import Py.Base Py.Sort Model.Fragment Model.Scaffold Model.Lookup
  Model.OverlapResult Model.OvrSpec Model.NaturalKey Model.Namer Model.Remap Model.RemapSpec
  Proofs.BaseLemmas Proofs.Lookup Proofs.OverlapResult Proofs.RemapHead Proofs.PipelineInv
  Proofs.CoreKeptGood Proofs.CoreKeptResolver Proofs.CoreKeptLookup Proofs.CoreKeptHeld
  Proofs.CoreKeptDeepK Proofs.CoreKept.
From Tola Require Proofs.NaturalKey.
From Coq Require Import Lia ZifyBool Permutation Sorted.

#[local] Hint Rewrite rows_len_app rows_len_cons rows_len_nil rows_len_rev : rl.

(* ------------------------------------------------------------ generic bits *)
Lemma foldM_app {A S} (f : S -> A -> res S) : forall a b s s',
  foldM f (a ++ b) s = Ok s' -> exists s1, foldM f a s = Ok s1 /\ foldM f b s1 = Ok s'.
Proof.
  induction a as [|x a IH]; intros b s s' H; cbn [app foldM] in *.
  - exists s. split; [reflexivity | exact H].
  - bind_inv H s0 Hs0. destruct (IH _ _ _ H) as (s1 & H1 & H2). exists s1. rewrite Hs0. cbn [bind].
    split; assumption.
Qed.

Lemma SS_nth {A} (R : A -> A -> Prop) l : StronglySorted R l ->
  forall i j x y, (i < j)%nat -> nth_error l i = Some x -> nth_error l j = Some y -> R x y.
Proof.
  induction 1 as [|a l Hs IH Ha]; intros i j x y Hij Hi Hj.
  - destruct i; discriminate.
  - destruct j as [|j]; [lia|]. cbn [nth_error] in Hj. destruct i as [|i]; cbn [nth_error] in Hi.
    + injection Hi as <-. rewrite Forall_forall in Ha. apply Ha. eapply nth_error_In. exact Hj.
    + eapply IH; [|exact Hi | exact Hj]. lia.
Qed.

Lemma bait_index_unique l i j b :
  ForallOrdPairs Rdisj l -> f_start b <= f_end b ->
  nth_error l i = Some b -> nth_error l j = Some b -> i = j.
Proof.
  intros HF Hb Hi Hj. destruct (Nat.eq_dec i j) as [E|N]; [exact E|]. exfalso.
  pose proof (FOP_Rdisj_nth l i j b b HF N Hi Hj eq_refl). lia.
Qed.

Lemma span_unique src a o c a0 f c0 x :
  pos_rows src -> src = a ++ RF o :: c -> src = a0 ++ RF f :: c0 ->
  rows_len a + 1 <= x <= rows_len a + f_len o ->
  rows_len a0 + 1 <= x <= rows_len a0 + f_len f ->
  a = a0 /\ o = f.
Proof.
  intros Hp E1 E2 X1 X2. rewrite E1 in E2.
  destruct (app_eq_app _ _ _ _ E2) as (l & [[Ea Ec] | [Ea Ec]]).
  - destruct l as [|y l'].
    + rewrite app_nil_r in Ea. cbn [app] in Ec. injection Ec as Ec _. split; congruence.
    + exfalso. cbn [app] in Ec. injection Ec as <- _.
      assert (Hl : pos_rows l').
      { rewrite E1, Ea in Hp. apply pos_rows_app in Hp. destruct Hp as [Hp _].
        apply pos_rows_app in Hp. destruct Hp as [_ Hp]. inversion Hp; assumption. }
      pose proof (pos_rows_len_nonneg _ Hl). rewrite Ea in X1. autorewrite with rl in X1.
      cbn [row_len] in X1. lia.
  - destruct l as [|y l'].
    + rewrite app_nil_r in Ea. cbn [app] in Ec. injection Ec as Ec _. split; congruence.
    + exfalso. cbn [app] in Ec. injection Ec as Ey Ec'. subst y.
      assert (Hl : pos_rows l').
      { rewrite E1, Ec' in Hp. apply pos_rows_app in Hp. destruct Hp as [_ Hp].
        inversion Hp as [|? ? _ Hp']; subst.
        apply pos_rows_app in Hp'. destruct Hp' as [Hp' _]. exact Hp'. }
      pose proof (pos_rows_len_nonneg _ Hl). rewrite Ea in X2. autorewrite with rl in X2.
      cbn [row_len] in X2. lia.
Qed.

(* what the C18 invariant says about the last / first row *)
Lemma Inv'_last src r : Inv' src r -> o_rows r <> [] ->
  exists a o c t f1 ls le,
    src = a ++ RF o :: c /\ o_rows r = t ++ [RF f1] /\ trimmed o f1 ls le
    /\ o_end r = rows_len a + f_len o - le.
Proof.
  intros [E | (pre & slice & post & ls & le & Hsrc & Hrel & Hs & He)] Hne; [contradiction|].
  destruct Hrel as [(o & f1 & Esl & Er & Ht) | (o1 & f1 & mid & o2 & f2 & Esl & Er & Ht1 & Ht2 & _)].
  - exists pre, o, post, [], f1, ls, le. subst slice. split; [exact Hsrc|]. split; [exact Er|].
    split; [exact Ht|]. rewrite He, rows_len_single. reflexivity.
  - exists (pre ++ RF o1 :: mid), o2, post, (RF f1 :: mid), f2, 0, le. subst slice. split.
    + rewrite Hsrc. repeat (cbn [app]; rewrite <- app_assoc). reflexivity.
    + split; [exact Er|]. split; [exact Ht2|]. rewrite He. autorewrite with rl. cbn [row_len]. lia.
Qed.

Lemma Inv'_first src r : Inv' src r -> o_rows r <> [] ->
  exists a o c t f1 ls le,
    src = a ++ RF o :: c /\ o_rows r = RF f1 :: t /\ trimmed o f1 ls le
    /\ o_start r = 1 + rows_len a + ls.
Proof.
  intros [E | (pre & slice & post & ls & le & Hsrc & Hrel & Hs & He)] Hne; [contradiction|].
  destruct Hrel as [(o & f1 & Esl & Er & Ht) | (o1 & f1 & mid & o2 & f2 & Esl & Er & Ht1 & Ht2 & _)].
  - exists pre, o, post, [], f1, ls, le. subst slice. split; [exact Hsrc|]. split; [exact Er|].
    split; [exact Ht | exact Hs].
  - exists pre, o1, (mid ++ [RF o2] ++ post), (mid ++ [RF f2]), f1, ls, 0. subst slice. split.
    + rewrite Hsrc. repeat (cbn [app]; rewrite <- app_assoc). reflexivity.
    + split; [exact Er|]. split; [exact Ht1 | exact Hs].
Qed.

(* --------------------------------------------------- trim_fragment, opened *)
Lemma trim_fragment_inv2 r t ks ke new r' :
  trim_fragment r t ks ke = Ok (new, r') ->
  exists r0 rl, first_row r = Ok r0 /\ last_row r = Ok rl
    /\ row_is r0 t || row_is rl t = true
    /\ f_id new < 0
    /\ o_rows r' = (if row_is rl t then set_last (o_rows r) (RF new)
                    else set_nth (o_rows r) 0 (RF new))
    /\ o_bait r' = o_bait r
    /\ o_start r' = (if row_is r0 t && (start_overhang r >? 0) && negb ks
                     then o_start r + start_overhang r else o_start r)
    /\ o_end r' = (if row_is rl t && (o_end r - f_end (o_bait r) >? 0) && negb ke
                   then o_end r - (o_end r - f_end (o_bait r)) else o_end r).
Proof.
  intros H. unfold trim_fragment in H. bind_inv H r0 Hr0. cbv zeta in H. bind_inv H rl Hrl.
  destruct (row_is r0 t || row_is rl t) eqn:E; cbn [negb] in H; [|discriminate].
  bind_inv H nw Hnw. injection H as <- <-. apply new_frag_ok in Hnw. destruct Hnw as [-> _].
  exists r0, rl. split; [exact Hr0|]. split; [exact Hrl|]. split; [exact E|].
  cbn [f_id set_span_rows o_rows o_bait o_start o_end].
  split; [destruct (row_is rl t); lia|]. repeat split; reflexivity.
Qed.

Lemma first_row_inj r x t y : o_rows r = x :: t -> first_row r = Ok y -> y = x.
Proof. intros E H. rewrite (first_row_cons _ _ _ E) in H. injection H as <-. reflexivity. Qed.

Lemma last_row_inj r t x y : o_rows r = t ++ [x] -> last_row r = Ok y -> y = x.
Proof. intros E H. rewrite (last_row_snoc _ _ _ E) in H. injection H as <-. reflexivity. Qed.

(* ----------------------------------------------------------- trim_all *)
Lemma trim_all_PS' (P : ovr -> Prop) c t :
  (forall r ks ke new r', P r -> trim_fragment r t ks ke = Ok (new, r') -> P r') ->
  forall ids st i last st' subs,
  PS P st -> trim_all c st t ids i last = Ok (st', subs) -> PS P st'.
Proof.
  intros Htf. induction ids as [|id ids IH]; intros st i last st' subs Hs H; cbn [trim_all] in H.
  - injection H as <- _. exact Hs.
  - cbv zeta in H. bind_inv H r Hr. bind_inv H fr Hfr. destruct fr as [new r'].
    bind_inv H rest Hrest. destruct rest as [st2 subs2]. cbn [fst snd] in H. injection H as <- _.
    eapply IH; [|exact Hrest]. intros x Hx. apply put_ovr_In in Hx.
    destruct Hx as [-> | Hx]; [|apply Hs; exact Hx].
    eapply Htf; [|exact Hfr]. apply Hs. eapply get_ovr_In. exact Hr.
Qed.

Lemma trim_all_other c t : forall ids st i last st' subs id,
  ~ In id ids -> 0 <= id -> Forall (fun a => 0 <= a) ids ->
  trim_all c st t ids i last = Ok (st', subs) -> get_ovr st' id = get_ovr st id.
Proof.
  induction ids as [|id0 ids IH]; intros st i last st' subs id Hn H0 Hp H; cbn [trim_all] in H.
  - injection H as <- _. reflexivity.
  - cbv zeta in H. bind_inv H r Hr. bind_inv H fr Hfr. destruct fr as [new r'].
    bind_inv H rest Hrest. destruct rest as [st2 subs2]. cbn [fst snd] in H. injection H as <- _.
    inversion Hp as [|? ? Hp0 Hp']; subst.
    rewrite (IH _ _ _ _ _ id) with (1 := fun X => Hn (or_intror X)) (4 := Hrest); [|exact H0 | exact Hp'].
    apply get_put_other; [exact Hp0 | exact H0|]. intros ->. apply Hn. left. reflexivity.
Qed.

Lemma trim_all_at c t : forall ids st i last st' subs j id r,
  NoDup ids -> Forall (fun a => 0 <= a) ids ->
  nth_error ids j = Some id -> get_ovr st id = Ok r ->
  trim_all c st t ids i last = Ok (st', subs) ->
  let i' := i + Z.of_nat j in
  let ks := i' =? 0 in
  let ke := i' =? last in
  let swap := fix_swap_keep c && negb (f_strand t =? 1) in
  exists new r', trim_fragment r t (if swap then ke else ks) (if swap then ks else ke) = Ok (new, r')
                 /\ get_ovr st' id = Ok r'.
Proof.
  induction ids as [|id0 ids IH]; intros st i last st' subs j id r Hnd Hp Hj Hg H; [destruct j; discriminate|].
  cbn [trim_all] in H. cbv zeta in H. bind_inv H r0 Hr0. bind_inv H fr Hfr. destruct fr as [new r'].
  bind_inv H rest Hrest. destruct rest as [st2 subs2]. cbn [fst snd] in H. injection H as <- _.
  inversion Hnd as [|? ? Hn Hnd']; subst. inversion Hp as [|? ? Hp0 Hp']; subst.
  destruct j as [|j]; cbn [nth_error] in Hj.
  - injection Hj as ->. rewrite Hg in Hr0. injection Hr0 as <-. cbv zeta.
    replace (i + Z.of_nat 0) with i by lia. exists new, r'. split; [exact Hfr|].
    rewrite (trim_all_other _ _ _ _ _ _ _ _ id Hn Hp0 Hp' Hrest). eapply get_put_same. exact Hg.
  - assert (Hne : id0 <> id).
    { intros ->. apply Hn. eapply nth_error_In. exact Hj. }
    assert (H0 : 0 <= id).
    { rewrite Forall_forall in Hp'. apply Hp'. eapply nth_error_In. exact Hj. }
    assert (Hg' : get_ovr (put_ovr st id0 r') id = Ok r).
    { rewrite get_put_other by assumption. exact Hg. }
    pose proof (IH _ (i + 1) last _ _ j id r Hnd' Hp' Hj Hg' Hrest) as G. cbv zeta in G.
    cbv zeta. replace (i + Z.of_nat (S j)) with (i + 1 + Z.of_nat j) by lia. exact G.
Qed.

Lemma mapM_keyed_snd {B} (g : rid -> res (B * rid)) :
  (forall id y, g id = Ok y -> snd y = id) ->
  forall ids keyed, mapM g ids = Ok keyed -> map snd keyed = ids.
Proof.
  intros Hg. induction ids as [|id ids IH]; intros keyed H; cbn [mapM] in H.
  - injection H as <-. reflexivity.
  - bind_inv H y Hy. bind_inv H ys Hys. injection H as <-.
    cbn [map]. f_equal; [apply Hg; exact Hy | apply IH; exact Hys].
Qed.

Section DeepCut.
  Variable inp : list (str * list row).
  Variable err : Z.
  Variable all : list frag.
  Hypothesis Hids : NoDup (map f_id (in_frags inp)).
  Hypothesis Hidpos : Forall (fun f => 0 <= f_id f) (in_frags inp).
  Hypothesis Hkeys : NoDup (map key_of (in_frags inp)).
  Hypothesis Hnames : NoDup (map fst inp).
  Hypothesis Hposr : forall name src, In (name, src) inp -> pos_rows src.
  Hypothesis Herr : 1 <= err.
  Hypothesis Hall : Forall (fun b => 1 <= f_start b <= f_end b) all.

  Variables b1 b2 : frag.
  Variable src a0 c0 : list row.
  Variable f : frag.
  Hypothesis Hb1 : In b1 all.
  Hypothesis Hb2 : In b2 all.
  Hypothesis Hname : f_name b1 = f_name b2.
  Hypothesis Habut : f_end b1 + 1 = f_start b2.
  Hypothesis Hsrc : In (f_name b1, src) inp.
  Hypothesis Esrc : src = a0 ++ RF f :: c0.
  Let lo := rows_len a0 + 1.
  Let hi := rows_len a0 + f_len f.
  Hypothesis Hov1 : 3 * err <= Z.min (f_end b1) hi - Z.max (f_start b1) lo + 1.
  Hypothesis Hov2 : 3 * err <= Z.min (f_end b2) hi - Z.max (f_start b2) lo + 1.

  Local Notation K1' := (K1 b1 a0 f).
  Local Notation K2' := (K2 b2 a0 f).
  Local Notation KK' := (KK b1 b2 a0 f).

  Lemma dfacts : lo <= f_end b1 /\ f_start b2 <= hi /\ lo <= hi.
  Proof. exact (facts inp err all Hposr Herr Hall b1 b2 src a0 c0 f Hb1 Hb2 Habut Hsrc Esrc Hov1 Hov2). Qed.

  Lemma dfid : 0 <= f_id f.
  Proof. exact (f_id_nonneg inp Hidpos b1 src a0 c0 f Hsrc Esrc). Qed.

  Lemma dv1 : 1 <= f_start b1 <= f_end b1.
  Proof. rewrite Forall_forall in Hall. apply Hall. exact Hb1. Qed.
  Lemma dv2 : 1 <= f_start b2 <= f_end b2.
  Proof. rewrite Forall_forall in Hall. apply Hall. exact Hb2. Qed.

  Lemma b1_ne_b2 : b1 <> b2.
  Proof. intros E. pose proof dv1. rewrite E in *. lia. Qed.

  Lemma f_in_inp : In f (in_frags inp).
  Proof.
    unfold in_frags. apply in_flat_map. exists (f_name b1, src). split; [exact Hsrc|]. cbn [snd].
    apply In_frags_of_iff. rewrite Esrc. apply in_or_app. right. left. reflexivity.
  Qed.

  (* ----------------------------------- a cut for another fragment keeps K *)
  Lemma K1_tf_other r t ks ke new r' :
    f_id t <> f_id f -> K1' r -> trim_fragment r t ks ke = Ok (new, r') -> K1' r'.
  Proof.
    intros Hne HK H Eb.
    destruct (trim_fragment_inv2 _ _ _ _ _ _ H) as (r0 & rl & Hr0 & Hrl & Hor & Hneg & Erows & B & Es & Ee).
    rewrite B in Eb. destruct (HK Eb) as (He & Hshape). pose proof dfid as Hfid.
    assert (Hrf : row_is (RF f) t = false) by (cbn [row_is]; lia).
    destruct Hshape as [[Er Est] | (g & t' & Er & Hg)].
    - exfalso. rewrite (first_row_inj _ _ _ _ Er Hr0) in Hor.
      rewrite (last_row_inj r [] _ _ Er Hrl) in Hor. rewrite Hrf in Hor. discriminate.
    - change (RF g :: t' ++ [RF f]) with ((RF g :: t') ++ [RF f]) in Er.
      pose proof (last_row_inj _ _ _ _ Er Hrl) as El. subst rl. rewrite Hrf in *. cbn [andb] in Ee.
      split; [rewrite Ee; exact He|]. right. exists new, t'. rewrite Erows, Er. cbn [app set_nth].
      split; [reflexivity | lia].
  Qed.

  Lemma K2_tf_other r t ks ke new r' :
    f_id t <> f_id f -> K2' r -> trim_fragment r t ks ke = Ok (new, r') -> K2' r'.
  Proof.
    intros Hne HK H Eb.
    destruct (trim_fragment_inv2 _ _ _ _ _ _ H) as (r0 & rl & Hr0 & Hrl & Hor & Hneg & Erows & B & Es & Ee).
    rewrite B in Eb. destruct (HK Eb) as (Hs & Hshape). pose proof dfid as Hfid.
    assert (Hrf : row_is (RF f) t = false) by (cbn [row_is]; lia).
    destruct Hshape as [[Er Een] | (t' & g & Er & Hg)].
    - exfalso. rewrite (first_row_inj _ _ _ _ Er Hr0) in Hor.
      rewrite (last_row_inj r [] _ _ Er Hrl) in Hor. rewrite Hrf in Hor. discriminate.
    - pose proof (first_row_inj _ _ _ _ Er Hr0) as E0. subst r0. rewrite Hrf in *. cbn [andb orb] in Es, Hor.
      split; [rewrite Es; exact Hs|]. right. exists t', new. rewrite Erows, Hor, Er.
      change (RF f :: t' ++ [RF g]) with ((RF f :: t') ++ [RF g]). rewrite set_last_app.
      split; [reflexivity | lia].
  Qed.

  Lemma KK_tf_other r t ks ke new r' :
    f_id t <> f_id f -> KK' r -> trim_fragment r t ks ke = Ok (new, r') -> KK' r'.
  Proof. intros Hne [H1 H2] H. split; [eapply K1_tf_other | eapply K2_tf_other]; eassumption. Qed.

  (* ---------------------------------------------------------- the cut of f *)
  Lemma K1_tf_f r ks new r' :
    o_bait r = b1 -> K1' r -> trim_fragment r f ks false = Ok (new, r') ->
    o_bait r' = b1 /\ o_rows r' <> [] /\ o_end r' = f_end b1.
  Proof.
    intros Eb HK H.
    destruct (trim_fragment_inv2 _ _ _ _ _ _ H) as (r0 & rl & Hr0 & Hrl & Hor & Hneg & Erows & B & Es & Ee).
    destruct (trim_fragment_facts _ _ _ _ _ _ H) as (_ & Hne & _).
    destruct (HK Eb) as (He & Hshape). pose proof dfacts as (F1 & F2 & F3). pose proof dv2. unfold lo, hi in *.
    assert (Hl : exists t, o_rows r = t ++ [RF f]).
    { destruct Hshape as [[Er _] | (g & t' & Er & _)]; [exists []; exact Er | exists (RF g :: t'); exact Er]. }
    destruct Hl as (t & Er). pose proof (last_row_inj _ _ _ _ Er Hrl) as El. subst rl.
    split; [congruence|]. split; [exact Hne|].
    rewrite Ee, Eb, He. cbn [row_is]. rewrite Z.eqb_refl. cbn [andb negb].
    replace (rows_len a0 + f_len f - f_end b1 >? 0) with true by lia. cbn [andb]. lia.
  Qed.

  Lemma K2_tf_f r ke new r' :
    o_bait r = b2 -> K2' r -> trim_fragment r f false ke = Ok (new, r') ->
    o_bait r' = b2 /\ o_rows r' <> [] /\ o_start r' = f_start b2.
  Proof.
    intros Eb HK H.
    destruct (trim_fragment_inv2 _ _ _ _ _ _ H) as (r0 & rl & Hr0 & Hrl & Hor & Hneg & Erows & B & Es & Ee).
    destruct (trim_fragment_facts _ _ _ _ _ _ H) as (_ & Hne & _).
    destruct (HK Eb) as (Hs & Hshape). pose proof dfacts as (F1 & F2 & F3). pose proof dv1. unfold lo, hi in *.
    assert (Hl : exists t, o_rows r = RF f :: t).
    { destruct Hshape as [[Er _] | (t' & g & Er & _)]; [exists []; exact Er | exists (t' ++ [RF g]); exact Er]. }
    destruct Hl as (t & Er). pose proof (first_row_inj _ _ _ _ Er Hr0) as E0. subst r0.
    split; [congruence|]. split; [exact Hne|].
    rewrite Es. unfold start_overhang. rewrite Eb, Hs. cbn [row_is]. rewrite Z.eqb_refl. cbn [andb negb].
    replace (f_start b2 - (rows_len a0 + 1) >? 0) with true by lia. cbn [andb]. lia.
  Qed.

  (* the sort keys put b1's result on the side of f that faces the scaffold
     start *)
  Lemma keys_order r1 r2 kk1 kk2 :
    o_bait r1 = b1 -> K1' r1 -> o_bait r2 = b2 -> K2' r2 ->
    fragment_start_if_trimmed r1 f = Ok kk1 -> fragment_start_if_trimmed r2 f = Ok kk2 ->
    if f_strand f =? 1 then kk1 < kk2 else kk2 < kk1.
  Proof.
    intros E1 HK1 E2 HK2 Hk1 Hk2.
    destruct (HK1 E1) as (He1 & Sh1). destruct (HK2 E2) as (Hs2 & Sh2).
    pose proof dfacts as (F1 & F2 & F3). pose proof dv1. pose proof dv2. unfold lo, hi in *.
    unfold fragment_start_if_trimmed in Hk1, Hk2. destruct (f_strand f =? 1).
    - bind_inv Hk1 x1 Hx1. bind_inv Hk2 x2 Hx2. injection Hk1 as <-. injection Hk2 as <-.
      assert (X2 : x2 = RF f).
      { destruct Sh2 as [[Er _] | (t' & g & Er & _)]; eapply first_row_inj; eassumption. }
      subst x2. cbn [row_is]. rewrite Z.eqb_refl. unfold start_overhang. rewrite E2, Hs2.
      destruct Sh1 as [[Er Es] | (g & t' & Er & Hg)].
      + pose proof (first_row_inj _ _ _ _ Er Hx1) as X1. subst x1. cbn [row_is]. rewrite Z.eqb_refl.
        rewrite E1, Es. lia.
      + pose proof (first_row_inj _ _ _ _ Er Hx1) as X1. subst x1. cbn [row_is].
        replace (f_id g =? f_id f) with false by lia. lia.
    - bind_inv Hk1 x1 Hx1. bind_inv Hk2 x2 Hx2. injection Hk1 as <-. injection Hk2 as <-.
      assert (X1 : x1 = RF f).
      { destruct Sh1 as [[Er _] | (g & t' & Er & _)].
        - eapply (last_row_inj r1 []); eassumption.
        - eapply (last_row_inj r1 (RF g :: t')); eassumption. }
      subst x1. cbn [row_is]. rewrite Z.eqb_refl. unfold end_overhang. rewrite E1, He1.
      destruct Sh2 as [[Er Ee] | (t' & g & Er & Hg)].
      + pose proof (last_row_inj r2 [] _ _ Er Hx2) as X2. subst x2. cbn [row_is]. rewrite Z.eqb_refl.
        rewrite E2, Ee. lia.
      + pose proof (last_row_inj r2 (RF f :: t') _ _ Er Hx2) as X2. subst x2. cbn [row_is].
        replace (f_id g =? f_id f) with false by lia. lia.
  Qed.

  Lemma cut_f c b b' ids id1 id2 r1 r2 :
    fix_swap_keep c = true ->
    aget key_eqb (b_found b) (key_of f) = Some (f, ids) ->
    NoDup ids -> Forall (fun a => 0 <= a) ids -> In id1 ids -> In id2 ids -> id1 <> id2 ->
    get_ovr (b_store b) id1 = Ok r1 -> o_bait r1 = b1 -> K1' r1 ->
    get_ovr (b_store b) id2 = Ok r2 -> o_bait r2 = b2 -> K2' r2 ->
    cut_fragments c b (key_of f) = Ok b' ->
    exists r1' r2',
      get_ovr (b_store b') id1 = Ok r1' /\ o_bait r1' = b1 /\ o_rows r1' <> [] /\ o_end r1' = f_end b1
      /\ get_ovr (b_store b') id2 = Ok r2' /\ o_bait r2' = b2 /\ o_rows r2' <> [] /\ o_start r2' = f_start b2.
  Proof.
    intros Hfix Hag Hnd Hp Hi1 Hi2 Hne Hg1 E1 HK1 Hg2 E2 HK2 H.
    unfold cut_fragments in H. rewrite Hag in H.
    bind_inv H keyed Hkeyed. bind_inv H r Hr. destruct r as [st subs]. bind_inv H u Hu.
    injection H as <-. cbn [b_store].
    set (sorted := sort_by_Z fst keyed) in *. set (ordered := map snd sorted) in *.
    assert (Hsnd : map snd keyed = ids).
    { eapply mapM_keyed_snd; [|exact Hkeyed]. intros id y Hy. cbv beta in Hy.
      bind_inv Hy r' Hr'. bind_inv Hy s0 Hs0. injection Hy as <-. reflexivity. }
    assert (Hperm : Permutation ordered ids).
    { unfold ordered, sorted. rewrite <- Hsnd. apply Permutation_map. apply RemapTail.ssort_perm. }
    assert (Hnd' : NoDup ordered) by (eapply Permutation_NoDup; [apply Permutation_sym; exact Hperm | exact Hnd]).
    assert (Hp' : Forall (fun a => 0 <= a) ordered).
    { eapply Permutation_Forall; [apply Permutation_sym; exact Hperm | exact Hp]. }
    assert (Ho1 : In id1 ordered) by (eapply Permutation_in; [apply Permutation_sym; exact Hperm | exact Hi1]).
    assert (Ho2 : In id2 ordered) by (eapply Permutation_in; [apply Permutation_sym; exact Hperm | exact Hi2]).
    apply In_nth_error in Ho1. destruct Ho1 as (j1 & Hj1).
    apply In_nth_error in Ho2. destruct Ho2 as (j2 & Hj2).
    assert (Hkey : forall j id r0, nth_error ordered j = Some id -> get_ovr (b_store b) id = Ok r0 ->
              exists kk, nth_error sorted j = Some (kk, id) /\ fragment_start_if_trimmed r0 f = Ok kk).
    { intros j id r0 Hj Hg. unfold ordered in Hj. rewrite nth_error_map in Hj.
      destruct (nth_error sorted j) as [[kk id']|] eqn:En; [|discriminate]. cbn [option_map snd] in Hj.
      injection Hj as ->. exists kk. split; [reflexivity|].
      assert (Hin : In (kk, id) keyed).
      { apply (In_stable_sort (fun x y => fst x <=? fst y)). eapply nth_error_In. exact En. }
      destruct (mapM_ok_In _ _ _ Hkeyed _ Hin) as (id0 & _ & Hf0).
      bind_inv Hf0 r' Hr'. bind_inv Hf0 s0 Hs0. injection Hf0 as <- <-.
      rewrite Hg in Hr'. injection Hr' as <-. exact Hs0. }
    destruct (Hkey _ _ _ Hj1 Hg1) as (kk1 & Hs1 & Hk1).
    destruct (Hkey _ _ _ Hj2 Hg2) as (kk2 & Hs2 & Hk2).
    pose proof (keys_order _ _ _ _ E1 HK1 E2 HK2 Hk1 Hk2) as Hord.
    assert (Hss : StronglySorted (fun a b : Z * rid => (fst a <=? fst b) = true) sorted).
    { unfold sorted, sort_by_Z.
      apply (NaturalKey.stable_sort_sorted (@fst Z rid) Z.leb); intros; lia. }
    assert (Hj12 : j1 <> j2).
    { intros ->. rewrite Hj1 in Hj2. injection Hj2 as Hj2. contradiction. }
    assert (Hlen1 : (j1 < length ordered)%nat) by (apply nth_error_Some; congruence).
    assert (Hlen2 : (j2 < length ordered)%nat) by (apply nth_error_Some; congruence).
    destruct (trim_all_at c f _ _ 0 _ _ _ j1 id1 r1 Hnd' Hp' Hj1 Hg1 Hr) as (new1 & r1' & Ht1 & Hg1').
    destruct (trim_all_at c f _ _ 0 _ _ _ j2 id2 r2 Hnd' Hp' Hj2 Hg2 Hr) as (new2 & r2' & Ht2 & Hg2').
    cbv zeta in Ht1, Ht2. rewrite Hfix in Ht1, Ht2. cbn [andb] in Ht1, Ht2.
    exists r1', r2'.
    destruct (f_strand f =? 1) eqn:Estr; cbn [negb] in Ht1, Ht2.
    - (* forward: b1's piece comes first *)
      assert (Hlt : (j1 < j2)%nat).
      { destruct (lt_dec j1 j2) as [L|L]; [exact L|]. exfalso.
        pose proof (SS_nth _ _ Hss j2 j1 _ _ ltac:(lia) Hs2 Hs1) as X. cbn [fst] in X. lia. }
      replace (0 + Z.of_nat j1 =? zlen ordered - 1) with false in Ht1 by (unfold zlen; lia).
      replace (0 + Z.of_nat j2 =? 0) with false in Ht2 by lia.
      destruct (K1_tf_f _ _ _ _ E1 HK1 Ht1) as (A1 & A2 & A3).
      destruct (K2_tf_f _ _ _ _ E2 HK2 Ht2) as (B1 & B2 & B3).
      repeat split; assumption.
    - (* reverse: b2's piece comes first, and the flags are swapped *)
      assert (Hlt : (j2 < j1)%nat).
      { destruct (lt_dec j2 j1) as [L|L]; [exact L|]. exfalso.
        pose proof (SS_nth _ _ Hss j1 j2 _ _ ltac:(lia) Hs1 Hs2) as X. cbn [fst] in X. lia. }
      replace (0 + Z.of_nat j1 =? 0) with false in Ht1 by lia.
      replace (0 + Z.of_nat j2 =? zlen ordered - 1) with false in Ht2 by (unfold zlen; lia).
      destruct (K1_tf_f _ _ _ _ E1 HK1 Ht1) as (A1 & A2 & A3).
      destruct (K2_tf_f _ _ _ _ E2 HK2 Ht2) as (B1 & B2 & B3).
      repeat split; assumption.
  Qed.

  (* ------------------------------------------------- the three cut phases *)
  Definition found_ok (found : list (fkey * (frag * list rid))) : Prop :=
    forall k t ids, aget key_eqb found k = Some (t, ids) -> key_of t = k /\ In t (in_frags inp).

  Lemma Inv_found_ok b : RemapHead.Inv inp b -> found_ok (b_found b).
  Proof.
    intros (_ & _ & (_ & _ & HF & _) & _) k t ids E.
    apply (aget_In key_eqb key_eqb_eq) in E. rewrite Forall_forall in HF.
    destruct (HF _ E) as (K1 & K2 & _). split; [exact K1 | exact K2].
  Qed.

  Lemma cut_other c b k b' :
    k <> key_of f -> found_ok (b_found b) -> PS KK' (b_store b) ->
    cut_fragments c b k = Ok b' -> PS KK' (b_store b') /\ b_found b' = b_found b.
  Proof.
    intros Hk Hfo HS H. unfold cut_fragments in H.
    destruct (aget key_eqb (b_found b) k) as [[t ids]|] eqn:E; [|discriminate].
    bind_inv H keyed Hkeyed. bind_inv H r Hr. destruct r as [st subs].
    bind_inv H u Hu. injection H as <-. cbn [b_store b_found]. split; [|reflexivity].
    destruct (Hfo _ _ _ E) as [Ekt Hin].
    assert (Hne : f_id t <> f_id f).
    { intros Eid. apply Hk. rewrite <- Ekt. f_equal. apply (id_inj inp Hids); [exact Hin | exact f_in_inp | exact Eid]. }
    eapply (trim_all_PS' KK' c t); [|exact HS | exact Hr].
    intros r0 ks ke new r'. apply KK_tf_other. exact Hne.
  Qed.

  Lemma phase1 c : forall ks b b',
    (forall k, In k ks -> k <> key_of f) -> found_ok (b_found b) -> PS KK' (b_store b) ->
    foldM (cut_fragments c) ks b = Ok b' ->
    PS KK' (b_store b') /\ b_found b' = b_found b
    /\ map o_bait (b_store b') = map o_bait (b_store b).
  Proof.
    induction ks as [|k ks IH]; intros b b' Hks Hfo HS H; cbn [foldM] in H.
    - injection H as <-. split; [exact HS|]. split; reflexivity.
    - bind_inv H s1 Hs1.
      destruct (cut_other c b k s1 (Hks k (or_introl eq_refl)) Hfo HS Hs1) as [HS1 Ef1].
      pose proof (cut_fragments_baits _ _ _ _ Hs1) as Eb1.
      destruct (IH s1 b') as (G1 & G2 & G3); [intros k' Hk'; apply Hks; right; exact Hk' | rewrite Ef1; exact Hfo | exact HS1 | exact H|].
      split; [exact G1|]. split; congruence.
  Qed.

  Definition Post1 (r : ovr) : Prop := o_bait r = b1 -> o_rows r <> [] /\ o_end r = f_end b1.
  Definition Post2 (r : ovr) : Prop := o_bait r = b2 -> o_rows r <> [] /\ o_start r = f_start b2.
  Definition PostK (r : ovr) : Prop := Post1 r /\ Post2 r.

  Lemma PostK_tf r t ks ke new r' :
    PostK r -> trim_fragment r t ks ke = Ok (new, r') -> PostK r'.
  Proof.
    intros [H1 H2] H. destruct (trim_fragment_facts _ _ _ _ _ _ H) as (B & Hne & Hs & He). split.
    - intros Eb. rewrite B in Eb. destruct (H1 Eb) as [_ E]. split; [exact Hne|]. rewrite Eb in He. lia.
    - intros Eb. rewrite B in Eb. destruct (H2 Eb) as [_ E]. split; [exact Hne|]. rewrite Eb in Hs. lia.
  Qed.

  Lemma phase3 c : forall ks b b',
    PS PostK (b_store b) -> foldM (cut_fragments c) ks b = Ok b' -> PS PostK (b_store b').
  Proof.
    induction ks as [|k ks IH]; intros b b' HS H; cbn [foldM] in H.
    - injection H as <-. exact HS.
    - bind_inv H s1 Hs1. eapply IH; [|exact H]. unfold cut_fragments in Hs1.
      destruct (aget key_eqb (b_found b) k) as [[t ids]|] eqn:E; [|discriminate].
      bind_inv Hs1 keyed Hkeyed. bind_inv Hs1 r Hr. destruct r as [st subs].
      bind_inv Hs1 u Hu. injection Hs1 as <-. cbn [b_store].
      eapply (trim_all_PS' PostK c t); [|exact HS | exact Hr].
      intros r0 ks0 ke new r'. apply PostK_tf.
  Qed.

  Lemma two_in_length {A} (l : list A) x y : In x l -> In y l -> x <> y -> (2 <= length l)%nat.
  Proof.
    intros Hx Hy Hne. destruct l as [|a [|b l]]; cbn [length]; [destruct Hx | | lia].
    destruct Hx as [<- | []]. destruct Hy as [<- | []]. contradiction.
  Qed.

  Lemma nth_map_bait st n b : nth_error (map o_bait st) n = Some b ->
    exists r, nth_error st n = Some r /\ o_bait r = b /\ get_ovr st (Z.of_nat n) = Ok r.
  Proof.
    rewrite nth_error_map. destruct (nth_error st n) as [r|] eqn:E; [|discriminate].
    cbn [option_map]. intros H. injection H as <-. exists r. split; [reflexivity|]. split; [reflexivity|].
    unfold get_ovr. rewrite Nat2Z.id, E. reflexivity.
  Qed.

  (* ------------------------------------------------------ all the stages *)
  Lemma deep_cut_stages c fuel b1s b2s b3s idsr st :
    fix_swap_keep c = true ->
    LInv inp err all b1s [] -> LK inp all KK' b1s [] ->
    discard_loop fuel err b1s = Ok b2s ->
    cut_remaining_overhangs c b2s = Ok b3s ->
    rename_results (b_store b3s) idsr = Ok st ->
    exists r1 r2 t1 f1 f2 t2 ls le,
      In r1 st /\ In r2 st /\ o_bait r1 = b1 /\ o_bait r2 = b2
      /\ o_rows r1 = t1 ++ [RF f1] /\ o_rows r2 = RF f2 :: t2
      /\ o_end r1 = f_end b1 /\ o_start r2 = f_start b2
      /\ trimmed f f1 ls (hi - f_end b1) /\ trimmed f f2 (f_start b2 - lo) le.
  Proof.
    intros Hfix (HI1 & HS1 & HF1 & Hinc1 & Hnd1 & Hc1) (HK1 & HH1 & _ & Ht1) Hd Hc Hrn.
    rewrite app_nil_r in HF1. unfold SB in HF1.
    pose proof dfacts as (F1 & F2 & F3). pose proof dv1 as V1. pose proof dv2 as V2.
    pose proof dfid as Hfid.
    (* resolver *)
    destruct (discard_loop_good inp err all Hids Hposr Herr Hall _ _ _ HI1 HS1 HF1 Hnd1 Hd)
      as (HI2 & HS2 & HB2).
    assert (Kds : forall src' r r', In (o_bait r) all -> In (f_name (o_bait r), src') inp ->
              GoodU err src' r -> KK' r -> just_start err r -> discard_start r = Ok r' -> KK' r').
    { exact (KK_ds inp err all Hids Hnames Hposr Herr Hall b1 b2 src a0 c0 f Hb1 Hb2 Hname Habut Hsrc Esrc Hov1 Hov2). }
    assert (Kde : forall src' r r', In (o_bait r) all -> In (f_name (o_bait r), src') inp ->
              GoodU err src' r -> KK' r -> just_end err r -> discard_end r = Ok r' -> KK' r').
    { exact (KK_de inp err all Hids Hnames Hposr Herr Hall b1 b2 src a0 c0 f Hb1 Hb2 Hname Habut Hsrc Esrc Hov1 Hov2). }
    destruct (discard_loop_plus inp err all Hids Hkeys Hposr Herr Hall KK' Kds Kde _ _ _
                HI1 HS1 HF1 Hnd1 HK1 HH1 Hd) as (HK2 & HH2 & Hnd2).
    assert (HF2 : ForallOrdPairs Rdisj (map o_bait (b_store b2s))) by (rewrite HB2; exact HF1).
    (* both baits have a result *)
    assert (Hin1 : In b1 (map o_bait (b_store b2s))).
    { rewrite HB2. destruct (Ht1 b1 Hb1) as [[] | X]; [|exact X].
      exact (must_b1 inp err all Hposr Herr Hall b1 b2 src a0 c0 f Hb1 Hb2 Habut Hsrc Esrc Hov1 Hov2). }
    assert (Hin2 : In b2 (map o_bait (b_store b2s))).
    { rewrite HB2. destruct (Ht1 b2 Hb2) as [[] | X]; [|exact X].
      exact (must_b2 inp err all Hposr Herr Hall b1 b2 src a0 c0 f Hb1 Hb2 Hname Habut Hsrc Esrc Hov1 Hov2). }
    apply In_nth_error in Hin1. destruct Hin1 as (n1 & Hn1).
    apply In_nth_error in Hin2. destruct Hin2 as (n2 & Hn2).
    assert (Hn12 : n1 <> n2).
    { intros ->. rewrite Hn1 in Hn2. injection Hn2 as E. exact (b1_ne_b2 E). }
    set (id1 := Z.of_nat n1). set (id2 := Z.of_nat n2).
    destruct (nth_map_bait _ _ _ Hn1) as (q1 & Hq1 & Eq1 & Gq1).
    destruct (nth_map_bait _ _ _ Hn2) as (q2 & Hq2 & Eq2 & Gq2).
    pose proof (HK2 q1 (nth_error_In _ _ Hq1)) as [KQ1 _].
    pose proof (HK2 q2 (nth_error_In _ _ Hq2)) as [_ KQ2].
    assert (Hf1 : In (RF f) (o_rows q1)).
    { destruct (KQ1 Eq1) as (_ & [[-> _] | (g & t' & -> & _)]); [left; reflexivity|].
      right. apply in_or_app. right. left. reflexivity. }
    assert (Hf2 : In (RF f) (o_rows q2)).
    { destruct (KQ2 Eq2) as (_ & [[-> _] | (t' & g & -> & _)]); left; reflexivity. }
    destruct (HH2 id1 q1 f ltac:(unfold id1; lia) Gq1 Hf1) as (f0 & ids & Hag & Hi1).
    destruct (HH2 id2 q2 f ltac:(unfold id2; lia) Gq2 Hf2) as (f0' & ids' & Hag' & Hi2).
    rewrite Hag in Hag'. injection Hag' as <- <-.
    pose proof HI2 as (_ & IA & (_ & FM2 & F3' & _) & _).
    pose proof (aget_In key_eqb key_eqb_eq _ _ _ Hag) as Hent.
    rewrite Forall_forall in F3'. destruct (F3' _ Hent) as (K1e & K2e & K3e & K4e & K5e).
    cbn [fst snd] in K1e, K2e, K3e, K4e, K5e.
    assert (Ef0 : f0 = f) by (eapply (NoDup_map_inj key_of); [exact Hkeys | exact K2e | exact f_in_inp | exact K1e]).
    subst f0.
    assert (Hidne : id1 <> id2) by (unfold id1, id2; lia).
    assert (Hkm : In (key_of f) (b_multi b2s)).
    { apply K5e. eapply two_in_length; [exact Hi1 | exact Hi2 | exact Hidne]. }
    assert (Hpos : Forall (fun a => 0 <= a) ids).
    { apply Forall_forall. intros a Ha. apply K3e in Ha. pose proof (AddedOk_pos _ _ IA) as Hp.
      rewrite Forall_forall in Hp. apply Hp. exact Ha. }
    assert (Hndids : NoDup ids).
    { unfold NDI in Hnd2. rewrite Forall_forall in Hnd2. apply (Hnd2 _ Hent). }
    (* the cut fold, split at f's key *)
    unfold cut_remaining_overhangs in Hc. bind_inv Hc b3' Hb3'. injection Hc as <-.
    cbn [b_store] in Hrn.
    apply in_split in Hkm. destruct Hkm as (ks1 & ks2 & Em).
    rewrite Em in FM2, Hb3'.
    assert (Hk1 : forall k, In k ks1 -> k <> key_of f).
    { intros k Hk ->. apply NoDup_remove_2 in FM2. apply FM2. apply in_or_app. left. exact Hk. }
    destruct (foldM_app _ _ _ _ _ Hb3') as (s1 & Hs1 & Hrest). cbn [foldM] in Hrest.
    bind_inv Hrest s2 Hs2.
    destruct (phase1 c ks1 b2s s1 Hk1 (Inv_found_ok _ HI2) HK2 Hs1) as (P1 & Ef1 & Eb1).
    assert (Hn1' : nth_error (map o_bait (b_store s1)) n1 = Some b1) by (rewrite Eb1; exact Hn1).
    assert (Hn2' : nth_error (map o_bait (b_store s1)) n2 = Some b2) by (rewrite Eb1; exact Hn2).
    destruct (nth_map_bait _ _ _ Hn1') as (r1 & Hr1 & Er1 & Gr1).
    destruct (nth_map_bait _ _ _ Hn2') as (r2 & Hr2 & Er2 & Gr2).
    pose proof (P1 r1 (nth_error_In _ _ Hr1)) as [KR1 _].
    pose proof (P1 r2 (nth_error_In _ _ Hr2)) as [_ KR2].
    rewrite <- Ef1 in Hag.
    destruct (cut_f c s1 s2 ids id1 id2 r1 r2 Hfix Hag Hndids Hpos Hi1 Hi2 Hidne Gr1 Er1 KR1 Gr2 Er2 KR2 Hs2)
      as (r1' & r2' & G1 & A1 & A2 & A3 & G2 & B1 & B2 & B3).
    pose proof (cut_fragments_baits _ _ _ _ Hs2) as Eb2.
    assert (HFs2 : ForallOrdPairs Rdisj (map o_bait (b_store s2))) by (rewrite Eb2, Eb1; exact HF2).
    assert (P2 : PS PostK (b_store s2)).
    { intros r Hr. apply In_nth_error in Hr. destruct Hr as (n & Hn).
      assert (Hnb : nth_error (map o_bait (b_store s2)) n = Some (o_bait r)).
      { rewrite nth_error_map, Hn. reflexivity. }
      split; intros Eb; rewrite Eb in Hnb.
      - assert (n = n1).
        { eapply (bait_index_unique _ n n1 b1 HFs2); [lia | exact Hnb | rewrite Eb2; exact Hn1']. }
        subst n. unfold get_ovr, id1 in G1. rewrite Nat2Z.id, Hn in G1. injection G1 as <-.
        split; assumption.
      - assert (n = n2).
        { eapply (bait_index_unique _ n n2 b2 HFs2); [lia | exact Hnb | rewrite Eb2; exact Hn2']. }
        subst n. unfold get_ovr, id2 in G2. rewrite Nat2Z.id, Hn in G2. injection G2 as <-.
        split; assumption. }
    pose proof (phase3 c ks2 s2 b3' P2 Hrest) as P3.
    (* the C18 invariant and the baits, as in core_kept_end_to_end *)
    assert (Q2 : PS (PC inp err all) (b_store b2s)).
    { intros r Hr. apply (RGd_PC inp err all Hposr). apply HS2. exact Hr. }
    assert (Hc' : cut_remaining_overhangs c b2s
                  = Ok (mkB (b_store b3') (b_added b3') (b_found b3') [] (b_namer b3') (b_cuts b3'))).
    { unfold cut_remaining_overhangs. rewrite Em, Hb3'. reflexivity. }
    assert (Q3 : PS (PC inp err all) (b_store b3')).
    { apply (cut_remaining_PS inp (PC inp err all)
               (fun r t ks ke new r' => PC_tf inp err all Hids Hidpos Hposr Herr r t ks ke new r')
               c _ _ (Inv_found_in _ _ HI2) Q2 Hc'). }
    pose proof (cut_remaining_baits _ _ _ Hc') as EB3. cbn [b_store] in EB3.
    pose proof (rename_results_baits _ _ _ Hrn) as EB4.
    assert (Q4 : forall r, In r st -> PC inp err all r /\ PostK r).
    { intros x Hx. destruct (rename_results_In _ _ _ Hrn x Hx) as (r & Hr & [-> | (n & ->)]).
      - split; [apply Q3 | apply P3]; exact Hr.
      - split; [apply PC_set_name; apply Q3 | exact (P3 r Hr)]; exact Hr. }
    assert (EBall : map o_bait st = map o_bait (b_store b2s)) by congruence.
    assert (X1 : exists x1, In x1 st /\ o_bait x1 = b1).
    { assert (Hi : In b1 (map o_bait st)) by (rewrite EBall; eapply nth_error_In; exact Hn1).
      apply in_map_iff in Hi. destruct Hi as (x & E & Hx). exists x. split; assumption. }
    assert (X2 : exists x2, In x2 st /\ o_bait x2 = b2).
    { assert (Hi : In b2 (map o_bait st)) by (rewrite EBall; eapply nth_error_In; exact Hn2).
      apply in_map_iff in Hi. destruct Hi as (x & E & Hx). exists x. split; assumption. }
    destruct X1 as (x1 & Hx1 & Ex1). destruct X2 as (x2 & Hx2 & Ex2).
    destruct (Q4 x1 Hx1) as ((_ & s1' & Hs1' & (HIv1 & _) & _) & (PO1 & _)).
    destruct (Q4 x2 Hx2) as ((_ & s2' & Hs2' & (HIv2 & _) & _) & (_ & PO2)).
    destruct (PO1 Ex1) as (Ne1 & Ee1). destruct (PO2 Ex2) as (Ne2 & Es2).
    rewrite Ex1 in Hs1'. rewrite Ex2, <- Hname in Hs2'.
    rewrite (In_unique_name inp _ _ _ Hnames Hs1' Hsrc) in HIv1.
    rewrite (In_unique_name inp _ _ _ Hnames Hs2' Hsrc) in HIv2.
    pose proof (Hposr _ _ Hsrc) as Hp.
    destruct (Inv'_last _ _ HIv1 Ne1) as (a & o & cc & t1 & f1 & ls1 & le1 & E1 & Er1' & Tr1 & Eend).
    destruct (Inv'_first _ _ HIv2 Ne2) as (a' & o' & cc' & t2 & f2 & ls2 & le2 & E2 & Er2' & Tr2 & Est).
    pose proof (trimmed_len _ _ _ _ Tr1) as [L1 L1']. pose proof (trimmed_len _ _ _ _ Tr2) as [L2 L2'].
    pose proof Tr1 as (_ & _ & Z1 & Z2 & _). pose proof Tr2 as (_ & _ & Z3 & Z4 & _).
    unfold lo, hi in *.
    destruct (span_unique src a o cc a0 f c0 (f_end b1) Hp E1 Esrc ltac:(lia) ltac:(lia)) as [-> ->].
    destruct (span_unique src a' o' cc' a0 f c0 (f_start b2) Hp E2 Esrc ltac:(lia) ltac:(lia)) as [-> ->].
    exists x1, x2, t1, f1, f2, t2, ls1, le2.
    split; [exact Hx1|]. split; [exact Hx2|]. split; [exact Ex1|]. split; [exact Ex2|].
    split; [exact Er1'|]. split; [exact Er2'|]. split; [exact Ee1|]. split; [exact Es2|].
    split.
    - replace (rows_len a0 + f_len f - f_end b1) with le1 by lia. exact Tr1.
    - replace (f_start b2 - (rows_len a0 + 1)) with ls2 by lia. exact Tr2.
  Qed.
End DeepCut.

(* ============================================================ the theorem *)
Definition deep_cut_exact_statement : Prop :=
  forall c g prefix bpt input pretext rs b1 b2 src k f,
  fix_swap_keep c = true ->
  0 <= fst bpt -> 0 < snd bpt ->
  Forall (fun isc => pos_rows (snd isc)) input ->
  NoDup (map key_of (in_frags input)) ->
  Forall (fun b => 1 <= f_start b <= f_end b) (baits_of pretext) ->
  disjoint_baits (baits_of pretext) ->
  remap_to_input c g prefix bpt input pretext = Ok rs ->
  let err := error_length bpt in
  (* two abutting baits of the same input scaffold *)
  In b1 (baits_of pretext) -> In b2 (baits_of pretext) ->
  f_name b1 = f_name b2 -> f_end b1 + 1 = f_start b2 ->
  In (f_name b1, src) (number_input input 0) ->
  (* source row k is a fragment overlapping each bait in >= 3 error lengths *)
  nth_error src k = Some (RF f) ->
  3 * err <= Z.min (f_end b1) (span_end src k) - Z.max (f_start b1) (span_start src k) + 1 ->
  3 * err <= Z.min (f_end b2) (span_end src k) - Z.max (f_start b2) (span_start src k) + 1 ->
  (* f is cut exactly at the boundary *)
  exists r1 r2 t1 f1 f2 t2 ls le,
    In r1 (b_store (rs_b rs)) /\ In r2 (b_store (rs_b rs))
    /\ o_bait r1 = b1 /\ o_bait r2 = b2
    /\ o_rows r1 = t1 ++ [RF f1] /\ o_rows r2 = RF f2 :: t2
    /\ o_end r1 = f_end b1 /\ o_start r2 = f_start b2
    /\ trimmed f f1 ls (span_end src k - f_end b1)
    /\ trimmed f f2 (f_start b2 - span_start src k) le.

Theorem deep_cut_exact : deep_cut_exact_statement.
Proof.
  intros c g prefix bpt input pretext rs b1 b2 src k f Hfix Hbp1 Hbp2 Hpos Hkeys0 Hvalid Hdisj H err
         Hb1 Hb2 Hname Habut Hsrc Hk Hov1 Hov2.
  destruct (number_input_spec input 0) as (Ek & Hidpos & Hids).
  pose proof (number_input_pos input 0 Hpos) as Hposr.
  set (inp := number_input input 0) in *.
  set (all := baits_of pretext) in *.
  assert (Hkeys : NoDup (map key_of (in_frags inp))) by (rewrite Ek; exact Hkeys0).
  assert (Herr : 1 <= err).
  { unfold err, error_length. pose proof (Z.div_pos (fst bpt) (snd bpt) Hbp1 Hbp2). lia. }
  unfold remap_to_input in H. destruct (has_dup_names (map fst input)) eqn:Edup; [discriminate|].
  assert (Hnames : NoDup (map fst inp)).
  { unfold inp. rewrite number_input_fst. apply has_dup_names_false. exact Edup. }
  cbv zeta in H. fold inp in H. fold err in H.
  bind_inv H s1 Hs1. bind_inv H s2 Hs2. bind_inv H s3 Hs3. bind_inv H st Hst.
  bind_inv H nl Hnl. injection H as <-. cbn [rs_b with_namer with_store b_store].
  destruct (nth_error_split src k Hk) as (a0 & c0 & Esrc & Lk). subst k.
  destruct (split_span _ _ _ _ Esrc) as (_ & Ess & Ese). cbn [row_len] in Ese.
  rewrite Ess, Ese in Hov1, Hov2. rewrite Ess, Ese.
  replace (1 + rows_len a0) with (rows_len a0 + 1) in * by lia.
  assert (L1 : LInv inp err all s1 []).
  { eapply (pretext_LInv inp err all Hkeys Hnames Hposr Herr Hvalid); [|exact Hs1].
    apply LInv_init. exact Hdisj. }
  assert (L2 : LK inp all (KK b1 b2 a0 f) s1 []).
  { eapply (pretext_LK inp err all Hnames Hposr Herr Hvalid (KK b1 b2 a0 f)); [| | | | |exact Hs1].
    - apply KK_ext.
    - exact (KK_ds inp err all Hids Hnames Hposr Herr Hvalid b1 b2 src a0 c0 f Hb1 Hb2 Hname Habut Hsrc Esrc Hov1 Hov2).
    - exact (KK_de inp err all Hids Hnames Hposr Herr Hvalid b1 b2 src a0 c0 f Hb1 Hb2 Hname Habut Hsrc Esrc Hov1 Hov2).
    - exact (KK_init inp err all Hids Hnames Hposr Herr Hvalid b1 b2 src a0 c0 f Hb1 Hb2 Hname Habut Hsrc Esrc Hov1 Hov2).
    - apply LK_init. }
  exact (deep_cut_stages inp err all Hids Hidpos Hkeys Hnames Hposr Herr Hvalid b1 b2 src a0 c0 f
           Hb1 Hb2 Hname Habut Hsrc Esrc Hov1 Hov2 c _ s1 s2 s3 _ st Hfix L1 L2 Hs2 Hs3 Hst).
Qed.

(* in particular for the repaired code *)
Corollary deep_cut_exact_repaired : forall g prefix bpt input pretext rs b1 b2 src k f,
  0 <= fst bpt -> 0 < snd bpt ->
  Forall (fun isc => pos_rows (snd isc)) input ->
  NoDup (map key_of (in_frags input)) ->
  Forall (fun b => 1 <= f_start b <= f_end b) (baits_of pretext) ->
  disjoint_baits (baits_of pretext) ->
  remap_to_input repaired g prefix bpt input pretext = Ok rs ->
  let err := error_length bpt in
  In b1 (baits_of pretext) -> In b2 (baits_of pretext) ->
  f_name b1 = f_name b2 -> f_end b1 + 1 = f_start b2 ->
  In (f_name b1, src) (number_input input 0) ->
  nth_error src k = Some (RF f) ->
  3 * err <= Z.min (f_end b1) (span_end src k) - Z.max (f_start b1) (span_start src k) + 1 ->
  3 * err <= Z.min (f_end b2) (span_end src k) - Z.max (f_start b2) (span_start src k) + 1 ->
  exists r1 r2 t1 f1 f2 t2 ls le,
    In r1 (b_store (rs_b rs)) /\ In r2 (b_store (rs_b rs))
    /\ o_bait r1 = b1 /\ o_bait r2 = b2
    /\ o_rows r1 = t1 ++ [RF f1] /\ o_rows r2 = RF f2 :: t2
    /\ o_end r1 = f_end b1 /\ o_start r2 = f_start b2
    /\ trimmed f f1 ls (span_end src k - f_end b1)
    /\ trimmed f f2 (f_start b2 - span_start src k) le.
Proof. intros g prefix bpt input pretext rs b1 b2 src k f. apply (deep_cut_exact repaired). reflexivity. Qed.

Print Assumptions deep_cut_exact.
Print Assumptions deep_cut_exact_repaired.

(* ------------------------------------------------------------ non-vacuity *)
(* one input scaffold  A(100) gap(10) B(200, minus strand) gap(10) C(100),
   cut by the map into 1..200 | 201..420: B spans 111..310 and is cut at 200 *)
Module DeepCutExample.
  Definition A := mkFrag 0 (s "cA") 1 100 1 [].
  Definition B := mkFrag 0 (s "cB") 1 200 (-1) [].
  Definition C := mkFrag 0 (s "cC") 1 100 1 [].
  Definition g10 := mkGap 10 (s "scaffold").
  Definition input := [(s "scaf1", [RF A; RG g10; RF B; RG g10; RF C])].
  Definition bt1 := mkFrag 0 (s "scaf1") 1 200 1 [].
  Definition bt2 := mkFrag 0 (s "scaf1") 201 420 1 [].
  Definition pretext := [(s "scaf1", [RF bt1; RF bt2])].
  Definition Bn := mkFrag 2 (s "cB") 1 200 (-1) [].
  Definition src := [RF (mkFrag 0 (s "cA") 1 100 1 []); RG g10; RF Bn; RG g10;
                     RF (mkFrag 4 (s "cC") 1 100 1 [])].

  Lemma hyps :
    Forall (fun isc => pos_rows (snd isc)) input
    /\ NoDup (map key_of (in_frags input))
    /\ Forall (fun b => 1 <= f_start b <= f_end b) (baits_of pretext)
    /\ disjoint_baits (baits_of pretext)
    /\ exists rs, remap_to_input repaired g10 (s "SUPER_") (1, 1) input pretext = Ok rs.
  Proof.
    split. { repeat constructor; cbn; lia. }
    split. { cbn. repeat constructor; cbn; intuition discriminate. }
    split. { repeat constructor; cbn; lia. }
    split.
    { unfold disjoint_baits. cbn [baits_of pretext flat_map snd frags_of app].
      apply FOP_cons; [|apply FOP_cons; [constructor | apply FOP_nil]].
      constructor; [|constructor]. intros _. left. cbn. lia. }
    eexists. vm_compute. reflexivity.
  Qed.

  Example deep_cut_nonvacuous : exists rs,
    remap_to_input repaired g10 (s "SUPER_") (1, 1) input pretext = Ok rs
    /\ exists r1 r2 t1 f1 f2 t2 ls le,
      In r1 (b_store (rs_b rs)) /\ In r2 (b_store (rs_b rs))
      /\ o_bait r1 = bt1 /\ o_bait r2 = bt2
      /\ o_rows r1 = t1 ++ [RF f1] /\ o_rows r2 = RF f2 :: t2
      /\ o_end r1 = 200 /\ o_start r2 = 201
      /\ trimmed Bn f1 ls 110 /\ trimmed Bn f2 90 le.
  Proof.
    destruct hyps as (H1 & H2 & H3 & H4 & rs & Hrs). exists rs. split; [exact Hrs|].
    apply (deep_cut_exact_repaired g10 (s "SUPER_") (1, 1) input pretext rs bt1 bt2 src 2%nat Bn
             ltac:(cbn; lia) ltac:(cbn; lia) H1 H2 H3 H4 Hrs).
    - cbn. tauto.
    - cbn. tauto.
    - reflexivity.
    - reflexivity.
    - vm_compute. left. reflexivity.
    - reflexivity.
    - vm_compute. discriminate.
    - vm_compute. discriminate.
  Qed.
End DeepCutExample.
