"""Deterministic file-system / crash / scheduler shim for the FASTA index
cache protocol (C15).

Simulated processes are threads running the real FastaIndex(path).auto_load();
inside them pathlib.Path.exists/stat/open/unlink, os.replace and os.getpid are
shimmed so that every file operation on the simulated directory is (1) a
scheduling point handed out by a deterministic scheduler, (2) recorded in a
trace of abstract operations, (3) a possible crash point.  Files opened for
writing are proxies that push their text to the real file in small blocks,
each push being an operation of its own; a crash abandons the thread and
drops whatever had not been pushed.  Modification times are logical: every
write-type operation stamps the file with the current logical clock."""

from __future__ import annotations

import io
import os
import pathlib
import threading
from pathlib import Path

BLOCK = 24


class SimCrash(BaseException):
    pass


class Sim:
    def __init__(self, root: Path, symlink: bool = False):
        self.root = root
        self.fasta = root / "g.fa"
        self.clock = 1
        if symlink:
            # the FASTA is reached through a symbolic link created (and stamped) now; the cache files live
            # next to the link, rewrites go to the target
            os.symlink("g.target.fa", self.fasta)
            os.utime(self.fasta, (self.clock, self.clock), follow_symlinks=False)
        self.trace = []          # list of hops: ("op", pid, opname, file) | ("rewrite", tick) | ...
        self.tls = threading.local()
        self.crash_at = {}       # pid -> number of operations after which it crashes
        self.fault_at = {}       # pid -> index of the operation that fails with OSError (the process goes on)
        self.nops = {}           # pid -> operations performed
        self.crashed = set()
        self.sched = None        # optional Scheduler
        self.content_id = 0
        self.installed = False

    # ---- classification of paths
    def kind(self, p) -> str | None:
        try:
            p = Path(p)
        except TypeError:
            return None
        if p.parent != self.root:
            return None
        n = p.name
        if n == "g.fa":
            return "fasta"
        if n == "g.fa.fai":
            return "Fai"
        if n == "g.fa.agp":
            return "Agp"
        if n.startswith("g.fa.fai.") and n.endswith(".tmp"):
            return "tmpFai"
        if n.startswith("g.fa.agp.") and n.endswith(".tmp"):
            return "tmpAgp"
        return None

    def pid(self):
        return getattr(self.tls, "pid", None)

    # ---- one operation of the current simulated process
    def op(self, name, f=None):
        pid = self.pid()
        if pid is None:
            return
        if self.sched is not None:
            self.sched.point(pid)
        if pid in self.crashed:
            raise SimCrash()
        k = self.nops.get(pid, 0)
        if self.crash_at.get(pid) is not None and k >= self.crash_at[pid]:
            self.crashed.add(pid)
            self.trace.append(["op", pid, "OCrash", None])
            raise SimCrash()
        self.nops[pid] = k + 1
        if self.fault_at.get(pid) == k:
            # an I/O error (disk full, quota, EIO) instead of the operation: unlike a crash the
            # program keeps running, so its own except / finally clauses take effect
            self.trace.append(["op", pid, "OFault", f])
            import errno

            raise OSError(errno.ENOSPC, "simulated I/O error", str(f))
        self.trace.append(["op", pid, name, f])

    def stamp(self, path):
        os.utime(path, (self.clock, self.clock))

    # ---- environment steps
    def rewrite_fasta(self, data: bytes, tick: bool):
        if tick:
            self.clock += 1
        self.fasta.write_bytes(data)
        self.stamp(self.fasta)
        self.content_id += 1
        self.trace.append(["rewrite", tick])

    def delete(self, which):
        p = Path(str(self.fasta) + (".fai" if which == "Fai" else ".agp"))
        if p.exists():
            _orig["unlink"](p)
        self.trace.append(["delete", which])

    def tick(self):
        self.clock += 1
        self.trace.append(["tick"])


SIM: Sim | None = None
_orig = {}


class SimWriter:
    """text file opened for writing: data reaches the real file in blocks"""

    def __init__(self, sim: Sim, path: Path, f: str, visible: bool):
        self.sim, self.path, self.f = sim, path, f
        self.buf = ""
        self.closed = False
        self.real = _orig["open"](path, "w")          # creates / truncates now
        self.real.flush()
        sim.stamp(path)

    def write(self, s):
        self.buf += s
        while len(self.buf) >= BLOCK:
            self._push(self.buf[:BLOCK])
            self.buf = self.buf[BLOCK:]
        return len(s)

    def _push(self, chunk):
        self.sim.op("OWriteBlock", self.f)
        self.real.write(chunk)
        self.real.flush()
        self.sim.stamp(self.path)

    def tell(self):
        return 0

    def flush(self):
        pass

    def close(self):
        if self.closed:
            return
        self.closed = True
        pid = self.sim.pid()
        if pid in self.sim.crashed:
            self.real.close()
            return
        try:
            if self.buf:
                self._push(self.buf)
                self.buf = ""
            self.sim.op("OClose", self.f)
        finally:
            self.real.close()

    def __enter__(self):
        return self

    def __exit__(self, et, ev, tb):
        if et is not None and issubclass(et, SimCrash):
            self.closed = True
            self.real.close()
            return False
        self.close()
        return False


class SimReader(io.StringIO):
    """text file opened for reading: the content is taken at the first read"""

    def __init__(self, sim: Sim, path: Path, f: str):
        super().__init__("")
        self.sim, self.path, self.f = sim, path, f
        self.fh = _orig["open"](path, "r")
        self.loaded = False

    def _load(self):
        if not self.loaded:
            self.loaded = True
            self.sim.op("ORead", self.f)
            data = self.fh.read()
            self.fh.close()
            super().write(data)
            super().seek(0)

    def __iter__(self):
        self._load()
        return super().__iter__()

    def __next__(self):
        self._load()
        return super().__next__()

    def read(self, *a):
        self._load()
        return super().read(*a)

    def readline(self, *a):
        self._load()
        return super().readline(*a)

    def close(self):
        try:
            self.fh.close()
        finally:
            super().close()


def install():
    global _orig
    if _orig:
        return
    P = pathlib.Path
    _orig = {"exists": P.exists, "stat": P.stat, "open": P.open, "unlink": P.unlink,
             "replace": os.replace, "getpid": os.getpid}

    def exists(self, *a, **k):
        s = SIM
        kd = s.kind(self) if s and s.pid() is not None else None
        if kd == "fasta":
            s.op("OExistsFasta")
        elif kd in ("Fai", "Agp"):
            s.op("OExists", kd)
        if s is not None:
            s.tls.nest = getattr(s.tls, "nest", 0) + 1      # Path.exists() calls Path.stat() itself
        try:
            return _orig["exists"](self, *a, **k)
        finally:
            if s is not None:
                s.tls.nest -= 1

    def stat(self, *a, **k):
        s = SIM
        if s is not None and getattr(s.tls, "nest", 0):
            return _orig["stat"](self, *a, **k)
        kd = s.kind(self) if s and s.pid() is not None else None
        if kd == "fasta":
            s.op("OStatFasta")
        elif kd in ("Fai", "Agp"):
            s.op("OStat", kd)
        return _orig["stat"](self, *a, **k)

    def open_(self, mode="r", *a, **k):
        s = SIM
        kd = s.kind(self) if s and s.pid() is not None else None
        if kd is None:
            return _orig["open"](self, mode, *a, **k)
        if kd == "fasta":
            if "r" in mode:
                s.op("OReadFasta")
            return _orig["open"](self, mode, *a, **k)
        f = kd[-3:]
        if "w" in mode or "x" in mode:
            s.op("OOpenWrite", f)
            return SimWriter(s, self, f, visible=not kd.startswith("tmp"))
        s.op("OOpenRead", f)
        return SimReader(s, self, f)

    def unlink(self, missing_ok=False):
        s = SIM
        if s and s.pid() is not None and s.pid() in s.crashed and s.kind(self):
            return None          # a killed process runs no clean-up code
        return _orig["unlink"](self, missing_ok=missing_ok)

    def replace(src, dst, *a, **k):
        s = SIM
        kd = s.kind(dst) if s and s.pid() is not None else None
        if kd in ("Fai", "Agp"):
            s.op("OReplace", kd)
        return _orig["replace"](src, dst, *a, **k)

    def getpid():
        s = SIM
        if s and s.pid() is not None:
            return 100000 + s.pid()
        return _orig["getpid"]()

    P.exists, P.stat, P.open, P.unlink = exists, stat, open_, unlink
    os.replace = replace
    os.getpid = getpid


def uninstall():
    global _orig
    if not _orig:
        return
    P = pathlib.Path
    P.exists, P.stat, P.open, P.unlink = _orig["exists"], _orig["stat"], _orig["open"], _orig["unlink"]
    os.replace = _orig["replace"]
    os.getpid = _orig["getpid"]
    _orig = {}


class BatonScheduler:
    """schedule[k] is the pid that performs operation number k (when the
    schedule is exhausted or names a finished process, the lowest live pid).
    A thread keeps the baton from the moment it is granted operation k until it
    asks for its next operation (or finishes), so the real effects of two
    operations never overlap."""

    def __init__(self, schedule):
        self.schedule = list(schedule)
        self.k = 0
        self.cv = threading.Condition()
        self.live = set()
        self.holder = None

    def start(self, pids):
        self.live = set(pids)

    def allowed(self):
        while self.k < len(self.schedule) and self.schedule[self.k] not in self.live:
            self.k += 1
        if self.k < len(self.schedule):
            return self.schedule[self.k]
        return min(self.live) if self.live else None

    def point(self, pid):
        with self.cv:
            if self.holder == pid:
                self.holder = None
                self.cv.notify_all()
            while not (self.holder is None and self.allowed() == pid):
                if not self.cv.wait(timeout=30):
                    raise RuntimeError("scheduler stalled")
            self.k += 1
            self.holder = pid

    def finish(self, pid):
        with self.cv:
            if self.holder == pid:
                self.holder = None
            self.live.discard(pid)
            self.cv.notify_all()
