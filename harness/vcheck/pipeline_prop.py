"""Base class of the pipeline properties: same model, same correspondence,
different generator mixes and oracles."""

import io
from pathlib import Path

from tola.assembly.parser import parse_agp, parse_tpf

from . import asm as A
from . import core
from . import pipeline_util as P
from .prop import Prop


def specimen_cases(max_lines):
    out = []
    data = core.REPO / "tests" / "data"
    if not data.is_dir():
        return out
    for d in sorted(data.iterdir()):
        if not d.is_dir():
            continue
        tpfs = sorted(d.glob("*-input*.tpf"))
        agps = sorted(d.glob("*-pretext*.agp"))
        if not tpfs or not agps:
            continue
        if sum(1 for _ in tpfs[0].open()) > max_lines:
            continue
        try:
            inp = A.obj_to_assembly(parse_tpf(tpfs[0].open(), "input"))
            ptx_asm = parse_agp(agps[0].open(), "pretext")
            ptx = A.obj_to_assembly(ptx_asm)
        except Exception:
            continue
        bpt = None
        hdr = []
        for h in ptx["header"]:
            if h.startswith("HiC MAP RESOLUTION: ") and h.endswith(" bp/texel"):
                bpt = h[len("HiC MAP RESOLUTION: ") : -len(" bp/texel")]
            else:
                hdr.append(h)
        if bpt is None:
            continue
        out.append({"gen": f"specimen/{d.name}", "input": {"scaffolds": inp["scaffolds"]},
                    "pretext": {"bpt": bpt, "scaffolds": ptx["scaffolds"]}, "prefix": "SUPER_"})
    return out


class PipelineProp(Prop):
    imports = "From Tola Require Import Py.Base Model.Fragment Model.Scaffold Model.Namer Model.Remap Corr.Remap."
    show_fn = "show"
    specimen_lines_quick = 1300
    n_quick = 350
    n_thorough = 5000
    search_factor = 3

    def gen_case(self, rng):
        raise NotImplementedError

    def generate(self, rng, tier):
        for c in specimen_cases(self.specimen_lines_quick if tier == "quick" else 10**9):
            yield c
        for _ in range(self.n_quick if tier == "quick" else self.n_thorough):
            yield self.gen_case(rng)

    @staticmethod
    def history_of(case):
        """which earlier use of the same objects precedes the run (derived from the case, so replays agree)"""
        if case.get("history") or case.get("pre_run"):
            return case.get("history")
        import hashlib
        import json

        h = int(hashlib.sha1(json.dumps(case.get("pretext"), sort_keys=True).encode()).hexdigest()[:6], 16) % 10
        return {0: "target_first", 1: "target_first", 2: "flipped_first", 3: "retag", 4: "labelled_input", 5: "other_file_first"}.get(h)

    def run_impl(self, case):
        return P.run_pipeline({**case, "twice": True, "history": self.history_of(case)})

    def judge(self, case, obs):
        if isinstance(obs, dict) and obs.get("second_call"):
            return (f"asking the same BuildAssembly for its fused assemblies a second time changed the answer "
                    f"(cuts, breaks, joins / rows): {obs['second_call']}")
        return super().judge(case, obs)

    def term(self, case, obs):
        return P.case_term(case, obs)

    def key(self, case, obs):
        if "err" in obs:
            return None
        return super().key(case, obs)

    def classify(self, case, obs):
        g = case.get("gen", "?")
        if g.startswith("specimen"):
            g = "specimen"
        if "err" in obs:
            return g + "/Err:" + obs["err"]
        return g + ("/cut" if obs["cuts"] else "/nocut")

    def extra_counts(self, cases, observations):
        """reach of the file-naming / chromosome-list part of the correspondence"""
        import collections

        cnt = collections.Counter()
        for o in observations:
            if not isinstance(o, dict) or "err" in o or "asms" not in o:
                continue
            keys = [a["key"] for a in o["asms"]]
            cnt["name_assemblies/" + ("Primary" if "Primary" in keys else "single" if None in keys else "multi")] += 1
            if o.get("named") is None:
                cnt["name_assemblies/raised"] += 1
            elif any(n[0] == "all_haplotigs" for n in o["named"]):
                cnt["name_assemblies/all_haplotigs merged"] += 1
            if any(v for _, v in o.get("csv", [])):
                cnt["chromosome_name_csv/non-empty"] += 1
        return {"naming_reach": dict(cnt)}

    def neighbours(self, case):
        """the same map with every bait boundary moved by a few bases / about one error length"""
        if case.get("pieces") is not None:
            return
        from fractions import Fraction

        try:
            err = 1 + int(Fraction(case["pretext"]["bpt"]))
        except Exception:
            err = 2
        ptx = case["pretext"]["scaffolds"]
        n = 0
        for i, sc in enumerate(ptx):
            for j, r in enumerate(sc["rows"]):
                if r[0] != "F":
                    continue
                for k in (2, 3):
                    for d in (-err, -max(1, err // 2), -1, 1, max(1, err // 2), err):
                        r2 = list(r)
                        r2[k] = max(1, r2[k] + d)
                        if r2[2] > r2[3]:
                            continue
                        n += 1
                        if n > 60:
                            return
                        yield {**case, "gen": case.get("gen", "") + "/nbr", "pretext": {**case["pretext"], "scaffolds":
                               ptx[:i] + [{**sc, "rows": sc["rows"][:j] + [r2] + sc["rows"][j + 1 :]}] + ptx[i + 1 :]}}

    def shrink_candidates(self, case):
        inp = case["input"]["scaffolds"]
        ptx = case["pretext"]["scaffolds"]
        # drop a pretext scaffold / a pretext row (with its gap)
        for i in range(len(ptx)):
            if len(ptx) > 1:
                yield {**case, "pretext": {**case["pretext"], "scaffolds": ptx[:i] + ptx[i + 1 :]}}
        for i, sc in enumerate(ptx):
            fr = [j for j, r in enumerate(sc["rows"]) if r[0] == "F"]
            if len(fr) > 1:
                for j in fr:
                    rows = [r for k, r in enumerate(sc["rows"]) if k != j]
                    # tidy gaps
                    tidy = []
                    for r in rows:
                        if r[0] == "G" and (not tidy or tidy[-1][0] == "G"):
                            continue
                        tidy.append(r)
                    while tidy and tidy[-1][0] == "G":
                        tidy.pop()
                    yield {**case, "pretext": {**case["pretext"], "scaffolds": ptx[:i] + [{**sc, "rows": tidy}] + ptx[i + 1 :]}}
        # drop an input scaffold that no bait names
        used = {r[1] for sc in ptx for r in sc["rows"] if r[0] == "F"}
        for i, sc in enumerate(inp):
            if sc["name"] not in used and len(inp) > 1:
                yield {**case, "input": {"scaffolds": inp[:i] + inp[i + 1 :]}}
        # drop tags
        for i, sc in enumerate(ptx):
            for j, r in enumerate(sc["rows"]):
                if r[0] == "F" and r[5]:
                    for t in r[5]:
                        r2 = r[:5] + [[x for x in r[5] if x != t]]
                        yield {**case, "pretext": {**case["pretext"], "scaffolds": ptx[:i] + [{**sc, "rows": sc["rows"][:j] + [r2] + sc["rows"][j + 1 :]}] + ptx[i + 1 :]}}
