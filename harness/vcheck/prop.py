"""Base class of a property check and the standard check flow
(DESIGN.md section 2)."""

from __future__ import annotations

import collections
import json
import os
import random
import time
import traceback

from . import core


class Prop:
    pid = "C00"
    title = ""
    imports = "From Tola Require Import Py.Base."
    case_type = "case"
    check_fn = "check"
    show_fn = None  # Gallina function case -> printable model value
    design_ref = ""
    # theorem names that must be present in Properties/<pid>.v
    required_theorems: list[str] = []
    trusted_base_extra: list[str] = []
    search_factor = 6

    # ---- to be provided by each property
    def generate(self, rng: random.Random, tier: str):
        raise NotImplementedError

    def run_impl(self, case):
        raise NotImplementedError

    def term(self, case, obs):
        """-> function(names) -> Gallina text of one [case_type] value"""
        raise NotImplementedError

    def oracle(self, case, obs):
        """None if the property holds on this observation, else a reason."""
        return None

    def key(self, case, obs):
        """hashable identifying a distinct non-trivial case, or None if trivial"""
        return json.dumps(case, sort_keys=True, default=str)

    def classify(self, case, obs) -> str:
        return case.get("gen", "?")

    def neighbours(self, case):
        return []

    def shrink_candidates(self, case):
        return []

    def rule(self) -> str:
        return ""

    # ---- corpus
    def corpus(self):
        d = core.CORPUS / self.pid
        out = []
        if d.is_dir():
            for f in sorted(d.glob("*.json")):
                c = json.loads(f.read_text())
                cases = c if isinstance(c, list) else [c]
                for x in cases:
                    x.setdefault("gen", f"corpus/{f.name}")
                    out.append(x)
        return out

    # ---- safe wrappers
    def observe(self, case):
        try:
            return self.run_impl(case)
        except Exception as e:  # the harness itself failed on the implementation
            return {"harness_error": f"{type(e).__name__}: {e}", "tb": traceback.format_exc()[-1500:]}

    def judge(self, case, obs):
        if isinstance(obs, dict) and "harness_error" in obs:
            return None
        try:
            return self.oracle(case, obs)
        except Exception as e:
            return f"oracle could not interpret the observation: {type(e).__name__}: {e}"

    def shrink(self, case, budget=300):
        """greedy shrinking that keeps the oracle failing"""
        cur = case
        why = self.judge(cur, self.observe(cur))
        steps = 0
        improved = True
        while improved and steps < budget:
            improved = False
            try:
                for cand in self.shrink_candidates(cur):
                    steps += 1
                    if steps >= budget:
                        break
                    try:
                        w = self.judge(cand, self.observe(cand))
                    except Exception:
                        continue     # a candidate the harness cannot run is not a smaller failing case
                    if w:
                        cur, why, improved = cand, w, True
                        break
            except Exception:
                break                # shrinking is best effort: the unshrunk failing case is reported
        return cur, why


def match_known(pid, case, obs, why, prop):
    """A known finding is identified by its specific signature, implemented
    by the property's [known_signature] (returns the finding id)."""
    sig = getattr(prop, "known_signature", None)
    if not sig:
        return None
    fid = sig(case, obs, why)
    if not fid:
        return None
    for k in core.load_known_findings().get("known", []):
        if k.get("property") == pid and k.get("id") == fid:
            return k
    return None


def run_check(prop: Prop, tier: str, seed: int) -> int:
    pid = prop.pid
    t0 = time.time()
    core.clean_build(pid)
    rng = random.Random(f"{pid}/{seed}")
    lines = []

    # 1. proof step
    proof = core.proof_step(pid)
    thm_names = [t["name"] for t in proof["theorems"]]
    missing = [t for t in prop.required_theorems if t not in thm_names]
    proof_ok = proof["ok"] and not missing
    if missing and proof["ok"]:
        proof["log"] = "required theorems missing from property file: " + ", ".join(missing)
        proof["broken"] = proof["property_file"]

    if tier == "thorough" and proof_ok:
        chk = core.coqchk_step(pid)
        proof["coqchk"] = chk
        if not chk["ok"]:
            proof_ok = False
            proof["log"] = "coqchk: " + chk["summary"]
            proof["broken"] = f"coqchk theories/Properties/{pid}.vo"

    # 2. cases, implementation, oracle
    cases = []
    seen = set()
    for c in list(prop.corpus()) + list(prop.generate(rng, tier)):
        k = json.dumps({x: v for x, v in c.items() if x != "gen"}, sort_keys=True, default=str)
        if k in seen:
            continue
        seen.add(k)
        cases.append(c)
    observations = [prop.observe(c) for c in cases]
    t_impl = time.time()
    harness_errors = [
        (c, o) for c, o in zip(cases, observations) if isinstance(o, dict) and "harness_error" in o
    ]
    oracle_fail = []
    for c, o in zip(cases, observations):
        w = prop.judge(c, o)
        if w:
            oracle_fail.append((c, o, w))

    # 3. correspondence inside Coq
    mism, coq_errors, cstats = [], [], {}
    serial = []
    serial_idx = []
    for i, (c, o) in enumerate(zip(cases, observations)):
        if isinstance(o, dict) and "harness_error" in o:
            continue
        try:
            ts = prop.term(c, o)
            if callable(ts):
                ts = [ts]
            for t in ts:
                t(core.Names())  # make sure it serialises
            for t in ts:
                serial.append(t)
                serial_idx.append(i)
        except Exception as e:
            harness_errors.append((c, {"harness_error": f"serialise: {type(e).__name__}: {e}"}))
    # evaluated even when a proof is broken (the build keeps going past the broken file, so the model and the
    # comparison functions are compiled whenever they can be): a failing input is then searched for as usual
    try:
        mm, coq_errors, cstats = core.run_case_files(
            pid, prop.imports, prop.case_type, prop.check_fn, serial
        )
        mism = sorted(set(serial_idx[i] for i in mm))
    except Exception as e:
        coq_errors = [("run_case_files", f"{type(e).__name__}: {e}")]

    # 4. verdict
    violations = 0
    known_lines = []
    reported = set()

    def report_failure(c, o, w, origin):
        nonlocal violations
        c2, w2 = prop.shrink(c)
        o2 = prop.observe(c2)
        w2 = w2 or w
        kf = match_known(pid, c2, o2, w2, prop) or match_known(pid, c, o, w, prop)
        payload = {
            "property": pid,
            "kind": "known-finding" if kf else "violation",
            "seed": seed,
            "tier": tier,
            "generator": c.get("gen"),
            "origin": origin,
            "input": c2,
            "implementation": o2,
            "oracle": {"holds": False, "why": w2},
            "unshrunk_input": c if c2 is not c else None,
            "replay_cmd": f"./check {pid} --replay <this file>",
        }
        if kf:
            tag = kf["id"]
            if tag not in reported:
                reported.add(tag)
                path = core.write_replay(pid, payload)
                known_lines.append(f"KNOWN-FINDING: property={pid} {kf['what']} (replay={path})")
            return
        sigk = json.dumps(c2, sort_keys=True, default=str)
        if sigk in reported:
            return
        reported.add(sigk)
        if violations < 5:
            try:
                payload["model"] = model_value(prop, c2, o2)
            except Exception:
                pass
            path = core.write_replay(pid, payload)
            lines.append(f"VIOLATION property={pid} replay={path}")
        violations += 1

    for c, o, w in oracle_fail[:40]:
        report_failure(c, o, w, "oracle on generated case")

    broken = None
    if not proof_ok:
        broken = {"kind": "proof", "what": proof.get("broken") or proof["property_file"], "log": proof["log"][-3000:]}
    elif mism:
        i = mism[0]
        broken = {
            "kind": "correspondence",
            "what": f"model {prop.check_fn} vs implementation, {len(mism)} of {len(serial)} cases differ",
            "first_case": cases[i],
            "implementation": observations[i],
        }
        try:
            broken["model"] = model_value(prop, cases[i], observations[i])
        except Exception as e:
            broken["model"] = f"(not evaluated: {e})"
    elif coq_errors:
        broken = {"kind": "correspondence-not-evaluated", "what": coq_errors[0][0], "log": coq_errors[0][1]}
    elif harness_errors:
        c, o = harness_errors[0]
        broken = {"kind": "harness-could-not-observe", "what": o.get("harness_error"), "first_case": c, "tb": o.get("tb")}

    searched = 0
    if broken and violations == 0:
        # intensified search for a concrete failing input
        found = None
        pool = []
        for i in mism[:30]:
            pool.append(cases[i])
            pool.extend(prop.neighbours(cases[i]))
        for c, _ in harness_errors[:10]:
            pool.append(c)
        for c in pool:
            searched += 1
            o = prop.observe(c)
            w = prop.judge(c, o)
            if w and not match_known(pid, c, o, w, prop):
                found = (c, o, w)
                break
        if not found:
            deadline = time.time() + (120 if tier == "quick" else 600)
            for rep in range(prop.search_factor):
                if time.time() > deadline or found:
                    break
                rng2 = random.Random(f"{pid}/{seed}/search/{rep}")
                for c in prop.generate(rng2, tier):
                    searched += 1
                    o = prop.observe(c)
                    w = prop.judge(c, o)
                    if w and not match_known(pid, c, o, w, prop):
                        found = (c, o, w)
                        break
                    if time.time() > deadline:
                        break
        if found:
            report_failure(*found, f"search after broken {broken['kind']}")
        if violations == 0:
            payload = {
                "property": pid,
                "kind": "no-failing-input-found",
                "seed": seed,
                "tier": tier,
                "broken": broken,
                "searched_inputs": searched,
                "replay_cmd": f"./check {pid} --replay <this file>",
            }
            path = core.write_replay(pid, payload)
            lines.append(f"VIOLATION property={pid} replay={path} no-failing-input-found")
            violations += 1

    # 5. evidence
    dist = collections.Counter(prop.classify(c, o) for c, o in zip(cases, observations))
    keys = set()
    for c, o in zip(cases, observations):
        try:
            k = prop.key(c, o)
        except Exception:
            k = None
        if k is not None:
            keys.add(k)
    n_thm = len(proof["theorems"])
    obligations = max(n_thm, len(prop.required_theorems), 1)
    discharged = n_thm if proof_ok else 0
    sample_idx = sorted({0, len(cases) // 3, (2 * len(cases)) // 3, len(cases) - 1} & set(range(len(cases))))
    ev = {
        "property_id": pid,
        "tier": tier,
        "seed": seed,
        "level": "proof",
        "coverage": {
            "obligations": obligations,
            "discharged": discharged,
            "checker_cmd": f"cd /verif/coq && make && coqc -Q theories Tola theories/Properties/{pid}.v",
            "trusted_base": [
                "Coq 8.16.1 kernel + VM (vm_compute); no native_compute",
                "hand-written Gallina model of the Python code (DESIGN.md 3), tied to /repo by the correspondence run below",
                "harness serialiser (Python value -> Gallina term) and the Corr comparison functions",
            ]
            + prop.trusted_base_extra
            + [f"{t['name']}: {t['assumptions']}" for t in proof["theorems"]],
            "theorems": proof["theorems"],
            "evaluations": len(cases),
            "distinct_nontrivial": len(keys),
            "rule": prop.rule(),
            "samples": [small_sample(cases[i], observations[i]) for i in sample_idx],
            "distribution": dict(sorted(dist.items())),
            "correspondence": {
                "cases_evaluated_in_coq": len(serial),
                "mismatches": len(mism),
                "coq_errors": len(coq_errors),
                **cstats,
            },
            "oracle_failures": len(oracle_fail),
            "harness_errors": len(harness_errors),
            "known_findings_reported": known_lines,
            "search_after_break_inputs": searched,
            "proof_step": {k: v for k, v in proof.items() if k not in ("theorems",)},
            "impl_s": round(t_impl - t0, 2),
            **(prop.extra_counts(cases, observations) if hasattr(prop, "extra_counts") else {}),
        },
        "assumptions": [
            "model reads Python semantics as listed in DESIGN.md 3.2 / Appendix C",
            "ASCII-only text",
        ],
        "wall_s": round(time.time() - t0, 2),
        "violations": violations,
    }
    core.write_evidence(pid, ev)
    for ln in known_lines:
        print(ln)
    for ln in lines:
        print(ln)
    print(
        f"{pid} {tier}: theorems={discharged}/{obligations} cases={len(cases)} "
        f"distinct={len(keys)} mismatches={len(mism)} oracle_failures={len(oracle_fail)} "
        f"violations={violations} wall={ev['wall_s']}s"
    )
    if not os.environ.get("VERIF_KEEP_BUILD"):
        core.clean_build(pid)
    return 1 if violations else 0


def small_sample(case, obs, limit=6000):
    """a case written out for the evidence file; very large ones (specimens) are abbreviated"""
    blob = json.dumps({"case": case, "implementation": obs}, default=str)
    if len(blob) <= limit:
        return {"case": case, "implementation": obs}
    return {"gen": case.get("gen") if isinstance(case, dict) else None, "abbreviated": True, "json_bytes": len(blob),
            "head": blob[:1500]}


def model_value(prop: Prop, case, obs):
    if not prop.show_fn:
        return None
    names = core.Names()
    ts = prop.term(case, obs)
    if callable(ts):
        ts = [ts]
    out = []
    for t in ts[:4]:
        txt = t(names)
        out.append(core.eval_in_coq(prop.pid, prop.imports, names.definitions(), f"{prop.show_fn} ({txt})"))
    return out[0] if len(out) == 1 else out


def replay(prop: Prop, path: str) -> int:
    payload = json.loads(open(path).read())
    case = payload.get("input") or (payload.get("broken") or {}).get("first_case")
    if case is None:
        print(json.dumps(payload.get("broken"), indent=1))
        print("nothing to replay on the implementation: the replay names a broken theorem/correspondence")
        return 0
    obs = prop.observe(case)
    why = prop.judge(case, obs)
    print("input:         ", json.dumps(case, default=str))
    print("implementation:", json.dumps(obs, default=str))
    try:
        print("model:         ", model_value(prop, case, obs))
    except Exception as e:
        print("model:          (not evaluated)", e)
    print("oracle:        ", "holds" if not why else f"FAILS: {why}")
    return 1 if why else 0
