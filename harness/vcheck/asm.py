"""JSON <-> tola objects <-> Gallina terms for rows, scaffolds, assemblies."""

from tola.assembly.assembly import Assembly
from tola.assembly.fragment import Fragment
from tola.assembly.gap import Gap
from tola.assembly.scaffold import Scaffold

from .core import listlit, optlit, zlit


# ---- JSON rows: ["F", name, start, end, strand, [tags]] | ["G", length, type]
def row_to_obj(r):
    if r[0] == "F":
        return Fragment(r[1], r[2], r[3], r[4], tuple(r[5]) if len(r) > 5 else ())
    return Gap(r[1], r[2])


def obj_to_row(o):
    if isinstance(o, Gap):
        return ["G", o.length, o.gap_type]
    return ["F", o.name, o.start, o.end, o.strand, list(o.tags)]


def scaffold_to_obj(sc):
    """sc: {"name":..., "rows":[...]}"""
    return Scaffold(sc["name"], [row_to_obj(r) for r in sc["rows"]])


def assembly_to_obj(asm, name="asm"):
    a = Assembly(name, header=list(asm.get("header", [])))
    for sc in asm["scaffolds"]:
        a.add_scaffold(scaffold_to_obj(sc))
    return a


def obj_to_scaffold(s):
    return {"name": s.name, "rows": [obj_to_row(r) for r in s.rows]}


def obj_to_assembly(a):
    return {"header": list(a.header), "scaffolds": [obj_to_scaffold(s) for s in a.scaffolds]}


# ---- Gallina
def frag_term(r, names, fid=-1):
    tags = r[5] if len(r) > 5 else []
    return f"(mkFrag {zlit(fid)} {names(r[1])} {zlit(r[2])} {zlit(r[3])} {zlit(r[4])} {listlit(tags, names)})"


def row_term(r, names, fid=-1):
    if r[0] == "F":
        return f"(RF {frag_term(r, names, fid)})"
    return f"(RG (mkGap {zlit(r[1])} {names(str(r[2]))}))"


def rows_term(rows, names, first_id=None):
    """first_id: number fragments AND gaps consecutively from first_id (object ids)"""
    out = []
    for i, r in enumerate(rows):
        out.append(row_term(r, names, -1 if first_id is None else first_id + i))
    return "[" + "; ".join(out) + "]"


def opt_str(x, names):
    return optlit(x, names)
