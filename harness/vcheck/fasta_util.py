"""Shared pieces of the FASTA properties (C03 C04 C13 C14): generators of
FASTA byte strings, driving tola.fasta on temp files, term builders, and the
naive record-level oracle."""

import io
import os
import re
from pathlib import Path

from tola.assembly.assembly import Assembly
from tola.assembly.scaffold import Scaffold
from tola.fasta.index import FastaIndex, FastaInfo, index_fasta_file
from tola.fasta.stream import FastaStream

from . import asm as A
from . import core
from .core import listlit, optlit, zlit

RES_MIX = "ACGTacgtNNnn" + "RYKMSWBDHV" + "*-"


# ------------------------------------------------------------ generators
def gen_residues(rng, n, style=None):
    style = style or rng.choice(["acgt", "mixed", "nruns", "lower", "iupac"])
    if style == "acgt":
        return "".join(rng.choice("ACGT") for _ in range(n))
    if style == "lower":
        return "".join(rng.choice("ACGTacgt") for _ in range(n))
    if style == "iupac":
        return "".join(rng.choice(RES_MIX) for _ in range(n))
    if style == "mixed":
        return "".join(rng.choice("ACGTNacgtn") for _ in range(n))
    out = []
    while len(out) < n:
        run = rng.choice([1, 1, 2, 3, 5, 8, 13])
        ch = rng.choice(["N", "N", "n", None])
        for _ in range(run):
            out.append(ch or rng.choice("ACGT"))
    return "".join(out[:n])


def gen_fasta(rng, nrec=None, maxlen=40, widths=None, exotic=False):
    nrec = nrec or rng.choice([1, 1, 2, 3, 6])
    width = rng.choice(widths or [1, 2, 3, 4, 5, 7, 10, 60, 80])
    eol = rng.choice(["\n", "\n", "\r\n"])
    final_nl = rng.random() < 0.7
    recs = []
    for i in range(nrec):
        n = rng.choice([1, 2, width, width, 2 * width, 3 * width, width - 1, width + 1, rng.randint(1, maxlen)])
        n = max(1, n)
        recs.append({
            "name": rng.choice(["s", "scaffold_", "HAP1_SCAFFOLD_", "chr"]) + str(i + 1),
            "desc": rng.choice(["", "", " some description", "\tlen=5"]),
            "seq": gen_residues(rng, n),
        })
        if exotic and rng.random() < 0.15:
            # FS GS RS US are ordinary bytes for bytes.split() (white space only for str.split());
            # VT and FF do separate the name from the description
            recs[-1]["name"] = rng.choice(["s\x1c", "a\x1d_", "HiC_scaffold\x1f", "\x1e"]) + str(i + 1)
            recs[-1]["desc"] = rng.choice(["", " d", "\x0bvt", "\x0c ff", "\t\x1c"])
    return {"records": recs, "width": width, "eol": eol, "final_nl": final_nl}


def render(layout):
    out = []
    recs = layout["records"]
    for k, r in enumerate(recs):
        out.append(">" + r["name"] + r["desc"] + layout["eol"])
        s = r["seq"]
        w = layout["width"]
        lines = [s[i : i + w] for i in range(0, len(s), w)]
        for j, ln in enumerate(lines):
            last = k == len(recs) - 1 and j == len(lines) - 1
            out.append(ln + ("" if last and not layout["final_nl"] else layout["eol"]))
    return "".join(out)


MALFORMED_KINDS = ["blank", "ragged", "nohdr", "dup", "dupadj", "empty", "hdronly", "mixedeol", "gtinseq", "emptyrec", "spacehdr"]


def malformed(rng, kind=None):
    """byte strings outside the well-formed class: compared with the model on
    Ok/Err and full value, not judged by the oracle"""
    base = render(gen_fasta(rng, maxlen=12, widths=[2, 3, 4]))
    kind = kind or rng.choice(MALFORMED_KINDS)
    if kind == "blank":
        ls = base.split("\n")
        ls.insert(rng.randrange(len(ls)), "")
        return kind, "\n".join(ls)
    if kind == "ragged":
        return kind, base.replace("\n", "A\n", 1) + "ACGTACGTACGT\nAC\n"
    if kind == "nohdr":
        return kind, "ACGT\n" + base
    if kind == "dup":
        return kind, base + ("" if base.endswith("\n") else "\n") + base
    if kind == "dupadj":
        # the same name on two records that directly follow each other (first two, last two, or a
        # pair in the middle), the second copy with other residues
        lay = gen_fasta(rng, maxlen=12, widths=[2, 3, 4])
        recs = lay["records"]
        j = rng.randrange(len(recs))
        twin = {**recs[j], "seq": rng.choice([recs[j]["seq"], "ACGT", "N", recs[j]["seq"] + "A"])}
        lay = {**lay, "records": recs[: j + 1] + [twin] * rng.choice([1, 1, 2]) + recs[j + 1 :]}
        return kind, render(lay)
    if kind == "empty":
        return kind, rng.choice(["", "\n", "\n\n"])
    if kind == "hdronly":
        return kind, rng.choice([">a\n", ">a", ">\n", "> \n", ">a\n>b\nAC\n"])
    if kind == "mixedeol":
        return kind, base.replace("\n", "\r\n", 1)
    if kind == "gtinseq":
        return kind, base + "\nAC>GT\n"
    if kind == "emptyrec":
        return kind, ">e1\n>e2\nACGT\n"
    return kind, ">  s1 desc\nACGT\nAC\n"


# ------------------------------------------------------------ implementation
class Ctx:
    """a FASTA byte string on disk"""

    def __init__(self, pid, data: str):
        d = core.BUILD / pid / "tmp"
        d.mkdir(parents=True, exist_ok=True)
        self.path = d / f"f{os.getpid()}.fa"
        self.path.write_bytes(data.encode("latin-1"))
        for sfx in (".fai", ".agp"):
            p = Path(str(self.path) + sfx)
            if p.exists():
                p.unlink()

    def index(self, buf):
        try:
            idx, asm = index_fasta_file(self.path, buf)
        except Exception as e:
            return {"err": type(e).__name__}
        return {
            "idx": [[n, i.length, i.file_offset, i.residues_per_line, i.max_line_length] for n, i in idx.items()],
            "asm": [{"name": s.name, "rows": [A.obj_to_row(r) for r in s.rows]} for s in asm.scaffolds],
            "header_ok": len(asm.header) == 1,
        }

    def fasta_index(self, idx, buf):
        fi = FastaIndex(self.path, buffer_size=buf)
        fi.index = {n: FastaInfo(a, b, c, d) for n, a, b, c, d in idx}
        return fi


def stream_impl(fi, scaffolds, L, earlier=None):
    """earlier = (gap character, line length, buffer size): the same index object has already streamed the same
    assembly with those settings (a soft-masked copy, say) -- which must leave nothing behind"""
    out = io.BytesIO()
    asm = Assembly("x")
    for sc in scaffolds:
        asm.add_scaffold(A.scaffold_to_obj(sc))
    if earlier:
        keep = fi.buffer_size
        try:
            fi.buffer_size = earlier[2]
            FastaStream(io.BytesIO(), fi, line_length=earlier[1], gap_character=earlier[0]).write_assembly(asm)
        except Exception:
            pass
        fi.buffer_size = keep
    try:
        FastaStream(out, fi, line_length=L).write_assembly(asm)
    except Exception as e:
        return {"err": type(e).__name__}
    return out.getvalue().decode("latin-1")


# ------------------------------------------------------------ terms
def idx_term(idx, names):
    return listlit(idx, lambda i: f"({names(i[0])}, ({zlit(i[1])}, {zlit(i[2])}, {zlit(i[3])}, {zlit(i[4])}))")


def asm_term(scs, names):
    return listlit(scs, lambda sc: f"({names(sc['name'])}, {A.rows_term(sc['rows'], names)})")


def opt_bytes(o, names):
    return "None" if isinstance(o, dict) else f"(Some {names(o)})"


# ------------------------------------------------------------ naive oracle
def expect_index(layout):
    """faidx quintuples and run-length assembly straight from the records"""
    idx = []
    asm = []
    pos = 0
    eol = layout["eol"]
    w = layout["width"]
    for r in layout["records"]:
        pos += len(">" + r["name"] + r["desc"] + eol)
        s = r["seq"]
        rpl = min(w, len(s))
        idx.append([r["name"], len(s), pos, rpl, rpl + len(eol)])
        nlines = (len(s) + w - 1) // w
        pos += len(s) + nlines * len(eol)
        rows = []
        for m in re.finditer(r"[ACGTacgt]+|[^ACGTacgt]+", s):
            if m.group(0)[0] in "ACGTacgt":
                rows.append(["F", r["name"], m.start() + 1, m.end(), 1, []])
            else:
                rows.append(["G", m.end() - m.start(), "scaffold"])
        asm.append({"name": r["name"], "rows": rows})
    return idx, asm


COMP = {a: b for a, b in zip("ACGTRYMKSWHBVDNacgtrymkswhbvdn", "TGCAYRKMSWDVBHNtgcayrkmswdvbhn")}


def revcomp(s):
    return "".join(COMP.get(c, c) for c in reversed(s))


def expect_stream(seqs, scaffolds, L, gap_char="N"):
    out = []
    for sc in scaffolds:
        body = []
        for r in sc["rows"]:
            if r[0] == "G":
                body.append(gap_char * max(0, r[1]))
            else:
                piece = seqs[r[1]][r[2] - 1 : r[3]]
                body.append(revcomp(piece) if r[4] == -1 else piece)
        body = "".join(body)
        out.append(">" + sc["name"] + "\n")
        for i in range(0, len(body), L):
            out.append(body[i : i + L] + "\n")
    return "".join(out)
