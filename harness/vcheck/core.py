"""Shared machinery of the checks: Coq build / proof step, generated case
files evaluated inside Coq, verdict protocol, evidence and replay files."""

from __future__ import annotations

import fcntl
import hashlib
import json
import os
import re
import shutil
import subprocess
import sys
import time
from concurrent.futures import ThreadPoolExecutor
from pathlib import Path

VERIF = Path(__file__).resolve().parents[2]
COQ = VERIF / "coq"
EVIDENCE = VERIF / "evidence"
REPLAYS = EVIDENCE / "replays"
CORPUS = VERIF / "corpus"
REPO = Path(os.environ.get("VERIF_REPO", "/repo"))
# scratch space: one tree per repository under test, so that a run against a scratch worktree
# (seeded change, refactoring) never shares temporary files with a run against /repo
BUILD = VERIF / "build" if str(REPO) == "/repo" else VERIF / "build" / ("alt_" + re.sub(r"\W+", "_", str(REPO)).strip("_"))

FORBIDDEN = re.compile(
    r"\b(Admitted|admit|Axiom|Axioms|Parameter|Parameters|Conjecture|Conjectures|"
    r"Admit\s+Obligations|bypass_check|native_compute)\b|Unset\s+Guard\s+Checking|"
    r"Unset\s+Positivity|Unset\s+Universe\s+Checking|-type-in-type|-impredicative-set"
)

CASES_PER_FILE = 150
JOBS = int(os.environ.get("VERIF_JOBS", "16"))


def sh(cmd, timeout, cwd=None, env=None):
    p = subprocess.run(
        ["bash", "-c", "ulimit -s unlimited 2>/dev/null; " + cmd],
        cwd=cwd,
        env=env,
        capture_output=True,
        text=True,
        timeout=timeout,
    )
    return p.returncode, p.stdout + p.stderr


# --------------------------------------------------------------- proof step
def strip_coq_comments(txt: str) -> str:
    out = []
    depth = 0
    i = 0
    n = len(txt)
    while i < n:
        if txt.startswith("(*", i):
            depth += 1
            i += 2
        elif txt.startswith("*)", i) and depth:
            depth -= 1
            i += 2
        else:
            if not depth:
                out.append(txt[i])
            i += 1
    return "".join(out)


def grep_forbidden():
    """Admitted / Axiom / disabled checks anywhere in the development (comments
    and string literals excluded)."""
    hits = []
    for v in sorted((COQ / "theories").rglob("*.v")):
        txt = strip_coq_comments(v.read_text())
        txt = re.sub(r'"(?:[^"]|"")*"', '""', txt)
        for m in FORBIDDEN.finditer(txt):
            hits.append(f"{v.relative_to(COQ)}: {m.group(0)}")
        # Variable / Hypothesis / Context outside a Section would declare an axiom
        sections = []
        for m in re.finditer(r"(?m)^\s*(Section|End|Variables?|Hypothes[ie]s|Context)\b\s*([A-Za-z_0-9']*)", txt):
            kw, name = m.group(1), m.group(2)
            if kw == "Section":
                sections.append(name)
            elif kw == "End":
                if sections and sections[-1] == name:
                    sections.pop()
            elif not sections:
                hits.append(f"{v.relative_to(COQ)}: {kw} outside a Section")
    proj = (COQ / "_CoqProject").read_text()
    for m in FORBIDDEN.finditer(proj):
        hits.append(f"_CoqProject: {m.group(0)}")
    return hits


def coq_make(target: str | None = None, timeout=1500):
    """Full .vo build (no -vos) of the development, serialised by a lock."""
    COQ.mkdir(exist_ok=True)
    with open(COQ / ".build.lock", "w") as lock:
        fcntl.flock(lock, fcntl.LOCK_EX)
        if not (COQ / "Makefile").exists() or (COQ / "Makefile").stat().st_mtime < (
            COQ / "_CoqProject"
        ).stat().st_mtime:
            rc, out = sh("coq_makefile -f _CoqProject -o Makefile", 60, cwd=COQ)
            if rc:
                return rc, out
        tgt = target or "all"
        return sh(f"timeout {timeout} make -k -j{JOBS} {tgt}", timeout + 30, cwd=COQ)


def coqchk_step(pid: str):
    """independent re-check of Properties/<pid>.vo and everything it depends on"""
    rc, out = sh(f"timeout 1500 coqchk -o -silent -Q theories Tola Tola.Properties.{pid}", 1560, cwd=COQ)
    m = re.search(r"\* Axioms:(.*?)\n\s*\n", out, re.S)
    axioms = " ".join(m.group(1).split()) if m else "?"
    ok = rc == 0 and "<none>" in axioms and "type-in-type: <none>" in " ".join(out.split())
    return {"ok": ok, "rc": rc, "axioms": axioms, "summary": " ".join(out.split())[-400:]}


def proof_step(pid: str):
    """Re-check Properties/<pid>.v (its dependencies through make) and collect
    the Print Assumptions block of every property theorem."""
    t0 = time.time()
    info = {
        "property_file": f"coq/theories/Properties/{pid}.v",
        "theorems": [],
        "ok": False,
        "log": "",
    }
    hits = grep_forbidden()
    if hits:
        info["log"] = "forbidden constructs: " + "; ".join(hits)
        return info
    rc, out = coq_make()
    if rc:
        info["log"] = out[-4000:]
        # which file failed?
        m = re.search(r'File "\./(theories/[^"]+)"', out)
        info["broken"] = m.group(1) if m else "build"
        return info
    vfile = COQ / "theories" / "Properties" / f"{pid}.v"
    src = strip_coq_comments(vfile.read_text())
    names = re.findall(r"Print\s+Assumptions\s+(\w+)\s*\.", src)
    stmts = re.findall(r"\b(?:Theorem|Lemma)\s+(\w+)", src)
    rc, out = sh(
        f"timeout 600 coqc -Q theories Tola theories/Properties/{pid}.v", 660, cwd=COQ
    )
    if rc:
        info["log"] = out[-4000:]
        info["broken"] = f"theories/Properties/{pid}.v"
        return info
    blocks = re.split(r"(?m)^(?=Closed under the global context|Axioms:)", out)
    blocks = [b.strip() for b in blocks if b.strip().startswith(("Closed", "Axioms:"))]
    if len(blocks) != len(names) or not names:
        info["log"] = (
            f"expected {len(names)} Print Assumptions blocks, found {len(blocks)}"
        )
        info["broken"] = f"theories/Properties/{pid}.v"
        return info
    missing = [t for t in stmts if t not in names]
    if missing:
        info["log"] = "theorems without Print Assumptions: " + ", ".join(missing)
        info["broken"] = f"theories/Properties/{pid}.v"
        return info
    info["theorems"] = [
        {"name": n, "assumptions": " ".join(b.split())} for n, b in zip(names, blocks)
    ]
    info["ok"] = True
    info["wall_s"] = round(time.time() - t0, 2)
    return info


# ------------------------------------------------- Gallina term serialiser
def zlit(n: int) -> str:
    n = int(n)
    return f"({n})" if n < 0 else str(n)


def natlit(n: int) -> str:
    assert 0 <= n < 5000, n
    return f"{n}%nat"


def blit(b: bool) -> str:
    return "true" if b else "false"


def optlit(x, f) -> str:
    return "None" if x is None else f"(Some {f(x)})"


def listlit(xs, f=lambda x: x) -> str:
    return "[" + "; ".join(f(x) for x in xs) + "]"


class Names:
    """Per-file table of string constants: each distinct Python str / ASCII
    bytes value is bound once (string literals are the slow part of
    elaboration)."""

    def __init__(self):
        self.table = {}

    def __call__(self, txt) -> str:
        if isinstance(txt, bytes):
            txt = txt.decode("latin-1")
        if txt not in self.table:
            self.table[txt] = f"n{len(self.table)}"
        return self.table[txt]

    @staticmethod
    def literal(txt: str) -> str:
        if all(c == "\t" or c == "\n" or c == "\r" or 32 <= ord(c) < 127 for c in txt):
            return '(s "' + txt.replace('"', '""') + '")'
        # arbitrary bytes: spell the codes out
        return (
            "(map (fun n => ascii_of_N n) ["
            + "; ".join(f"{ord(c)}%N" for c in txt)
            + "])"
        )

    def definitions(self) -> str:
        return "".join(
            f"Definition {v} : str := {self.literal(k)}.\n"
            for k, v in self.table.items()
        )


def parse_nat_list(out: str):
    m = re.search(r"=\s*(\[.*?\])\s*:\s*list nat", out, re.S)
    if not m:
        return None
    return [int(x) for x in re.findall(r"\d+", m.group(1))]


def run_case_files(pid: str, imports: str, case_type: str, check_fn: str, cases, tag="cases"):
    """cases: list of (names_user -> term text) callables or prepared
    (term_builder) objects.  Each element is a function taking a Names table
    and returning the Gallina term of type [case_type].  Returns
    (mismatching indices, stats)."""
    bdir = BUILD / pid
    bdir.mkdir(parents=True, exist_ok=True)
    files = []
    for k in range(0, len(cases), CASES_PER_FILE):
        chunk = cases[k : k + CASES_PER_FILE]
        names = Names()
        terms = [c(names) for c in chunk]
        body = (
            f"{imports}\n"
            + names.definitions()
            + f"Definition cases : list {case_type} := [\n"
            + ";\n".join(terms)
            + "\n].\n"
            + f"Eval vm_compute in (mismatches {check_fn} cases).\n"
        )
        f = bdir / f"{tag}_{k // CASES_PER_FILE}.v"
        f.write_text(body)
        files.append((k, f))

    def one(item):
        k, f = item
        rc, out = sh(f"timeout 900 coqc -Q {COQ}/theories Tola {f.name}", 960, cwd=bdir)
        return k, f, rc, out

    mism = []
    errors = []
    kb = sum(f.stat().st_size for _, f in files) // 1024
    t0 = time.time()
    with ThreadPoolExecutor(max_workers=JOBS) as ex:
        for k, f, rc, out in ex.map(one, files):
            idx = parse_nat_list(out) if rc == 0 else None
            if idx is None:
                errors.append((f.name, out[-1500:]))
            else:
                mism.extend(k + i for i in idx)
    stats = {"case_files": len(files), "case_kb": kb, "coq_eval_s": round(time.time() - t0, 2)}
    return sorted(mism), errors, stats


def eval_in_coq(pid: str, imports: str, names_defs: str, term: str) -> str:
    """Value of one Gallina term, as Coq prints it (for replay files)."""
    bdir = BUILD / pid
    bdir.mkdir(parents=True, exist_ok=True)
    f = bdir / "show.v"
    f.write_text(f"{imports}\n{names_defs}\nEval vm_compute in ({term}).\n")
    rc, out = sh(f"timeout 300 coqc -Q {COQ}/theories Tola {f.name}", 330, cwd=bdir)
    return " ".join(out.split())[:6000]


# ------------------------------------------------------ findings, evidence
def load_known_findings():
    p = VERIF / "known_findings.json"
    if p.exists():
        return json.loads(p.read_text())
    return {"known": [], "fixed": []}


def write_replay(pid: str, payload: dict) -> Path:
    REPLAYS.mkdir(parents=True, exist_ok=True)
    blob = json.dumps(payload, sort_keys=True, default=str)
    h = hashlib.sha1(blob.encode()).hexdigest()[:10]
    path = REPLAYS / f"{pid}-{h}.json"
    path.write_text(json.dumps(payload, indent=1, default=str))
    return path


def write_evidence(pid: str, ev: dict):
    EVIDENCE.mkdir(exist_ok=True)
    (EVIDENCE / f"{pid}.json").write_text(json.dumps(ev, indent=1, default=str) + "\n")


def clean_build(pid: str):
    shutil.rmtree(BUILD / pid, ignore_errors=True)


def eprint(*a):
    print(*a, file=sys.stderr, flush=True)
