"""Shared pieces of the pipeline properties (C01 C02 C07-C11 C17): input
assemblies, the PretextView model of edit scripts, garbage maps, driving
BuildAssembly, Gallina terms."""

import logging
from fractions import Fraction

logging.disable(logging.CRITICAL)

from tola.assembly.assembly import Assembly
from tola.assembly.build_assembly import BuildAssembly
from tola.assembly.gap import Gap
from tola.assembly.indexed_assembly import IndexedAssembly
from tola.assembly.scaffold import Scaffold

from . import asm as A
from .core import blit, listlit, optlit, zlit

PGAP = ["G", 100, "scaffold"]


def row_len(r):
    return r[3] - r[2] + 1 if r[0] == "F" else r[1]


def sc_len(sc):
    return sum(row_len(r) for r in sc["rows"])


# ------------------------------------------------------------ input assemblies
def gen_input(rng, style=None, nscaf=None, hap_names=False, maxrows=8, both_strands=True, double_gaps=0.0):
    style = style or rng.choice(["fasta", "tpf", "tpf"])
    nscaf = nscaf or rng.randint(1, 5)
    scs = []
    ctg = 0
    for k in range(nscaf):
        if hap_names:
            name = f"{rng.choice(['HAP1', 'HAP2', 'Hap1'])}_SCAFFOLD_{k + 1}"
        else:
            name = rng.choice(["scaffold_", "scf", "ptg"]) + str(k + 1)
        rows = []
        pos = 0
        nrows = rng.randint(1, maxrows)
        for j in range(nrows):
            ln = rng.choice([1, 2, 3, 10, 50, 200, 1000, rng.randint(1, 400), rng.randint(100, 10000)])
            if j > 0:
                if style == "fasta" or rng.random() < 0.75:
                    g = rng.choice([1, 10, 100, 200, 200, 500])
                    rows.append(["G", g, rng.choice(["scaffold", "scaffold", "contig"]) if style != "fasta" else "scaffold"])
                    pos += g
                    if style != "fasta" and rng.random() < double_gaps:
                        if rng.random() < 0.4:
                            # the very same gap twice (two identical lines in a TPF)
                            rows.append(list(rows[-1]))
                            pos += g
                        else:
                            g2 = rng.choice([1, 5, 100])
                            rows.append(["G", g2, "contig"])
                            pos += g2
            if style == "fasta":
                rows.append(["F", name, pos + 1, pos + ln, 1, []])
            else:
                ctg += 1
                off = rng.choice([0, 0, 0, 17, 1000])
                strand = rng.choice([1, 1, -1]) if both_strands else 1
                rows.append(["F", f"ctg{ctg}", off + 1, off + ln, strand, []])
            pos += ln
        scs.append({"name": name, "rows": rows})
    return {"scaffolds": scs}


# ------------------------------------------------------------ PretextView model
def scale_input(inp, k):
    """the same assembly with every length multiplied by k (fragments keep abutting / overlapping as before)"""
    return {"scaffolds": [{"name": sc["name"], "rows": [
        ["G", r[1] * k, r[2]] if r[0] == "G" else ["F", r[1], (r[2] - 1) * k + 1, r[3] * k, r[4], list(r[5])]
        for r in sc["rows"]]} for sc in inp["scaffolds"]]}


def choose_bpt(rng, total):
    ntex = rng.choice([3, 8, 20, 64, 200, 1000, 32768])
    if rng.random() < 0.12:
        return "1.000000"
    v = max(Fraction(1), Fraction(total, ntex))
    return f"{float(v):.6f}"


def tx(bpt: Fraction, k: int) -> int:
    return int(k * bpt)  # floor for non-negative values


def gen_pieces(rng, inp, bpt_str, cut_prob=0.6, absent_prob=0.5):
    """pieces of every input scaffold on the texel grid; returns list of dicts"""
    bpt = Fraction(bpt_str)
    pieces = []
    for si, sc in enumerate(inp["scaffolds"]):
        L = sc_len(sc)
        q = Fraction(L) / bpt
        nt = int(q) if (rng.random() < 0.5 or q == int(q)) else int(q) + 1
        if nt == 0:
            if rng.random() < absent_prob:
                continue
            nt = 1
        ks = [0]
        if nt >= 4 and rng.random() < cut_prob:
            ncuts = rng.randint(1, min(4, nt // 2 - 1))
            cand = list(range(2, nt - 1))
            rng.shuffle(cand)
            chosen = []
            for c in cand:
                if all(abs(c - d) >= 2 for d in chosen):
                    chosen.append(c)
                if len(chosen) == ncuts:
                    break
            ks += sorted(chosen)
        ks.append(nt)
        for a, b in zip(ks, ks[1:]):
            pieces.append({"src": si, "name": sc["name"], "ka": a, "kb": b, "nt": nt,
                           "start": tx(bpt, a) + 1, "end": tx(bpt, b), "whole": len(ks) == 2})
    return pieces


def gen_pretext(rng, inp, profile="edit", tagger=None, max_texels=None):
    total = sum(sc_len(sc) for sc in inp["scaffolds"])
    bpt_str = choose_bpt(rng, max(total, 1))
    if max_texels and total / float(bpt_str) > max_texels:
        bpt_str = f"{float(Fraction(total, max_texels)):.6f}"
    if profile == "null":
        pieces = gen_pieces(rng, inp, bpt_str, cut_prob=0.0)
        groups = [[p] for p in pieces]
        for p in pieces:
            p["strand"] = 1
    else:
        pieces = gen_pieces(rng, inp, bpt_str)
        order = list(pieces)
        if rng.random() < 0.8:
            rng.shuffle(order)
        groups = []
        i = 0
        while i < len(order):
            n = rng.choice([1, 1, 2, 3, 4])
            groups.append(order[i : i + n])
            i += n
        for p in pieces:
            p["strand"] = rng.choice([1, 1, -1])
    scs = []
    for gi, grp in enumerate(groups):
        painted = profile != "null" and rng.random() < 0.6
        rows = []
        for j, p in enumerate(grp):
            if j:
                rows.append(list(PGAP))
            tags = ["Painted"] if painted else []
            p["dest"] = gi
            p["dest_pos"] = j
            p["painted"] = painted
            p["tags"] = tags
            rows.append(["F", p["name"], p["start"], p["end"], p["strand"], tags])
        scs.append({"name": f"Scaffold_{gi + 1}", "rows": rows})
    ptx = {"bpt": bpt_str, "scaffolds": scs}
    if tagger:
        tagger(rng, ptx, groups)
    return ptx, pieces


def gen_primary_3hap(rng):
    """Primary mode with two further haplotypes that both hold a chromosome of the same name (X) and an
    unplaced scaffold: pretext-to-asm merges the two into one all_haplotigs FILE, which then lists the
    name twice -- every scaffold of every haplotype must still arrive, each as its own record"""
    scs, ptx = [], []
    for h, hap in enumerate(["HAP1", "HAP2", "HAP3"]):
        for k in (1, 2):
            nm = f"{hap}_SCAFFOLD_{k}"
            n1, n2 = rng.randint(300, 900), rng.randint(300, 900)
            gl = rng.choice([7, 57, 100, 150, 333])   # every scaffold its own gap length (and type)
            scs.append({"name": nm, "rows": [["F", nm, 1, n1, 1, []], ["G", gl, rng.choice(["scaffold", "contig"])], ["F", nm, n1 + gl + 1, n1 + gl + n2, 1, []]]})
            tags = (["Painted", "Primary"] if h == 0 else ["Painted", hap.capitalize(), "X"]) if k == 1 else ([] if h == 0 else [hap.capitalize()])
            ptx.append({"name": f"Scaffold_{len(ptx) + 1}", "rows": [["F", nm, 1, n1 + gl + n2, rng.choice([1, -1]), tags]]})
    return {"gen": "primary-3hap", "input": {"scaffolds": scs}, "pretext": {"bpt": "1.000000", "scaffolds": ptx},
            "prefix": "SUPER_", "out_name": rng.choice(["xx.1.tpf", "xx.1.agp"])}


def gen_garbage(rng, inp, ptx):
    """perturb a PretextView-model map: shifted / dropped / duplicated /
    overlapping / out-of-range pieces, unknown scaffold names"""
    scs = [{"name": s["name"], "rows": [list(r) for r in s["rows"]]} for s in ptx["scaffolds"]]
    frs = [(i, j) for i, s in enumerate(scs) for j, r in enumerate(s["rows"]) if r[0] == "F"]
    if not frs:
        return ptx
    for _ in range(rng.randint(1, 3)):
        i, j = rng.choice(frs)
        r = scs[i]["rows"][j]
        kind = rng.choice(["shift", "grow", "shrink", "dup", "unknown", "beyond", "tiny", "flip"])
        if kind == "shift":
            d = rng.choice([-30, -3, -1, 1, 2, 30])
            r[2], r[3] = max(1, r[2] + d), max(1, r[2] + d, r[3] + d)
        elif kind == "grow":
            r[3] += rng.choice([1, 5, 100])
            r[2] = max(1, r[2] - rng.choice([0, 1, 50]))
        elif kind == "shrink":
            if r[3] - r[2] > 4:
                r[2] += rng.choice([1, 2])
                r[3] -= rng.choice([0, 1, 2])
        elif kind == "dup":
            scs[rng.randrange(len(scs))]["rows"] += [list(PGAP), list(r)]
        elif kind == "unknown":
            r[1] = "nosuch_" + r[1]
        elif kind == "beyond":
            r[2] += 10**6
            r[3] += 10**6
        elif kind == "tiny":
            r[3] = r[2]
        elif kind == "flip":
            r[4] = -r[4]
    return {"bpt": ptx["bpt"], "scaffolds": scs}


def gen_random_baits(rng, inp):
    """arbitrary bait lists: random intervals on input scaffolds"""
    total = sum(sc_len(sc) for sc in inp["scaffolds"])
    bpt_str = choose_bpt(rng, max(total, 1))
    scs = []
    for gi in range(rng.randint(1, 4)):
        rows = []
        for j in range(rng.randint(1, 4)):
            sc = rng.choice(inp["scaffolds"])
            L = sc_len(sc)
            a = rng.randint(1, L)
            b = rng.randint(a, min(L + 5, a + rng.choice([0, 3, 50, L])))
            if rows:
                rows.append(list(PGAP))
            rows.append(["F", sc["name"], a, b, rng.choice([1, -1]), rng.choice([[], ["Painted"]])])
        scs.append({"name": f"Scaffold_{gi + 1}", "rows": rows})
    return {"bpt": bpt_str, "scaffolds": scs}


# ------------------------------------------------------------ implementation
OUT_NAMES = ["asm.fa", "idFooBar1.2.fa", "xyz.1.agp", "a.b.3.tpf", "out.fasta", "OUT.FA", "o.12.agp2", "x.fa.gz",
             "v.tpf", ".5.agp", "n.007.tpf", "asm.1.primary.fa", "q.TPF", "r.4.Agp", "noext", "t.3.fa~", "w..9.tpf",
             "u.1.2.agp", "z.fa_old", "k.10.tpf_v2"]


def choose_out_name(case):
    if case.get("out_name"):
        return case["out_name"]
    h = sum(sc_len(sc) for sc in case["input"]["scaffolds"]) + 7 * len(case["pretext"]["scaffolds"])
    return OUT_NAMES[h % len(OUT_NAMES)]


class _Sink:
    def __init__(self, binary):
        self.parts = []
        self.binary = binary

    def write(self, x):
        self.parts.append(x)
        return len(x)

    def __enter__(self):
        return self

    def __exit__(self, *a):
        return False

    def close(self):
        pass

    def flush(self):
        pass

    def text(self):
        if self.binary:
            return b"".join(self.parts).decode("latin-1")
        return "".join(self.parts)


def run_cli_plan(case, out_name):
    """the case once more, through pretext_to_asm.cli itself: the two input files are replaced by the generated
    assemblies and get_output_filehandle by a recorder, everything else is the real command"""
    from pathlib import Path

    from tola.assembly.scripts import pretext_to_asm as M

    inp = A.assembly_to_obj(case["input"], "input")
    ptx_json = case["pretext"]
    hdr = list(ptx_json.get("header", []))
    if ptx_json.get("bpt") is not None:
        hdr.append(f"HiC MAP RESOLUTION: {ptx_json['bpt']} bp/texel")
    ptx = A.assembly_to_obj({"header": hdr, "scaffolds": ptx_json["scaffolds"]}, "pretext")
    feed = iter([(inp, None), (ptx, None)])
    opens, sinks = [], {}

    def rec(path, clobber, mode=""):
        opens.append(path)
        sinks[path.name] = _Sink("b" in mode)
        return sinks[path.name]

    out_dir = Path("/nonexistent-verif-dir/out")
    saved = (M.parse_assembly_file, M.get_output_filehandle, M.page_messages)
    M.parse_assembly_file = lambda path, default_format=None: next(feed)
    M.get_output_filehandle = rec
    M.page_messages = lambda itr: None
    res = {"name": out_name, "fai": False}
    try:
        M.cli.callback(assembly_file=Path("in.tpf"), pretext_file=Path("pretext.agp"), output_file=out_dir / out_name,
                       autosome_prefix=case.get("prefix", "SUPER_"), clobber=True, log_level="CRITICAL",
                       write_log=False)
        res["end"] = 0
    except SystemExit:
        res["end"] = 1
    except Exception as e:
        res["end"] = 2
        res["end_err"] = type(e).__name__
    finally:
        M.parse_assembly_file, M.get_output_filehandle, M.page_messages = saved
        root = logging.getLogger()
        for h in list(root.handlers):
            root.removeHandler(h)
    res["opens"] = [p.name if p.parent == out_dir else str(p) for p in opens]
    rep = [n for n in sinks if n.endswith(".chr_report.csv")]
    res["report"] = sinks[rep[0]].text() if rep else None
    res["csvs"] = [[n, sinks[n].text()] for n in res["opens"] if n.endswith(".chromosome.list.csv")]
    ym = [n for n in sinks if n.endswith(".info.yaml")]
    res["yaml"] = sinks[ym[0]].text() if ym else None
    # the assembly files themselves (AGP / TPF text as written), in the order they were opened
    res["files"] = [[n, sinks[n].text()] for n in res["opens"]
                    if n in sinks and n.lower().endswith((".agp", ".tpf")) and not n.endswith(".fa.agp")]
    return res


def written_assemblies(obs):
    """the assembly files of the CLI plan read back with the repository's own parsers:
    [(file name, scaffolds as JSON)], or None when the plan wrote none (FASTA output name, early exit)"""
    pl = obs.get("plan")
    if not pl or pl.get("end") != 0 or not pl.get("files"):
        return None
    import io

    from tola.assembly.parser import parse_agp, parse_tpf

    out = []
    for name, text in pl["files"]:
        fn = parse_tpf if name.lower().endswith(".tpf") else parse_agp
        try:
            a = A.obj_to_assembly(fn(io.StringIO(text), name))
        except Exception as e:
            out.append((name, {"err": f"{type(e).__name__}: {e}"[:200]}))
            continue
        out.append((name, a["scaffolds"]))
    return out


def file_level(case, obs):
    """what must hold of the FILES one run writes, whatever the in-memory assemblies look like: no file
    is opened twice, every file parses back, scaffold names are unique within a file, and the files
    together hold every input contig base exactly once"""
    pl = obs.get("plan")
    if not pl or pl.get("end") != 0:
        return None
    if len(set(pl["opens"])) != len(pl["opens"]):
        dup = sorted({n for n in pl["opens"] if pl["opens"].count(n) > 1})
        return f"output file(s) {dup} opened twice in one run (the second assembly overwrites the first)"
    files = written_assemblies(obs)
    if files is None:
        return None
    frs = []
    for name, scs in files:
        if isinstance(scs, dict):
            return f"written file {name} cannot be parsed back: {scs['err']}"
        frs += [(name, s["name"], r) for s in scs for r in s["rows"] if r[0] == "F"]
    fake = {"asms": [{"key": n, "scaffolds": scs} for n, scs in files]}
    w = conservation(case["input"], fake)
    if w:
        return "in the files written by pretext-to-asm: " + w
    return None


def via_text(case):
    """a third of the cases read their input assembly the way the command does: from AGP text through the
    parser (rows added one by one), not from ready-made objects"""
    if "via_text" in case:
        return bool(case["via_text"])
    h = sum(sc_len(sc) for sc in case["input"]["scaffolds"]) + 3 * len(case["pretext"]["scaffolds"])
    return h % 3 == 0


def input_assembly(case):
    inp = A.assembly_to_obj(case["input"], "input")
    if via_text(case):
        import io

        from tola.assembly.format import format_agp, format_tpf
        from tola.assembly.parser import parse_agp, parse_tpf

        try:
            buf = io.StringIO()
            rows_ = [r for sc in case["input"]["scaffolds"] for r in sc["rows"]]
            tpf_able = (all(r[0] == "G" or (r[4] in (1, -1) and not r[5] and r[2] >= 0) for r in rows_)
                        and all(sc["rows"] and sc["rows"][0][0] == "F" for sc in case["input"]["scaffolds"])
                        and all(r[0] == "F" or r[2] in ("scaffold", "contig") for r in rows_))
            if tpf_able and sum(len(sc["rows"]) for sc in case["input"]["scaffolds"]) % 2 == 0:
                format_tpf(inp, buf)
                again = parse_tpf(io.StringIO(buf.getvalue()), "input")
            else:
                format_agp(inp, buf)
                again = parse_agp(io.StringIO(buf.getvalue()), "input")
            # only for plain names and tags (what AGP text carries faithfully is C05's matter); whether the
            # reader then builds the same assembly is part of what is under test here
            import re as _re

            plain = _re.compile(r"[A-Za-z0-9_.:|-]+\Z")
            words = [sc["name"] for sc in case["input"]["scaffolds"]] + [
                w for sc in case["input"]["scaffolds"] for r in sc["rows"] for w in ([r[1]] + list(r[5]) if r[0] == "F" else [r[2]])]
            names_ = [sc["name"] for sc in case["input"]["scaffolds"]]
            if (all(plain.match(w) for w in words) and all(sc["rows"] for sc in case["input"]["scaffolds"])
                    and all(a_ != b_ for a_, b_ in zip(names_, names_[1:]))):
                return again
        except Exception:
            pass
    return inp


def run_pipeline(case):
    inp = input_assembly(case)
    ptx_json = case["pretext"]
    hdr = list(ptx_json.get("header", []))
    if ptx_json.get("bpt") is not None:
        hdr.append(f"HiC MAP RESOLUTION: {ptx_json['bpt']} bp/texel")
    ptx = A.assembly_to_obj({"header": hdr, "scaffolds": ptx_json["scaffolds"]}, "pretext")
    # HISTORY: what happened earlier in the same process, on the same loaded objects, must leave nothing behind.
    #   target_first  an earlier Target-mode remap (showing only the first scaffold) on the same INDEXED input
    #   flipped_first an earlier remap of the same map with every piece on the opposite strand, untagged
    #   retag         the Pretext scaffolds were first remapped untagged, then re-tagged IN PLACE (rows[i] = ...)
    #   other_file_first an unrelated AGP with capitalised gap types was parsed earlier in the process
    #   labelled_input the input Scaffold objects are the output of an earlier round in this process and still
    #                 carry its labels (tag / haplotype / rank); only the rows are input
    history = case.get("history") or ("target_first" if case.get("pre_run") else None)
    input_asm = None
    if history == "other_file_first":
        # an unrelated AGP read earlier in the process, its gap types spelled with capitals (free text in AGP):
        # interned / cached objects of that file must not leak into this run
        import io as _io

        from tola.assembly.parser import parse_agp as _pa

        try:
            _pa(_io.StringIO("".join(f"zz\t{1 + 2 * k}\t{2 + 2 * k}\t{k + 1}\tU\t{n}\t{t}\tyes\tproximity_ligation\n"
                                      for k, (n, t) in enumerate((n, t) for n in (1, 5, 10, 100, 200, 500) for t in ("Scaffold", "CONTIG")))
                               .replace("zz\t1\t2\t1\tU", "zz\t1\t2\t1\tW\tq\t1\t2\t+\nzz\t1\t2\t1\tU", 1)), "other")
        except Exception:
            pass
        history = None
    if history == "labelled_input":
        for k_, sc_ in enumerate(inp.scaffolds):
            sc_.tag, sc_.haplotype, sc_.rank = ("Haplotig", "Contaminant", None)[k_ % 3], ("HapZ", None)[k_ % 2], (3, 1, 2)[k_ % 3]
        history = None
    try:
        input_asm = IndexedAssembly.new_from_assembly(inp)
    except Exception:
        pass
    if history and input_asm is not None:
        try:
            if history == "target_first":
                first = case["input"]["scaffolds"][0]
                pre = A.assembly_to_obj({"header": ["HiC MAP RESOLUTION: 1.000000 bp/texel"], "scaffolds": [
                    {"name": "Scaffold_1", "rows": [["F", first["name"], 1, max(1, sc_len(first)), 1, ["Painted", "Target"]]]}]}, "pre")
            elif history == "flipped_first":
                pre = A.assembly_to_obj({"header": hdr, "scaffolds": [
                    {"name": sc["name"], "rows": [r if r[0] == "G" else [r[0], r[1], r[2], r[3], -r[4] if r[4] else 1, []] for r in sc["rows"]]}
                    for sc in ptx_json["scaffolds"]]}, "pre")
            else:
                # the very Pretext objects of the real run, tags stripped for now
                from tola.assembly.fragment import Fragment as _F

                tagged = [list(sc.rows) for sc in ptx.scaffolds]
                for sc in ptx.scaffolds:
                    for i, r in enumerate(sc.rows):
                        if isinstance(r, _F):
                            sc.rows[i] = _F(r.name, r.start, r.end, r.strand)
                pre = ptx
            b0 = BuildAssembly("pre", default_gap=Gap(200, "scaffold"), autosome_prefix="SUPER_")
            try:
                b0.remap_to_input_assembly(pre, input_asm)
                b0.assemblies_with_scaffolds_fused()
            except Exception:
                pass
            if history == "retag":
                for sc, rows in zip(ptx.scaffolds, tagged):
                    for i, r in enumerate(rows):
                        sc.rows[i] = r
        except Exception:
            pass
    try:
        if input_asm is None:
            input_asm = IndexedAssembly.new_from_assembly(inp)
        build = BuildAssembly("out", default_gap=Gap(200, "scaffold"), autosome_prefix=case.get("prefix", "SUPER_"))
        build.remap_to_input_assembly(ptx, input_asm)
        out = build.assemblies_with_scaffolds_fused()
    except Exception as e:
        return {"err": type(e).__name__, "msg": str(e)[:300]}
    st = build.assembly_stats
    extra = {}
    if case.get("twice"):
        # asking the same BuildAssembly for its fused assemblies a second time must give the same answer
        def summary(o):
            return ([(k, [(s.name, [A.obj_to_row(r) for r in s.rows]) for s in a.scaffolds]) for k, a in o.items()],
                    st.cuts, st.breaks, st.joins)
        first = summary(out)
        try:
            second = summary(build.assemblies_with_scaffolds_fused())
            extra["second_call"] = None if second == first else {
                "first": [first[1], first[2], first[3]], "second": [second[1], second[2], second[3]],
                "rows_differ": second[0] != first[0]}
        except Exception as e:
            extra["second_call"] = {"err": type(e).__name__}
    extra["csv"] = [[k, st.chromosome_name_csv(a)] for k, a in out.items() if a.curated]
    if case.get("want_csv"):
        try:
            extra["report"] = st.chromosomes_report_csv(out)
        except Exception as e:
            extra["csv_err"] = type(e).__name__
    res = {
        **extra,
        "asms": [
            {
                "key": k,
                "curated": bool(a.curated),
                "scaffolds": [
                    {"name": s.name, "tag": s.tag, "hap": s.haplotype, "rank": s.rank, "orig": s.original_name,
                     "orig_tags": sorted(s.original_tags or ()), "rows": [A.obj_to_row(r) for r in s.rows]}
                    for s in a.scaffolds
                ],
            }
            for k, a in out.items()
        ],
        "cuts": st.cuts,
        "breaks": st.breaks,
        "joins": st.joins,
        "per": [[k, [v["manual_breaks"], v["manual_joins"]]] for k, v in st.per_assembly_stats.items()],
    }
    if case.get("plan", True) and sum(len(sc["rows"]) for sc in case["input"]["scaffolds"]) <= 400:
        res["plan"] = run_cli_plan(case, choose_out_name(case))
    # last, because it renames and re-flags the assembly objects in place
    from tola.assembly.scripts.pretext_to_asm import name_assemblies

    try:
        named = name_assemblies(out, "rt", "2")
        res["named"] = [[k, a.name, bool(a.curated), [s.name for s in a.scaffolds]] for k, a in named.items()]
    except Exception as e:
        res["named"] = None
        res["named_err"] = type(e).__name__
    return res


# ------------------------------------------------------------ terms
def scs_term(scs, names):
    return listlit(scs, lambda sc: f"({names(sc['name'])}, {A.rows_term(sc['rows'], names)})")


def obs_term(o, names):
    if "err" in o:
        return "None"

    def sc(s_):
        return (f"(mkOS {names(s_['name'])} {optlit(s_['tag'], names)} {optlit(s_['hap'], names)} "
                f"{zlit(s_['rank'])} {optlit(s_['orig'], names)} {A.rows_term(s_['rows'], names)})")

    def asm(a):
        return f"(mkOA {optlit(a['key'], names)} {blit(a['curated'])} {listlit(a['scaffolds'], sc)})"

    per = listlit(o["per"], lambda p: f"({names(p[0])}, ({zlit(p[1][0])}, {zlit(p[1][1])}))")
    csv = listlit(o.get("csv", []), lambda p: f"({optlit(p[0], names)}, {optlit(p[1], names)})")
    nm = optlit(o.get("named"), lambda l: listlit(
        l, lambda n: f"({optlit(n[0], names)}, {names(n[1])}, {blit(n[2])}, {listlit(n[3], names)})"))
    pl = optlit(o.get("plan"), lambda q: (
        f"(mkOP {names(q['name'])} {blit(q['fai'])} {listlit(q['opens'], names)} {zlit(q['end'])} "
        f"{optlit(q['report'], names)} " + listlit(q["csvs"], lambda c: f"({names(c[0])}, {names(c[1])})") + ")"))
    return (f"(Some (mkOO {listlit(o['asms'], asm)} {zlit(o['cuts'])} {zlit(o['breaks'])} "
            f"{zlit(o['joins'])} {per} {csv} {nm} {pl}))")


def case_term(case, obs):
    def t(names):
        bpt = Fraction(case["pretext"]["bpt"])
        return (
            f"mkCase {scs_term(case['input']['scaffolds'], names)} "
            f"{scs_term(case['pretext']['scaffolds'], names)} ({bpt.numerator}, {bpt.denominator}) "
            f"{names(case.get('prefix', 'SUPER_'))} {obs_term(obs, names)}"
        )
    return t


# ------------------------------------------------------------ oracle helpers
def input_contigs(inp):
    return [r for sc in inp["scaffolds"] for r in sc["rows"] if r[0] == "F"]


def out_fragments(obs):
    return [(a["key"], s["name"], r) for a in obs["asms"] for s in a["scaffolds"] for r in s["rows"] if r[0] == "F"]


def conservation(inp, obs):
    """every base of every input contig in exactly one output fragment, every
    output fragment a sub-interval of one input contig of that name"""
    contigs = input_contigs(inp)
    by_name = {}
    for c in contigs:
        by_name.setdefault(c[1], []).append(c)
    events = {}
    for _, scname, f in out_fragments(obs):
        hosts = [c for c in by_name.get(f[1], []) if c[2] <= f[2] and f[3] <= c[3]]
        if not hosts:
            return f"output fragment {f[1]}:{f[2]}-{f[3]} in {scname} is not inside any input contig"
        events.setdefault(f[1], []).append((f[2], f[3]))
    for name, cs in by_name.items():
        ivs = sorted(events.get(name, []))
        want = sorted((c[2], c[3]) for c in cs)
        # coverage count via sweep
        pts = []
        for a, b in ivs:
            pts += [(a, 1, "o"), (b + 1, -1, "o")]
        for a, b in want:
            pts += [(a, 1, "i"), (b + 1, -1, "i")]
        pts.sort()
        co = ci = 0
        prev = None
        for x, d, kind in pts:
            if prev is not None and x > prev and co != ci:
                return (f"bases {prev}-{x - 1} of {name} are covered by {co} output fragment(s) but "
                        f"{ci} input contig(s)")
            if kind == "o":
                co += d
            else:
                ci += d
            prev = x
    return None


# ------------------------------------------------------------ adjacency oracle
def tail_end(f):
    """the contig end that faces the scaffold end: (name, coordinate, side)"""
    return (f[1], f[3], "R") if f[4] == 1 else (f[1], f[2], "L")


def head_end(f):
    return (f[1], f[2], "L") if f[4] == 1 else (f[1], f[3], "R")


def adjacencies(scaffolds):
    """unordered pairs of facing contig ends of consecutive fragments (gaps
    skipped) -> list of the gap rows between them"""
    adj = {}
    for sc in scaffolds:
        prev = None
        gaps = []
        for r in sc["rows"]:
            if r[0] == "G":
                gaps.append(r)
                continue
            if prev is not None:
                adj[frozenset((tail_end(prev), head_end(r)))] = list(gaps)
            prev = r
            gaps = []
    return adj


def all_out_scaffolds(obs):
    return [s for a in obs["asms"] for s in a["scaffolds"]]


# ------------------------------------------------------------ coordinate maps
def scaffold_spans(sc):
    out = []
    pos = 0
    for r in sc["rows"]:
        n = row_len(r)
        out.append((pos + 1, pos + n, r))
        pos += n
    return out


def contig_coord(rs, r, x):
    """contig coordinate of scaffold position x inside fragment row r starting at rs"""
    return r[2] + (x - rs) if r[4] == 1 else r[3] - (x - rs)


class OutIndex:
    def __init__(self, obs):
        self.by_name = {}
        self.scaffolds = []
        for a in obs["asms"]:
            for s_ in a["scaffolds"]:
                sid = len(self.scaffolds)
                self.scaffolds.append((a["key"], s_))
                for st, en, r in scaffold_spans(s_):
                    if r[0] == "F":
                        self.by_name.setdefault(r[1], []).append((r, sid, st))

    def locate(self, name, coord):
        """-> list of (scaffold id, scaffold position, strand) of every output copy of that base"""
        hits = []
        for r, sid, st in self.by_name.get(name, []):
            if r[2] <= coord <= r[3]:
                p = st + (coord - r[2]) if r[4] == 1 else st + (r[3] - coord)
                hits.append((sid, p, r[4]))
        return hits

    def frag_bounds(self, name):
        return [(r[2], r[3]) for r, _, _ in self.by_name.get(name, [])]


def gen_straddle(rng):
    """inputs with slivers (contigs of 1 .. 2 error lengths) between long contigs,
    and baits whose boundaries fall inside or next to the slivers, abutting or
    leaving a small hole / overlap: the geometry in which the overhang resolver's
    two-premise rule and its general rule both have something to decide"""
    bpt = rng.choice([1, 10, 10, 100, 7, 25])
    err = bpt + 1
    nsc = rng.randint(1, 2)
    scs = []
    ptx_rows = []
    ctg = 0
    for si in range(nsc):
        rows = []
        pos = 0
        bounds = []
        for k in range(rng.randint(2, 5)):
            if k:
                g = rng.choice([1, 1, 10, bpt])
                rows.append(["G", g, "scaffold"])
                pos += g
            big = k % 2 == 0
            ln = rng.randint(5 * err, 60 * err) if big else rng.randint(1, 2 * err)
            ctg += 1
            rows.append(["F", f"ctg{ctg}", 1, ln, rng.choice([1, 1, -1]), []])
            if not big:
                bounds.append((pos + 1, pos + ln))
            pos += ln
        name = f"S{si + 1}"
        scs.append({"name": name, "rows": rows})
        L = pos
        cuts = []
        for (a, b) in bounds:
            if rng.random() < 0.8:
                cuts.append(rng.randint(max(1, a - err), min(L - 1, b + err)))
        cuts = sorted(set(c for c in cuts if 1 <= c < L))
        start = 1
        pieces = []
        for c in cuts + [L]:
            if c < start:
                continue
            pieces.append([start, c])
            start = c + 1 + rng.choice([0, 0, 0, rng.randint(1, err), -rng.randint(1, err)])
            start = max(1, start)
        for (a, b) in pieces:
            if a <= b:
                ptx_rows.append(["F", name, a, b, rng.choice([1, 1, -1]), rng.choice([[], ["Painted"]])])
    rng.shuffle(ptx_rows)
    pscs = []
    i = 0
    while i < len(ptx_rows):
        n = rng.choice([1, 1, 2])
        rows = []
        for r in ptx_rows[i : i + n]:
            if rows:
                rows.append(list(PGAP))
            rows.append(r)
        painted = any("Painted" in r[5] for r in rows if r[0] == "F")
        for r in rows:
            if r[0] == "F":
                r[5] = ["Painted"] if painted else []
        pscs.append({"name": f"Scaffold_{len(pscs) + 1}", "rows": rows})
        i += n
    return {"scaffolds": scs}, {"bpt": f"{bpt}.000000", "scaffolds": pscs}


def gen_boundary_sweep(rng):
    """one scaffold A | gap | B (| gap | C) cut in two on the texel grid so that the cut lies exactly
    d bases inside a contig, d swept around 1, 2 and 3 error lengths; texel sizes with fractional part
    below and above one half"""
    bpt_str = rng.choice(["10.700000", "10.300000", "7.500001", "33.999000", "2.600000", "100.000000", "1.000000", "19.870000"])
    bpt = Fraction(bpt_str)
    err = 1 + int(bpt)
    k = rng.randint(12, 40)                      # the cut is after texel k
    x = tx(bpt, k)
    d = rng.choice([1, err - 1, err, err + 1, 2 * err, 3 * err - 1, 3 * err, 3 * err + 1, 3 * err + 2, 3 * err + 3, 4 * err])
    side = rng.choice(["into_next", "into_prev"])
    g = rng.choice([0, 1, 10, 200])
    strandA, strandB = rng.choice([1, -1]), rng.choice([1, -1])
    if side == "into_next":
        # B starts at x - d + 1: the cut is d bases inside B
        la = x - d - g
        if la < 1:
            la, g = x - d, 0
        lb = d + rng.randint(4 * err, 30 * err)
    else:
        # A ends at x + d: the cut is d bases before the end of A
        la = x + d
        lb = rng.randint(4 * err, 30 * err)
    if la < 1:
        la = 1
    rows = [["F", "ctgA", 1, la, strandA, []]]
    if g:
        rows.append(["G", g, "scaffold"])
    rows.append(["F", "ctgB", 1, lb, strandB, []])
    if rng.random() < 0.5:
        rows += [["G", 100, "scaffold"], ["F", "ctgC", 1, rng.randint(3 * err, 10 * err), 1, []]]
    inp = {"scaffolds": [{"name": "S1", "rows": rows}]}
    L = sc_len(inp["scaffolds"][0])
    nt = int(Fraction(L) / bpt)
    if nt - k < 2:
        # make sure the second piece has at least two texels
        rows[-1][3] += tx(bpt, k + 3) - tx(bpt, nt) + err
        L = sc_len(inp["scaffolds"][0])
        nt = int(Fraction(L) / bpt)
    pieces = [
        {"src": 0, "name": "S1", "ka": 0, "kb": k, "nt": nt, "start": 1, "end": x, "whole": False},
        {"src": 0, "name": "S1", "ka": k, "kb": nt, "nt": nt, "start": x + 1, "end": tx(bpt, nt), "whole": False},
    ]
    order = [0, 1] if rng.random() < 0.5 else [1, 0]
    scs = []
    for gi, pi in enumerate(order):
        p = pieces[pi]
        p["strand"] = rng.choice([1, -1])
        p["dest"], p["dest_pos"], p["painted"], p["tags"] = gi, 0, False, []
        scs.append({"name": f"Scaffold_{gi + 1}", "rows": [["F", "S1", p["start"], p["end"], p["strand"], []]]})
    return inp, {"bpt": bpt_str, "scaffolds": scs}, pieces
