import argparse
import importlib
import os
import sys

from . import core
from .prop import replay, run_check


def main():
    ap = argparse.ArgumentParser(prog="check")
    ap.add_argument("pid", nargs="?")
    ap.add_argument("--tier", default=os.environ.get("VERIF_TIER", "quick"), choices=["quick", "thorough"])
    ap.add_argument("--replay")
    ap.add_argument("--setup", action="store_true")
    args = ap.parse_args()
    if args.setup:
        rc, out = core.coq_make()
        sys.stdout.write(out[-6000:])
        hits = core.grep_forbidden()
        if hits:
            print("forbidden constructs:", hits)
            return 1
        return rc
    if not args.pid:
        ap.error("property id required")
    mod = importlib.import_module(f"vcheck.props.{args.pid.lower()}")
    prop = mod.PROP
    if args.replay:
        return replay(prop, args.replay)
    seed = int(os.environ.get("VERIF_SEED", "1"))
    return run_check(prop, args.tier, seed)


if __name__ == "__main__":
    sys.exit(main())
