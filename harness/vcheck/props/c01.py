"""C01 -- remapping conserves sequence: outputs exactly partition the input contigs."""

from .. import pipeline_util as P
from ..pipeline_prop import PipelineProp


class C01(PipelineProp):
    pid = "C01"
    design_ref = "6/C01"
    required_theorems = ['C01_conservation', 'C01_exactly_once', 'C01_qc_partition', 'C01_first_half', 'C01_second_half_keys', 'C01_never_out_of_fuel']

    def rule(self):
        return (
            "input assemblies (FASTA-derived or TPF/AGP style with arbitrary contig names, both strands, gaps or "
            "none between contigs, contigs from 1 bp) x Pretext maps: 55% PretextView-model edit scripts (cuts on "
            "the texel grid, pieces >= 2 texels, shuffled, re-oriented, regrouped, painted or not, sub-texel "
            "scaffolds present or absent, texel from 1 bp up), 30% the same with shifted/grown/shrunk/duplicated/"
            "unknown/out-of-range/flipped pieces, 15% arbitrary bait lists (70% of cases); 30% 'straddle' maps: slivers of 1..2 error lengths between long contigs with bait boundaries inside or next to them, abutting or with a small hole / overlap; plus the repository's specimens. "
            "plus haplotype tags that differ only in punctuation; the partition is judged on the returned assemblies AND on the AGP/TPF files the CLI writes (read back; no file opened twice). non-trivial = distinct case on which remapping completed"
        )

    def gen_case(self, rng):
        if rng.random() < 0.3:
            inp, ptx = P.gen_straddle(rng)
            return {"gen": "straddle", "input": inp, "pretext": ptx, "prefix": "SUPER_"}
        if rng.random() < 0.04:
            return P.gen_primary_3hap(rng)
        if rng.random() < 0.05:
            # a map that cannot be honoured: a scaffold shown whole AND one of its interior contigs shown
            # again as a piece of its own (beginning at the contig's start or in the gap before it):
            # refused, or every base still written once
            n = rng.randint(3, 5)
            rows, spans, pos = [], [], 0
            for k in range(n):
                if k:
                    g = rng.choice([10, 200])
                    rows.append(["G", g, "scaffold"])
                    pos += g
                ln = rng.choice([300, 1000, 4000])
                rows.append(["F", f"ctg{k + 1}", 1, ln, rng.choice([1, -1]), []])
                spans.append((pos + 1, pos + ln))
                pos += ln
            a, b = spans[rng.randint(1, n - 2)]
            a -= rng.choice([0, 0, 5])
            inp = {"scaffolds": [{"name": "scaffold_1", "rows": rows}, {"name": "scaffold_2", "rows": [["F", "ctgx", 1, 500, 1, []]]}]}
            ptx = {"bpt": "1.000000", "scaffolds": [
                {"name": "Scaffold_1", "rows": [["F", "scaffold_1", 1, pos, 1, rng.choice([[], ["Painted"]])]]},
                {"name": "Scaffold_2", "rows": [["F", "scaffold_1", a, b, rng.choice([1, -1]), []]]},
                {"name": "Scaffold_3", "rows": [["F", "scaffold_2", 1, 500, 1, []]]}]}
            return {"gen": "interior-again", "input": inp, "pretext": ptx, "prefix": "SUPER_"}
        inp = P.gen_input(rng)
        if rng.random() < 0.08:
            # haplotype tags that differ only in characters a file name would not keep apart
            # (each is its own haplotype, hence its own output file)
            ptx, _ = P.gen_pretext(rng, inp, "null")
            haps = rng.sample(["Hap1", "Hap1?", "Hap 1", "Hap-1", "Hap.1", "HAP_1"], min(len(ptx["scaffolds"]), rng.randint(2, 3)))
            for sc, h in zip(ptx["scaffolds"], haps):
                for r in sc["rows"]:
                    if r[0] == "F":
                        r[5] = ["Painted", h]
            return {"gen": "lookalike-haps", "input": inp, "pretext": ptx, "prefix": "SUPER_", "out_name": "asm.1.agp"}
        x = rng.random()
        if x < 0.55:
            ptx, _ = P.gen_pretext(rng, inp, "edit")
            gen = "edit"
        elif x < 0.85:
            ptx, _ = P.gen_pretext(rng, inp, "edit")
            ptx = P.gen_garbage(rng, inp, ptx)
            gen = "garbage"
        else:
            ptx = P.gen_random_baits(rng, inp)
            gen = "baits"
        return {"gen": gen, "input": inp, "pretext": ptx, "prefix": "SUPER_"}

    def oracle(self, case, obs):
        if "err" in obs:
            return None  # "ends in an error, never in a silently wrong assembly"
        return P.conservation(case["input"], obs) or P.file_level(case, obs)


PROP = C01()
