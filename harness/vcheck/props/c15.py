"""C15 -- a stale, partial or concurrently rewritten index cache is never silently used."""

import logging
import shutil
import threading

logging.disable(logging.CRITICAL)

from tola.fasta.index import FastaIndex, index_fasta_file

from .. import core
from .. import fsim
from ..core import blit, listlit, natlit
from ..prop import Prop

CONTENTS = [
    ">s1 first\nACGTACGTAC\nGTNNNNACGT\nACG\n>s2\nTTGACCA\n",
    ">s1\nACGTACGTAC\nGTNNNNACGT\nACGAAAA\n>s2\nTTGACCATTT\n>s3\nNNNNACGT\n",
    ">x\nAC\n",
    ">s1 first\nACGTACGTAC\nGTNNNNACGT\nACG\n>s2\nTTGACCA\n>s9\nGGGGGGGGGGGGGGGGGGGGGGGGGGGGGGGGGGGGGGGGGGGGGGGGGGGGGGGGGGGGGGGGGGGGGGG\n",
    # the LAST record ends in a run of N (the cached .agp then ends with a gap line)
    ">s1 first\nACGTACGTAC\nGTNNNNACGT\nACG\n>s2\nTTGACCANNN\nNNNN\n",
    # the same layout as the first content (same names, lengths, line widths) with an interval masked
    ">s1 first\nACGTACGTAC\nGTNNNNNNNN\nACG\n>s2\nTTGNNCA\n",
    # record names that bytes.split() (the indexer) and str.split() (the .fai reader) cut differently:
    # FS / US inside the name, a no-break space (UTF-8), several such names collapsing to one prefix.
    # Judged by the oracle only (the protocol model does not look inside the files).
    ">HiC_scaffold\x1c1\nACGTACGTAC\nGT\n>HiC_scaffold\x1c2\nTTGACCA\n",
    ">HiC_scaffold\u00a01\nACGTACGTAC\nGTNNAC\n>HiC_scaffold\u00a02 d\nTTGACCA\n",
    ">a\x1f7 x\nAC\n>b\nACGTNNNN\n",
    ">s1\u20035\nACGT\n",
    # a fully masked record (all N: an assembly object made of one gap) between two ordinary ones
    ">s1\nACGTACGTAC\nGT\n>masked\nNNNNNNNNNN\nNNNNN\n>s3\nTTGACCA\n",
]
N_MODEL_CONTENTS = 6
ALL_N = len(CONTENTS) - 1


def naive_snapshot(text):
    """what the index and the derived assembly of a plain FASTA text are, worked out line by line
    (LF line ends, names without unusual white space; None when the text is not that plain)"""
    import re as _re

    if not text.isascii() or "\r" in text or _re.search(r"[\x00-\x09\x0b-\x1f]", text):
        return None
    idx, asm = {}, []
    pos = 0
    cur = None
    for line in text.split("\n")[:-1] if text.endswith("\n") else text.split("\n"):
        raw = len(line) + 1
        if line.startswith(">"):
            name = line[1:].split()[0] if line[1:].split() else None
            if name is None:
                return None
            cur = {"name": name, "seq": "", "off": pos + raw, "w": None}
            asm.append(cur)
        elif cur is not None:
            if cur["w"] is None:
                cur["w"] = len(line)
            cur["seq"] += line
        pos += raw
    out_idx, out_asm = {}, []
    for c in asm:
        w = c["w"] or 0
        out_idx[c["name"]] = (len(c["seq"]), c["off"], w, w + 1)
        rows, p = [], 0
        for m in _re.finditer(r"[ACGTacgt]+|[^ACGTacgt]+", c["seq"]):
            if m.group(0)[0] in "ACGTacgt":
                rows.append(("Fragment", c["name"], m.start() + 1, m.end(), m.end() - m.start()))
            else:
                rows.append(("Gap", None, None, None, m.end() - m.start()))
        out_asm.append((c["name"], rows))
    return out_idx, out_asm


def snapshot(fi):
    idx = {n: (i.length, i.file_offset, i.residues_per_line, i.max_line_length) for n, i in (fi.index or {}).items()}
    asm = [(s.name, [(type(r).__name__, getattr(r, "name", None), getattr(r, "start", None), getattr(r, "end", None),
                      r.length) for r in s.rows]) for s in fi.assembly.scaffolds] if fi.assembly else None
    return idx, asm


class C15(Prop):
    pid = "C15"
    imports = "From Tola Require Import Py.Base Model.CacheFS Corr.CacheFS."
    show_fn = "show"
    design_ref = "6/C15"
    required_theorems = ['C15_safety_at_completion', 'C15_visible_files_complete', 'C15_check_rejects_stale', 'C15_check_rejects_missing', 'C15_indexing_installs_both', 'C15_legacy_crash_refuted', 'C15_legacy_race_refuted', 'C15_atomic_race_safe']

    def rule(self):
        return (
            "histories over {rewrite FASTA with new content (clock ticking or not, so equal stamps occur), delete "
            ".fai, delete .agp, tick, auto-load}; auto-load runs the real FastaIndex(path).auto_load() on real "
            "files with logical mtimes, every file operation a recorded step; crash: for one history shape, a "
            "crash at EVERY operation index of an indexing run (before/between/after the cache-file operations and "
            "at every block flush of each write), followed by a fresh auto-load; race: 2-3 simulated processes "
            "auto-loading the same FASTA under a deterministic scheduler, every single pre-emption point "
            "(exhaustive for 2 processes, 1 pre-emption) plus random schedules with up to 3 pre-emptions, with and "
            "without a valid / stale / missing cache beforehand; fault: an I/O error (OSError, the process keeps running "
            "its own clean-up) at EVERY operation index of an indexing run, then a fresh auto-load (oracle only); names: cold then cached loads of files whose record "
            "names contain FS / US / no-break space / em space (split differently by the indexer and by the .fai "
            "reader; oracle only: a cached load fails loudly or equals a fresh index). non-trivial = distinct history with at least one "
            "completed auto-load"
        )

    # ---- generation
    def probe_ops(self):
        """number of operations of one indexing run (depends on the protocol in /repo)"""
        obs = self.run_impl({"steps": [["rewrite", 0, True], ["load", None]]})
        return sum(1 for t in obs["trace"] if t[0] == "op")

    def generate(self, rng, tier):
        n_ops = self.probe_ops()
        # crash at every operation of a cold indexing run, then a fresh load
        for pre in ([], [["load", None], ["rewrite", 1, True]], [["load", None], ["delete", "Agp"]],
                    [["load", None], ["rewrite", 1, False]]):
            for k in range(n_ops + 1):
                yield {"gen": "crash/every-point", "steps": [["rewrite", 0, True], ["tick"]] + pre + [["load", k], ["tick"], ["load", None]]}
        # sequential random histories
        for _ in range(120 if tier == "quick" else 1500):
            steps = [["rewrite", rng.randrange(N_MODEL_CONTENTS), True]]
            for _ in range(rng.randint(2, 8)):
                x = rng.random()
                if x < 0.2:
                    steps.append(["rewrite", rng.randrange(N_MODEL_CONTENTS), rng.random() < 0.6])
                elif x < 0.3:
                    steps.append(["delete", rng.choice(["Fai", "Agp"])])
                elif x < 0.45:
                    steps.append(["tick"])
                else:
                    steps.append(["load", rng.randrange(n_ops + 2) if rng.random() < 0.3 else None])
            steps.append(["load", None])
            if rng.random() < 0.25:
                # the same kind of history with the FASTA behind a symbolic link
                yield {"gen": "history/random/symlink", "steps": steps, "symlink": True}
            else:
                yield {"gen": "history/random", "steps": steps}
        # an I/O error (not a crash) at every operation of an indexing run: the run fails, its own
        # clean-up code runs, and the next load must still be right
        for pre in ([], [["load", None], ["rewrite", 1, True], ["tick"]]):
            for k in range(n_ops + 1):
                yield {"gen": "fault/every-point", "steps": [["rewrite", 0, True], ["tick"]] + pre +
                       [["loadfault", k], ["tick"], ["load", None]]}
        # cached loads of FASTA files whose names the .fai reader splits differently from the indexer
        for k in range(N_MODEL_CONTENTS, len(CONTENTS)):
            yield {"gen": "names/cold-warm", "steps": [["rewrite", k, True], ["tick"], ["load", None], ["tick"], ["load", None]]}
            yield {"gen": "names/after-plain", "steps": [["rewrite", 0, True], ["tick"], ["load", None], ["rewrite", k, True],
                                                        ["tick"], ["load", None], ["load", None]]}
        # content changed under an unchanged layout, with a cache that is older / of the same age / newer
        for tick in (True, False):
            yield {"gen": "history/masked-in-place", "steps": [["rewrite", 0, True], ["tick"], ["load", None], ["rewrite", 5, tick],
                                                               ["tick"], ["load", None], ["load", None]]}
            yield {"gen": "history/all-N-record", "steps": [["rewrite", 0, True], ["tick"], ["load", None], ["rewrite", ALL_N, tick],
                                                             ["tick"], ["load", None], ["load", None]]}
            yield {"gen": "history/trailing-gap", "steps": [["rewrite", 4, True], ["tick"], ["load", None], ["load", None],
                                                            ["rewrite", 0, tick], ["load", None]]}
        for second in (1, 2):
            yield {"gen": "history/symlink-rewrite", "symlink": True,
                   "steps": [["rewrite", 0, True], ["tick"], ["load", None], ["rewrite", second, True], ["tick"], ["load", None]]}
        # races: every single pre-emption point of two processes, three initial cache states
        for pre in ([], [["load", None], ["tick"]], [["load", None], ["rewrite", 1, True]]):
            for k in range(0, 2 * n_ops + 4):
                yield {"gen": "race/1-preemption", "steps": [["rewrite", 0, True], ["tick"]] + pre +
                       [["race", 2, [0] * k + [1] * 200, {}], ["tick"], ["load", None]]}
        for _ in range(100 if tier == "quick" else 2000):
            n = rng.choice([2, 2, 3])
            sched = []
            cur = rng.randrange(n)
            for _ in range(rng.randint(1, 3)):
                sched += [cur] * rng.randint(0, n_ops + 3)
                cur = rng.choice([p for p in range(n) if p != cur])
            sched += [cur] * 300
            crash = {}
            if rng.random() < 0.3:
                crash[str(rng.randrange(n))] = rng.randrange(n_ops + 1)
            pre = rng.choice([[], [["load", None], ["tick"]], [["load", None], ["rewrite", 2, rng.random() < 0.5]],
                              [["load", None], ["delete", rng.choice(["Fai", "Agp"])]]])
            yield {"gen": f"race/random/{n}", "steps": [["rewrite", 0, True], ["tick"]] + pre +
                   [["race", n, sched, crash], ["tick"], ["load", None]]}

    # ---- implementation
    def fresh(self, sim):
        idx, asm = index_fasta_file(sim.fasta, 250000)

        class X:
            pass

        x = X()
        x.index, x.assembly = idx, asm
        return snapshot(x)

    def one_load(self, sim, pid, results):
        sim.tls.pid = pid
        try:
            fi = FastaIndex(sim.fasta)
            fi.auto_load()
            got = snapshot(fi)
            sim.tls.pid = None
            results[pid] = ("done", got)
        except fsim.SimCrash:
            results[pid] = ("crashed", None)
        except Exception as e:
            results[pid] = ("failed", f"{type(e).__name__}: {e}"[:120])
        finally:
            sim.tls.pid = None
            if sim.sched is not None:
                sim.sched.finish(pid)

    def run_impl(self, case):
        root = core.BUILD / self.pid / "fs"
        shutil.rmtree(root, ignore_errors=True)
        root.mkdir(parents=True)
        sim = fsim.Sim(root, symlink=bool(case.get("symlink")))
        fsim.SIM = sim
        fsim.install()
        outcomes = []
        details = []
        npid = 0
        try:
            for st in case["steps"]:
                if st[0] == "rewrite":
                    sim.rewrite_fasta(CONTENTS[st[1]].encode(), st[2])
                elif st[0] == "delete":
                    sim.delete(st[1])
                elif st[0] == "tick":
                    sim.tick()
                elif st[0] in ("load", "loadfault"):
                    pid = npid
                    npid += 1
                    sim.trace.append(["spawn"])
                    if st[0] == "loadfault":
                        sim.fault_at[pid] = st[1]
                    elif st[1] is not None:
                        sim.crash_at[pid] = st[1]
                    res = {}
                    self.one_load(sim, pid, res)
                    outcomes.append(self.judge_one(sim, res[pid]))
                    details.append(res[pid][1] if res[pid][0] != "done" else None)
                elif st[0] == "race":
                    n, sched, crash = st[1], st[2], st[3]
                    pids = list(range(npid, npid + n))
                    npid += n
                    for _ in pids:
                        sim.trace.append(["spawn"])
                    for k, v in crash.items():
                        sim.crash_at[pids[int(k)]] = v
                    sim.sched = fsim.BatonScheduler([pids[p] for p in sched])
                    sim.sched.start(pids)
                    res = {}
                    ths = [threading.Thread(target=self.one_load, args=(sim, p, res)) for p in pids]
                    for t in ths:
                        t.start()
                    for t in ths:
                        t.join(60)
                    sim.sched = None
                    for p in pids:
                        outcomes.append(self.judge_one(sim, res.get(p, ("failed", "thread did not finish"))))
                        details.append(res.get(p, (None, "stalled"))[1] if res.get(p, ("x",))[0] != "done" else None)
        finally:
            fsim.uninstall()
            fsim.SIM = None
        return {"trace": sim.trace, "outcomes": outcomes, "details": details}

    def judge_one(self, sim, r):
        if r[0] != "done":
            return "failed"
        pid_save = getattr(sim.tls, "pid", None)
        sim.tls.pid = None
        try:
            ref = self.fresh(sim)
            # the reference itself is checked against a line-by-line reading of the current content
            try:
                naive = naive_snapshot(sim.fasta.read_bytes().decode("utf-8"))
            except Exception:
                naive = None
            if naive is not None and (ref[0], [(n, [tuple(x) for x in rows]) for n, rows in (ref[1] or [])]) != naive:
                return "bad"
            return "good" if r[1] == ref else "bad"
        finally:
            sim.tls.pid = pid_save

    def term(self, case, obs):
        def hop(t):
            if t[0] == "spawn":
                return "HSpawn"
            if t[0] == "rewrite":
                return f"HRewrite {blit(t[1])}"
            if t[0] == "delete":
                return f"HDelete {t[1]}"
            if t[0] == "tick":
                return "HTick"
            _, pid, name, f = t
            return f"HOp {natlit(pid)} ({name} {f})" if f else f"HOp {natlit(pid)} {name}"

        if case["gen"].startswith(("names/", "fault/")):
            return []
        oc = {"good": "OGood", "bad": "OBad", "failed": "OFailed"}
        return lambda names: f"mkCase {listlit(obs['trace'], hop)} {listlit(obs['outcomes'], lambda o: oc[o])}"

    def oracle(self, case, obs):
        for i, o in enumerate(obs["outcomes"]):
            if o == "bad":
                return (f"auto-load number {i} completed without error but its index/assembly differ from a fresh "
                        f"index of the current FASTA content")
        return None

    def key(self, case, obs):
        if not any(o == "good" for o in obs["outcomes"]):
            return None
        return super().key(case, obs)

    def classify(self, case, obs):
        return case["gen"].split("/")[0] + "/" + ("bad" if "bad" in obs["outcomes"] else "failed" if "failed" in obs["outcomes"] else "good")

    def shrink_candidates(self, case):
        steps = case["steps"]
        for i in range(len(steps) - 1):
            if i > 0:
                yield {**case, "steps": steps[:i] + steps[i + 1 :]}


PROP = C15()
