"""C03 -- FASTA output is exactly the output AGP applied to the input FASTA."""

import io
import os
import random
import re
import shutil
from pathlib import Path

from tola.assembly.assembly import Assembly
from tola.assembly.format import format_agp

from .. import asm as A
from .. import cli_util as C
from .. import core
from .. import fasta_util as F
from .. import pipeline_util as P
from ..core import zlit
from ..prop import Prop
from .c14 import gen_rows_over


class C03(Prop):
    pid = "C03"
    imports = "From Tola Require Import Py.Base Model.Fragment Model.Scaffold Model.Fasta Model.Stream Corr.Fasta."
    show_fn = "show"
    design_ref = "6/C03"
    required_theorems = ['C03_write_scaffold_spec', 'C03_wrap_lines', 'C03_write_assembly_spec', 'C03_record_length', 'C03_premises_satisfiable', 'C03_index_then_stream']

    def rule(self):
        return (
            "random FASTA layouts (1-6 records, widths 1..80, LF/CRLF, final newline present/absent) x assemblies "
            "of 1-3 scaffolds with 1-7 rows over the indexed records (fragments anywhere in a record, strands +,-,0 "
            "mixed inside a scaffold, gaps of length 0..3 buffers) x buffer sizes {1,2,3,5,7,w-1,w,w+1,10^6} x line "
            "lengths {1,2,7,60,61}; bytes of FastaStream.write_assembly compared with the model and with a naive "
            "re-implementation from the record strings; the AGP of the same assembly object is checked against the "
            "record lengths; cli: generated (FASTA, Pretext edit script) pairs (line widths 37/60/80, LF/CRLF) through "
            "pretext-to-asm -o x.fa, the assembly given directly or through a symbolic link that an earlier run used "
            "for ANOTHER, newer FASTA with the same record names and lengths -- every FASTA written is compared with its "
            "AGP companion applied, naively, to the records of the FASTA the link now names, and every fragment row "
            "must lie inside one ACGT run of it. non-trivial = distinct case with at least one fragment row"
        )

    def generate(self, rng, tier):
        for _ in range(450 if tier == "quick" else 6000):
            layout = F.gen_fasta(rng, maxlen=40)
            w = layout["width"]
            buf = rng.choice([1, 2, 3, 5, 7, max(1, w - 1), w, w + 1, 10**6])
            scs = []
            names = set()
            for k in range(rng.randint(1, 3)):
                rows = gen_rows_over(rng, layout, rng.randint(1, 7), strands=(1, 1, -1, -1, 0), maxgap=3 * min(buf, 20))
                scs.append({"name": rng.choice(["SUPER_", "sc", "H_"]) + str(k + 1), "rows": rows})
            yield {"gen": "api", "layout": layout, "data": F.render(layout), "scaffolds": scs, "buf": buf,
                   "L": rng.choice([1, 2, 7, 60, 60, 61])}
        for i in range(9 if tier == "quick" else 90):
            inp = P.gen_input(rng, style="fasta", nscaf=rng.randint(2, 4), maxrows=4)
            for sc in inp["scaffolds"]:
                pos = 0
                for r in sc["rows"]:
                    if r[0] == "F" and r[3] - r[2] > 600:
                        r[3] = r[2] + 600
                    if r[0] == "F":
                        n_ = r[3] - r[2] + 1
                        r[2], r[3] = pos + 1, pos + n_
                    pos += P.row_len(r)
            ptx, _ = P.gen_pretext(rng, inp, "edit")
            link = i % 3 == 2
            w = rng.choice([37, 60, 80])
            yield {"gen": "cli" + ("/relinked" if link else ""), "kind": "cli", "input": inp, "pretext": ptx,
                   "seq_seed": rng.randrange(10**6), "width": w, "width2": rng.choice([x for x in (37, 60, 80) if x != w]),
                   "crlf": rng.random() < 0.4, "link": link}

    # ---- end to end through the command
    @staticmethod
    def cli_records(case, version):
        """record name -> sequence; version 2 = the same lengths, the residues in reverse order (so the N runs
        and with them the contigs lie elsewhere)"""
        r = random.Random(case["seq_seed"])
        recs = {}
        for sc in case["input"]["scaffolds"]:
            seq = "".join("N" * row[1] if row[0] == "G" else "".join(r.choices("ACGT", k=P.row_len(row))) for row in sc["rows"])
            recs[sc["name"]] = seq if version == 1 else seq[::-1]
        return recs

    @staticmethod
    def write_fasta(path, recs, width, crlf):
        eol = "\r\n" if crlf else "\n"
        path.write_bytes("".join(f">{n}{eol}" + "".join(s[i : i + width] + eol for i in range(0, len(s), width))
                                 for n, s in recs.items()).encode())

    def run_cli_case(self, case):
        root = core.BUILD / self.pid / f"cli{case['seq_seed']}"
        shutil.rmtree(root, ignore_errors=True)
        ind = root / "in"
        ind.mkdir(parents=True)
        ptx = case["pretext"]
        out = ["##agp-version\t2.1", f"# HiC MAP RESOLUTION: {ptx['bpt']} bp/texel"]
        for sc in ptx["scaffolds"]:
            pos = 0
            for i, row in enumerate(sc["rows"]):
                n = P.row_len(row)
                if row[0] == "G":
                    out.append(f"{sc['name']}\t{pos + 1}\t{pos + n}\t{i + 1}\tU\t{n}\t{row[2]}\tyes\tproximity_ligation")
                else:
                    out.append("\t".join([sc["name"], str(pos + 1), str(pos + n), str(i + 1), "W", row[1], str(row[2]),
                                          str(row[3]), "+" if row[4] == 1 else "-"] + row[5]))
                pos += n
        (ind / "in.pretext.agp").write_text("\n".join(out) + "\n")
        current = self.cli_records(case, 2 if case["link"] else 1)
        if case["link"]:
            # v2 is the OLDER file; the link first names v1, a run indexes through it, then it is re-pointed
            self.write_fasta(ind / "v2.fa", current, case["width2"], case["crlf"])
            os.utime(ind / "v2.fa", (1_000_000_000, 1_000_000_000))
            self.write_fasta(ind / "v1.fa", self.cli_records(case, 1), case["width"], case["crlf"])
            fa = ind / "asm.fa"
            fa.symlink_to("v1.fa")
            (root / "out1").mkdir()
            C.run_cli(["-a", fa, "-p", ind / "in.pretext.agp", "-o", root / "out1" / "x.fa"])
            fa.unlink()
            fa.symlink_to("v2.fa")
        else:
            fa = ind / "in.fa"
            self.write_fasta(fa, current, case["width"], case["crlf"])
        od = root / "out"
        od.mkdir()
        r = C.run_cli(["-a", fa, "-p", ind / "in.pretext.agp", "-o", od / "x.fa"])
        files = {p.name: p.read_bytes().decode("latin-1") for p in sorted(od.iterdir())
                 if p.suffix in (".fa", ".agp")}
        shutil.rmtree(root, ignore_errors=True)
        return {"rc": r.exit_code, "exc": r.exception, "files": files}

    def cli_oracle(self, case, obs):
        if obs["rc"] != 0:
            return None  # whether the edit script is accepted is C02's business
        seqs = self.cli_records(case, 2 if case["link"] else 1)
        fas = [n for n in obs["files"] if n.endswith(".fa")]
        if not fas:
            return "the run succeeded but wrote no FASTA file"
        for fa in fas:
            agp = obs["files"].get(fa[:-3] + ".agp")
            if agp is None:
                return f"{fa} was written without its AGP companion"
            scs, order = {}, []
            for ln in agp.splitlines():
                if ln.startswith("#") or not ln.strip():
                    continue
                f = ln.split("\t")
                if f[0] not in scs:
                    scs[f[0]] = {"name": f[0], "rows": [], "end": 0}
                    order.append(f[0])
                sc = scs[f[0]]
                if int(f[1]) != sc["end"] + 1:
                    return f"{fa[:-3]}.agp: object {f[0]} row starts at {f[1]} after {sc['end']}"
                sc["end"] = int(f[2])
                if f[4] in "UN":
                    sc["rows"].append(["G", int(f[5]), f[6]])
                else:
                    a, b = int(f[6]), int(f[7])
                    if f[5] not in seqs or not (1 <= a <= b <= len(seqs[f[5]])):
                        return f"{fa[:-3]}.agp names {f[5]}:{a}-{b}, which is not an interval of the input FASTA"
                    if "N" in seqs[f[5]][a - 1 : b]:
                        return f"{fa[:-3]}.agp row {f[5]}:{a}-{b} is not inside one contig of the input FASTA the run was given"
                    sc["rows"].append(["F", f[5], a, b, -1 if f[8] == "-" else 1, f[9:]])
                if sc["end"] - int(f[1]) + 1 != P.row_len(sc["rows"][-1]):
                    return f"{fa[:-3]}.agp: row length differs from its object span ({ln!r})"
            want = F.expect_stream(seqs, [scs[n] for n in order], 60)
            got = obs["files"][fa]
            if got != want:
                return f"{fa} is not its AGP applied to the input FASTA: got {got[:200]!r}, expected {want[:200]!r}"
            names = re.findall(r"^>(.*)$", got, re.M)
            if len(set(names)) != len(names):
                return f"{fa}: record names repeat"
        return None

    def run_impl(self, case):
        if case.get("kind") == "cli":
            return self.run_cli_case(case)
        ctx = F.Ctx(self.pid, case["data"])
        ix = ctx.index(250000)
        if "err" in ix:
            return {"index": ix}
        fi = ctx.fasta_index(ix["idx"], case["buf"])
        # every second case: the same index object has streamed the assembly before, with lower-case gaps,
        # another line length and another buffer size
        earlier = (b"n", 7, max(1, case["buf"] // 2 + 3)) if (case["buf"] + case["L"] + len(case["data"])) % 2 else None
        out = F.stream_impl(fi, case["scaffolds"], case["L"], earlier)
        asm = Assembly("x")
        for sc in case["scaffolds"]:
            asm.add_scaffold(A.scaffold_to_obj(sc))
        agp = io.StringIO()
        format_agp(asm, agp)
        return {"index": ix, "stream": out, "agp": agp.getvalue()}

    def term(self, case, obs):
        if case.get("kind") == "cli":
            return []
        if "err" in obs["index"]:
            return lambda names: f"CIndex {names(case['data'])} 250000 None"

        def t(names):
            return (
                f"CStream {names(case['data'])} {F.idx_term(obs['index']['idx'], names)} {zlit(case['buf'])} "
                f"{zlit(case['L'])} {F.asm_term(case['scaffolds'], names)} {F.opt_bytes(obs['stream'], names)}"
            )
        return t

    def oracle(self, case, obs):
        if case.get("kind") == "cli":
            return self.cli_oracle(case, obs)
        if "err" in obs["index"]:
            return f"well-formed FASTA rejected: {obs['index']}"
        if isinstance(obs["stream"], dict):
            return f"streaming raised {obs['stream']}"
        seqs = {r["name"]: r["seq"] for r in case["layout"]["records"]}
        want = F.expect_stream(seqs, case["scaffolds"], case["L"])
        got = obs["stream"]
        if got != want:
            return f"streamed {got!r}, expected {want!r}"
        # records: names, order, uniqueness, no empty / over-long line
        recs = re.findall(r">([^\n]*)\n((?:[^>\n]*\n)*)", got)
        if [r[0] for r in recs] != [sc["name"] for sc in case["scaffolds"]]:
            return "record set/order differs from the scaffold set/order"
        for nm, body in recs:
            lines = body.split("\n")[:-1]
            if any(len(ln) == 0 or len(ln) > case["L"] for ln in lines):
                return f"empty or over-long line in record {nm}"
            if any(len(ln) != case["L"] for ln in lines[:-1]):
                return f"short line inside record {nm}"
        # the AGP written from the same assembly: last object end = record length
        ends = {}
        for ln in obs["agp"].splitlines():
            f = ln.split("\t")
            ends[f[0]] = int(f[2])
        for nm, body in recs:
            n = len(body.replace("\n", ""))
            if n and ends.get(nm) != n:
                return f"AGP object {nm} ends at {ends.get(nm)} but the record has {n} residues"
        return None

    def key(self, case, obs):
        if case.get("kind") == "cli":
            return ("cli", case["seq_seed"]) if obs["rc"] == 0 and obs["files"] else None
        if not any(r[0] == "F" for sc in case["scaffolds"] for r in sc["rows"]):
            return None
        return super().key(case, obs)

    def classify(self, case, obs):
        if case.get("kind") == "cli":
            return case["gen"] + ("/ok" if obs["rc"] == 0 else "/rejected")
        return f"api/buf={'big' if case['buf'] > 1000 else 'small'}/L={case['L']}"

    def shrink_candidates(self, case):
        if case.get("kind") == "cli":
            return
        scs = case["scaffolds"]
        for i in range(len(scs)):
            if len(scs) > 1:
                yield {**case, "scaffolds": scs[:i] + scs[i + 1 :]}
            rows = scs[i]["rows"]
            for j in range(len(rows)):
                if len(rows) > 1:
                    yield {**case, "scaffolds": scs[:i] + [{**scs[i], "rows": rows[:j] + rows[j + 1 :]}] + scs[i + 1 :]}
        if case["buf"] != 10**6:
            yield {**case, "buf": 10**6}
        if case["L"] != 60:
            yield {**case, "L": 60}


PROP = C03()
