"""C03 -- FASTA output is exactly the output AGP applied to the input FASTA."""

import io
import re

from tola.assembly.assembly import Assembly
from tola.assembly.format import format_agp

from .. import asm as A
from .. import fasta_util as F
from ..core import zlit
from ..prop import Prop
from .c14 import gen_rows_over


class C03(Prop):
    pid = "C03"
    imports = "From Tola Require Import Py.Base Model.Fragment Model.Scaffold Model.Fasta Model.Stream Corr.Fasta."
    show_fn = "show"
    design_ref = "6/C03"
    required_theorems = ['C03_write_scaffold_spec', 'C03_wrap_lines', 'C03_write_assembly_spec', 'C03_record_length', 'C03_premises_satisfiable', 'C03_index_then_stream']

    def rule(self):
        return (
            "random FASTA layouts (1-6 records, widths 1..80, LF/CRLF, final newline present/absent) x assemblies "
            "of 1-3 scaffolds with 1-7 rows over the indexed records (fragments anywhere in a record, strands +,-,0 "
            "mixed inside a scaffold, gaps of length 0..3 buffers) x buffer sizes {1,2,3,5,7,w-1,w,w+1,10^6} x line "
            "lengths {1,2,7,60,61}; bytes of FastaStream.write_assembly compared with the model and with a naive "
            "re-implementation from the record strings; the AGP of the same assembly object is checked against the "
            "record lengths. non-trivial = distinct case with at least one fragment row"
        )

    def generate(self, rng, tier):
        for _ in range(450 if tier == "quick" else 6000):
            layout = F.gen_fasta(rng, maxlen=40)
            w = layout["width"]
            buf = rng.choice([1, 2, 3, 5, 7, max(1, w - 1), w, w + 1, 10**6])
            scs = []
            names = set()
            for k in range(rng.randint(1, 3)):
                rows = gen_rows_over(rng, layout, rng.randint(1, 7), strands=(1, 1, -1, -1, 0), maxgap=3 * min(buf, 20))
                scs.append({"name": rng.choice(["SUPER_", "sc", "H_"]) + str(k + 1), "rows": rows})
            yield {"gen": "api", "layout": layout, "data": F.render(layout), "scaffolds": scs, "buf": buf,
                   "L": rng.choice([1, 2, 7, 60, 60, 61])}

    def run_impl(self, case):
        ctx = F.Ctx(self.pid, case["data"])
        ix = ctx.index(250000)
        if "err" in ix:
            return {"index": ix}
        fi = ctx.fasta_index(ix["idx"], case["buf"])
        out = F.stream_impl(fi, case["scaffolds"], case["L"])
        asm = Assembly("x")
        for sc in case["scaffolds"]:
            asm.add_scaffold(A.scaffold_to_obj(sc))
        agp = io.StringIO()
        format_agp(asm, agp)
        return {"index": ix, "stream": out, "agp": agp.getvalue()}

    def term(self, case, obs):
        if "err" in obs["index"]:
            return lambda names: f"CIndex {names(case['data'])} 250000 None"

        def t(names):
            return (
                f"CStream {names(case['data'])} {F.idx_term(obs['index']['idx'], names)} {zlit(case['buf'])} "
                f"{zlit(case['L'])} {F.asm_term(case['scaffolds'], names)} {F.opt_bytes(obs['stream'], names)}"
            )
        return t

    def oracle(self, case, obs):
        if "err" in obs["index"]:
            return f"well-formed FASTA rejected: {obs['index']}"
        if isinstance(obs["stream"], dict):
            return f"streaming raised {obs['stream']}"
        seqs = {r["name"]: r["seq"] for r in case["layout"]["records"]}
        want = F.expect_stream(seqs, case["scaffolds"], case["L"])
        got = obs["stream"]
        if got != want:
            return f"streamed {got!r}, expected {want!r}"
        # records: names, order, uniqueness, no empty / over-long line
        recs = re.findall(r">([^\n]*)\n((?:[^>\n]*\n)*)", got)
        if [r[0] for r in recs] != [sc["name"] for sc in case["scaffolds"]]:
            return "record set/order differs from the scaffold set/order"
        for nm, body in recs:
            lines = body.split("\n")[:-1]
            if any(len(ln) == 0 or len(ln) > case["L"] for ln in lines):
                return f"empty or over-long line in record {nm}"
            if any(len(ln) != case["L"] for ln in lines[:-1]):
                return f"short line inside record {nm}"
        # the AGP written from the same assembly: last object end = record length
        ends = {}
        for ln in obs["agp"].splitlines():
            f = ln.split("\t")
            ends[f[0]] = int(f[2])
        for nm, body in recs:
            n = len(body.replace("\n", ""))
            if n and ends.get(nm) != n:
                return f"AGP object {nm} ends at {ends.get(nm)} but the record has {n} residues"
        return None

    def key(self, case, obs):
        if not any(r[0] == "F" for sc in case["scaffolds"] for r in sc["rows"]):
            return None
        return super().key(case, obs)

    def classify(self, case, obs):
        return f"api/buf={'big' if case['buf'] > 1000 else 'small'}/L={case['L']}"

    def shrink_candidates(self, case):
        scs = case["scaffolds"]
        for i in range(len(scs)):
            if len(scs) > 1:
                yield {**case, "scaffolds": scs[:i] + scs[i + 1 :]}
            rows = scs[i]["rows"]
            for j in range(len(rows)):
                if len(rows) > 1:
                    yield {**case, "scaffolds": scs[:i] + [{**scs[i], "rows": rows[:j] + rows[j + 1 :]}] + scs[i + 1 :]}
        if case["buf"] != 10**6:
            yield {**case, "buf": 10**6}
        if case["L"] != 60:
            yield {**case, "L": 60}


PROP = C03()
