"""C18 -- overlap results stay consistent under every edit sequence."""

import copy

from tola.assembly.fragment import Fragment
from tola.assembly.gap import Gap
from tola.assembly.indexed_assembly import IndexedAssembly
from tola.assembly.scaffold import Scaffold

from .. import asm as A
from ..core import blit, listlit, optlit, zlit
from ..prop import Prop

FIGS = (
    "start_overhang",
    "end_overhang",
    "start_row_bait_overlap",
    "end_row_bait_overlap",
    "overhang_if_start_removed",
    "overhang_if_end_removed",
)


def fig(r, name):
    try:
        v = getattr(r, name)
        return v() if callable(v) else v
    except Exception:
        return None


def snap(r):
    return {
        "start": r.start,
        "end": r.end,
        "rows": [A.obj_to_row(x) for x in r.rows],
        "figs": [fig(r, n) for n in FIGS],
        "length": fig(r, "length"),
    }


def apply_op(r, op):
    k = op[0]
    if k == "DS":
        r.discard_start()
    elif k == "DE":
        r.discard_end()
    elif k == "TL":
        r.trim_large_overhangs(op[1])
    elif k == "TF":
        trim = r.rows[-1] if op[1] else r.rows[0]
        r.trim_fragment(trim, keep_start=op[2], keep_end=op[3])


def row_len(r):
    return r[3] - r[2] + 1 if r[0] == "F" else r[1]


def inter(a1, a2, b1, b2):
    return max(0, min(a2, b2) - max(a1, b1) + 1)


class C18(Prop):
    pid = "C18"
    imports = "From Tola Require Import Py.Base Model.Fragment Model.Lookup Model.OverlapResult Corr.C18."
    show_fn = "show"
    design_ref = "6/C18"
    required_theorems = ['C18_init', 'C18_invariant_all_sequences', 'C18_consistent', 'C18_if_start_removed', 'C18_if_end_removed', 'C18_start_row_bait_overlap', 'C18_end_row_bait_overlap', 'C18_empty_stays_empty', 'C18_hypotheses_satisfiable', 'C18_pipeline_Inv', 'C18_pipeline_consistent']

    def rule(self):
        return (
            "source scaffold of 1-12 rows (fragments of both strands and strand 0, gaps, lengths 1..9 with a tail "
            "to 5000, gaps first/last/consecutive), bait = random interval reaching up to 12 bases past either "
            "end of a random row run, op sequences of length 0-8 over {discard_start, discard_end, "
            "trim_large_overhangs(e in 0,1,2,5,10,100), trim_fragment(first|last, keep flags)}; observed after "
            "the lookup and after every op (sequence cut at the first exception). non-trivial = distinct case "
            "with a non-None lookup and at least one successful op"
        )

    def gen_one(self, rng, maxrows, maxops, gen):
        n = rng.randint(1, maxrows)
        rows = []
        for k in range(n):
            ln = rng.choice([1, 1, 2, 2, 5, 9, rng.randint(1, 5000)])
            if rng.random() < 0.3:
                rows.append(["G", ln, rng.choice(["scaffold", "contig"])])
            else:
                s0 = rng.choice([1, 5, 100])
                rows.append(["F", f"c{k}", s0, s0 + ln - 1, rng.choice([1, 1, -1, -1, 0]), []])
        fr = [k for k, r in enumerate(rows) if r[0] == "F"]
        if len(fr) >= 2 and rng.random() < 0.2:
            # the same contig interval twice in one scaffold: equal values, two distinct Fragment objects
            # (most often as first and last row, where a cut has to tell them apart by identity)
            i0, j0 = (fr[0], fr[-1]) if rng.random() < 0.6 else sorted(rng.sample(fr, 2))
            rows[j0] = list(rows[i0])
            gen = gen + "/twins"
        bounds = [0]
        for r in rows:
            bounds.append(bounds[-1] + row_len(r))
        i = rng.randrange(n)
        j = rng.randrange(i, n)
        off = rng.choice([0, 0, 1, 2, 3, 12])
        a = max(1, bounds[i] + 1 + rng.randint(-3, off))
        b = max(a, bounds[j + 1] + rng.randint(-off, 3))
        bait = ["F", "scf", a, b, rng.choice([1, -1]), rng.choice([[], ["Painted"], ["Painted", "Hap1"], ["Haplotig"]])]
        ops = []
        for _ in range(rng.randint(0, maxops)):
            x = rng.random()
            if x < 0.2:
                ops.append(["DS"])
            elif x < 0.4:
                ops.append(["DE"])
            elif x < 0.65:
                ops.append(["TL", rng.choice([0, 1, 2, 5, 10, 100])])
            else:
                ops.append(["TF", rng.random() < 0.5, rng.random() < 0.3, rng.random() < 0.3])
        c = {"gen": gen, "src": rows, "bait": bait, "ops": ops}
        x = rng.random()
        if x < 0.25 and all(r[0] == "G" or (r[1] and r[2] >= 0) for r in rows) and rows and rows[0][0] == "F":
            c["via_parser"] = True
            c["gen"] = gen + "/parsed"
        elif x < 0.4:
            c["pre_mutate"] = True
            c["gen"] = gen + "/after-other-results"
        return c

    def generate(self, rng, tier):
        for _ in range(700 if tier == "quick" else 6000):
            yield self.gen_one(rng, 5, 3, "small")
        for _ in range(500 if tier == "quick" else 6000):
            yield self.gen_one(rng, 12, 8, "large")

    def run_impl(self, case):
        objs = [A.row_to_obj(r) for r in case["src"]]
        if case.get("via_parser"):
            # the source scaffold as the AGP reader builds it (every row its own object, twins included)
            import io

            from tola.assembly.assembly import Assembly
            from tola.assembly.format import format_agp
            from tola.assembly.parser import parse_agp

            buf = io.StringIO()
            format_agp(Assembly("x", scaffolds=[Scaffold("scf", objs)]), buf)
            objs = list(parse_agp(io.StringIO(buf.getvalue()), "x").scaffolds[0].rows)
        ia = IndexedAssembly("asm", scaffolds=[Scaffold("scf", objs)])
        if len(objs) % 2:
            # a second scaffold of the same name, refused: the first one's index must not have been touched
            try:
                from tola.assembly.fragment import Fragment as _F0

                ia.add_scaffold(Scaffold("scf", [_F0("other", 1, 37, 1), _F0("other2", 1, 3, 1)]))
            except ValueError:
                pass
        bait = A.row_to_obj(case["bait"])
        if case.get("pre_mutate"):
            # other results of the same scaffold, edited before the one under observation is looked up
            from tola.assembly.fragment import Fragment as _F

            total = sum(o.length for o in objs)
            for b0 in (_F("scf", 1, total, 1), _F("scf", bait.start, bait.end, bait.strand)):
                try:
                    r0 = ia.find_overlaps(b0)
                    if r0 is not None and r0.rows:
                        r0.discard_end()
                        if r0.rows:
                            r0.discard_start()
                except Exception:
                    pass
        r = ia.find_overlaps(bait)
        if r is None:
            return {"init": None, "steps": []}
        out = {"init": snap(r), "steps": [], "agree": []}
        for op in case["ops"]:
            # what-if figures against actually applying the discard on a copy
            pre = {n: fig(r, n) for n in ("overhang_if_start_removed", "overhang_if_end_removed")}
            agree = {}
            for n, meth, ovh in (("overhang_if_start_removed", "discard_start", "start_overhang"),
                                 ("overhang_if_end_removed", "discard_end", "end_overhang")):
                if pre[n] is not None:
                    # a copy one level deep (the object and every list / dict / set it holds, not the row
                    # objects: Gap instances are interned and do not survive deepcopy): nothing the trial
                    # discard does may reach the object under observation
                    cp = copy.copy(r)
                    for k_, v_ in list(getattr(cp, "__dict__", {}).items()):
                        if isinstance(v_, (list, dict, set)):
                            setattr(cp, k_, copy.copy(v_))
                    getattr(cp, meth)()
                    agree[n] = [pre[n], getattr(cp, ovh)]
            out["agree"].append(agree)
            try:
                apply_op(r, op)
            except Exception as e:
                out["steps"].append({"err": type(e).__name__})
                break
            out["steps"].append(snap(r))
        return out

    def term(self, case, obs):
        def sn(o, names):
            figs = listlit(o["figs"], lambda v: optlit(v, zlit))
            return f"(mkSnap {zlit(o['start'])} {zlit(o['end'])} {A.rows_term(o['rows'], names)} {figs})"

        def opt(o):
            if o[0] == "DS":
                return "DiscardStart"
            if o[0] == "DE":
                return "DiscardEnd"
            if o[0] == "TL":
                return f"(TrimLarge {zlit(o[1])})"
            return f"(TrimFrag {blit(o[1])} {blit(o[2])} {blit(o[3])})"

        def t(names):
            init = "None" if obs["init"] is None else f"(Some {sn(obs['init'], names)})"
            steps = listlit(obs["steps"], lambda o: "SErr" if "err" in o else f"(SOk {sn(o, names)})")
            return (
                f"mkCase {A.rows_term(case['src'], names, 0)} {A.frag_term(case['bait'], names)} "
                f"{listlit(case['ops'], opt)} {init} {steps}"
            )
        return t

    # ---- oracle: the invariant stated directly on the observed attributes
    def check_snap(self, case, o, where):
        src = case["src"]
        bait = case["bait"]
        rows = o["rows"]
        if not rows:
            return None
        total = sum(row_len(r) for r in rows)
        if o["end"] - o["start"] + 1 != total:
            return f"{where}: span {o['start']}..{o['end']} but rows cover {total}"
        if o["length"] != total:
            return f"{where}: length {o['length']} != {total}"
        if rows[0][0] == "G" or rows[-1][0] == "G":
            return f"{where}: terminal gap left behind"
        # contiguous run of the source, terminal fragments possibly shortened
        n = len(rows)
        ok_at = None
        for i in range(len(src) - n + 1):
            good = True
            for k in range(n):
                a, b = src[i + k], rows[k]
                if a == b:
                    continue
                terminal = k in (0, n - 1)
                if (terminal and a[0] == "F" and b[0] == "F" and a[1] == b[1] and a[4] == b[4]
                        and a[2] <= b[2] <= b[3] <= a[3]):
                    # only the outward-facing end may have moved (both for a single row)
                    if n > 1:
                        inner_kept = (b[3] == a[3]) if ((k == 0) == (a[4] == 1)) else (b[2] == a[2])
                        if not inner_kept:
                            good = False
                    continue
                good = False
            if good:
                # span start must be the scaffold coordinate of what is left
                pre = sum(row_len(r) for r in src[:i])
                cut_s = row_len(src[i]) - row_len(rows[0]) if n > 1 else None
                if n > 1:
                    if o["start"] == pre + 1 + cut_s:
                        ok_at = i
                        break
                else:
                    lo = pre + 1
                    hi = pre + row_len(src[i])
                    if lo <= o["start"] and o["end"] <= hi:
                        ok_at = i
                        break
        if ok_at is None:
            return f"{where}: rows {rows} at {o['start']}..{o['end']} are not a contiguous run of the source"
        bs, be = bait[2], bait[3]
        f = o["figs"]
        want = [
            bs - o["start"],
            o["end"] - be,
            inter(bs, be, o["start"], o["start"] + row_len(rows[0]) - 1),
            inter(bs, be, o["end"] - row_len(rows[-1]) + 1, o["end"]),
        ]
        if f[:4] != want:
            return f"{where}: overhang/overlap figures {f[:4]} != interval arithmetic {want}"
        return None

    def oracle(self, case, obs):
        if obs["init"] is None:
            return None
        w = self.check_snap(case, obs["init"], "after lookup")
        if w:
            return w
        for k, o in enumerate(obs["steps"]):
            ag = obs["agree"][k]
            for n, (pre, post) in ag.items():
                if pre != post:
                    return f"before op {k}: {n}={pre} but applying the discard gives overhang {post}"
            if "err" in o:
                break
            w = self.check_snap(case, o, f"after op {k} {case['ops'][k]}")
            if w:
                return w
        return None

    def key(self, case, obs):
        if obs["init"] is None or not any("err" not in o for o in obs["steps"]):
            return None
        return super().key(case, obs)

    def classify(self, case, obs):
        if obs.get("init") is None:
            return case["gen"] + "/lookup-none"
        errs = [o["err"] for o in obs["steps"] if "err" in o]
        emptied = any("err" not in o and not o["rows"] for o in obs["steps"])
        return case["gen"] + ("/" + errs[0] if errs else "/emptied" if emptied else "/ok")

    def shrink_candidates(self, case):
        ops = case["ops"]
        for k in range(len(ops)):
            yield {**case, "ops": ops[:k] + ops[k + 1 :]}
        src = case["src"]
        for j in range(len(src)):
            if len(src) > 1:
                yield {**case, "src": src[:j] + src[j + 1 :]}


PROP = C18()
