"""C10 -- chromosome, unloc and haplotig names are unique and ranked by size."""

import re

from .. import pipeline_util as P
from ..pipeline_prop import PipelineProp
from .c20 import oracle_key

PREFIXES = ["SUPER_", "SUPER_", "CHR", "LG_"]


def make_tagger(two_haps, primary=False, singletons=False, haps=("HAP1", "HAP2")):
    def tagger(rng, ptx, groups):
        # Primary mode: the curated haplotype is tagged Primary instead of with its own name
        hap_cycle = ["Primary" if primary else haps[0], haps[1]]
        painted_seen = 0
        used_names = set()
        contaminants = rng.random() < 0.3
        for gi, grp in enumerate(groups):
            painted = grp[0]["painted"]
            sc_tags = []
            hap = hap_cycle[painted_seen % 2] if two_haps and painted else None
            if painted and rng.random() < 0.25:
                # a chromosome name is used once per haplotype (X in HAP1 and X in HAP2 is the normal case)
                # (in Primary mode once altogether: the haplotype of a Primary-tagged scaffold is read from its
                # first piece's input name, so "Primary" and "HAP2" may be the same haplotype to the namer, and
                # two Pretext scaffolds with one name in one haplotype are fused -- not a consistent tagging)
                hk = None if primary else hap
                cands = [t for t in ["X", "W1", "B2", "Z", "Y", "B1"] if (t, hk) not in used_names]
                if cands:
                    t = rng.choice(cands)
                    used_names.add((t, hk))
                    sc_tags.append(t)
            if two_haps and painted:
                sc_tags.append(hap)
                painted_seen += 1
                if singletons and painted_seen % 2 == 1 and rng.random() < 0.3:
                    # a first-haplotype chromosome without homologue: the documented Singleton tag; the
                    # next painted scaffold is a first-haplotype one again
                    sc_tags.append("Singleton")
                    painted_seen += 1
            whole = rng.random() < 0.6
            carrier = 0
            for j, pc in enumerate(grp):
                tags = ["Painted"] if painted else []
                if whole or j == carrier:
                    tags += sc_tags
                x = rng.random()
                if painted and j > 0 and x < 0.35:
                    tags.append("Unloc")
                elif (x < 0.15 and not (painted and j == 0)) or (not painted and x < 0.3):
                    # the first piece of a painted scaffold stays the chromosome itself: a chromosome made
                    # of unlocs only is not a consistent tagging
                    tags.append("Haplotig")
                elif contaminants and j > 0 and x > 0.85:
                    tags.append("Contaminant")
                pc["tags"] = tags
            rows = ptx["scaffolds"][gi]["rows"]
            k = 0
            for r in rows:
                if r[0] == "F":
                    r[5] = list(grp[k]["tags"])
                    k += 1
    return tagger


class C10(PipelineProp):
    pid = "C10"
    design_ref = "6/C10"
    required_theorems = ['C10_rename_by_size_spec', 'C10_haplotig_names_sequential', 'C10_unloc_names_sequential', 'C10_other_labels_keep_counters', 'C10_groups_sorted_desc', 'C10_numbering', 'C10_single_hap_groups', 'C10_name_chromosomes_single_total', 'C10_name_group_effect', 'C10_multi_chr_list', 'C10_output_order_total', 'C10_unloc_between', 'C10_example', 'C10_csv_line_count', 'C10_csv_none_iff', 'C10_csv_lines_shape', 'C10_csv_groups', 'C10_chr_of_prefixed', 'C10_csv_orphan_unloc_refuted', 'C10_names_unique_single_haplotype', 'C10_names_unique', 'C10_fuse_keys_nodup', 'C10_duplicate_is_collision', 'C10_duplicate_names_refuted', 'C10_names_unique_instance', 'C10_two_hap_groups', 'C10_two_hap_names', 'C10_first_haplotype_decides', 'C10_chromosome_numbers', 'C10_chromosome_numbers_need_distinct_map_names', 'C10_two_haplotype_names_end_to_end']
    n_quick = 400

    def rule(self):
        return (
            "PretextView-model edit scripts with up to ~12 painted scaffolds (equal sizes included), Unloc tags on "
            "later pieces of painted scaffolds, Haplotig tags on pieces of painted and unpainted scaffolds, sex/B "
            "chromosome name tags (each used once), autosome prefixes SUPER_/CHR/LG_, one haplotype or two "
            "(HAP1/HAP2 alternating, ToL input names); names, order and chromosome-list CSV judged by an oracle. "
            "non-trivial = distinct completed case with at least two rank-1 scaffolds or a haplotig/unloc"
        )

    def gen_sliver(self, rng):
        """a Haplotig / Unloc piece that comes out empty (its only contig, 1.5 texels long, is shared with the
        neighbouring piece, which overlaps it more) while a later haplotig / unloc exists: the number the empty
        one consumed must not leave a hole"""
        t = rng.choice([50, 100, 137, 1000])
        s1, s2 = rng.choice([1, -1]), rng.choice([1, -1])
        b = int(1.5 * t)
        rows = [["F", "cA", 1, 10 * t, s1, []], ["G", 2 * t, "scaffold"], ["F", "cB", 1, b, s2, []],
                ["G", 3 * t, "scaffold"], ["F", "cC", 1, 10 * t, 1, []]]
        L1 = 10 * t + 2 * t + b + 3 * t + 10 * t
        inp = {"scaffolds": [{"name": "scaffold_1", "rows": rows},
                             {"name": "scaffold_2", "rows": [["F", "cD", 1, 8 * t, 1, []]]},
                             {"name": "scaffold_3", "rows": [["F", "cE", 1, 6 * t, -1, []]]}]}
        k1, k2 = 13 * t, 16 * t
        if rng.random() < 0.5:
            ptx = [{"name": "Scaffold_1", "rows": [["F", "scaffold_1", 1, k1, 1, ["Painted"]]]},
                   {"name": "Scaffold_2", "rows": [["F", "scaffold_1", k1 + 1, k2, rng.choice([1, -1]), ["Haplotig"]]]},
                   {"name": "Scaffold_3", "rows": [["F", "scaffold_1", k2 + 1, L1, 1, ["Painted"]]]},
                   {"name": "Scaffold_4", "rows": [["F", "scaffold_2", 1, 8 * t, 1, ["Haplotig"]]]},
                   {"name": "Scaffold_5", "rows": [["F", "scaffold_3", 1, 6 * t, 1, ["Haplotig"]]]}]
            kind = "haplotig"
        else:
            ptx = [{"name": "Scaffold_1", "rows": [["F", "scaffold_1", 1, k1, 1, ["Painted"]], list(P.PGAP),
                                                   ["F", "scaffold_1", k1 + 1, k2, rng.choice([1, -1]), ["Painted", "Unloc"]], list(P.PGAP),
                                                   ["F", "scaffold_1", k2 + 1, L1, 1, ["Painted", "Unloc"]], list(P.PGAP),
                                                   ["F", "scaffold_2", 1, 8 * t, 1, ["Painted", "Unloc"]]]},
                   {"name": "Scaffold_2", "rows": [["F", "scaffold_3", 1, 6 * t, 1, ["Painted"]]]}]
            kind = "unloc"
        return {"gen": "sliver/" + kind, "input": inp, "pretext": {"bpt": f"{t}.000000", "scaffolds": ptx},
                "prefix": rng.choice(PREFIXES), "want_csv": True, "two": False}

    def gen_same_name_unlocs(self, rng):
        """the same chromosome name tag in both haplotypes, each with unloc pieces: the unlocs are numbered
        _unloc_1..m within each haplotype's chromosome, by size"""
        scs, ptx = [], []
        tag = rng.choice(["X", "W1", "B2"])
        for hap in ("HAP1", "HAP2"):
            nm = f"{hap}_SCAFFOLD_1"
            lens = [rng.randint(3000, 6000)] + [rng.randint(200, 2500) for _ in range(rng.randint(2, 3))]
            rows, pos, spans = [], 0, []
            for k, ln in enumerate(lens):
                if k:
                    rows.append(["G", 100, "scaffold"])
                    pos += 100
                rows.append(["F", nm, pos + 1, pos + ln, 1, []])
                spans.append((pos + 1, pos + ln))
                pos += ln
            scs.append({"name": nm, "rows": rows})
            prows = []
            for k, (a, b) in enumerate(spans):
                if prows:
                    prows.append(list(P.PGAP))
                prows.append(["F", nm, a if k == 0 else a - 50, b + 50 if k + 1 < len(spans) else b, rng.choice([1, -1]),
                              ["Painted", hap, tag] + (["Unloc"] if k else [])])
            ptx.append({"name": f"Scaffold_{len(ptx) + 1}", "rows": prows})
        return {"gen": "same-name-unlocs", "input": {"scaffolds": scs}, "pretext": {"bpt": "1.000000", "scaffolds": ptx},
                "prefix": rng.choice(PREFIXES), "want_csv": True, "two": True}

    def gen_case(self, rng):
        if rng.random() < 0.05:
            return self.gen_same_name_unlocs(rng)
        if rng.random() < 0.06:
            return self.gen_sliver(rng)
        two = rng.random() < 0.3
        # haplotype tags are free text: the usual spellings, and short lower-case ones (a chromosome NAME tag is
        # an upper-case letter with digits, roman numerals, or digits with upper-case letters -- case matters)
        haps = rng.choice([("HAP1", "HAP2")] * 4 + [("Hap1", "Hap2"), ("h1", "h2"), ("a", "b"), ("mat", "pat")]) if two else ("HAP1", "HAP2")
        inp = P.gen_input(rng, style=rng.choice(["tpf", "fasta"]), hap_names=two and haps[0].upper() == "HAP1", nscaf=rng.randint(2, 7))
        if rng.random() < 0.3:
            # equal-size scaffolds
            inp["scaffolds"].append({"name": inp["scaffolds"][0]["name"] + "b", "rows": [
                r if r[0] == "G" else [r[0], (r[1] + "b"), r[2], r[3], r[4], []] for r in inp["scaffolds"][0]["rows"]]})
            if inp["scaffolds"][0]["rows"][0][1] == inp["scaffolds"][0]["name"]:
                for r in inp["scaffolds"][-1]["rows"]:
                    if r[0] == "F":
                        r[1] = inp["scaffolds"][-1]["name"]
            if two:
                inp["scaffolds"].pop()
        primary = two and rng.random() < 0.35
        singletons = two and not primary and rng.random() < 0.5
        ptx, pieces = P.gen_pretext(rng, inp, "edit", tagger=make_tagger(two, primary, singletons, haps))
        return {"gen": "named/" + ("2hap" + ("-primary" if primary else "-singletons" if singletons else "")
                                   + ("" if haps[0] == "HAP1" else "-" + haps[0]) if two else "1hap"),
                "input": inp, "pretext": ptx, "prefix": rng.choice(PREFIXES), "want_csv": True, "two": two}

    def oracle(self, case, obs):
        if "err" in obs or "two" not in case:
            return None
        prefix = case["prefix"]
        for a in obs["asms"]:
            names = [s_["name"] for s_ in a["scaffolds"]]
            if len(set(names)) != len(names):
                dup = sorted({n for n in names if names.count(n) > 1})
                return f"assembly {a['key']!r} has duplicate scaffold names {dup}"
            # output order: rank, then natural name order
            keys = [(s_["rank"], oracle_key(s_["name"])) for s_ in a["scaffolds"]]
            if keys != sorted(keys):
                return f"assembly {a['key']!r} is not in rank-then-natural-name order: {names}"
        # the assemblies as the command names (and, in Primary mode, merges) them for its output files:
        # every written assembly keeps the rank-first order of the assemblies it is made of
        if obs.get("named"):
            src = {a["key"]: [s_["name"] for s_ in a["scaffolds"]] for a in obs["asms"]}
            for k, nm, cur, names in obs["named"]:
                if k == "all_haplotigs":
                    want = [n for a in obs["asms"] if a["curated"] and a["key"] != "Primary" for n in src[a["key"]]]
                elif k == "additional_haplotigs":
                    want = src.get("Haplotig")
                else:
                    want = src.get(k)
                if want is not None and names != want:
                    return (f"output assembly {nm} lists its scaffolds as {names}; the assemblies it is made of are in "
                            f"rank-then-name order {want}")
        # unlocs of one chromosome of one assembly are numbered 1..m without holes
        for a in obs["asms"]:
            if not a["curated"]:
                continue
            un = {}
            for s_ in a["scaffolds"]:
                mu = re.fullmatch(r"(.+)_unloc_(\d+)", s_["name"])
                if mu:
                    un.setdefault(mu.group(1), []).append(int(mu.group(2)))
            for chrom, nums in un.items():
                if sorted(nums) != list(range(1, len(nums) + 1)):
                    return f"assembly {a['key']!r}: unlocs of {chrom} are numbered {sorted(nums)}, not 1..{len(nums)}"
        # haplotigs H_1..H_n by non-increasing length
        for a in obs["asms"]:
            if a["key"] == "Haplotig":
                hs = sorted(a["scaffolds"], key=lambda s_: int(s_["name"][2:]) if re.fullmatch(r"H_\d+", s_["name"]) else -1)
                nums = [s_["name"] for s_ in hs]
                lens = [sum(P.row_len(r) for r in s_["rows"]) for s_ in hs]
                if nums != [f"H_{k + 1}" for k in range(len(hs))]:
                    return f"haplotig names {nums} are not H_1..H_n without holes"
                if lens != sorted(lens, reverse=True):
                    return f"haplotigs not in non-increasing length order: {list(zip(nums, lens))}"
        # chromosomes
        curated = [a for a in obs["asms"] if a["curated"]]
        if not case["two"]:
            for a in curated:
                autos = [s_ for s_ in a["scaffolds"] if s_["rank"] == 1]
                groups = {}
                order = []
                for s_ in autos:
                    m = re.fullmatch(re.escape(prefix) + r"(\d+)(_unloc_(\d+))?", s_["name"])
                    if not m:
                        return f"autosome name {s_['name']!r} is not {prefix}<n>[_unloc_<m>]"
                    n = int(m.group(1))
                    if n not in groups:
                        groups[n] = {"len": 0, "unlocs": [], "main": False}
                        order.append(n)
                    groups[n]["len"] += sum(P.row_len(r) for r in s_["rows"] if r[0] == "F")
                    if m.group(3):
                        groups[n]["unlocs"].append(int(m.group(3)))
                    else:
                        groups[n]["main"] = True
                if sorted(groups) != list(range(1, len(groups) + 1)):
                    return f"chromosome numbers {sorted(groups)} are not 1..n without holes"
                lens = [groups[n]["len"] for n in sorted(groups)]
                if lens != sorted(lens, reverse=True):
                    return f"chromosomes not numbered by non-increasing length (incl. unlocs): {lens}"
                for n, g in groups.items():
                    if sorted(g["unlocs"]) != list(range(1, len(g["unlocs"]) + 1)):
                        return f"unlocs of {prefix}{n} numbered {sorted(g['unlocs'])}"
                # an unloc directly after its chromosome
                names = [s_["name"] for s_ in autos]
                for i, nm in enumerate(names):
                    m = re.fullmatch(re.escape(prefix) + r"(\d+)_unloc_(\d+)", nm)
                    # (only when the chromosome itself is there: if every main piece came out empty -- e.g. it
                    # covered nothing but a gap -- the unlocs simply take its place in the name order, checked above)
                    if m and groups[int(m.group(1))]["main"] and (
                            i == 0 or not re.fullmatch(re.escape(prefix + m.group(1)) + r"(_unloc_\d+)?", names[i - 1])):
                        return f"unloc {nm} does not follow its chromosome: {names}"
                for s_ in a["scaffolds"]:
                    if s_["rank"] == 2 and not s_["name"].startswith(prefix):
                        return f"named chromosome {s_['name']!r} lacks the prefix"
        # chromosome list csv
        if "csv_err" in obs:
            return f"chromosome csv raised {obs['csv_err']}"
        csvs = dict((k, v) for k, v in obs.get("csv", []))
        for a in curated:
            want = [s_ for s_ in a["scaffolds"] if s_["rank"] in (1, 2)]
            text = csvs.get(a["key"])
            lines = [ln.split(",") for ln in text.splitlines()] if text else []
            if [ln[0] for ln in lines] != [s_["name"] for s_ in want]:
                return f"chromosome list of {a['key']!r} has lines {[ln[0] for ln in lines]}, expected {[s_['name'] for s_ in want]}"
            for ln, s_ in zip(lines, want):
                is_unloc = "_unloc_" in s_["name"]
                if ln[2] != ("no" if is_unloc else "yes"):
                    return f"chromosome list: {s_['name']} localised={ln[2]}"
        return None

    def known_signature(self, case, obs, why):
        """an unloc whose chromosome has no main scaffold left (its main pieces were emptied by the
        overhang resolution) is listed as localised"""
        if "err" in obs:
            return None
        md = re.match(r"assembly '(\w+)' has duplicate scaffold names (\[.*\])$", why or "")
        if md:
            # same name, same tag, different haplotypes, filed under the tag (known finding); any other
            # duplicate is a new violation
            import ast

            key, dups = md.group(1), ast.literal_eval(md.group(2))
            for a in obs["asms"]:
                if a["key"] != key:
                    continue
                for n in dups:
                    same = [s_ for s_ in a["scaffolds"] if s_["name"] == n]
                    haps = [s_["hap"] for s_ in same]
                    if any(s_["tag"] != key for s_ in same) or len(set(haps)) != len(haps):
                        return None
                return "tagged-duplicates-across-haplotypes"
            return None
        mh = re.match(r"assembly .*: unlocs of (\S+) are numbered (\[[\d, ]*\]), not 1\.\.\d+$", why or "")
        if mh:
            # unlocs are numbered per Pretext scaffold BEFORE the overhang resolution; an Unloc piece that
            # the resolution then empties leaves a hole (known finding).  Recognised by: the numbers written
            # are a proper subset of 1..M, M = the Unloc pieces of the Pretext scaffold these unlocs come from
            import ast

            chrom, nums = mh.group(1), ast.literal_eval(mh.group(2))
            origs = {s_["orig"] for a in obs["asms"] for s_ in a["scaffolds"]
                     if re.fullmatch(re.escape(chrom) + r"_unloc_\d+", s_["name"])}
            if len(origs) != 1:
                return None
            orig = origs.pop()
            M = sum(1 for sc in case["pretext"]["scaffolds"] if sc["name"] == orig for r in sc["rows"]
                    if r[0] == "F" and "Unloc" in r[5] and "Haplotig" not in r[5] and "FalseDuplicate" not in r[5])
            if nums and len(set(nums)) == len(nums) and set(nums) < set(range(1, M + 1)):
                return "unloc-number-hole-after-emptied-unloc"
            return None
        m = re.match(r"chromosome list: (\S+)_unloc_\d+ localised=yes", why or "")
        if not m:
            return None
        chrom = m.group(1)
        for a in obs["asms"]:
            names = [s_["name"] for s_ in a["scaffolds"]]
            if any(n.startswith(chrom + "_unloc_") for n in names) and chrom not in names:
                return "orphan-unloc-localised"
        return None

    def key(self, case, obs):
        if "err" in obs:
            return None
        n1 = sum(1 for a in obs["asms"] for s_ in a["scaffolds"] if s_["rank"] == 1)
        nh = sum(1 for a in obs["asms"] if a["key"] == "Haplotig")
        if n1 < 2 and not nh:
            return None
        return super().key(case, obs)

    def shrink_candidates(self, case):
        return []  # dropping rows could leave an Unloc without its chromosome


PROP = C10()
