"""C17 -- outputs are a deterministic function of the input files."""

import itertools
import os
import random
import re
import shutil
import subprocess
import sys
from concurrent.futures import ThreadPoolExecutor
from pathlib import Path

from tola.assembly.build_utils import ScaffoldNamer
from tola.assembly.fragment import Fragment
from tola.assembly.scaffold import Scaffold

from .. import asm as A
from .. import cli_util as C
from .. import core
from .. import pipeline_util as P
from ..core import blit, listlit, optlit, zlit
from ..prop import Prop

TAG_POOL = ["Painted", "Target", "Primary", "X", "W1", "HAP1", "Hap1", "HAP2", "Haplotig", "Unloc", "Singleton",
            "", "I_II", "2RL", "Contaminant"]


def run_sub(args, cwd, seed, buffer_size=None):
    env = {"PYTHONPATH": str(core.REPO / "src"), "PYTHONHASHSEED": str(seed), "PATH": os.environ.get("PATH", "")}
    if buffer_size is None:
        launch = ["-m", "tola.assembly.scripts.pretext_to_asm"]
    else:
        # the command has no option for it: the same program with another default FastaIndex buffer size
        launch = ["-c", "import tola.fasta.index as I; I.FastaIndex.__init__.__defaults__ = (%d,); "
                        "from tola.assembly.scripts.pretext_to_asm import cli; cli()" % buffer_size]
    r = subprocess.run([sys.executable] + launch + [str(a) for a in args],
                       cwd=cwd, env=env, capture_output=True, text=True, timeout=120)
    return r.returncode, r.stderr


def read_outputs(d: Path, strip: list[str]):
    out = {}
    for p in sorted(d.iterdir()):
        if not p.is_file():
            continue
        data = p.read_bytes().decode("latin-1")
        if p.suffix == ".log":
            for s_ in strip:
                data = data.replace(s_, "<DIR>")
        out[p.name] = data
    return out


def multi_tagger(rng, ptx, groups):
    """painted scaffolds carry, on every piece, a chromosome name tag and a second known tag, so that a
    cut contig inherits several tags (their order in the output must not depend on the hash seed)"""
    names = ["X", "W1", "B2", "Z", "Y", "B1", "W2"]
    for gi, grp in enumerate(groups):
        extra = []
        if grp[0]["painted"] and names and rng.random() < 0.8:
            extra = [names.pop(0), "Singleton"]
        k = 0
        for r in ptx["scaffolds"][gi]["rows"]:
            if r[0] == "F":
                r[5] = (["Painted"] if grp[k]["painted"] else []) + extra
                k += 1


def gen_ties(rng):
    """slivers cut exactly in half by two abutting baits: both overlaps equal, so which result keeps the
    sliver is decided by the order in which the two results are visited"""
    bpt = rng.choice([50, 100])
    rows = []
    pos = 0
    cuts = []
    for k in range(rng.randint(6, 12)):
        if k:
            rows.append(["G", 10, "scaffold"])
            pos += 10
        big = rng.randint(8 * bpt, 20 * bpt)
        rows.append(["F", f"big{k}", 1, big, 1, []])
        pos += big
        rows.append(["G", 10, "scaffold"])
        pos += 10
        half = rng.randint(1, bpt // 2 - 1)
        rows.append(["F", f"sliver{k}", 1, 2 * half, 1, []])
        cuts.append(pos + half)
        pos += 2 * half
    rows += [["G", 10, "scaffold"], ["F", "tail", 1, 10 * bpt, 1, []]]
    pos += 10 + 10 * bpt
    baits = []
    start = 1
    for c in cuts + [pos]:
        baits.append(["F", "S1", start, c, 1, []])
        start = c + 1
    scs = [{"name": f"Scaffold_{i + 1}", "rows": [b]} for i, b in enumerate(baits)]
    return {"scaffolds": [{"name": "S1", "rows": rows}]}, {"bpt": f"{bpt}.000000", "scaffolds": scs}


class C17(Prop):
    pid = "C17"
    imports = "From Tola Require Import Py.Base Model.Fragment Model.Scaffold Model.Namer Corr.NamerCorr."
    show_fn = "show"
    design_ref = "6/C17"
    required_theorems = ['C17_tags_perm_invariant', 'C17_lc_ok_initial', 'C17_lc_ok_preserved', 'C17_legacy_order_dependent', 'C17_index_buffer_independent', 'C17_cold_warm_index', 'C17_cache_roundtrip_assembly']

    def rule(self):
        return (
            "namer: tag sets of 1-4 tags from a pool (Painted, Target, Primary, chromosome names, two haplotypes in "
            "two spellings, known tags, the empty tag) given to make_scaffold_name in EVERY order a set iteration "
            "could produce (all permutations), first-row names with and without the ToL haplotype shape; "
            "cli: generated (FASTA with N runs, scattered IUPAC codes and lower-case bases, Pretext AGP) pairs run through the pretext-to-asm CLI in fresh processes under "
            "PYTHONHASHSEED in {0, 7, 24, 101, random} with pieces carrying several tags, two working directories (absolute / relative paths), cold and warm "
            "index cache, the input assembly given as FASTA, AGP and TPF, and a shuffled sequence of in-process "
            "invocations; every output file compared byte for byte (log after stripping directories); ties: maps that cut slivers exactly in half remapped six times in one process with unrelated allocations in between. "
            "non-trivial = distinct tag set / distinct CLI case"
        )

    def generate(self, rng, tier):
        seen = set()
        n = 220 if tier == "quick" else 1500
        while len(seen) < n:
            k = rng.choice([1, 2, 2, 3, 3, 4])
            tags = tuple(sorted(rng.sample(TAG_POOL, k)))
            first = rng.choice(["scaffold_7", "HAP1_SCAFFOLD_3", "hap2_scaffold_1_2", "ctg5"])
            if (tags, first) in seen:
                continue
            seen.add((tags, first))
            yield {"gen": "namer", "kind": "namer", "tags": list(tags), "first": first,
                   "painted_name": rng.choice(["Scaffold_1", "Scaffold_12"])}
        for i in range(4 if tier == "quick" else 40):
            inp = P.gen_input(rng, style="fasta", nscaf=rng.randint(2, 4), maxrows=4)
            for sc in inp["scaffolds"]:
                for r in sc["rows"]:
                    if r[0] == "F" and r[3] - r[2] > 600:
                        r[3] = r[2] + 600
                # every other case: the first record BEGINS with a run of N (its cached .agp begins with a gap
                # line; a cache that loses it shifts every Pretext coordinate on a warm run)
                if i % 2 == 0 and sc is inp["scaffolds"][0] and sc["rows"][0][0] == "F":
                    sc["rows"].insert(0, ["G", rng.choice([8, 30]), "scaffold"])
                # re-tile scaffold coordinates after shortening
                pos = 0
                for r in sc["rows"]:
                    n_ = P.row_len(r)
                    if r[0] == "F":
                        r[2], r[3] = pos + 1, pos + n_
                    pos += n_
            ptx, _ = P.gen_pretext(rng, inp, "edit", tagger=multi_tagger)
            # every second case with Windows line ends and an index buffer of exactly one line + CR: a reader
            # that takes the file in buffer-sized pieces then sees the CR and the LF in different pieces
            crlf = i % 2 == 1
            yield {"gen": "cli" + ("/crlf" if crlf else ""), "kind": "cli", "input": inp, "pretext": ptx,
                   "seq_seed": rng.randrange(10**6), "seed3": rng.randrange(1, 10**6), "crlf": crlf,
                   "buf": 61 if crlf else 97}
        for i in range(3 if tier == "quick" else 30):
            inp, ptx = gen_ties(rng)
            yield {"gen": "ties", "kind": "ties", "input": inp, "pretext": ptx, "prefix": "SUPER_", "junk": rng.randrange(10**6)}

    # ---- namer
    def namer_obs(self, case, order):
        nm = ScaffoldNamer()
        sc = Scaffold(case["painted_name"], [Fragment(case["first"], 1, 100, 1)])
        try:
            nm.make_scaffold_name(sc, order)
        except Exception as e:
            return {"err": type(e).__name__}
        return {"name": nm.current_scaffold_name, "rank": nm.current_rank, "hap": nm.current_haplotype,
                "target": bool(nm.target_tags), "primary": nm.primary_haplotype}

    # ---- cli
    def write_case(self, case, d: Path):
        d.mkdir(parents=True, exist_ok=True)
        r = random.Random(case["seq_seed"])
        lines = []
        for sc in case["input"]["scaffolds"]:
            seq = "".join("N" * row[1] if row[0] == "G" else "".join(r.choices("ACGT", k=P.row_len(row))) for row in sc["rows"])
            # a few IUPAC ambiguity codes and lower-case bases inside the contigs (the indexer makes
            # 1-bp gaps of the former): where they fall relative to a buffer boundary must not matter
            seq = "".join((r.choice("RYKMSWryn") if (c != "N" and r.random() < 0.01) else
                           c.lower() if r.random() < 0.02 else c) for c in seq)
            lines.append(f">{sc['name']}\n" + "".join(seq[i : i + 60] + "\n" for i in range(0, len(seq), 60)))
        # one more record, not shown in the map: N runs that END exactly at a line end (where the
        # indexer flushes its buffer) followed by a line that begins with sequence, and N runs that fill lines
        # (the record also ENDS with N: its cached .agp ends with a gap line)
        al = ("".join(r.choices("ACGT", k=60)) + "".join(r.choices("ACGT", k=35)) + "N" * 25 + "".join(r.choices("ACGT", k=60))
              + "N" * 60 + "".join(r.choices("ACGT", k=50)) + "N" * 10 + "".join(r.choices("ACGT", k=17)) + "N" * 4)
        lines.append(">aligned_runs\n" + "".join(al[i : i + 60] + "\n" for i in range(0, len(al), 60)))
        (d / "in.fa").write_bytes("".join(lines).replace("\n", "\r\n" if case.get("crlf") else "\n").encode())
        ptx = case["pretext"]
        out = ["##agp-version\t2.1", f"# HiC MAP RESOLUTION: {ptx['bpt']} bp/texel"]
        for sc in ptx["scaffolds"]:
            pos = 0
            for i, row in enumerate(sc["rows"]):
                n = P.row_len(row)
                if row[0] == "G":
                    out.append(f"{sc['name']}\t{pos + 1}\t{pos + n}\t{i + 1}\tU\t{n}\t{row[2]}\tyes\tproximity_ligation")
                else:
                    out.append("\t".join([sc["name"], str(pos + 1), str(pos + n), str(i + 1), "W", row[1], str(row[2]),
                                          str(row[3]), "+" if row[4] == 1 else "-"] + row[5]) + "\t")
                pos += n
        (d / "in.pretext.agp").write_text("\n".join(out) + "\n")

    def run_cli_case(self, case):
        root = core.BUILD / self.pid / f"cli{case['seq_seed']}"
        shutil.rmtree(root, ignore_errors=True)
        ind = root / "in"
        self.write_case(case, ind)
        res = {}
        strip = [str(root)]

        def variant(name, seed, cwd_rel, infile, outname, keep_cache, buffer_size=None):
            od = root / name
            od.mkdir(parents=True)
            if not keep_cache:
                for sfx in (".fai", ".agp"):
                    p = Path(str(ind / "in.fa") + sfx)
                    if p.exists():
                        p.unlink()
            if cwd_rel:
                args = ["-a", os.path.relpath(ind / infile, od), "-p", os.path.relpath(ind / "in.pretext.agp", od), "-o", outname]
                cwd = od
            else:
                args = ["-a", ind / infile, "-p", ind / "in.pretext.agp", "-o", od / outname]
                cwd = root
            rc, err = run_sub(args, cwd, seed, buffer_size)
            return rc, read_outputs(od, strip + [str(od)])

        # sequential where the cache state matters
        res["base"] = variant("base", 0, False, "in.fa", "x.fa", False)
        res["warm"] = variant("warm", 0, False, "in.fa", "x.fa", True)
        # other stream / index buffer sizes: index rebuilt with a small buffer, then streamed with two more
        res["bufcold"] = variant("bufcold", 0, False, "in.fa", "x.fa", False, buffer_size=case.get("buf", 97))
        with ThreadPoolExecutor(max_workers=6) as ex:
            futs = {
                "seed24": ex.submit(variant, "seed24", 24, False, "in.fa", "x.fa", True),
                "seed3": ex.submit(variant, "seed3", case["seed3"], False, "in.fa", "x.fa", True),
                "seed7": ex.submit(variant, "seed7", 7, False, "in.fa", "x.fa", True),
                "seed101": ex.submit(variant, "seed101", 101, False, "in.fa", "x.fa", True),
                "relcwd": ex.submit(variant, "relcwd", 0, True, "in.fa", "x.fa", True),
                "buf7": ex.submit(variant, "buf7", 0, False, "in.fa", "x.fa", True, 7),
                "buf200": ex.submit(variant, "buf200", 0, False, "in.fa", "x.fa", True, 200),
                "fa2agp": ex.submit(variant, "fa2agp", 0, False, "in.fa", "x.agp", True),
            }
            for k, f in futs.items():
                res[k] = f.result()
        # the same input assembly as AGP and as TPF (written from the cache the FASTA run left)
        from tola.assembly.format import format_tpf
        from tola.assembly.parser import parse_agp

        cache = Path(str(ind / "in.fa") + ".agp")
        if cache.exists():
            shutil.copy(cache, ind / "asm.agp")
            with (ind / "asm.tpf").open("w") as fh:
                format_tpf(parse_agp(cache.open(), "x"), fh)
            res["agp2agp"] = variant("agp2agp", 0, False, "asm.agp", "x.agp", True)
            # (TPF cannot carry a scaffold that begins with a gap)
            if not any(sc["rows"][0][0] == "G" for sc in case["input"]["scaffolds"]):
                res["tpf2agp"] = variant("tpf2agp", 5, False, "asm.tpf", "x.agp", True)
        # in process, after other invocations
        od = root / "inproc"
        od.mkdir()
        other = root / "other"
        other.mkdir()
        fa0, agp0 = C.write_inputs(root / "otherin", True)
        C.run_cli(["-a", fa0, "-p", agp0, "-o", other / "y.fa"])
        r = C.run_cli(["-a", ind / "in.fa", "-p", ind / "in.pretext.agp", "-o", od / "x.fa"], leave_logging=True)
        res["inproc"] = (r.exit_code, read_outputs(od, strip + [str(od)]))
        # ... and BEFORE other invocations: what was written for these inputs must not change when the
        # same process goes on to run other inputs (without a log file of their own, to STDOUT)
        later = root / "later"
        later.mkdir()
        C.run_cli(["-a", fa0, "-p", agp0, "-o", later / "z.tpf", "--no-write-log"])
        C.run_cli(["-a", fa0, "-p", agp0])
        res["inproc_then_others"] = (r.exit_code, read_outputs(od, strip + [str(od)]))
        shutil.rmtree(root, ignore_errors=True)
        return {k: {"rc": v[0], "files": v[1]} for k, v in res.items()}

    def run_ties(self, case):
        """the same remapping several times in one process with unrelated allocations in between"""
        r = random.Random(case["junk"])
        outs = []
        keep = []
        for _ in range(6):
            keep.append([object() for _ in range(r.randrange(1, 5000))])
            if r.random() < 0.5 and keep:
                keep.pop(r.randrange(len(keep)))
            P.run_pipeline({"input": P.gen_input(r), "pretext": {"bpt": "10.000000", "scaffolds": []}})
            outs.append(P.run_pipeline(case))
        return {"runs": outs}

    def run_impl(self, case):
        if case["kind"] == "ties":
            return self.run_ties(case)
        if case["kind"] == "namer":
            orders = [list(p) for p in itertools.permutations(case["tags"])]
            return {"orders": [[o, self.namer_obs(case, o)] for o in orders]}
        return self.run_cli_case(case)

    def term(self, case, obs):
        if case["kind"] != "namer":
            return []

        def ob(o, names):
            if "err" in o:
                return "None"
            return (f"(Some (mkNObs {optlit(o['name'], names)} {zlit(o['rank'])} {optlit(o['hap'], names)} "
                    f"{blit(o['target'])} {optlit(o['primary'], names)}))")

        def t(names):
            first = A.row_term(["F", case["first"], 1, 100, 1, []], names)
            orders = listlit(obs["orders"], lambda p: f"({listlit(p[0], names)}, {ob(p[1], names)})")
            return f"mkCase {first} {names(case['painted_name'])} {orders}"
        return t

    def oracle(self, case, obs):
        if case["kind"] == "namer":
            outs = [o for _, o in obs["orders"]]
            base = outs[0]
            for order, o in obs["orders"]:
                if ("err" in o) != ("err" in base) or ("err" not in o and o != base):
                    return (f"make_scaffold_name depends on the iteration order of the tag set: order "
                            f"{obs['orders'][0][0]} gives {base}, order {order} gives {o}")
            return None
        if case["kind"] == "ties":
            for k, o in enumerate(obs["runs"][1:]):
                if o != obs["runs"][0]:
                    return f"remapping the same inputs again in the same process (run {k + 2}) gave a different result"
            return None
        base = obs["base"]
        same_as_base = ["warm", "bufcold", "buf7", "buf200", "seed24", "seed3", "seed7", "seed101", "relcwd", "inproc", "inproc_then_others"]
        for k in same_as_base:
            v = obs[k]
            if v["rc"] != base["rc"]:
                return f"exit status differs between base ({base['rc']}) and {k} ({v['rc']})"
            if base["rc"] == 0:
                for name, data in base["files"].items():
                    if v["files"].get(name) != data:
                        return f"output file {name} differs between the base run and the {k} run"
                if set(v["files"]) != set(base["files"]):
                    return f"set of output files differs between base and {k}"
        if "agp2agp" in obs and base["rc"] == 0:
            ref = obs["fa2agp"]
            for k in ("agp2agp", "tpf2agp"):
                if k not in obs:
                    continue
                v = obs[k]
                if v["rc"] != ref["rc"]:
                    return f"exit status differs between FASTA input and {k}"
                for name, data in ref["files"].items():
                    if name.endswith(".agp") and v["files"].get(name) != data:
                        return f"output assembly {name} differs between FASTA input and {k}"
        return None

    def key(self, case, obs):
        import json

        return json.dumps({k: v for k, v in case.items() if k != "gen"}, sort_keys=True, default=str)

    def classify(self, case, obs):
        if case["kind"] == "ties":
            return "ties"
        if case["kind"] == "namer":
            return "namer/" + ("err" if "err" in obs["orders"][0][1] else "ok")
        return "cli/rc=" + str(obs["base"]["rc"])

    def shrink_candidates(self, case):
        if case["kind"] == "namer" and len(case["tags"]) > 2:
            for i in range(len(case["tags"])):
                yield {**case, "tags": case["tags"][:i] + case["tags"][i + 1 :]}


PROP = C17()
