"""C02 -- curated layout follows the Pretext edits to within three texel widths."""

from fractions import Fraction

from .. import pipeline_util as P
from ..pipeline_prop import PipelineProp


class C02(PipelineProp):
    pid = "C02"
    design_ref = "6/C02"
    required_theorems = ['C02_error_length_spec', 'C02_trim_first_exact', 'C02_trim_last_exact', 'C02_trim_first_kept', 'C02_start_if_trimmed_agrees', 'C02_start_if_trimmed_agrees_rev', 'C02_legacy_refuted', 'C02_two_piece_cut', 'C02_two_piece_cut_instance', 'C02_margin_sharp_left', 'C02_core_kept', 'C02_deep_cut_exact', 'C02_core_and_cut_instance', 'C02_completion', 'C02_completion_needs_untagged_input', 'C02_completion_instance', 'C02_pretext_order', 'C02_pretext_order_pairs', 'C02_end_to_end', 'C02_end_to_end_order', 'C02_end_to_end_needs_stranded_input', 'C02_end_to_end_instance', 'C02_completion_painted', 'C02_painted_maps_complete', 'C02_painted_needs_stranded_contigs', 'C02_painted_needs_named_scaffolds', 'C02_painted_needs_no_haplotype_names', 'C02_end_to_end_painted', 'C02_end_to_end_painted_order', 'C02_end_to_end_painted_named', 'C02_painted_rank_needs_fresh_names', 'C02_completion_tagged', 'C02_tagged_needs_one_name_tag', 'C02_tagged_needs_one_hap_tag', 'C02_tagged_needs_primary_has_hap', 'C02_tagged_needs_unloc_is_painted', 'C02_completion_tagged_instance', 'C02_cores_land_any_tags', 'C02_two_haplotype_maps_complete', 'C02_two_haplotype_maps_need_pairing', 'C02_two_haplotype_instance']
    n_quick = 400

    def rule(self):
        return (
            "PretextView-model edit scripts only: any cut set on the texel grid with pieces >= 2 texels, any "
            "permutation / orientation / grouping, per-scaffold texel count floor or ceil, sub-texel scaffolds "
            "present or absent, texel 1 bp .. total/3, painted or unpainted, forward and reverse input contigs, "
            "contig ends at all offsets from the cuts (lengths from 1 bp); 35% boundary sweeps: a cut exactly d bases inside a contig, d around 1, 2, 3 error lengths (3e-1 .. 3e+3), texel sizes with fractional part below and above one half. oracle: remapping completes; core bases "
            "of each piece map affinely into one output scaffold with orientation input x piece; same-destination "
            "pieces keep Pretext order; deep cuts split exactly at the designated coordinate. non-trivial = "
            "distinct completed case with at least one piece longer than 6 error lengths"
        )

    def gen_two_name_styles(self, rng):
        """a single-haplotype assembly whose scaffold names mix scaffold_<n> with scaffold_<n>_<m> (what a
        break step leaves behind): the second style has the shape <word>_<anything>_<digits> in which the
        namer reads a haplotype prefix.  Painted scaffolds alternate between the two styles, which the chromosome
        namer accepts (13.5); completion only"""
        t = rng.choice([10, 100, 1000])
        n1, n2 = rng.randint(40, 120) * t, rng.randint(20, 80) * t
        cut = rng.randint(10, n1 // t - 10) * t
        c1 = rng.randint(n1 // 4, n1 // 2)
        c2 = rng.randint(n2 // 4, n2 // 2)
        a, b = "scaffold_1", f"scaffold_{rng.randint(2, 30)}_{rng.randint(1, 3)}"
        inp = {"scaffolds": [
            {"name": a, "rows": [["F", a, 1, c1, 1, []], ["G", 200, "scaffold"], ["F", a, c1 + 201, n1, 1, []]]},
            {"name": b, "rows": [["F", b, 1, c2, 1, []], ["G", 50, "scaffold"], ["F", b, c2 + 51, n2, 1, []]]}]}
        ptx = {"bpt": f"{t}.000000", "scaffolds": [
            {"name": "Scaffold_1", "rows": [["F", a, 1, cut, 1, ["Painted"]]]},
            {"name": "Scaffold_2", "rows": [["F", b, 1, n2, rng.choice([1, -1]), ["Painted"]], ["G", 100, "scaffold"],
                                            ["F", a, cut + 1, n1, 1, ["Painted"]]]}]}
        return {"gen": "two-name-styles", "input": inp, "pretext": ptx, "prefix": "SUPER_", "pieces": None}

    def gen_case(self, rng):
        if rng.random() < 0.02:
            return self.gen_two_name_styles(rng)
        if rng.random() < 0.35:
            inp, ptx, pieces = P.gen_boundary_sweep(rng)
            return {"gen": "sweep", "input": inp, "pretext": ptx, "prefix": "SUPER_", "pieces": pieces}
        inp = P.gen_input(rng, style=rng.choice(["tpf", "tpf", "fasta"]), double_gaps=rng.choice([0.0, 0.0, 0.3]))
        giant = rng.random() < 0.04
        if giant:
            # chromosomes beyond 2**32 bp (lungfish, mistletoe): the same edit scripts at 10^7 times the size
            inp = P.scale_input(inp, 10**7)
            giant = max(P.sc_len(sc) for sc in inp["scaffolds"]) > 2**32
        ptx, pieces = P.gen_pretext(rng, inp, "edit", max_texels=32768 if giant else None)
        return {"gen": "edit/giant" if giant else "edit", "input": inp, "pretext": ptx, "prefix": "SUPER_", "pieces": pieces}

    def oracle(self, case, obs):
        if "err" in obs:
            return f"remapping a PretextView-model script failed: {obs['err']}: {obs.get('msg', '')[:160]}"
        if case.get("pieces") is None:
            return None  # specimens: completion only
        bpt = Fraction(case["pretext"]["bpt"])
        err = 1 + int(bpt)
        margin = 3 * err
        idx = P.OutIndex(obs)
        by_dest = {}
        for pc in case["pieces"]:
            sc = case["input"]["scaffolds"][pc["src"]]
            L = P.sc_len(sc)
            a, b = pc["start"] + margin, min(pc["end"], L) - margin
            if a > b:
                continue
            anchors = []
            for rs, re_, r in P.scaffold_spans(sc):
                if r[0] != "F":
                    continue
                lo, hi = max(a, rs), min(b, re_)
                if lo > hi:
                    continue
                for x in {lo, hi}:
                    anchors.append((x, r[1], P.contig_coord(rs, r, x), r[4]))
            if not anchors:
                continue
            const = None
            dest = None
            ps = []
            for x, name, cc, strand in sorted(anchors):
                hits = idx.locate(name, cc)
                if len(hits) != 1:
                    return f"base {name}:{cc} (piece {pc['name']}:{pc['start']}-{pc['end']}) occurs {len(hits)} times in the output"
                sid, p, ostrand = hits[0]
                if dest is None:
                    dest = sid
                elif sid != dest:
                    return (f"core of piece {pc['name']}:{pc['start']}-{pc['end']} is split between output scaffolds "
                            f"{idx.scaffolds[dest][1]['name']} and {idx.scaffolds[sid][1]['name']}")
                if ostrand != strand * pc["strand"]:
                    return f"base {name}:{cc} has output strand {ostrand}, expected input {strand} x piece {pc['strand']}"
                ps.append(p)
                c = p - pc["strand"] * x
                if const is None:
                    const = c
                elif c != const:
                    return (f"core of piece {pc['name']}:{pc['start']}-{pc['end']} is not collinear in "
                            f"{idx.scaffolds[dest][1]['name']} (offset {c} vs {const} at {name}:{cc})")
            # where the core's contig bases really are in the output (not an extrapolated mid point: a core may
            # consist mostly of a gap that is dropped at the cut and replaced by a join gap of another length)
            by_dest.setdefault((pc["dest"], dest), []).append((pc["dest_pos"], min(ps), max(ps)))
        for (pd, od), spans in by_dest.items():
            spans = sorted(spans)
            if any(spans[i][2] >= spans[i + 1][1] for i in range(len(spans) - 1)):
                return f"pieces of Pretext scaffold {pd + 1} sharing output scaffold {idx.scaffolds[od][1]['name']} are out of Pretext order"
        # deep cuts
        pcs = case["pieces"]
        for p1, p2 in zip(pcs, pcs[1:]):
            if p1["src"] != p2["src"] or p1["kb"] != p2["ka"]:
                continue
            x = p1["end"]
            sc = case["input"]["scaffolds"][p1["src"]]
            for rs, re_, r in P.scaffold_spans(sc):
                if r[0] == "F" and rs <= x and x + 1 <= re_ and x - rs + 1 > margin and re_ - x > margin:
                    c1 = P.contig_coord(rs, r, x)
                    c2 = P.contig_coord(rs, r, x + 1)
                    bounds = idx.frag_bounds(r[1])
                    lo, hi = min(c1, c2), max(c1, c2)
                    if not (any(e == lo for _, e in bounds) and any(s_ == hi for s_, _ in bounds)):
                        return (f"cut at scaffold position {x}|{x + 1} inside {r[1]} should split it at "
                                f"{lo}|{hi}; output pieces are {sorted(bounds)}")
        return None

    def key(self, case, obs):
        if "err" in obs:
            return None
        err = 1 + int(Fraction(case["pretext"]["bpt"]))
        if not any(pc["end"] - pc["start"] + 1 > 6 * err for pc in case.get("pieces") or []):
            return None
        return super().key({k: v for k, v in case.items() if k != "pieces"}, obs)

    def shrink_candidates(self, case):
        return []  # pieces metadata is tied to the map


PROP = C02()
