"""C07 -- every join carries a gap and retained neighbours keep their input gap."""

from .. import pipeline_util as P
from ..pipeline_prop import PipelineProp

JOIN = ["G", 200, "scaffold"]


class C07(PipelineProp):
    pid = "C07"
    design_ref = "6/C07"
    required_theorems = ['C07_fuse_is_join', 'C07_fusion_boundary_has_gap', 'C07_no_terminal_gap', 'C07_results_have_no_terminal_gap', 'C07_leftovers_have_no_terminal_gap', 'C07_adjacent_only_within_piece', 'C07_leftover_adjacency_is_input_adjacency', 'C07_legacy_refuted', 'C07_gap_provenance', 'C07_results_hold_input_gaps', 'C07_output_scaffolds_well_formed']

    def rule(self):
        return (
            "PretextView-model maps biased to unpainted scaffolds whose trailing contigs fall inside the final "
            "partial texel, scaffolds absent from the map, cut contigs whose halves meet again (75%), plus perturbed "
            "maps (25%, clauses 1-2 only); output rows walked against an index of input adjacencies and their gaps. "
            "non-trivial = distinct completed case"
        )

    def gen_case(self, rng):
        inp = P.gen_input(rng, style=rng.choice(["tpf", "fasta", "tpf"]), double_gaps=0.2)
        # small trailing contigs so that the last texel matters
        for sc in inp["scaffolds"]:
            if rng.random() < 0.5 and sc["rows"][-1][0] == "F":
                last = sc["rows"][-1]
                n = rng.choice([1, 2, 5, 30])
                if last[3] - last[2] + 1 > n:
                    pass
                ctgname = last[1] + "t" if last[1] != sc["name"] else sc["name"]
                pos = P.sc_len(sc)
                g = rng.choice([10, 100, 200])
                if ctgname == sc["name"]:
                    sc["rows"] += [["G", g, "scaffold"], ["F", ctgname, pos + g + 1, pos + g + n, 1, []]]
                else:
                    sc["rows"] += [["G", g, "scaffold"], ["F", ctgname, 1, n, rng.choice([1, -1]), []]]
        profile = rng.choice(["edit", "edit", "null"])
        ptx, pieces = P.gen_pretext(rng, inp, profile)
        pv = True
        gen = profile
        if rng.random() < 0.25:
            ptx = P.gen_garbage(rng, inp, ptx)
            pv = False
            gen = "garbage"
        return {"gen": gen, "input": inp, "pretext": ptx, "prefix": "SUPER_", "pv": pv}

    def oracle(self, case, obs):
        if "err" in obs:
            return None
        a_in = P.adjacencies(case["input"]["scaffolds"])
        for sc in P.all_out_scaffolds(obs):
            rows = sc["rows"]
            if rows and (rows[0][0] == "G" or rows[-1][0] == "G"):
                return f"output scaffold {sc['name']} begins or ends with a gap"
            prev = None
            gaps = []
            for r in rows:
                if r[0] == "G":
                    gaps.append(r)
                    continue
                if prev is not None:
                    pair = frozenset((P.tail_end(prev), P.head_end(r)))
                    if not gaps:
                        if pair not in a_in or a_in[pair]:
                            return (f"in {sc['name']}: {prev[1]}:{prev[2]}-{prev[3]} and {r[1]}:{r[2]}-{r[3]} are "
                                    f"directly adjacent but were not directly adjacent in the input")
                    elif case.get("pv"):
                        if pair in a_in and a_in[pair] and all(g_ in a_in[pair] for g_ in gaps) and len(gaps) <= len(a_in[pair]):
                            # every gap row is an input gap row separating the same two neighbours (for a run of
                            # consecutive input gaps the left-over path keeps the last one only: DESIGN.md 13.5)
                            pass
                        elif gaps == [JOIN]:
                            pass
                        else:
                            return (f"in {sc['name']}: gap rows {gaps} between {prev[1]}:{prev[2]}-{prev[3]} and "
                                    f"{r[1]}:{r[2]}-{r[3]} are neither their input gap nor the join gap")
                prev = r
                gaps = []
        return None


PROP = C07()
