"""C07 -- every join carries a gap and retained neighbours keep their input gap."""

from .. import pipeline_util as P
from ..pipeline_prop import PipelineProp

JOIN = ["G", 200, "scaffold"]


class C07(PipelineProp):
    pid = "C07"
    design_ref = "6/C07"
    required_theorems = ['C07_fuse_is_join', 'C07_fusion_boundary_has_gap', 'C07_no_terminal_gap', 'C07_results_have_no_terminal_gap', 'C07_leftovers_have_no_terminal_gap', 'C07_adjacent_only_within_piece', 'C07_leftover_adjacency_is_input_adjacency', 'C07_legacy_refuted', 'C07_gap_provenance', 'C07_results_hold_input_gaps', 'C07_output_scaffolds_well_formed', 'C07_neighbour_gaps', 'C07_two_case_statement_refuted', 'C07_neighbour_gaps_uniform', 'C07_pretextview_gaps', 'C07_pretextview_gaps_any_tags']

    def rule(self):
        return (
            "PretextView-model maps biased to unpainted scaffolds whose trailing contigs fall inside the final "
            "partial texel, scaffolds absent from the map, cut contigs whose halves meet again (75%), plus perturbed "
            "maps (25%) and sparse maps (15%: a few baits that show single contigs from the middle of scaffolds, so that "
            "never-found contigs lie on both sides of found ones; input scaffolds with leading / trailing gap rows in 15%); "
            "output rows walked against the input: every pair of consecutive fragments with the gap rows between them "
            "must be a join (exactly the join gap), the same two input neighbours with exactly their input gap run "
            "(either direction), or -- outside PretextView-model maps only -- the third case of theorem "
            "C07_neighbour_gaps. non-trivial = distinct completed case"
        )

    def gen_case(self, rng):
        inp = P.gen_input(rng, style=rng.choice(["tpf", "fasta", "tpf"]), double_gaps=0.2)
        if rng.random() < 0.15:
            # scaffolds that begin and / or end with gap rows (a FASTA record beginning with Ns, a
            # TPF with a terminal GAP line): no output scaffold may keep them
            for sc in inp["scaffolds"]:
                own = sc["rows"][0][1] == sc["name"]
                if rng.random() < 0.6:
                    g = rng.choice([1, 40, 150])
                    sc["rows"] = [["G", g, "scaffold"]] + [
                        (["F", r[1], r[2] + g, r[3] + g, r[4], r[5]] if (r[0] == "F" and own) else r) for r in sc["rows"]]
                if rng.random() < 0.6:
                    sc["rows"] = sc["rows"] + [["G", rng.choice([1, 40, 150]), "scaffold"]]
            profile = rng.choice(["null", "null", "edit"])
            ptx, pieces = P.gen_pretext(rng, inp, profile)
            return {"gen": "termgap/" + profile, "input": inp, "pretext": ptx, "prefix": "SUPER_", "pv": False}
        if rng.random() < 0.06:
            # Primary mode with two further haplotypes that both hold a chromosome of the same name and
            # an unplaced scaffold: the merged all_haplotigs FILE lists the name twice, apart -- read back,
            # the two must not have become one scaffold (contigs side by side that never were)
            return {**P.gen_primary_3hap(rng), "pv": True}
        if rng.random() < 0.15:
            # sparse map: single contigs out of the middle of scaffolds
            scs = []
            total = sum(P.sc_len(sc) for sc in inp["scaffolds"])
            for sc in inp["scaffolds"]:
                spans = [(a, b) for a, b, r in P.scaffold_spans(sc) if r[0] == "F"]
                for a, b in spans:
                    if rng.random() < 0.35:
                        scs.append({"name": f"Scaffold_{len(scs) + 1}",
                                    "rows": [["F", sc["name"], a, b, rng.choice([1, -1]), rng.choice([[], ["Painted"]])]]})
            if scs:
                return {"gen": "sparse", "input": inp, "pretext": {"bpt": rng.choice(["1.000000", P.choose_bpt(rng, max(total, 1))]),
                                                                    "scaffolds": scs}, "prefix": "SUPER_", "pv": False}
        # small trailing contigs so that the last texel matters
        for sc in inp["scaffolds"]:
            if rng.random() < 0.5 and sc["rows"][-1][0] == "F":
                last = sc["rows"][-1]
                n = rng.choice([1, 2, 5, 30])
                if last[3] - last[2] + 1 > n:
                    pass
                ctgname = last[1] + "t" if last[1] != sc["name"] else sc["name"]
                pos = P.sc_len(sc)
                g = rng.choice([10, 100, 200])
                if ctgname == sc["name"]:
                    sc["rows"] += [["G", g, "scaffold"], ["F", ctgname, pos + g + 1, pos + g + n, 1, []]]
                else:
                    sc["rows"] += [["G", g, "scaffold"], ["F", ctgname, 1, n, rng.choice([1, -1]), []]]
        profile = rng.choice(["edit", "edit", "null"])
        ptx, pieces = P.gen_pretext(rng, inp, profile)
        pv = True
        gen = profile
        if rng.random() < 0.25:
            ptx = P.gen_garbage(rng, inp, ptx)
            pv = False
            gen = "garbage"
        return {"gen": gen, "input": inp, "pretext": ptx, "prefix": "SUPER_", "pv": pv}

    @staticmethod
    def piece_of(sg, o, f):
        return f[1] == o[1] and o[2] <= f[2] and f[3] <= o[3] and f[4] == sg * o[4]

    def input_index(self, case):
        same, skipped = [], []
        for sc in case["input"]["scaffolds"]:
            prev, gaps, seen = None, [], []
            for r in sc["rows"]:
                if r[0] == "G":
                    gaps.append(r)
                    continue
                if prev is not None:
                    same.append((prev, list(gaps), r))
                    if gaps:
                        # never-found contigs further left, at least one other contig between
                        for ox in seen[:-1]:
                            skipped.append((ox, gaps[-1], r))
                seen.append(r)
                prev, gaps = r, []
        return same, skipped

    def oracle(self, case, obs):
        if "err" in obs:
            return None
        w = self.walk(case, P.all_out_scaffolds(obs), "")
        if w:
            return w
        # the same walk over the AGP / TPF files the command writes, read back
        files = P.written_assemblies(obs)
        for name, scs in files or []:
            if isinstance(scs, dict):
                return f"written file {name} cannot be parsed back: {scs['err']}"
            w = self.walk(case, scs, f"file {name}: ")
            if w:
                return w
        return None

    def walk(self, case, scaffolds, where):
        same, skipped = self.input_index(case)
        po = self.piece_of
        for sc in scaffolds:
            rows = sc["rows"]
            if not rows:
                return f"{where}output scaffold {sc['name']} has no rows"
            if rows[0][0] == "G" or rows[-1][0] == "G":
                return f"{where}output scaffold {sc['name']} begins or ends with a gap"
            prev = None
            gaps = []
            for r in rows:
                if r[0] == "G":
                    gaps.append(r)
                    continue
                if prev is not None:
                    x, y = prev, r
                    is_same = any((m == gaps and po(1, ox, x) and po(1, oy, y))
                                  or (m == gaps[::-1] and po(-1, oy, x) and po(-1, ox, y)) for ox, m, oy in same)
                    if not gaps and not is_same:
                        return (f"{where}in {sc['name']}: {x[1]}:{x[2]}-{x[3]} and {y[1]}:{y[2]}-{y[3]} are "
                                f"directly adjacent but were not directly adjacent in the input")
                    if gaps and not is_same and gaps != [JOIN]:
                        third = any(gaps == [gp] and po(1, ox, x) and po(1, oy, y) for ox, gp, oy in skipped)
                        if case.get("pv") or not third:
                            return (f"{where}in {sc['name']}: gap rows {gaps} between {x[1]}:{x[2]}-{x[3]} and "
                                    f"{y[1]}:{y[2]}-{y[3]} are neither the gap run that separated these two contigs "
                                    f"in the input nor the join gap")
                prev = r
                gaps = []
        return None


PROP = C07()
