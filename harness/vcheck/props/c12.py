"""C12 -- overlap lookup equals a brute-force scan of the scaffold."""

import itertools

from tola.assembly.fragment import Fragment
from tola.assembly.gap import Gap
from tola.assembly.indexed_assembly import IndexedAssembly
from tola.assembly.scaffold import Scaffold

from .. import asm as A
from ..core import listlit, zlit
from ..prop import Prop


def build_rows(kinds, lens):
    rows = []
    for k, (kind, ln) in enumerate(zip(kinds, lens)):
        if kind == "F":
            rows.append(["F", f"c{k}", 5, 5 + ln - 1, 1 if k % 2 == 0 else -1, []])
        else:
            rows.append(["G", ln, "scaffold"])
    return rows


def row_len(r):
    return r[3] - r[2] + 1 if r[0] == "F" else r[1]


def brute(rows, a, b):
    pos = 0
    hits = []
    for k, r in enumerate(rows):
        st, en = pos + 1, pos + row_len(r)
        pos = en
        if st <= b and a <= en:
            hits.append((k, st, en))
    while hits and rows[hits[0][0]][0] == "G":
        hits.pop(0)
    while hits and rows[hits[-1][0]][0] == "G":
        hits.pop()
    if not hits:
        return None
    return [hits[0][1], hits[-1][2], hits[0][0], len(hits)]


class C12(Prop):
    pid = "C12"
    imports = "From Tola Require Import Py.Base Model.Fragment Model.Lookup Corr.C12."
    show_fn = "show"
    design_ref = "6/C12"
    required_theorems = ["C12_lookup_spec", "C12_spec_unique", "C12_convex", "C12_equals_brute_force", "C12_brute_force_spec", "C12_never_out_of_fuel", "C12_legacy_refuted"]

    def rule(self):
        return (
            "one case = one scaffold with a batch of queries. exhaustive: every row-kind word over {F,G} of "
            "length<=3 (quick; +length 4 over lengths {1,2}) / <=5 (thorough) x row lengths in {1,2,3} x every "
            "query 1<=a<=b<=total+2; random: 1-40 rows, lengths up to 10^6, queries around every row boundary "
            "and beyond the end; a third of them also as a scaffold with a history (indexed and queried with its first rows only, grown by add_row / append_scaffold, indexed again), a quarter with the caller's row list emptied and an earlier whole-scaffold result edited before the queries. evaluations counts scaffolds; coverage.queries counts (scaffold,query) pairs. "
            "non-trivial = distinct scaffold whose batch contains both a hit and a miss or a gap-only query"
        )

    def generate(self, rng, tier):
        plans = [(1, (1, 2, 3)), (2, (1, 2, 3)), (3, (1, 2, 3))]
        if tier == "quick":
            plans.append((4, (1, 2)))
        else:
            plans += [(4, (1, 2, 3)), (5, (1, 2))]
        for n, lens in plans:
            for kinds in itertools.product("FG", repeat=n):
                for ls in itertools.product(lens, repeat=n):
                    rows = build_rows(kinds, ls)
                    T = sum(ls)
                    qs = [[a, b] for a in range(1, T + 3) for b in range(a, T + 3)]
                    yield {"gen": f"exhaustive/n={n}", "rows": rows, "queries": qs}
        yield from self.giant_cases()
        for i in range(120 if tier == "quick" else 3000):
            n = rng.choice([1, 2, 3, 5, 8, 13, 21, 40])
            kinds = [rng.choice("FFG") for _ in range(n)]
            if rng.random() < 0.3:
                kinds[0] = "G"
            if rng.random() < 0.3:
                kinds[-1] = "G"
            ls = [rng.choice([1, 1, 2, 3, 10, 200, 1000, 10**6, rng.randint(1, 5000)]) for _ in range(n)]
            rows = build_rows(kinds, ls)
            bounds = [0]
            for x in ls:
                bounds.append(bounds[-1] + x)
            T = bounds[-1]
            pts = sorted({max(1, p + d) for p in bounds for d in (-1, 0, 1, 2)} | {T + 5, T + 10**7})
            qs = []
            for _ in range(40):
                a = rng.choice(pts)
                b = rng.choice(pts)
                if a > b:
                    a, b = b, a
                qs.append([a, b])
            yield {"gen": f"random/n={n}", "rows": rows, "queries": qs}
            if i % 4 == 1:
                # the index must not depend on objects other code still holds: the caller empties the list it
                # built the scaffold from, and an earlier whole-scaffold result is edited, before the queries
                yield {"gen": "aliasing", "rows": rows, "queries": qs, "reuse_list": True, "pre_mutate": True}
            if n >= 2 and i % 3 == 0:
                # a scaffold with a history: indexed and queried when it had only its first k rows, then
                # grown (add_row / append_scaffold) and indexed again -- the second index must describe
                # the scaffold as it is now
                yield {"gen": "grown-scaffold", "rows": rows, "queries": qs, "grow_from": rng.randint(1, n - 1),
                       "how": rng.choice(["add_row", "append_scaffold"])}

    def giant_cases(self):
        """scaffolds longer than 2^32 bp (coordinates are Python ints: nothing may assume 32 bits)"""
        for ls in ([2**31, 7, 2**31 + 5], [3 * 10**9, 200, 3 * 10**9], [2**32 + 1], [5, 2**33, 9, 1]):
            kinds = ["F" if i % 2 == 0 else "G" for i in range(len(ls))]
            if len(ls) == 4:
                kinds = ["F", "F", "G", "F"]
            rows = build_rows(kinds, ls)
            bounds = [0]
            for x in ls:
                bounds.append(bounds[-1] + x)
            pts = sorted({max(1, p + d) for p in bounds for d in (-1, 0, 1)} | {bounds[-1] + 10})
            qs = [[a, b] for a in pts for b in pts if a <= b]
            yield {"gen": "giant", "rows": rows, "queries": qs}

    def run_impl(self, case):
        objs = [A.row_to_obj(r) for r in case["rows"]]
        pos = {id(o): k for k, o in enumerate(objs) if isinstance(o, Fragment)}
        if case.get("grow_from") is not None:
            k0 = case["grow_from"]
            sc = Scaffold("scf", objs[:k0])
            first = IndexedAssembly("asm0", scaffolds=[sc])
            for a, b in case["queries"][:5]:
                try:
                    first.find_overlaps(Fragment("scf", a, b, 1))
                except Exception:
                    pass
            if case["how"] == "add_row":
                for o in objs[k0:]:
                    sc.add_row(o)
            else:
                sc.append_scaffold(Scaffold("more", objs[k0:]))
            ia = IndexedAssembly("asm", scaffolds=[sc])
        else:
            mine = list(objs)
            ia = IndexedAssembly("asm", scaffolds=[Scaffold("scf", mine)])
            if (len(objs) + len(case["queries"])) % 2:
                # a second, different scaffold of the same name is offered and refused (ValueError): the refusal
                # must leave the first one and its index as they were
                try:
                    ia.add_scaffold(Scaffold("scf", [Fragment("other", 1, 37, 1), Fragment("other2", 1, 3, 1)]))
                except ValueError:
                    pass
            if case.get("reuse_list"):
                mine.clear()            # the caller re-uses its own list
            if case.get("pre_mutate"):
                total = sum(o.length for o in objs)
                for a, b in ((1, total), (1, total + 7)):
                    try:
                        r0 = ia.find_overlaps(Fragment("scf", a, b, 1))
                        if r0 is not None and r0.rows:
                            r0.discard_end()
                            if r0.rows:
                                r0.discard_start()
                    except Exception:
                        pass
        out = []
        for a, b in case["queries"]:
            try:
                r = ia.find_overlaps(Fragment("scf", a, b, 1))
            except Exception as e:
                out.append({"err": type(e).__name__})
                continue
            if r is None:
                out.append(None)
            else:
                i = pos.get(id(r.rows[0])) if r.rows and isinstance(r.rows[0], Fragment) else None
                same = i is not None and all(
                    (x is objs[i + k]) if isinstance(x, Fragment) else (i + k < len(objs) and x is objs[i + k])
                    for k, x in enumerate(r.rows)
                ) if i is not None and i + len(r.rows) <= len(objs) else False
                out.append({"start": r.start, "end": r.end, "i": i, "n": len(r.rows), "slice_ok": bool(same),
                            "bait_kept": r.bait.start == a and r.bait.end == b})
        return out

    def term(self, case, obs):
        def ob(o):
            if o is None:
                return "ONone"
            if "err" in o:
                return "OErr"
            if o["i"] is None or not o["slice_ok"]:
                # rows returned are not a slice starting at a fragment: cannot agree with the model
                return f"(OSome {zlit(o['start'])} {zlit(o['end'])} (-1) {zlit(o['n'])})"
            return f"(OSome {zlit(o['start'])} {zlit(o['end'])} {zlit(o['i'])} {zlit(o['n'])})"

        def t(names):
            qs = listlit(
                [f"({zlit(a)}, {zlit(b)}, {ob(o)})" for (a, b), o in zip(case["queries"], obs)]
            )
            return f"mkCase {A.rows_term(case['rows'], names, 0)} {qs}"
        return t

    def oracle(self, case, obs):
        for (a, b), o in zip(case["queries"], obs):
            want = brute(case["rows"], a, b)
            if o is not None and "err" in o:
                return f"query [{a},{b}] raised {o['err']}; brute force gives {want}"
            got = None if o is None else [o["start"], o["end"], o["i"], o["n"]]
            if got != want:
                return f"query [{a},{b}] returned {o}; brute force (start,end,first row,count) = {want}"
            if o is not None and (not o["slice_ok"] or not o["bait_kept"]):
                return f"query [{a},{b}]: rows are not the scaffold's own rows in order / bait altered"
        return None

    def key(self, case, obs):
        kinds = set()
        for o in obs:
            kinds.add("none" if o is None else "err" if "err" in o else "hit")
        if len(kinds) < 2:
            return None
        return super().key({"rows": case["rows"]}, obs)

    def classify(self, case, obs):
        return case["gen"]

    def extra_counts(self, cases, observations):
        return {"queries": sum(len(c["queries"]) for c in cases)}

    def shrink_candidates(self, case):
        qs = case["queries"]
        if len(qs) > 1:
            for q in qs:
                yield {**case, "queries": [q]}
        rows = case["rows"]
        for j in range(len(rows)):
            if len(rows) > 1:
                yield {**case, "rows": rows[:j] + rows[j + 1 :]}
        for j, r in enumerate(rows):
            if row_len(r) > 1:
                r2 = list(r)
                if r[0] == "F":
                    r2[3] = r2[2] + (row_len(r) // 2) - 1 if row_len(r) // 2 >= 1 else r2[2]
                else:
                    r2[1] = max(1, r[1] // 2)
                yield {**case, "rows": rows[:j] + [r2] + rows[j + 1 :]}
        if len(qs) == 1:
            a, b = qs[0]
            for a2, b2 in ((a - 1, b - 1), (a, b - 1), (a + 1, b), (1, b), (a, a)):
                if 1 <= a2 <= b2 and [a2, b2] != [a, b]:
                    yield {**case, "queries": [[a2, b2]]}

    def neighbours(self, case):
        return []

    def known_signature(self, case, obs, why):
        return None


PROP = C12()
