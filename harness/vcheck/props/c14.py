"""C14 -- reversal and reverse-complement are involutions that commute with output."""

from tola.assembly.scaffold import Scaffold
from tola.fasta.simple import IUPAC_COMPLEMENT, reverse_complement

from .. import asm as A
from .. import fasta_util as F
from ..core import listlit, zlit
from ..prop import Prop


def gen_rows_over(rng, layout, nrows, strands=(1, -1, 0), maxgap=12):
    rows = []
    recs = layout["records"]
    for _ in range(nrows):
        if rng.random() < 0.3:
            rows.append(["G", rng.choice([0, 1, 2, 5, maxgap]), rng.choice(["scaffold", "contig"])])
        else:
            r = rng.choice(recs)
            n = len(r["seq"])
            a = rng.randint(1, n)
            b = rng.randint(a, n)
            tags = rng.choice([[], [], ["Painted"], ["Hap1", "X"]])
            rows.append(["F", r["name"], a, b, rng.choice(strands), tags])
    return rows


class C14(Prop):
    pid = "C14"
    imports = "From Tola Require Import Py.Base Model.Fragment Model.Scaffold Model.Fasta Model.Stream Corr.Fasta."
    show_fn = "show"
    design_ref = "6/C14"
    required_theorems = ['C14_rows_reverse_involutive', 'C14_rows_reverse_spec', 'C14_row_reverse_spec', 'C14_complement_involutive', 'C14_revcomp_involutive', 'C14_revcomp_app', 'C14_rev_chunks_is_revcomp_of_fwd', 'C14_rev_chunks_chunkwise', 'C14_stream_reverse', 'C14_strand0_refuted', 'C14_good_access_satisfiable']

    def rule(self):
        return (
            "reverse: random scaffolds (0-10 rows, strands +,-,0, tags, gaps) -> Scaffold.reverse() rows, twice; "
            "revcomp: all 256 single bytes (table, exhaustive) + random byte strings over IUPAC/other symbols; "
            "streamrev: random FASTA layouts x scaffolds over them x buffer {1,2,3,7,w-1,w+1,10^6} x line length "
            "{1,7,60}: bytes streamed for Scaffold.reverse() against the reverse complement of the bytes streamed "
            "for the original. non-trivial = distinct case (streamrev: with at least one fragment)"
        )

    def generate(self, rng, tier):
        yield {"gen": "table", "kind": "table"}
        for _ in range(200 if tier == "quick" else 2000):
            layout = {"records": [{"name": n, "desc": "", "seq": "A" * 50} for n in ("a", "b")]}
            yield {"gen": "reverse", "kind": "reverse", "rows": gen_rows_over(rng, layout, rng.randint(0, 10)),
                   "extra": gen_rows_over(rng, layout, rng.randint(1, 3))}
        for _ in range(80 if tier == "quick" else 1000):
            # OverlapResult.to_scaffold: the same region of the same indexed assembly looked up on both strands
            # (a scaffold shown in the map and, flipped, in a second map): one is the reversal of the other
            from .. import pipeline_util as P

            inp = P.gen_input(rng, style=rng.choice(["tpf", "fasta"]), nscaf=rng.randint(1, 3))
            sc = rng.choice(inp["scaffolds"])
            n = P.sc_len(sc)
            a = rng.randint(1, n)
            yield {"gen": "lookup", "kind": "lookup", "input": inp, "name": sc["name"], "start": a, "end": rng.randint(a, n),
                   "order": rng.choice([[1, -1], [-1, 1], [1, -1, 1]])}
        for _ in range(150 if tier == "quick" else 2000):
            n = rng.choice([0, 1, 2, 3, 10, 40])
            alpha = rng.choice([F.RES_MIX, "ACGT", "".join(chr(c) for c in range(33, 127))])
            yield {"gen": "revcomp", "kind": "revcomp", "x": "".join(rng.choice(alpha) for _ in range(n))}
        # long inputs (implementation thresholds): judged against the naive definition only, too long for a Coq literal
        for n in ([2**20 + 3, 2**21 + 1] if tier == "quick" else [2**16 + 1, 2**20 - 1, 2**20 + 3, 2**21 + 1, 3 * 2**20 + 7, 2**23 + 5]):
            r2 = __import__("random").Random(n)
            block = "".join(r2.choice(F.RES_MIX) for _ in range(4099))
            x = (block * (n // 4099 + 1))[:n]
            yield {"gen": "revcomp/long", "kind": "revcomp", "x": x, "long": True}
        for _ in range(250 if tier == "quick" else 4000):
            layout = F.gen_fasta(rng, maxlen=30)
            w = layout["width"]
            yield {
                "gen": "streamrev",
                "kind": "streamrev",
                "layout": layout,
                "data": F.render({**layout, "final_nl": True}),
                "rows": gen_rows_over(rng, layout, rng.randint(1, 6), strands=(1, 1, -1, -1, 0)),
                "buf": rng.choice([1, 2, 3, 7, max(1, w - 1), w + 1, 10**6]),
                "L": rng.choice([1, 7, 60]),
                # a third of the cases: one index and one stream object re-used (after a failed scaffold, with
                # the buffer size changed in between); the value is the second buffer size
                **({"shared": rng.choice([1, 5, 64, 10**6])} if rng.random() < 0.33 else {}),
            }

    def run_impl(self, case):
        k = case["kind"]
        if k == "lookup":
            from tola.assembly.fragment import Fragment
            from tola.assembly.indexed_assembly import IndexedAssembly

            ia = IndexedAssembly.new_from_assembly(A.assembly_to_obj(case["input"], "in"))
            out = {}
            for st in case["order"]:
                try:
                    r = ia.find_overlaps(Fragment(case["name"], case["start"], case["end"], st))
                    out[str(st)] = None if r is None else [A.obj_to_row(x) for x in r.to_scaffold().rows]
                except Exception as e:
                    out[str(st)] = {"err": type(e).__name__}
            return out
        if k == "table":
            return {"table": list(bytes(range(256)).translate(IUPAC_COMPLEMENT))}
        if k == "reverse":
            sc = Scaffold("s", [A.row_to_obj(r) for r in case["rows"]], original_name="o")
            r1 = sc.reverse()
            r2 = r1.reverse()
            rev_rows0 = [A.obj_to_row(r) for r in r1.rows]
            len0 = [sc.length, r1.length]
            untouched0 = [A.obj_to_row(r) for r in sc.rows] == [list(r) for r in case["rows"]]
            # reversal again after the scaffold has grown (a reversed copy must not be remembered)
            extra = [A.row_to_obj(r) for r in case.get("extra", [])]
            for e in extra:
                sc.add_row(e)
            r3 = sc.reverse()
            for e in [A.row_to_obj(r) for r in case.get("extra", [])]:
                r1.add_row(e)
            r4 = r1.reverse()
            return {
                "rev_grown": [A.obj_to_row(r) for r in r3.rows],
                "revrev_grown": [A.obj_to_row(r) for r in r4.rows],
                "rev1_after": [A.obj_to_row(r) for r in r1.rows],
                "rev": rev_rows0,
                "revrev": [A.obj_to_row(r) for r in r2.rows],
                "length": len0,
                "name_kept": r1.name == "s" and r1.original_name == "o",
                "orig_untouched": untouched0,
            }
        if k == "revcomp":
            x = case["x"].encode("latin-1")
            y = reverse_complement(x)
            return {"rc": y.decode("latin-1"), "rcrc": reverse_complement(y).decode("latin-1")}
        ctx = F.Ctx(self.pid, case["data"])
        ix = ctx.index(250000)
        if "err" in ix:
            return {"index": ix}
        fi = ctx.fasta_index(ix["idx"], case["buf"])
        sc = Scaffold("s", [A.row_to_obj(r) for r in case["rows"]])
        rev_rows = [A.obj_to_row(r) for r in sc.reverse().rows]
        if case.get("shared"):
            # ONE index and ONE stream object for everything: first a scaffold that fails part way (a good row,
            # then a contig the index does not have), then s, then -- with another buffer size -- reverse(s)
            import io

            from tola.assembly.fragment import Fragment as _F
            from tola.fasta.stream import FastaStream

            st = FastaStream(io.BytesIO(), fi, line_length=case["L"])
            good = [A.row_to_obj(r) for r in case["rows"] if r[0] == "F"][:1]
            try:
                st.write_scaffold(Scaffold("bad", good + [_F("no_such_contig", 1, 5, 1)]))
            except Exception:
                pass
            outs = []
            for rows_, buf_ in ((case["rows"], case["buf"]), (rev_rows, case["shared"])):
                fi.buffer_size = buf_
                st.out = io.BytesIO()
                try:
                    st.write_scaffold(Scaffold("s", [A.row_to_obj(r) for r in rows_]))
                    outs.append(st.out.getvalue().decode("latin-1"))
                except Exception as e:
                    outs.append({"err": type(e).__name__})
            return {"index": ix, "rev_rows": rev_rows, "fwd": outs[0], "rev": outs[1]}
        fwd = F.stream_impl(fi, [{"name": "s", "rows": case["rows"]}], case["L"])
        fi2 = ctx.fasta_index(ix["idx"], case["buf"])
        rev = F.stream_impl(fi2, [{"name": "s", "rows": rev_rows}], case["L"])
        return {"index": ix, "rev_rows": rev_rows, "fwd": fwd, "rev": rev}

    def term(self, case, obs):
        k = case["kind"]
        if k == "lookup":
            return []   # oracle only (find_overlaps itself is compared with the model in C12 / C18)
        if k == "table":
            return lambda names: "CTable " + listlit(obs["table"], lambda n: f"{n}%N")
        if k == "reverse":
            grown = [list(r) for r in case["rows"]] + [list(r) for r in case.get("extra", [])]
            return [lambda names: f"CReverse {A.rows_term(case['rows'], names)} {A.rows_term(obs['rev'], names)}",
                    lambda names: f"CReverse {A.rows_term(grown, names)} {A.rows_term(obs['rev_grown'], names)}",
                    lambda names: f"CReverse {A.rows_term(obs['rev1_after'], names)} {A.rows_term(obs['revrev_grown'], names)}"]
        if k == "revcomp":
            if case.get("long"):
                return []
            return lambda names: f"CRevcomp {names(case['x'])} {names(obs['rc'])}"

        def t(names):
            return (
                f"CStream {names(case['data'])} {F.idx_term(obs['index']['idx'], names)} {zlit(case['buf'])} "
                f"{zlit(case['L'])} [({names('s')}, {A.rows_term(obs['rev_rows'], names)})] "
                f"{F.opt_bytes(obs['rev'], names)}"
            )
        return t

    def oracle(self, case, obs):
        k = case["kind"]
        if k == "lookup":
            p, m = obs["1"], obs["-1"]
            if isinstance(p, dict) or isinstance(m, dict):
                return f"lookup raised: {p if isinstance(p, dict) else m}"
            if (p is None) != (m is None):
                return "the same region is found on one strand and not on the other"
            if p is None:
                return None
            want = [r if r[0] == "G" else [r[0], r[1], r[2], r[3], -r[4], r[5]] for r in reversed(p)]
            if m != want:
                return (f"to_scaffold of the minus-strand lookup of {case['name']}:{case['start']}-{case['end']} is not the "
                        f"reversal of the plus-strand one (asked in the order {case['order']}): {m} vs {want}")
            return None
        if k == "table":
            t = obs["table"]
            want = list(range(256))
            for a, b in F.COMP.items():
                want[ord(a)] = ord(b)
            if t != want:
                return "complement table differs from the IUPAC table"
            if [t[t[i]] for i in range(256)] != list(range(256)):
                return "complement is not an involution"
            return None
        if k == "reverse":
            rows = case["rows"]
            want = [r if r[0] == "G" else [r[0], r[1], r[2], r[3], -r[4], r[5]] for r in reversed(rows)]
            if obs["rev"] != want:
                return f"reverse gave {obs['rev']}, expected {want}"
            if obs["revrev"] != [list(r) for r in rows]:
                return "reversing twice does not give back the rows"
            if obs["length"][0] != obs["length"][1] or not obs["name_kept"] or not obs["orig_untouched"]:
                return "reverse changed length/name or mutated the original"
            rv = lambda rs: [r if r[0] == "G" else [r[0], r[1], r[2], r[3], -r[4], r[5]] for r in reversed(rs)]
            grown = [list(r) for r in rows] + [list(r) for r in case.get("extra", [])]
            if obs["rev_grown"] != rv(grown):
                return f"reverse after adding rows gave {obs['rev_grown']}, expected {rv(grown)}"
            if obs["revrev_grown"] != rv(obs["rev1_after"]):
                return "reversing a reversed scaffold that has grown does not reverse its current rows"
            return None
        if k == "revcomp":
            if obs["rc"] != F.revcomp(case["x"]) or obs["rcrc"] != case["x"]:
                if case.get("long"):
                    want = F.revcomp(case["x"])
                    k0 = next((i for i in range(len(want)) if i >= len(obs["rc"]) or obs["rc"][i] != want[i]), None)
                    return f"reverse_complement of {len(case['x'])} residues is wrong from position {k0}"
                return f"reverse_complement({case['x']!r}) = {obs['rc']!r}, twice = {obs['rcrc']!r}"
            return None
        if "err" in obs["index"]:
            return f"well-formed FASTA rejected: {obs['index']}"
        if isinstance(obs["fwd"], dict) or isinstance(obs["rev"], dict):
            return f"streaming raised: {obs['fwd'] if isinstance(obs['fwd'], dict) else obs['rev']}"
        body_f = "".join(obs["fwd"].split("\n")[1:])
        body_r = "".join(obs["rev"].split("\n")[1:])
        if body_r != F.revcomp(body_f):
            return f"stream(reverse(s)) body {body_r!r} is not the reverse complement of stream(s) body {body_f!r}"
        L = case["L"]
        want = ">s\n" + "".join(body_r[i : i + L] + "\n" for i in range(0, len(body_r), L))
        if obs["rev"] != want:
            return "reversed stream is not wrapped at the line length"
        return None

    def known_signature(self, case, obs, why):
        """strand-0 fragments are streamed forward in both orientations"""
        if case.get("kind") != "streamrev" or "reverse complement" not in (why or ""):
            return None
        if not any(r[0] == "F" and r[4] == 0 for r in case["rows"]):
            return None
        fixed = {**case, "rows": [r if r[0] == "G" or r[4] != 0 else [r[0], r[1], r[2], r[3], 1, r[5]] for r in case["rows"]]}
        if self.judge(fixed, self.observe(fixed)) is None:
            return "strand0-stream-reverse"
        return None

    def key(self, case, obs):
        if case["kind"] == "streamrev" and not any(r[0] == "F" for r in case["rows"]):
            return None
        return super().key(case, obs)

    def classify(self, case, obs):
        if case["kind"] == "streamrev":
            return "streamrev/" + ("strand0" if any(r[0] == "F" and r[4] == 0 for r in case["rows"]) else "pm")
        return case["kind"]

    def shrink_candidates(self, case):
        if case["kind"] != "streamrev":
            return []
        rows = case["rows"]
        for j in range(len(rows)):
            if len(rows) > 1:
                yield {**case, "rows": rows[:j] + rows[j + 1 :]}
        for j, r in enumerate(rows):
            if r[0] == "F" and r[3] > r[2]:
                yield {**case, "rows": rows[:j] + [[r[0], r[1], r[2], r[2], r[4], []]] + rows[j + 1 :]}
        if case["buf"] != 10**6:
            yield {**case, "buf": 10**6}
        if case["L"] != 60:
            yield {**case, "L": 60}


PROP = C14()
