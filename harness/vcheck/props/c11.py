"""C11 -- curation statistics count the real cuts, breaks and joins."""

from .. import pipeline_util as P
from ..pipeline_prop import PipelineProp


class C11(PipelineProp):
    pid = "C11"
    design_ref = "6/C11"
    required_theorems = ['C11_junction_is_unordered_pair', 'C11_junction_reverse_pair', 'C11_junction_set_reverse', 'C11_junction_set_reverse_same_size', 'C11_junction_set_ok', 'C11_strand0_is_an_error', 'C11_diff_is_set_difference', 'C11_union_is_set_union', 'C11_inter_is_set_intersection', 'C11_junction_sets_duplicate_free', 'C11_union_duplicate_free', 'C11_legacy_refuted', 'C11_cuts_spec']

    def rule(self):
        return (
            "PretextView-model edit scripts (and 20% perturbed ones) over TPF-style inputs with forward and reverse "
            "contigs, 1-bp contigs, contigs abutting without gap, whole scaffolds re-oriented in the map; cuts / "
            "breaks / joins recounted independently from unordered pairs of facing contig ends. non-trivial = "
            "distinct completed case with at least one junction in input or output"
        )

    def gen_case(self, rng):
        inp = P.gen_input(rng, style=rng.choice(["tpf", "tpf", "fasta"]))
        ptx, _ = P.gen_pretext(rng, inp, rng.choice(["edit", "edit", "edit", "null"]))
        gen = "edit"
        if rng.random() < 0.2:
            ptx = P.gen_garbage(rng, inp, ptx)
            gen = "garbage"
        if rng.random() < 0.3:
            # re-orient whole scaffolds in the map
            for sc in ptx["scaffolds"]:
                if rng.random() < 0.5:
                    sc["rows"] = [r if r[0] == "G" else r[:4] + [-r[4]] + r[5:] for r in reversed(sc["rows"])]
            gen += "+flip"
        return {"gen": gen, "input": inp, "pretext": ptx, "prefix": "SUPER_"}

    def oracle(self, case, obs):
        if "err" in obs:
            return None
        n_in = len(P.input_contigs(case["input"]))
        n_out = len(P.out_fragments(obs))
        if obs["cuts"] != n_out - n_in:
            return f"cuts reported {obs['cuts']}, output fragments - input contigs = {n_out} - {n_in}"
        a_in = set(P.adjacencies(case["input"]["scaffolds"]))
        a_out = set(P.adjacencies(P.all_out_scaffolds(obs)))
        breaks = len(a_in - a_out)
        joins = len(a_out - a_in)
        if obs["breaks"] != breaks or obs["joins"] != joins:
            return (f"reported breaks={obs['breaks']} joins={obs['joins']}; input adjacencies no longer present = "
                    f"{breaks}, new output adjacencies = {joins}")
        return None

    def key(self, case, obs):
        if "err" in obs:
            return None
        if not P.adjacencies(case["input"]["scaffolds"]) and not P.adjacencies(P.all_out_scaffolds(obs)):
            return None
        return super().key(case, obs)


PROP = C11()
