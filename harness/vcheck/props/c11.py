"""C11 -- curation statistics count the real cuts, breaks and joins."""

from .. import pipeline_util as P
from ..pipeline_prop import PipelineProp


class C11(PipelineProp):
    pid = "C11"
    design_ref = "6/C11"
    required_theorems = ['C11_junction_is_unordered_pair', 'C11_junction_reverse_pair', 'C11_junction_set_reverse', 'C11_junction_set_reverse_same_size', 'C11_junction_set_ok', 'C11_strand0_is_an_error', 'C11_diff_is_set_difference', 'C11_union_is_set_union', 'C11_inter_is_set_intersection', 'C11_junction_sets_duplicate_free', 'C11_union_duplicate_free', 'C11_legacy_refuted', 'C11_cuts_spec', 'C11_haplotig_count', 'C11_breaks_joins', 'C11_input_adjacency_reversal_invariant']

    def rule(self):
        return (
            "PretextView-model edit scripts (and 20% perturbed ones) over TPF-style inputs with forward and reverse "
            "contigs, 1-bp contigs, contigs abutting without gap, 25% maps that flip single contigs (1-bp ones included) in place at a 1-bp texel, contig-less (gap-only) input scaffolds, re-curation inputs (two pieces of one contig side by side on opposite strands, the scaffold shown reversed), whole scaffolds re-oriented in the map, Haplotig pieces that come out empty, two-haplotype maps with scaffolds outside both haplotype name spaces; the info.yaml totals are read back; cuts / "
            "breaks / joins recounted independently from unordered pairs of facing contig ends. non-trivial = "
            "distinct completed case with at least one junction in input or output"
        )

    def gen_flip_in_place(self, rng):
        """one bait per contig, in input order, some of them reversed in place (texel 1 bp): flips of
        1-bp contigs are where an encoding that forgets WHICH end of a contig faces the junction goes wrong"""
        rows = []
        baits = []
        pos = 0
        for k in range(rng.randint(3, 7)):
            if k and rng.random() < 0.6:
                g = rng.choice([1, 10, 200])
                rows.append(["G", g, "scaffold"])
                pos += g
            ln = rng.choice([1, 1, 1, 2, 3, 50])
            rows.append(["F", f"ctg{k + 1}", 1, ln, rng.choice([1, 1, -1]), []])
            baits.append(["F", "S1", pos + 1, pos + ln, rng.choice([1, -1]), []])
            pos += ln
        prows = []
        for b in baits:
            if prows:
                prows.append(list(P.PGAP))
            prows.append(b)
        if rng.random() < 0.5:
            ptx = [{"name": "Scaffold_1", "rows": prows}]
        else:
            ptx = [{"name": f"Scaffold_{i + 1}", "rows": [b]} for i, b in enumerate(baits)]
        return {"gen": "flip-in-place", "input": {"scaffolds": [{"name": "S1", "rows": rows}]},
                "pretext": {"bpt": "1.000000", "scaffolds": ptx}, "prefix": "SUPER_"}

    def gen_recuration(self, rng):
        """an input from an earlier curation round: pieces of ONE contig next to each other with
        opposite strands (head-to-head / tail-to-tail junctions between equal names), the scaffold
        shown whole, reversed or piecewise flipped in the map"""
        rows = []
        baits = []
        pos = 0
        for k in range(rng.randint(1, 4)):
            if rows:
                g = rng.choice([0, 10, 200])
                if g:
                    rows.append(["G", g, "scaffold"])
                    pos += g
            a = rng.choice([1, 40001])
            n1, n2 = rng.choice([1, 5, 400]), rng.choice([1, 7, 500])
            s1 = rng.choice([1, -1])
            # ... still carrying the earlier round's Cut tags (they survive in the curated AGP that is the
            # input now), on the same strand (a plain cut) or on opposite strands (one piece was flipped)
            tg = ["Cut"] if rng.random() < 0.5 else []
            first = ["F", f"ctg{k + 1}", a, a + n1 - 1, s1, list(tg)]
            second = ["F", f"ctg{k + 1}", a + n1, a + n1 + n2 - 1, s1 if rng.random() < 0.4 else -s1, list(tg)]
            if rng.random() < 0.5:
                first, second = second, first
            for piece in (first, second):
                ln = piece[3] - piece[2] + 1
                rows.append(piece)
                baits.append(["F", "S1", pos + 1, pos + ln, 1, []])
                pos += ln
                if piece is first and rng.random() < 0.3:
                    rows.append(["G", 5, "contig"])
                    pos += 5
        mode = rng.choice(["whole-rev", "whole-rev", "whole-fwd", "piecewise"])
        if mode == "piecewise":
            prows = []
            for b in reversed(baits) if rng.random() < 0.5 else baits:
                if prows:
                    prows.append(list(P.PGAP))
                prows.append(b[:4] + [rng.choice([1, -1])] + b[5:])
            ptx = [{"name": "Scaffold_1", "rows": prows}]
        else:
            ptx = [{"name": "Scaffold_1", "rows": [["F", "S1", 1, pos, -1 if mode == "whole-rev" else 1, []]]}]
        return {"gen": "recuration/" + mode, "input": {"scaffolds": [{"name": "S1", "rows": rows}]},
                "pretext": {"bpt": "1.000000", "scaffolds": ptx}, "prefix": "SUPER_"}

    def gen_case(self, rng):
        x0 = rng.random()
        if x0 < 0.06:
            # a Haplotig-tagged piece that comes out empty (no scaffold is written for it) next to real haplotigs
            from .c10 import PROP as C10P

            c = C10P.gen_sliver(rng)
            while not c["gen"].endswith("haplotig"):
                c = C10P.gen_sliver(rng)
            return {"gen": "empty-haplotig", "input": c["input"], "pretext": c["pretext"], "prefix": "SUPER_"}
        if x0 < 0.16:
            # two haplotypes with ToL names plus scaffolds outside both name spaces: breaks and joins
            # there belong to no per-assembly line, the totals still count them
            from .c10 import make_tagger

            inp = P.gen_input(rng, style="fasta", hap_names=True, nscaf=rng.randint(2, 4))
            extra = P.gen_input(rng, style="tpf", nscaf=rng.randint(1, 2))
            for k, sc in enumerate(extra["scaffolds"]):
                sc["name"] = f"SCAFFOLD_{90 + k}"
                for r in sc["rows"]:
                    if r[0] == "F":
                        r[1] = "x" + r[1]
            inp["scaffolds"] += extra["scaffolds"]
            ptx, _ = P.gen_pretext(rng, inp, "edit", tagger=make_tagger(True))
            return {"gen": "2hap+unprefixed", "input": inp, "pretext": ptx, "prefix": "SUPER_"}
        if rng.random() < 0.25:
            return self.gen_flip_in_place(rng)
        if rng.random() < 0.15:
            return self.gen_recuration(rng)
        inp = P.gen_input(rng, style=rng.choice(["tpf", "tpf", "fasta"]))
        if rng.random() < 0.3:
            # a scaffold without any contig (an all-N record, an AGP object made of gap lines only)
            inp["scaffolds"].insert(rng.randrange(len(inp["scaffolds"]) + 1),
                                    {"name": "allN_1", "rows": [["G", rng.choice([10, 500]), "scaffold"]]})
        tagger = None
        gen = "edit"
        if rng.random() < 0.3:
            # haplotig removals: pieces of any size (sub-texel slivers included) tagged Haplotig
            def tagger(rng_, ptx_, groups):
                for gi, grp in enumerate(groups):
                    k = 0
                    for r in ptx_["scaffolds"][gi]["rows"]:
                        if r[0] == "F":
                            r[5] = (["Painted"] if grp[k]["painted"] else []) + (["Haplotig"] if rng_.random() < 0.3 else [])
                            k += 1
            gen = "edit+haplotigs"
        ptx, _ = P.gen_pretext(rng, inp, rng.choice(["edit", "edit", "edit", "null"]), tagger=tagger)
        if rng.random() < 0.2:
            ptx = P.gen_garbage(rng, inp, ptx)
            gen = "garbage"
        if rng.random() < 0.3:
            # re-orient whole scaffolds in the map
            for sc in ptx["scaffolds"]:
                if rng.random() < 0.5:
                    sc["rows"] = [r if r[0] == "G" else r[:4] + [-r[4]] + r[5:] for r in reversed(sc["rows"])]
            gen += "+flip"
        return {"gen": gen, "input": inp, "pretext": ptx, "prefix": "SUPER_"}

    def run_impl(self, case):
        return P.run_pipeline({**case, "twice": True, "history": self.history_of(case)})

    def oracle(self, case, obs):
        if "err" in obs:
            return None
        if obs.get("second_call"):
            return (f"asking the same BuildAssembly for its fused assemblies a second time changed the answer "
                    f"(cuts, breaks, joins / rows): {obs['second_call']}")
        n_in = len(P.input_contigs(case["input"]))
        n_out = len(P.out_fragments(obs))
        if obs["cuts"] != n_out - n_in:
            return f"cuts reported {obs['cuts']}, output fragments - input contigs = {n_out} - {n_in}"
        a_in = set(P.adjacencies(case["input"]["scaffolds"]))
        a_out = set(P.adjacencies(P.all_out_scaffolds(obs)))
        breaks = len(a_in - a_out)
        joins = len(a_out - a_in)
        if obs["breaks"] != breaks or obs["joins"] != joins:
            return (f"reported breaks={obs['breaks']} joins={obs['joins']}; input adjacencies no longer present = "
                    f"{breaks}, new output adjacencies = {joins}")
        # the haplotig-removal count of the info file = haplotig scaffolds written (an entry without rows writes nothing)
        pl = obs.get("plan")
        if pl and pl.get("yaml"):
            import yaml

            info = yaml.safe_load(pl["yaml"])
            # the run's totals are the first (top-level) occurrences
            top = {k_: v_ for k_, v_ in info.items() if not isinstance(v_, (dict, list))}
            for key_, want_ in (("manual_breaks", breaks), ("manual_joins", joins)):
                if key_ in top and top[key_] != want_:
                    return (f"info.yaml reports {key_} = {top[key_]}, the run made {want_} "
                            f"(input adjacencies lost / new output adjacencies)")
            reported = info.get("manual_haplotig_removals")
            written = sum(1 for a in obs["asms"] if a["key"] == "Haplotig" for s_ in a["scaffolds"] if s_["rows"])
            if reported != written:
                return f"info.yaml reports {reported} haplotig removals, {written} haplotig scaffolds are written"
        return None

    def key(self, case, obs):
        if "err" in obs:
            return None
        if not P.adjacencies(case["input"]["scaffolds"]) and not P.adjacencies(P.all_out_scaffolds(obs)):
            return None
        return super().key(case, obs)


PROP = C11()
