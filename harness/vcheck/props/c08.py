"""C08 -- an unedited Pretext map reproduces the input assembly."""

import math
from fractions import Fraction

from .. import pipeline_util as P
from ..pipeline_prop import PipelineProp
from .c20 import oracle_key


class C08(PipelineProp):
    pid = "C08"
    design_ref = "6/C08"
    required_theorems = ['C08_whole_scaffold_bait', 'C08_trim_large_noop', 'C08_null_bait_result', 'C08_junction_set_reverse', 'C08_null_map_identity', 'C08_hypotheses_satisfiable', 'C08_legacy_refuted', 'C08_painted_null_map', 'C08_painted_tie_break']
    n_quick = 400

    def rule(self):
        return (
            "null maps: every input scaffold presented whole, forward, untagged (70% unpainted, 30% all painted), "
            "texel from 1 bp to total/3, per-scaffold texel count floor or ceil, any subset of sub-texel scaffolds "
            "absent; rounding of the map end within one texel with a last contig >= one texel (60%), or the double floor of texel count and coordinate with a last contig >= one texel + 2 bp (40%); inputs FASTA-derived or TPF-style with "
            "both strands and 1-bp contigs elsewhere. non-trivial = distinct completed case with >= 2 scaffolds"
        )

    def gen_case(self, rng):
        c = self.gen_case0(rng)
        if rng.random() < 0.06:
            # every scaffold shorter than a texel: PretextView's AGP has header lines and no scaffold line at all
            total = max(P.sc_len(sc) for sc in c["input"]["scaffolds"])
            c = {**c, "gen": "null/empty-map", "pretext": {"bpt": f"{total + rng.choice([1, 50])}.000000", "scaffolds": []},
                 "painted": False}
        if rng.random() < 0.12 or c["gen"] == "null/empty-map":
            c["real_files"] = True      # ... through the command itself, on real files
        return c

    def run_impl(self, case):
        obs = super().run_impl(case)
        if not case.get("real_files"):
            return obs
        import io
        import shutil

        from tola.assembly.format import format_agp
        from tola.assembly.parser import parse_agp

        from .. import asm as A
        from .. import cli_util as C
        from .. import core

        d = core.BUILD / self.pid / "realfiles"
        shutil.rmtree(d, ignore_errors=True)
        (d / "out").mkdir(parents=True)
        with (d / "in.agp").open("w") as fh:
            format_agp(A.assembly_to_obj(case["input"], "input"), fh)
        ptx = case["pretext"]
        with (d / "map.agp").open("w") as fh:
            format_agp(A.assembly_to_obj({"header": [f"HiC MAP RESOLUTION: {ptx['bpt']} bp/texel"], "scaffolds": ptx["scaffolds"]}, "p"), fh)
        r = C.run_cli(["-a", d / "in.agp", "-p", d / "map.agp", "-o", d / "out" / "x.agp", "--no-write-log"])
        got = None
        f = d / "out" / "x.1.primary.curated.agp"
        if f.exists():
            got = A.obj_to_assembly(parse_agp(f.open(), "x"))["scaffolds"]
        obs["real_files"] = {"exit": r.exit_code, "exc": r.exception, "primary": got,
                             "others": sorted(p_.name for p_ in (d / "out").iterdir() if p_.name.endswith(".curated.agp") and "primary" not in p_.name)}
        shutil.rmtree(d, ignore_errors=True)
        return obs

    def gen_case0(self, rng):
        inp = P.gen_input(rng, style=rng.choice(["tpf", "fasta"]), double_gaps=rng.choice([0.0, 0.0, 0.3]))
        if rng.random() < 0.15:
            # a short scaffold whose two contigs are separated by two gap rows: often shorter than a texel
            k = len(inp["scaffolds"]) + 1
            inp["scaffolds"].append({"name": f"scf{k}x", "rows": [["F", f"dg{k}a", 1, rng.choice([1, 3, 40]), 1, []], ["G", rng.choice([1, 2, 10]), "scaffold"], ["G", rng.choice([1, 5]), "contig"], ["F", f"dg{k}b", 1, rng.choice([1, 2, 30]), rng.choice([1, -1]), []]]})
        if rng.random() < 0.25:
            # assembler-style names: letters, digits, an underscore and a suffix that is not a number
            # (not the ToL <hap>_<something>_<n> shape, so no haplotype is to be read out of them)
            for k, sc in enumerate(inp["scaffolds"]):
                if rng.random() < 0.6:
                    new = rng.choice(["tig{:08d}_pilon", "ctg{}_arrow", "scaffold{}_polished", "ptg{:06d}l_1x", "Contig{}_v2"]).format(k + 1)
                    own = sc["rows"][0][1] == sc["name"]
                    if own:
                        for r in sc["rows"]:
                            if r[0] == "F":
                                r[1] = new
                    sc["name"] = new
        total = sum(P.sc_len(sc) for sc in inp["scaffolds"])
        bpt_str = P.choose_bpt(rng, total)
        bpt = Fraction(bpt_str)
        need = math.ceil(bpt)
        # regime a: Pretext's rounding stays within one texel (|E - L| < bpt) and the last contig is at least
        #           one texel long; regime b: the double floor of texel count and coordinate (|E - L| < bpt + 1)
        #           with a last contig of at least one texel + 2 bp.  Scaffolds shorter than one texel stay as
        #           they are (absent from the map, or present as one overshooting texel).
        regime_b = rng.random() < 0.4
        for sc in inp["scaffolds"]:
            if P.sc_len(sc) < bpt and rng.random() < 0.8:
                continue
            last = sc["rows"][-1]
            n = last[3] - last[2] + 1
            want = need + 2 if regime_b else need
            if n < want:
                last[3] += want - n
        if regime_b and bpt != int(bpt):
            # worst case of the double floor: a scaffold just short of a whole number of texels, whose last
            # contig is between one and two texels long
            err = 1 + int(bpt)
            for sc in inp["scaffolds"]:
                if rng.random() < 0.5 and len(sc["rows"]) >= 2 and sc["rows"][0][0] == "F":
                    last = sc["rows"][-1]
                    n = rng.randint(err + 1, 2 * err - 1)
                    last[3] = last[2] + n - 1
                    L0 = P.sc_len(sc)
                    nt = int(Fraction(L0) / bpt) + 1
                    target = math.ceil((nt + 1) * bpt) - 1
                    first = sc["rows"][0]
                    first[3] += target - L0
                    if first[1] == sc["name"]:
                        # FASTA-style coordinates: re-tile the scaffold
                        pos = 0
                        for r in sc["rows"]:
                            m = P.row_len(r)
                            if r[0] == "F":
                                r[2], r[3] = pos + 1, pos + m
                            pos += m
        painted = rng.random() < 0.3
        pieces = P.gen_pieces(rng, inp, bpt_str, cut_prob=0.0)
        scs = []
        for gi, pc in enumerate(pieces):
            L = P.sc_len(inp["scaffolds"][pc["src"]])
            if not regime_b:
                pc["end"] = max(pc["end"], L - (need - 1))
            scs.append({"name": f"Scaffold_{gi + 1}",
                        "rows": [["F", pc["name"], pc["start"], pc["end"], 1, ["Painted"] if painted else []]]})
        return {"gen": "null/" + ("painted" if painted else "unpainted") + ("/b" if regime_b else "/a"), "input": inp,
                "pretext": {"bpt": bpt_str, "scaffolds": scs}, "prefix": "SUPER_", "painted": painted}

    def oracle(self, case, obs):
        if "painted" not in case:
            return None
        rf = obs.get("real_files") if isinstance(obs, dict) else None
        if rf is not None and "err" not in obs:
            if rf["exit"] != 0 or rf["exc"]:
                return f"pretext-to-asm on the same null map given as files ended with exit status {rf['exit']} ({rf['exc']})"
            want = [{"name": s_["name"], "rows": s_["rows"]} for s_ in obs["asms"][0]["scaffolds"]] if obs["asms"] else []
            strip = lambda scs: [{"name": s_["name"], "rows": [r if r[0] == "G" else r[:5] + [[t for t in r[5]]] for r in s_["rows"]]} for s_ in (scs or [])]
            if strip(rf["primary"]) != strip(want) or rf["others"]:
                return f"the primary AGP written by pretext-to-asm differs from the remapped assembly (others: {rf['others']})"
        if "err" in obs:
            return f"remapping a null map failed: {obs['err']}: {obs.get('msg', '')[:120]}"
        if [a["key"] for a in obs["asms"]] != [None]:
            return f"output assemblies {[a['key'] for a in obs['asms']]}, expected only the primary"
        if (obs["cuts"], obs["breaks"], obs["joins"]) != (0, 0, 0):
            return f"statistics report cuts/breaks/joins = {obs['cuts']}/{obs['breaks']}/{obs['joins']}"
        outs = obs["asms"][0]["scaffolds"]
        ins = case["input"]["scaffolds"]
        present = {r[1] for sc in case["pretext"]["scaffolds"] for r in sc["rows"]}
        if not case["painted"]:
            got = {s_["name"]: s_["rows"] for s_ in outs}
            if len(got) != len(outs) or set(got) != {sc["name"] for sc in ins}:
                return f"scaffold names {[s_['name'] for s_ in outs]} differ from the input's"
            for sc in ins:
                if got[sc["name"]] != sc["rows"]:
                    return f"scaffold {sc['name']} rows {got[sc['name']]} differ from the input rows {sc['rows']}"
            want = sorted((sc["name"] for sc in ins), key=oracle_key)
            if [s_["name"] for s_ in outs] != want:
                return f"scaffold order {[s_['name'] for s_ in outs]}, expected {want}"
            return None
        # painted: content unchanged, names prefix + rank by size
        by_rows = {str(sc["rows"]): sc for sc in ins}
        chrs = [s_ for s_ in outs if s_["rank"] == 1]
        rest = [s_ for s_ in outs if s_["rank"] != 1]
        for s_ in outs:
            if str(s_["rows"]) not in by_rows:
                return f"output scaffold {s_['name']} is not an input scaffold"
        if len(outs) != len(ins):
            return "scaffold count changed"
        if sorted(by_rows[str(s_["rows"])]["name"] for s_ in chrs) != sorted(n for n in present):
            return "painted scaffolds are not exactly the ones present in the map"
        if [s_["name"] for s_ in chrs] != [f"SUPER_{k + 1}" for k in range(len(chrs))]:
            return f"chromosome names {[s_['name'] for s_ in chrs]}"
        sizes = [sum(P.row_len(r) for r in s_["rows"] if r[0] == "F") for s_ in chrs]
        if sizes != sorted(sizes, reverse=True):
            return f"chromosomes not numbered by non-increasing size: {sizes}"
        if sorted(s_["name"] for s_ in rest) != sorted(sc["name"] for sc in ins if sc["name"] not in present):
            return "absent scaffolds did not keep their names"
        return None

    def key(self, case, obs):
        if "err" in obs or len(case["input"]["scaffolds"]) < 2:
            return None
        return super().key(case, obs)

    def shrink_candidates(self, case):
        if "painted" not in case:
            return
        inp = case["input"]["scaffolds"]
        ptx = case["pretext"]["scaffolds"]
        for i, sc in enumerate(inp):
            if len(inp) > 1:
                yield {**case, "input": {"scaffolds": inp[:i] + inp[i + 1 :]},
                       "pretext": {**case["pretext"], "scaffolds": [p for p in ptx if p["rows"][0][1] != sc["name"]]}}


PROP = C08()
