"""C13 -- streaming is buffer-size independent and memory-bounded."""

import tracemalloc

from tola.assembly.assembly import Assembly
from tola.assembly.fragment import Fragment
from tola.assembly.gap import Gap
from tola.fasta.index import FastaIndex, index_fasta_file
from tola.fasta.stream import FastaStream

from .. import asm as A
from .. import fasta_util as F
from ..core import listlit, zlit
from ..prop import Prop
from .c14 import gen_rows_over


class Null:
    def write(self, b):
        return len(b)


class C13(Prop):
    pid = "C13"
    imports = "From Tola Require Import Py.Base Model.Fragment Model.Scaffold Model.Fasta Model.Stream Corr.Fasta."
    show_fn = "show"
    design_ref = "6/C13"
    required_theorems = ['C13_fwd_chunks', 'C13_rev_chunks', 'C13_gap_chunks', 'C13_emit_chunks_concat', 'C13_stream_buffer_independent', 'C13_index_buffer_independent', 'C13_index_peak_bounded']

    def rule(self):
        return (
            "chunks: FASTA layouts x fragment (either strand) or gap of length 0..several hundred buffers x buffer "
            "sizes {1,2,3,5,7,len-1,len,len+1,10^6}: sizes and bytes of every chunk of get_sequence_iter / "
            "get_gap_iter, and every span requested from sequence_bytes; index_bufs / stream_bufs: the same file "
            "(well-formed or malformed) indexed / the same assembly streamed with 3-4 buffer sizes from the grid "
            "{1,2,3,5,7,w-1,w,w+1,n+1,250000}; memory: tracemalloc peak while indexing and streaming one record, one "
            "fragment and one gap of 300 kb (quick) / 2 Mb (thorough) with a 1000-residue buffer. non-trivial = "
            "distinct case whose object is longer than its buffer (or a memory case)"
        )

    def generate(self, rng, tier):
        for _ in range(300 if tier == "quick" else 4000):
            layout = F.gen_fasta(rng, nrec=rng.choice([1, 2]), maxlen=rng.choice([10, 40, 400]))
            data = F.render(layout)
            rec = rng.choice(layout["records"])
            n = len(rec["seq"])
            if rng.random() < 0.35:
                ln = rng.choice([0, 1, 2, 3, 10, 200, 777])
                buf = rng.choice([1, 2, 3, 5, 7, max(1, ln - 1), max(1, ln), ln + 1, 10**6])
                yield {"gen": "chunks/gap", "kind": "gapchunks", "len": ln, "buf": buf}
                continue
            a = rng.randint(1, n)
            b = rng.randint(a, n)
            ln = b - a + 1
            buf = rng.choice([1, 2, 3, 5, 7, max(1, ln - 1), ln, ln + 1, 10**6])
            yield {"gen": "chunks/seq", "kind": "seqchunks", "layout": layout, "data": data,
                   "frag": ["F", rec["name"], a, b, rng.choice([1, -1, 0]), []], "buf": buf}
        for _ in range(120 if tier == "quick" else 1500):
            if rng.random() < 0.25:
                kind, data = F.malformed(rng)
                layout = None
                w, n = 3, 12
            else:
                layout = F.gen_fasta(rng)
                data = F.render(layout)
                w, n = layout["width"], max(len(r["seq"]) for r in layout["records"])
            grid = [1, 2, 3, 5, 7, max(1, w - 1), w, w + 1, n + 1, 250000]
            yield {"gen": "index_bufs" + ("/malformed" if layout is None else ""), "kind": "index_bufs",
                   "data": data, "bufs": sorted(set(rng.sample(grid, 4)))}
        for _ in range(100 if tier == "quick" else 1500):
            layout = F.gen_fasta(rng, maxlen=40)
            w = layout["width"]
            grid = [1, 2, 3, 5, 7, max(1, w - 1), w, w + 1, 250000]
            yield {"gen": "stream_bufs", "kind": "stream_bufs", "layout": layout, "data": F.render(layout),
                   "scaffolds": [{"name": "s1", "rows": gen_rows_over(rng, layout, rng.randint(1, 6), maxgap=30)}],
                   "bufs": sorted(set(rng.sample(grid, 3))), "L": rng.choice([7, 60])}
        yield {"gen": "memory", "kind": "memory", "n": 300_000 if tier == "quick" else 2_000_000, "buf": 1000,
               "seed": rng.randrange(10**6)}
        # the same with long input lines (5000 columns) and with the whole record on ONE line: a chunk
        # is still at most buffer-size residues, whatever the line width of the file
        yield {"gen": "memory/wide-lines", "kind": "memory", "n": 300_000 if tier == "quick" else 2_000_000, "buf": 499,
               "seed": rng.randrange(10**6), "width": 5000}
        yield {"gen": "memory/many-short-fragments", "kind": "memory", "n": 300_000 if tier == "quick" else 2_000_000, "buf": 1000,
               "seed": rng.randrange(10**6), "pieces": 1000}
        yield {"gen": "memory/cli", "kind": "memcli", "n": 6_000_000 if tier == "quick" else 24_000_000, "seed": rng.randrange(10**6)}
        yield {"gen": "memory/unwrapped", "kind": "memory", "n": 300_000 if tier == "quick" else 2_000_000, "buf": 1000,
               "seed": rng.randrange(10**6), "width": 0}

    # ---- implementation
    def run_impl(self, case):
        k = case["kind"]
        if k == "gapchunks":
            ctx = F.Ctx(self.pid, ">x\nA\n")
            fi = FastaIndex(ctx.path, buffer_size=case["buf"])
            try:
                held = list(fi.get_gap_iter(Gap(case["len"], "scaffold")))
                return {"chunks": [c.getvalue().decode() for c in held]}
            except Exception as e:
                return {"err": type(e).__name__}
        if k == "seqchunks":
            ctx = F.Ctx(self.pid, case["data"])
            ix = ctx.index(250000)
            if "err" in ix:
                return {"index": ix}
            fi = ctx.fasta_index(ix["idx"], case["buf"])
            spans = []
            orig = fi.sequence_bytes

            def spy(info, start, end):
                spans.append([start, end])
                return orig(info, start, end)

            fi.sequence_bytes = spy
            try:
                # all chunk objects are collected first and read afterwards (a caller may keep them)
                held = list(fi.get_sequence_iter(A.row_to_obj(case["frag"])))
                chunks = [c.getvalue().decode("latin-1") for c in held]
            except Exception as e:
                return {"index": ix, "err": type(e).__name__}
            return {"index": ix, "chunks": chunks, "spans": spans}
        if k == "index_bufs":
            ctx = F.Ctx(self.pid, case["data"])
            return {"results": [ctx.index(b) for b in case["bufs"]]}
        if k == "stream_bufs":
            ctx = F.Ctx(self.pid, case["data"])
            ix = ctx.index(250000)
            if "err" in ix:
                return {"index": ix}
            outs = []
            for b in case["bufs"]:
                fi = ctx.fasta_index(ix["idx"], b)
                outs.append(F.stream_impl(fi, case["scaffolds"], case["L"]))
            return {"index": ix, "outs": outs}
        if k == "memcli":
            return self.run_memcli(case)
        return self.run_memory(case)

    def run_memcli(self, case):
        """pretext-to-asm itself, FASTA in and FASTA out, on one long gapless record shown whole in the map"""
        import random
        import shutil

        from .. import cli_util as C
        from .. import core

        r = random.Random(case["seed"])
        n = case["n"]
        root = core.BUILD / self.pid / "memcli"
        shutil.rmtree(root, ignore_errors=True)
        (root / "out").mkdir(parents=True)
        block = "".join(r.choices("ACGT", k=6000))
        with (root / "in.fa").open("w") as fh:
            fh.write(">chr_long\n")
            for _ in range(n // 6000):
                for i in range(0, 6000, 60):
                    fh.write(block[i : i + 60] + "\n")
            fh.write(">small\nACGTACGTAC\n")
        n = (n // 6000) * 6000
        (root / "in.pretext.agp").write_text(
            "##agp-version\t2.1\n# HiC MAP RESOLUTION: 1000.000000 bp/texel\n"
            f"Scaffold_1\t1\t{n}\t1\tW\tchr_long\t1\t{n}\t+\n")
        tracemalloc.start()
        res = C.run_cli(["-a", root / "in.fa", "-p", root / "in.pretext.agp", "-o", root / "out" / "x.fa", "--no-write-log"])
        _, peak = tracemalloc.get_traced_memory()
        tracemalloc.stop()
        fas = [q for q in (root / "out").iterdir() if q.name.endswith(".fa")]
        size = sum(q.stat().st_size for q in fas) if fas else None
        shutil.rmtree(root, ignore_errors=True)
        return {"exit": res.exit_code, "peak": peak, "fasta_bytes": size, "n": n}

    def run_memory(self, case):
        import random

        r = random.Random(case["seed"])
        n, buf = case["n"], case["buf"]
        seq = "".join(r.choices("ACGT", k=n))
        w = case.get("width", 60) or n
        ctx = F.Ctx(self.pid, ">big\n" + "".join(seq[i : i + w] + "\n" for i in range(0, n, w)))
        del seq
        tracemalloc.start()
        idx, asm = index_fasta_file(ctx.path, buf)
        _, peak_index = tracemalloc.get_traced_memory()
        tracemalloc.stop()
        peaks = {}
        plans = [("fragment", [Fragment("big", 1, n, 1)]), ("revfragment", [Fragment("big", 1, n, -1)]),
                 ("gap", [Gap(n, "scaffold")])]
        if case.get("pieces"):
            # the same chromosome as a run of fragments none longer than the buffer, alternating strands
            pc = case["pieces"]
            plans = [("scaffold of short fragments",
                      [Fragment("big", a, min(n, a + pc - 1), 1 if (a // pc) % 2 == 0 else -1) for a in range(1, n + 1, pc)])]
        for label, rows in plans:
            fi = FastaIndex(ctx.path, buffer_size=buf)
            fi.index = idx
            fi.fasta_fileandle  # open outside the measured region
            a = Assembly("x")
            from tola.assembly.scaffold import Scaffold

            a.add_scaffold(Scaffold("s", rows))
            tracemalloc.start()
            FastaStream(Null(), fi).write_assembly(a)
            _, peaks[label] = tracemalloc.get_traced_memory()
            tracemalloc.stop()
        return {"index_peak": peak_index, "stream_peaks": peaks, "length": idx["big"].length}

    def term(self, case, obs):
        k = case["kind"]
        if k == "memcli":
            return []
        if k == "gapchunks":
            def t(names):
                o = "None" if "err" in obs else "(Some " + listlit(obs["chunks"], names) + ")"
                return f"CGapChunks {zlit(case['buf'])} {zlit(case['len'])} {o}"
            return t
        if k == "seqchunks":
            if "err" in obs.get("index", {}):
                return []

            def t(names):
                o = "None" if "err" in obs else "(Some " + listlit(obs["chunks"], names) + ")"
                return (f"CSeqChunks {names(case['data'])} {F.idx_term(obs['index']['idx'], names)} "
                        f"{zlit(case['buf'])} {A.frag_term(case['frag'], names)} {o}")
            return t
        if k == "index_bufs":
            def mk(b, r):
                def t(names):
                    o = "None" if "err" in r else f"(Some ({F.idx_term(r['idx'], names)}, {F.asm_term(r['asm'], names)}))"
                    return f"CIndex {names(case['data'])} {zlit(b)} {o}"
                return t
            return [mk(b, r) for b, r in zip(case["bufs"], obs["results"])]
        if k == "stream_bufs":
            if "err" in obs["index"]:
                return []

            def mk(b, o):
                def t(names):
                    return (f"CStream {names(case['data'])} {F.idx_term(obs['index']['idx'], names)} {zlit(b)} "
                            f"{zlit(case['L'])} {F.asm_term(case['scaffolds'], names)} {F.opt_bytes(o, names)}")
                return t
            return [mk(b, o) for b, o in zip(case["bufs"], obs["outs"])]
        return []

    # ---- oracle
    def oracle(self, case, obs):
        k = case["kind"]
        if k == "gapchunks":
            if "err" in obs:
                return f"gap iterator raised {obs['err']}"
            ch, buf, ln = obs["chunks"], case["buf"], case["len"]
            if "".join(ch) != "N" * ln:
                return f"gap chunks concatenate to {len(''.join(ch))} Ns, expected {ln}"
            if any(len(c) > buf for c in ch):
                return f"gap chunk larger than the buffer {buf}: {[len(c) for c in ch]}"
            if len(ch) != ln // buf + 1:
                return f"{len(ch)} gap chunks for length {ln}, buffer {buf}"
            return None
        if k == "seqchunks":
            if "err" in obs.get("index", {}) or "err" in obs:
                return f"chunk iterator failed: {obs}"
            f = case["frag"]
            seq = {r["name"]: r["seq"] for r in case["layout"]["records"]}[f[1]]
            piece = seq[f[2] - 1 : f[3]]
            want = F.revcomp(piece) if f[4] == -1 else piece
            ch, buf = obs["chunks"], case["buf"]
            if "".join(ch) != want:
                return f"chunks concatenate to {''.join(ch)!r}, expected {want!r}"
            if any(len(c) > buf or len(c) == 0 for c in ch):
                return f"chunk sizes {[len(c) for c in ch]} not within 1..{buf}"
            if len(ch) != -(-len(piece) // buf):
                return f"{len(ch)} chunks for {len(piece)} residues, buffer {buf}"
            if any(e - s + 1 > buf for s, e in obs["spans"]):
                return f"a span longer than the buffer was requested from sequence_bytes: {obs['spans']}"
            return None
        if k == "index_bufs":
            rs = obs["results"]
            if any(r != rs[0] for r in rs[1:]):
                return f"index differs between buffer sizes {case['bufs']}: {rs}"
            return None
        if k == "stream_bufs":
            if "err" in obs["index"]:
                return f"well-formed FASTA rejected: {obs['index']}"
            if any(o != obs["outs"][0] for o in obs["outs"][1:]):
                return f"streamed bytes differ between buffer sizes {case['bufs']}"
            return None
        if case["kind"] == "memcli":
            if obs["exit"] != 0 or not obs["fasta_bytes"] or obs["fasta_bytes"] < obs["n"]:
                return f"pretext-to-asm FASTA -> FASTA failed: {obs}"
            # 16 x the default buffer of 250 000 residues: room for the indexer's buffer, its match list and
            # the interpreter's own allocations, far below a whole chromosome held in memory
            if obs["peak"] > 4_000_000:
                return (f"pretext-to-asm writing a {obs['n']} bp gapless chromosome as FASTA peaked at {obs['peak']} traced bytes "
                        f"(the stream buffer is 250000 residues)")
            return None
        buf = case["buf"]
        if obs["length"] != case["n"]:
            return f"indexed length {obs['length']} != {case['n']}"
        # while indexing, one input line may be held besides the buffer
        line = case.get("width", 60) or case["n"]
        if obs["index_peak"] > 8 * buf + 65536 + 4 * line:
            return f"indexing a {case['n']} bp record with buffer {buf} peaked at {obs['index_peak']} traced bytes"
        for label, p in obs["stream_peaks"].items():
            if p > 8 * buf + 32768:
                return f"streaming a {case['n']} bp {label} with buffer {buf} peaked at {p} traced bytes"
        return None

    def key(self, case, obs):
        k = case["kind"]
        if k == "gapchunks" and case["len"] <= case["buf"]:
            return None
        if k == "seqchunks" and case["frag"][3] - case["frag"][2] + 1 <= case["buf"]:
            return None
        return super().key(case, obs)

    def classify(self, case, obs):
        return case["gen"]

    def shrink_candidates(self, case):
        if case["kind"] == "index_bufs" and len(case["bufs"]) > 2:
            for i in range(len(case["bufs"])):
                yield {**case, "bufs": case["bufs"][:i] + case["bufs"][i + 1 :]}


PROP = C13()
