"""C06 -- every AGP the tools write is coordinate-valid."""

import io

from click.testing import CliRunner

from .. import asm as A
from .. import fasta_util as F
from .. import text_util as T
from ..prop import Prop


def scaffold_lengths(a):
    return {sc["name"]: sum((r[3] - r[2] + 1) if r[0] == "F" else r[1] for r in sc["rows"]) for sc in a["scaffolds"]}


class C06(Prop):
    pid = "C06"
    imports = "From Tola Require Import Py.Base Model.Fragment Model.Fasta Model.AgpTpf Corr.AgpTpf."
    show_fn = "show"
    design_ref = "6/C06"
    required_theorems = ['C06_lines_are_rendered_nums', 'C06_tiles', 'C06_last_end', 'C06_one_line_per_row', 'C06_gap_columns', 'C06_frag_columns', 'C06_format_total']

    def rule(self):
        return (
            "format_agp text of random assemblies (incl. zero/negative-length gaps, empty scaffolds, odd names), of the "
            "assembly derived from random FASTA files by index_fasta_file (the .agp cache), and the output of "
            "asm-format (AGP and TPF input) run in process; judged by an independent AGP column checker against the "
            "scaffold lengths. non-trivial = distinct assembly with >= 2 rows in some scaffold"
        )

    def generate(self, rng, tier):
        n = 300 if tier == "quick" else 4000
        for _ in range(n):
            a = T.gen_asm(rng, wf=rng.random() < 0.7)
            # distinct scaffold names so that per-object checks are meaningful
            for k, sc in enumerate(a["scaffolds"]):
                sc["name"] = (sc["name"] or "s").replace("\t", "_").replace("\n", "_").lstrip("#").strip() + f"#{k}"
                for r in sc["rows"]:
                    if r[0] == "F":
                        r[1] = r[1].replace("\t", "_").replace("\n", "_")
                        r[5] = [t.replace("\t", "_").replace("\n", "_") for t in r[5]]
                    else:
                        r[2] = r[2].replace("\t", "_") or "scaffold"
            yield {"gen": "format", "kind": "format", "asm": a}
        for _ in range(n // 3):
            layout = F.gen_fasta(rng)
            yield {"gen": "fasta-derived", "kind": "fasta", "data": F.render(layout), "buf": rng.choice([1, 3, 7, 250000])}
        for _ in range(10 if tier == "quick" else 150):
            which = rng.choice(["agp", "tpf"])
            a = T.gen_asm(rng, tpf_able=(which == "tpf"))
            for k, sc in enumerate(a["scaffolds"]):
                sc["name"] += f".{k}"  # distinct object names
            yield {"gen": "asm-format/" + which, "kind": "cli", "fmt": which, "asm": a}

    def run_impl(self, case):
        k = case["kind"]
        if k == "format":
            return {"text": T.fmt(case["asm"], "agp")}
        if k == "fasta":
            ctx = F.Ctx(self.pid, case["data"])
            ix = ctx.index(case["buf"])
            if "err" in ix:
                return {"index": ix}
            a = {"header": [], "scaffolds": ix["asm"]}
            return {"index": ix, "asm": a, "text": T.fmt(a, "agp")}
        from tola.assembly.scripts import asm_format

        text = T.fmt(case["asm"], case["fmt"])
        r = CliRunner().invoke(asm_format.cli, ["-i", case["fmt"].upper(), "-f", "AGP"], input=text)
        return {"exit": r.exit_code, "text": r.stdout, "input": text}

    def term(self, case, obs):
        k = case["kind"]
        if k == "format":
            return lambda names: f"CFormatAgp {T.asm_term(case['asm'], names)} {T.opt_text(obs['text'], names)}"
        if k == "fasta":
            if "err" in obs["index"]:
                return []
            return lambda names: f"CFormatAgp {T.asm_term(obs['asm'], names)} {T.opt_text(obs['text'], names)}"
        # the CLI output must be what the model formats from the model's parse of the input
        a = case["asm"] if case["fmt"] == "agp" else {**case["asm"]}
        return lambda names: f"CFormatAgp {T.asm_term(a, names)} {T.opt_text(obs['text'], names)}"

    def oracle(self, case, obs):
        k = case["kind"]
        if k == "fasta" and "err" in obs["index"]:
            return f"well-formed FASTA rejected: {obs['index']}"
        if k == "cli" and obs["exit"] != 0:
            return f"asm-format exited {obs['exit']}"
        text = obs["text"]
        if isinstance(text, dict):
            return f"format_agp raised {text}"
        a = obs["asm"] if k == "fasta" else case["asm"]
        return T.check_agp_text(text, scaffold_lengths(a))

    def key(self, case, obs):
        a = obs.get("asm") if case["kind"] == "fasta" else case.get("asm")
        if not a or not any(len(sc["rows"]) >= 2 for sc in a["scaffolds"]):
            return None
        return super().key(case, obs)

    def classify(self, case, obs):
        return case["gen"]

    def shrink_candidates(self, case):
        if case["kind"] != "format":
            return
        a = case["asm"]
        scs = a["scaffolds"]
        for i in range(len(scs)):
            if len(scs) > 1:
                yield {**case, "asm": {**a, "scaffolds": scs[:i] + scs[i + 1 :]}}
            rows = scs[i]["rows"]
            for j in range(len(rows)):
                if len(rows) > 1:
                    yield {**case, "asm": {**a, "scaffolds": scs[:i] + [{**scs[i], "rows": rows[:j] + rows[j + 1 :]}] + scs[i + 1 :]}}


PROP = C06()
