"""C06 -- every AGP the tools write is coordinate-valid."""

import io

from click.testing import CliRunner

from .. import asm as A
from .. import fasta_util as F
from .. import text_util as T
from ..prop import Prop


def scaffold_lengths(a):
    return {sc["name"]: sum((r[3] - r[2] + 1) if r[0] == "F" else r[1] for r in sc["rows"]) for sc in a["scaffolds"]}


class C06(Prop):
    pid = "C06"
    imports = "From Tola Require Import Py.Base Model.Fragment Model.Fasta Model.AgpTpf Corr.AgpTpf."
    show_fn = "show"
    design_ref = "6/C06"
    required_theorems = ['C06_lines_are_rendered_nums', 'C06_tiles', 'C06_last_end', 'C06_one_line_per_row', 'C06_gap_columns', 'C06_frag_columns', 'C06_format_total']

    def rule(self):
        return (
            "format_agp text of random assemblies (incl. zero/negative-length gaps, empty scaffolds, odd names), of the "
            "assembly derived from random FASTA files by index_fasta_file (the .agp cache), and the output of "
            "asm-format (AGP and TPF input) run in process, and of assemblies streamed to FASTA with their AGP (gaps longer than the buffer); the AGPs pretext-to-asm writes over longer files of the same names, object names with white space at an edge, and the cache AGP left behind when the indexing run meets an I/O error at its k-th file operation (k = 0..39); judged by an independent AGP column checker against the "
            "scaffold lengths. non-trivial = distinct assembly with >= 2 rows in some scaffold"
        )

    def generate(self, rng, tier):
        n = 300 if tier == "quick" else 4000
        for _ in range(n):
            a = T.gen_asm(rng, wf=rng.random() < 0.7)
            # distinct scaffold names so that per-object checks are meaningful
            for k, sc in enumerate(a["scaffolds"]):
                sc["name"] = (sc["name"] or "s").replace("\t", "_").replace("\n", "_").lstrip("#").strip() + f"#{k}"
                for r in sc["rows"]:
                    if r[0] == "F":
                        r[1] = r[1].replace("\t", "_").replace("\n", "_")
                        r[5] = [t.replace("\t", "_").replace("\n", "_") for t in r[5]]
                    else:
                        r[2] = r[2].replace("\t", "_") or "scaffold"
            yield {"gen": "format", "kind": "format", "asm": a}
        for _ in range(n // 3):
            layout = F.gen_fasta(rng)
            yield {"gen": "fasta-derived", "kind": "fasta", "layout": layout, "data": F.render(layout),
                   "buf": rng.choice([1, 3, 7, 250000])}
        for _ in range(n // 12):
            # FASTA files the indexer should refuse (a record name twice, nothing but headers ...): whenever it
            # does hand back an assembly, the AGP written from it (the cache) must still be a valid AGP
            kind, data = F.malformed(rng)
            yield {"gen": "fasta-derived/malformed", "kind": "fasta", "layout": None, "data": data, "buf": rng.choice([3, 250000])}
        for _ in range(n // 4):
            # FASTA written with its AGP: gaps longer than the stream buffer, rows of both strands
            from .c14 import gen_rows_over

            layout = F.gen_fasta(rng, maxlen=40)
            buf = rng.choice([1, 2, 3, 5, 7, 64, 130])
            rows = gen_rows_over(rng, layout, rng.randint(1, 6), strands=(1, -1), maxgap=rng.choice([buf, 2 * buf, 3 * buf + 1, 40]))
            yield {"gen": "fasta+agp", "kind": "stream", "layout": layout, "data": F.render(layout), "buf": buf,
                   "scaffolds": [{"name": "SUPER_1", "rows": rows}]}
        # the .agp cache when an indexing run hits an I/O error (disk full) at its k-th file operation:
        # whatever file is left under the cache's name must still be a complete, valid AGP of the FASTA
        for k in range(0, 40 if tier == "quick" else 120):
            layout = F.gen_fasta(rng, nrec=rng.choice([2, 3, 6]), maxlen=30)
            yield {"gen": "fault-cache", "kind": "fault", "layout": layout, "data": F.render(layout), "k": k}
        # pretext-to-asm run again into a directory whose output files are longer than what it writes now
        for multi in (True, False):
            yield {"gen": "rerun-over-longer-files", "kind": "rerun", "multi": multi}
        # the same run with an input FASTA whose FIRST record is empty (a header directly followed by the next)
        yield {"gen": "rerun/empty-first-record", "kind": "rerun", "multi": True, "empty_first": True}
        for _ in range(10 if tier == "quick" else 150):
            which = rng.choice(["agp", "tpf"])
            a = T.gen_asm(rng, tpf_able=(which == "tpf"))
            for k, sc in enumerate(a["scaffolds"]):
                sc["name"] += f".{k}"  # distinct object names
                if rng.random() < 0.3:
                    # white space at an edge of the name that only TAB-splitting keeps
                    sc["name"] = rng.choice([" {}", "{}\x0b", "{}\x1f", "\x1c{}"]).format(sc["name"])
            yield {"gen": "asm-format/" + which, "kind": "cli", "fmt": which, "asm": a}

    def run_fault(self, case):
        import shutil

        from tola.fasta.index import FastaIndex

        from .. import core, fsim

        root = core.BUILD / self.pid / "fs"
        shutil.rmtree(root, ignore_errors=True)
        root.mkdir(parents=True)
        sim = fsim.Sim(root)
        fsim.SIM = sim
        fsim.install()
        status = "done"
        try:
            sim.rewrite_fasta(case["data"].encode("latin-1"), True)
            sim.tick()
            sim.tls.pid = 0
            sim.fault_at[0] = case["k"]
            try:
                FastaIndex(sim.fasta).auto_load()
            except BaseException as e:
                status = type(e).__name__
            finally:
                sim.tls.pid = None
        finally:
            fsim.uninstall()
            fsim.SIM = None
        agp = root / "g.fa.agp"
        faulted = any(t[0] == "op" and t[2] == "OFault" for t in sim.trace)
        return {"status": status, "faulted": faulted, "text": agp.read_text() if agp.exists() else None,
                "leftovers": sorted(p.name for p in root.iterdir() if p.name.endswith(".tmp"))}

    def run_rerun(self, case):
        import shutil

        from .. import cli_util as C
        from .. import core

        root = core.BUILD / self.pid / "cli"
        shutil.rmtree(root, ignore_errors=True)
        fa, agp = C.write_inputs(root / "in", case["multi"])
        if case.get("empty_first"):
            fa.write_text(">empty_0 nothing here\n" + fa.read_text())
        out = root / "out"
        out.mkdir(parents=True)
        args = ["-a", fa, "-p", agp, "-o", out / "x.fa", "--no-write-log"]
        r1 = C.run_cli(args)
        first = {p.name: p.read_bytes() for p in out.iterdir() if p.is_file()}
        for p in out.iterdir():
            if p.is_file():
                p.write_bytes(first[p.name] * 2 + b"tail\tof\tan\tolder\tlonger\tfile\n" * 50)
        r2 = C.run_cli(args)
        files = {p.name: p.read_bytes().decode("latin-1") for p in out.iterdir() if p.is_file()}
        shutil.rmtree(root, ignore_errors=True)
        return {"exit": [r1.exit_code, r2.exit_code], "files": files,
                "first": {k_: v.decode("latin-1") for k_, v in first.items()}}

    def run_impl(self, case):
        k = case["kind"]
        if k == "rerun":
            return self.run_rerun(case)
        if k == "fault":
            return self.run_fault(case)
        if k == "format":
            return {"text": T.fmt(case["asm"], "agp")}
        if k == "fasta":
            ctx = F.Ctx(self.pid, case["data"])
            ix = ctx.index(case["buf"])
            if "err" in ix:
                return {"index": ix}
            a = {"header": [], "scaffolds": ix["asm"]}
            return {"index": ix, "asm": a, "text": T.fmt(a, "agp")}
        if k == "stream":
            ctx = F.Ctx(self.pid, case["data"])
            ix = ctx.index(250000)
            if "err" in ix:
                return {"index": ix}
            fi = ctx.fasta_index(ix["idx"], case["buf"])
            a = {"header": [], "scaffolds": case["scaffolds"]}
            return {"index": ix, "asm": a, "text": T.fmt(a, "agp"), "fasta": F.stream_impl(fi, case["scaffolds"], 60)}
        from tola.assembly.scripts import asm_format

        text = T.fmt(case["asm"], case["fmt"])
        r = CliRunner().invoke(asm_format.cli, ["-i", case["fmt"].upper(), "-f", "AGP"], input=text)
        return {"exit": r.exit_code, "text": r.stdout, "input": text}

    def term(self, case, obs):
        k = case["kind"]
        if k in ("fault", "rerun"):
            return []
        if k == "format":
            return lambda names: f"CFormatAgp {T.asm_term(case['asm'], names)} {T.opt_text(obs['text'], names)}"
        if k in ("fasta", "stream"):
            if "err" in obs["index"]:
                return []
            return lambda names: f"CFormatAgp {T.asm_term(obs['asm'], names)} {T.opt_text(obs['text'], names)}"
        # the CLI output must be what the model formats from the model's parse of the input
        a = case["asm"] if case["fmt"] == "agp" else {**case["asm"]}
        return lambda names: f"CFormatAgp {T.asm_term(a, names)} {T.opt_text(obs['text'], names)}"

    def oracle(self, case, obs):
        k = case["kind"]
        if k == "rerun":
            if obs["exit"] != [0, 0]:
                return f"pretext-to-asm exited {obs['exit']}"
            for name, text in obs["files"].items():
                if not name.endswith(".agp"):
                    continue
                lengths = None
                fa = obs["files"].get(name[:-4] + ".fa")
                if fa is not None:
                    lengths, cur = {}, None
                    for ln in fa.split("\n"):
                        if ln.startswith(">"):
                            cur = ln[1:]
                            lengths[cur] = 0
                        elif cur is not None:
                            lengths[cur] += len(ln)
                try:
                    w = T.check_agp_text(text, lengths)
                except Exception as e:
                    w = f"not AGP text ({type(e).__name__}: {e})"
                if w:
                    return f"{name}, written over a longer file of the same name: {w}"
                if lengths is not None:
                    ends_ = {}
                    for ln in text.split("\n"):
                        f_ = ln.split("\t")
                        if len(f_) > 2 and not ln.startswith("#"):
                            ends_[f_[0]] = int(f_[2])
                    if ends_ != lengths:
                        return (f"{name}: object ends {ends_} differ from the record lengths {lengths} of the FASTA "
                                f"written with it")
                if text != obs["first"].get(name):
                    return f"{name} differs from what the same run writes into an empty directory"
            return None
        if k == "fault":
            if obs["text"] is None:
                return None
            want = {r["name"]: len(r["seq"]) for r in case["layout"]["records"]}
            w = T.check_agp_text(obs["text"], want)
            if w:
                return f"after an I/O error at file operation {case['k']} of the indexing run the cache AGP is invalid: {w}"
            ends = {}
            for ln in obs["text"].splitlines():
                f = ln.split("\t")
                if len(f) > 2 and not ln.startswith("#"):
                    ends[f[0]] = int(f[2])
            if ends != want:
                return (f"after an I/O error at file operation {case['k']} of the indexing run the cache AGP left in place "
                        f"describes {ends}, the FASTA records are {want}")
            return None
        if k in ("fasta", "stream") and "err" in obs["index"]:
            if case.get("layout") is None:
                return None      # a malformed file may be refused
            return f"well-formed FASTA rejected: {obs['index']}"
        if k == "cli" and obs["exit"] != 0:
            return f"asm-format exited {obs['exit']}"
        text = obs["text"]
        if isinstance(text, dict):
            return f"format_agp raised {text}"
        a = obs["asm"] if k in ("fasta", "stream") else case["asm"]
        w = T.check_agp_text(text, scaffold_lengths(a))
        if w:
            return w
        ends = {}
        for ln in text.splitlines():
            f = ln.split("\t")
            if len(f) > 2 and not ln.startswith("#"):
                ends[f[0]] = int(f[2])
        if k == "fasta" and case.get("layout") is not None:
            # the .agp beside an indexed FASTA: every object ends at the record's real length
            for r in case["layout"]["records"]:
                if ends.get(r["name"]) != len(r["seq"]):
                    return f"AGP object {r['name']} ends at {ends.get(r['name'])}, the FASTA record has {len(r['seq'])} residues"
        if k == "stream":
            if isinstance(obs["fasta"], dict):
                return f"writing the FASTA raised {obs['fasta']}"
            recs = {}
            cur = None
            for ln in obs["fasta"].split("\n"):
                if ln.startswith(">"):
                    cur = ln[1:]
                    recs[cur] = 0
                elif cur is not None:
                    recs[cur] += len(ln)
            for name, n in recs.items():
                if n and ends.get(name) != n:
                    return f"AGP object {name} ends at {ends.get(name)} but the FASTA record written with it has {n} residues"
        return None

    def key(self, case, obs):
        if case["kind"] == "rerun":
            return super().key(case, {"exit": obs["exit"]})
        if case["kind"] == "fault":
            return super().key(case, obs) if obs.get("faulted") else None
        a = obs.get("asm") if case["kind"] in ("fasta", "stream") else case.get("asm")
        if not a or not any(len(sc["rows"]) >= 2 for sc in a["scaffolds"]):
            return None
        return super().key(case, obs)

    def classify(self, case, obs):
        return case["gen"]

    def shrink_candidates(self, case):
        if case["kind"] != "format":
            return
        a = case["asm"]
        scs = a["scaffolds"]
        for i in range(len(scs)):
            if len(scs) > 1:
                yield {**case, "asm": {**a, "scaffolds": scs[:i] + scs[i + 1 :]}}
            rows = scs[i]["rows"]
            for j in range(len(rows)):
                if len(rows) > 1:
                    yield {**case, "asm": {**a, "scaffolds": scs[:i] + [{**scs[i], "rows": rows[:j] + rows[j + 1 :]}] + scs[i + 1 :]}}


PROP = C06()
