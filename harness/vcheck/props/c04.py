"""C04 -- FASTA index and derived assembly describe the file exactly."""

import itertools

from .. import asm as A
from .. import fasta_util as F
from ..core import listlit, zlit
from ..prop import Prop


def buf_grid(rng, layout):
    w = layout["width"]
    n = max(len(r["seq"]) for r in layout["records"])
    return rng.choice([1, 2, 3, 5, 7, max(1, w - 1), w, w + 1, max(1, n - 1), n, n + 1, 250000])


class C04(Prop):
    pid = "C04"
    imports = "From Tola Require Import Py.Base Model.Fragment Model.Fasta Model.Stream Corr.Fasta."
    show_fn = "show"
    design_ref = "6/C04"
    required_theorems = ['C04_index_spec', 'C04_random_access', 'C04_duplicate_names_rejected', 'C04_empty_file_rejected', 'C04_stream_back', 'C04_rendered_accessible', 'C04_stream_back_instance', 'C04_legacy_refuted']

    def rule(self):
        return (
            "index: well-formed FASTA layouts (1-6 records, lengths 1,2,width,width+-1,multiples, random; widths "
            "1..80; LF/CRLF; final newline present/absent; descriptions; names holding FS/GS/RS/US bytes and VT/FF before the description in 15%; ACGT/lower/IUPAC/N-run residues) x "
            "buffer sizes {1,2,3,5,7,w-1,w,w+1,n-1,n,n+1,250000}; exhaustive tiny layouts (one record over {A,N} "
            "up to 5 (quick) / 7 (thorough) residues x width 1-4 x LF/CRLF x final newline); a separate malformed "
            "stream, every kind in turn (blank/ragged lines, no header, duplicate names -- apart and directly adjacent --, empty file, header only, mixed EOL). "
            "seqbytes: every interval of records <=12 residues, random ones beyond, through the index the "
            "implementation itself produced; streamback: derived assembly streamed back. non-trivial = distinct case"
        )

    def cases_for(self, rng, layout, gen, thorough_intervals=False):
        data = F.render(layout)
        buf = buf_grid(rng, layout)
        yield {"gen": gen + "/index", "kind": "index", "layout": layout, "data": data, "buf": buf}
        yield {"gen": gen + "/seqbytes", "kind": "seqbytes", "layout": layout, "data": data, "buf": buf,
               "rec": rng.randrange(len(layout["records"])), "qseed": rng.randrange(10**6)}
        if rng.random() < 0.5:
            yield {"gen": gen + "/streamback", "kind": "streamback", "layout": layout, "data": data, "buf": buf,
                   "sbuf": rng.choice([1, 2, 3, 7, 250000])}

    def generate(self, rng, tier):
        maxn = 5 if tier == "quick" else 7
        for n in range(1, maxn + 1):
            for seq in itertools.product("AN", repeat=n):
                for w in (1, 2, 3, 4):
                    if w > n + 1:
                        continue
                    for eol in ("\n", "\r\n"):
                        for fnl in (True, False):
                            layout = {"records": [{"name": "r", "desc": "", "seq": "".join(seq)}], "width": w,
                                      "eol": eol, "final_nl": fnl}
                            data = F.render(layout)
                            yield {"gen": "tiny/index", "kind": "index", "layout": layout, "data": data,
                                   "buf": rng.choice([1, 2, 3, 250000])}
        for _ in range(160 if tier == "quick" else 2500):
            layout = F.gen_fasta(rng, exotic=True)
            yield from self.cases_for(rng, layout, "wf")
        # a FASTA written by pretext-to-asm, indexed afterwards by another tool (.fai only, newer than the
        # FASTA), then loaded: whatever files the run left beside it, the loaded assembly must describe the file
        for multi in (True, False):
            yield {"gen": "cli-output-reloaded", "kind": "cli_reload", "multi": multi, "layout": None, "data": "", "buf": 250000}
        # record names outside ASCII (UTF-8 in the file): the index, the derived assembly and the cache
        # files must carry the names as the file spells them (oracle only: the model is ASCII)
        for k in range(12 if tier == "quick" else 100):
            layout = F.gen_fasta(rng, nrec=rng.choice([2, 3]), maxlen=20)
            for r, nm in zip(layout["records"], rng.sample(["s\u00e9q_2", "\u03b1_sat", "\u67d3\u8272\u4f533", "plain_1", "\u00fc"], len(layout["records"]))):
                r["name"] = nm.encode("utf-8").decode("latin-1")      # one char per byte, as rendered
            yield {"gen": "utf8-names", "kind": "index", "layout": layout, "data": F.render(layout), "buf": rng.choice([1, 7, 250000]),
                   "utf8": True}
        for k in range(88 if tier == "quick" else 880):
            kind, data = F.malformed(rng, F.MALFORMED_KINDS[k % len(F.MALFORMED_KINDS)])
            yield {"gen": "malformed/" + kind, "kind": "index", "layout": None, "data": data,
                   "buf": rng.choice([1, 2, 5, 250000])}

    # ---- implementation
    def intervals(self, case, n):
        import random

        if n <= 12:
            return [[s, e] for s in range(1, n + 1) for e in range(s, n + 1)]
        r = random.Random(case["qseed"])
        out = [[1, n], [1, 1], [n, n]]
        w = case["layout"]["width"]
        pts = sorted({p for k in range(0, n // w + 2) for p in (k * w, k * w + 1, k * w - 1) if 1 <= p <= n})
        for _ in range(25):
            a, b = r.choice(pts), r.choice(pts)
            out.append([min(a, b), max(a, b)])
        return out

    def run_cli_reload(self, case):
        import os
        import shutil

        from tola.fasta.index import FastaIndex, index_fasta_file

        from .. import cli_util as C
        from .. import core

        root = core.BUILD / self.pid / "cli"
        shutil.rmtree(root, ignore_errors=True)
        fa, agp = C.write_inputs(root / "in", case["multi"])
        out = root / "out"
        out.mkdir(parents=True)
        r = C.run_cli(["-a", fa, "-p", agp, "-o", out / "x.fa", "--no-write-log"])
        res = {"exit": r.exit_code, "files": []}
        for q in sorted(out.iterdir()):
            if q.suffix != ".fa":
                continue
            idx, asm = index_fasta_file(q, 250000)
            fresh = [[s_.name, [A.obj_to_row(x) for x in s_.rows]] for s_ in asm.scaffolds]
            # another tool's faidx: the .fai only
            with open(str(q) + ".fai", "w") as fh:
                for n_, i_ in idx.items():
                    fh.write(f"{n_}\t{i_.length}\t{i_.file_offset}\t{i_.residues_per_line}\t{i_.max_line_length}\n")
            old = q.stat().st_mtime - 60
            os.utime(q, (old, old))
            try:
                fi = FastaIndex(q)
                fi.auto_load()
                got = [[s_.name, [A.obj_to_row(x) for x in s_.rows]] for s_ in fi.assembly.scaffolds]
            except Exception as e:
                got = {"err": type(e).__name__}
            res["files"].append({"name": q.name, "fresh": fresh, "loaded": got})
        shutil.rmtree(root, ignore_errors=True)
        return res

    def run_impl(self, case):
        if case["kind"] == "cli_reload":
            return self.run_cli_reload(case)
        ctx = F.Ctx(self.pid, case["data"])
        ix = ctx.index(case["buf"])
        if case["kind"] == "index":
            return ix
        if "err" in ix:
            return {"index": ix}
        if case["kind"] == "seqbytes":
            fi = ctx.fasta_index(ix["idx"], case["buf"])
            rec = ix["idx"][case["rec"]] if case["rec"] < len(ix["idx"]) else ix["idx"][0]
            true_len = len(case["layout"]["records"][case["rec"]]["seq"])
            out = {"index": ix, "info": rec, "qs": []}
            try:
                out["whole"] = fi.get_fasta_seq(rec[0]).sequence.decode("latin-1")
            except Exception as e:
                out["whole"] = {"err": type(e).__name__}
            info = fi.get_info(rec[0])
            for s0, e0 in self.intervals(case, true_len):
                try:
                    out["qs"].append([s0, e0, fi.sequence_bytes(info, s0, e0)])
                except Exception as e:
                    out["qs"].append([s0, e0, {"err": type(e).__name__}])
            # the returned buffers are read only now, after all the calls (a caller may hold several)
            for q in out["qs"]:
                if not isinstance(q[2], dict):
                    q[2] = q[2].getvalue().decode("latin-1")
            return out
        fi = ctx.fasta_index(ix["idx"], case["sbuf"])
        return {"index": ix, "stream": F.stream_impl(fi, ix["asm"], 60)}

    def term(self, case, obs):
        if case.get("utf8") or case["kind"] == "cli_reload":
            return []
        if case["kind"] == "index":
            def t(names):
                if "err" in obs:
                    o = "None"
                else:
                    o = f"(Some ({F.idx_term(obs['idx'], names)}, {F.asm_term(obs['asm'], names)}))"
                return f"CIndex {names(case['data'])} {zlit(case['buf'])} {o}"
            return t
        if "err" in obs["index"]:
            return lambda names: f"CIndex {names(case['data'])} {zlit(case['buf'])} None"
        if case["kind"] == "seqbytes":
            def t(names):
                i = obs["info"]
                qs = listlit(obs["qs"], lambda q: f"({zlit(q[0])}, {zlit(q[1])}, {F.opt_bytes(q[2], names)})")
                return f"CSeqBytes {names(case['data'])} ({zlit(i[1])}, {zlit(i[2])}, {zlit(i[3])}, {zlit(i[4])}) {qs}"
            return t

        def t(names):
            return (
                f"CStream {names(case['data'])} {F.idx_term(obs['index']['idx'], names)} {zlit(case['sbuf'])} 60 "
                f"{F.asm_term(obs['index']['asm'], names)} {F.opt_bytes(obs['stream'], names)}"
            )
        return t

    # ---- oracle
    def oracle(self, case, obs):
        if case["kind"] == "cli_reload":
            if obs["exit"] != 0 or not obs["files"]:
                return f"pretext-to-asm FASTA -> FASTA failed: exit {obs['exit']}"
            for f in obs["files"]:
                if isinstance(f["loaded"], dict):
                    continue            # failing loudly is allowed
                if f["loaded"] != f["fresh"]:
                    return (f"{f['name']} written by pretext-to-asm, then indexed by another tool and loaded: the loaded "
                            f"assembly {f['loaded']} does not describe the file ({f['fresh']})")
            return None
        layout = case["layout"]
        if layout is None:
            data = case["data"]
            names = [ln[1:].split()[0] for ln in data.split("\n") if ln.startswith(">") and ln[1:].split()]
            if case["kind"] == "index" and "err" not in obs:
                if len(set(names)) != len(names):
                    return "duplicate record names accepted"
                if not names:
                    return "file without records accepted"
            return None
        ix = obs if case["kind"] == "index" else obs["index"]
        if "err" in ix:
            return f"well-formed FASTA rejected with {ix['err']}"
        want_idx, want_asm = F.expect_index(layout)
        if case.get("utf8"):
            u = lambda x: x.encode("latin-1").decode("utf-8")
            want_idx = [[u(q[0])] + q[1:] for q in want_idx]
            want_asm = [{"name": u(sc["name"]), "rows": [([r[0], u(r[1])] + r[2:]) if r[0] == "F" else r for r in sc["rows"]]}
                        for sc in want_asm]
        if ix["idx"] != want_idx:
            return f"index {ix['idx']} != faidx quintuples {want_idx}"
        if ix["asm"] != want_asm:
            return f"derived assembly {ix['asm']} != run-length tiling {want_asm}"
        if case["kind"] == "seqbytes":
            seq = layout["records"][case["rec"]]["seq"]
            if obs["whole"] != seq:
                return f"get_fasta_seq returned {obs['whole']!r}, record is {seq!r}"
            for s0, e0, got in obs["qs"]:
                if got != seq[s0 - 1 : e0]:
                    return f"sequence_bytes({s0},{e0}) returned {got!r}, residues are {seq[s0 - 1:e0]!r}"
        if case["kind"] == "streamback":
            want = "".join(
                ">" + r["name"] + "\n" + "".join(
                    ("".join(c if c in "ACGTacgt" else "N" for c in r["seq"]))[i : i + 60] + "\n"
                    for i in range(0, len(r["seq"]), 60))
                for r in layout["records"])
            if obs["stream"] != want:
                return f"streaming the derived assembly gave {obs['stream']!r}, expected {want!r}"
        return None

    def classify(self, case, obs):
        if case["kind"] == "cli_reload":
            return case["gen"]
        ix = obs if case["kind"] == "index" else obs.get("index", {})
        return case["gen"] + ("/Err" if "err" in ix else "/Ok")

    def shrink_candidates(self, case):
        layout = case.get("layout")
        if not layout:
            return
        recs = layout["records"]

        def mk(l2, **kw):
            c = {**case, "layout": l2, "data": F.render(l2), **kw}
            if c.get("rec", 0) >= len(l2["records"]):
                c["rec"] = 0
            return c

        for j in range(len(recs)):
            if len(recs) > 1:
                yield mk({**layout, "records": recs[:j] + recs[j + 1 :]})
        for j, r in enumerate(recs):
            if len(r["seq"]) > 1:
                yield mk({**layout, "records": recs[:j] + [{**r, "seq": r["seq"][: len(r["seq"]) // 2]}] + recs[j + 1 :]})
                yield mk({**layout, "records": recs[:j] + [{**r, "seq": r["seq"][1:]}] + recs[j + 1 :]})
            if r["desc"]:
                yield mk({**layout, "records": recs[:j] + [{**r, "desc": ""}] + recs[j + 1 :]})
        if layout["width"] > 1:
            yield mk({**layout, "width": max(1, layout["width"] // 2)})
        if layout["eol"] != "\n":
            yield mk({**layout, "eol": "\n"})
        if case["buf"] != 250000:
            yield {**case, "buf": 250000}


PROP = C04()
