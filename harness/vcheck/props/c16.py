"""C16 -- --no-clobber never alters an existing file."""

import itertools
import re
import shutil

from .. import cli_util as C
from .. import core
from ..core import blit, listlit, optlit
from ..prop import Prop

LOGTOKEN = "the-log"


class C16(Prop):
    pid = "C16"
    imports = "From Tola Require Import Py.Base Model.Clobber Corr.Clobber."
    show_fn = "show"
    design_ref = "6/C16"
    required_theorems = ["C16_noclobber_spec", "C16_noclobber_fails_iff", "C16_clobber_spec"]

    def rule(self):
        return (
            "pretext-to-asm run in process on a small FASTA + Pretext AGP; for each configuration in {FASTA, AGP, "
            "TPF output} x {--write-log, --no-write-log} x {single-assembly, multi-assembly (haplotig)}: a baseline "
            "run into an empty directory gives the ordered list of output opens and their contents; then every "
            "non-empty subset of pre-existing outputs when there are <= 6 outputs, else all singletons, all pairs "
            "and a random sample (quick: 24 per configuration, thorough: 200), with --no-clobber, and 3 subsets "
            "with --clobber; exit status, file named in the error, and the digest of every file in the directory "
            "are compared with the model's prediction. non-trivial = distinct (configuration, subset, mode)"
        )

    def configs(self):
        for fmt in ("fa", "agp", "tpf"):
            for log in (True, False):
                for multi in (True, False):
                    yield {"fmt": fmt, "log": log, "multi": multi}
        # a Primary-mode map of three haplotypes: merged all_haplotigs outputs and their chromosome list
        yield {"fmt": "agp", "log": False, "multi": "primary3"}

    def generate(self, rng, tier):
        for cfg in self.configs():
            base = self.baseline(cfg)
            names = [o[0] for o in base["opens"]]
            n = len(names)
            subsets = []
            if n <= 6:
                for k in range(1, n + 1):
                    subsets += [list(c) for c in itertools.combinations(range(n), k)]
            else:
                subsets += [[i] for i in range(n)]
                subsets += [list(c) for c in itertools.combinations(range(n), 2)]
                subsets.append(list(range(n)))
            extra = 24 if tier == "quick" else 200
            for _ in range(extra):
                k = rng.randint(1, n)
                subsets.append(sorted(rng.sample(range(n), k)))
            if tier == "quick":
                rng.shuffle(subsets)
                subsets = subsets[:30]
            seen = set()
            for sub in subsets:
                t = tuple(sub)
                if t in seen:
                    continue
                seen.add(t)
                pre = [names[i] for i in sub]
                x = rng.random()
                empty = pre if x < 0.15 else ([rng.choice(pre)] if x < 0.35 else [])
                # some pre-existing outputs are symbolic links to files kept elsewhere (an output directory set
                # up by a workflow manager or copied from an earlier release): existing files all the same
                y = rng.random()
                links = pre if y < 0.1 else ([rng.choice(pre)] if y < 0.3 else [])
                yield {"gen": f"noclobber/{cfg['fmt']}" + ("/empty-files" if empty else "") + ("/links" if links else ""),
                       "cfg": cfg, "opens": base["opens"], "pre": pre, "empty": empty, "links": links,
                       "noclobber": True, "other": rng.random() < 0.3}
            for _ in range(3):
                k = rng.randint(0, n)
                yield {"gen": f"clobber/{cfg['fmt']}", "cfg": cfg, "opens": base["opens"],
                       "pre": [names[i] for i in sorted(rng.sample(range(n), k))], "noclobber": False, "other": True}

    # ---- implementation
    def dirs(self):
        root = core.BUILD / self.pid / "cli"
        return root / "in", root / "out"

    def args(self, cfg, fa, agp, out, noclobber):
        a = ["-a", fa, "-p", agp, "-o", out / f"asm.1.{cfg['fmt']}"]
        a.append("--write-log" if cfg["log"] else "--no-write-log")
        a.append("--no-clobber" if noclobber else "--clobber")
        return a

    @staticmethod
    def inputs(ind, cfg):
        return C.write_inputs_primary3(ind) if cfg["multi"] == "primary3" else C.write_inputs(ind, cfg["multi"])

    def baseline(self, cfg):
        ind, out = self.dirs()
        shutil.rmtree(out, ignore_errors=True)
        out.mkdir(parents=True)
        fa, agp = self.inputs(ind, cfg)
        r = C.run_cli(self.args(cfg, fa, agp, out, True))
        if r.exit_code != 0:
            raise RuntimeError(f"baseline run failed: {r.exit_code} {r.output[-300:]} {r.exception}")
        created = re.findall(r"Created: '([^']+)'", r.stderr)
        opens = []
        if cfg["log"]:
            opens.append(["asm.1.log", LOGTOKEN])
        have = C.listing(out)
        for p in created:
            name = p.rsplit("/", 1)[-1]
            opens.append([name, have[name]])
        if sorted(o[0] for o in opens) != sorted(have):
            raise RuntimeError(f"baseline: files {sorted(have)} vs opens {opens}")
        return {"opens": opens}

    def run_impl(self, case):
        cfg = case["cfg"]
        ind, out = self.dirs()
        shutil.rmtree(out, ignore_errors=True)
        out.mkdir(parents=True)
        fa, agp = self.inputs(ind, cfg)
        pre = {}
        for name in case["pre"]:
            # some pre-existing files are empty (a zero-length leftover is still an existing file)
            data = b"" if name in case.get("empty", []) else f"PRE-EXISTING {name}\n".encode()
            if name in case.get("links", []):
                kept = out.parent / "kept"
                kept.mkdir(exist_ok=True)
                (kept / name).write_bytes(data)
                (out / name).symlink_to(kept / name)
            else:
                (out / name).write_bytes(data)
            pre[name] = C.digest(data)
        if case.get("other"):
            (out / "unrelated.txt").write_bytes(b"keep me\n")
            pre["unrelated.txt"] = C.digest(b"keep me\n")
        r = C.run_cli(self.args(cfg, fa, agp, out, case["noclobber"]))
        after = C.listing(out)
        # a log written by this run has run-dependent text: replace its digest by a token
        if "asm.1.log" in after and after["asm.1.log"] != pre.get("asm.1.log"):
            after["asm.1.log"] = LOGTOKEN
        named = None
        m = re.search(r"(?:log file|Output file) '([^']+)' already exists", r.stderr + (r.output or ""))
        if m:
            named = m.group(1).rsplit("/", 1)[-1]
        lost_links = [n for n in case.get("links", []) if not (out / n).is_symlink()
                      or C.digest((out.parent / "kept" / n).read_bytes()) != pre[n]]
        shutil.rmtree(out.parent / "kept", ignore_errors=True)
        return {"exit": r.exit_code, "named": named, "pre": pre, "after": after,
                "exc": r.exception, "lost_links": lost_links}

    def term(self, case, obs):
        def t(names):
            pl = lambda d: listlit(sorted(d.items()), lambda kv: f"({names(kv[0])}, {names(kv[1])})")
            opens = listlit(case["opens"], lambda o: f"({names(o[0])}, {names(o[1])})")
            return (f"mkCase {blit(case['noclobber'])} {pl(obs['pre'])} {opens} {blit(obs['exit'] == 0)} "
                    f"{optlit(obs['named'], names)} {pl(obs['after'])}")
        return t

    def oracle(self, case, obs):
        if obs["exc"]:
            return f"the CLI raised {obs['exc']}"
        outs = [o[0] for o in case["opens"]]
        pre_outputs = [n for n in case["pre"] if n in outs]
        for name, d in obs["pre"].items():
            if case["noclobber"] or name not in outs:
                if obs["after"].get(name) != d:
                    return f"pre-existing file {name} was altered or removed"
        if case["noclobber"] and obs.get("lost_links"):
            return f"pre-existing symbolic links {obs['lost_links']} were replaced or their targets altered"
        if case["noclobber"]:
            if pre_outputs:
                if obs["exit"] == 0:
                    return f"exit status 0 although {pre_outputs} already existed"
                if obs["named"] not in pre_outputs:
                    return f"error names {obs['named']!r}, pre-existing outputs are {pre_outputs}"
            elif obs["exit"] != 0:
                return f"exit status {obs['exit']} with no pre-existing output"
        else:
            if obs["exit"] != 0:
                return f"--clobber run failed with exit status {obs['exit']}"
            want = dict((o[0], o[1]) for o in case["opens"])
            for name, d in want.items():
                if obs["after"].get(name) != d:
                    return f"--clobber: output {name} not completely rewritten"
        return None

    def key(self, case, obs):
        import json

        return json.dumps([case["cfg"], case["pre"], case["noclobber"]], sort_keys=True)

    def classify(self, case, obs):
        return case["gen"] + f"/log={case['cfg']['log']}/multi={case['cfg']['multi']}/exit={obs.get('exit')}"


PROP = C16()
