"""C19 -- overlap QC and the interval predicates."""

import itertools
import re
from pathlib import Path

from click.testing import CliRunner

from .. import asm as A
from .. import core
from ..core import blit, listlit, natlit, optlit, zlit
from ..prop import Prop


def bases(f):
    return set(range(f[2], f[3] + 1))


class C19(Prop):
    pid = "C19"
    imports = "From Tola Require Import Py.Base Model.Fragment Model.Scaffold Model.AsmFormat Corr.C19."
    show_fn = "show"
    design_ref = "6/C19"
    required_theorems = [
        "C19_overlaps_sym",
        "C19_overlaps_iff_common_base",
        "C19_overlap_length_spec",
        "C19_abuts_iff_gap0",
        "C19_trichotomy",
        "C19_different_names",
        "C19_scan_spec",
        "C19_scan_once",
        "C19_report_blocks",
    ]

    def rule(self):
        return (
            "pred: every pair of intervals [s,e] with 1<=s<=e<=N (N=7 quick, 9 thorough), same and "
            "different contig name, strands alternating (exhaustive over that range); scan: random "
            "assemblies of 1-4 scaffolds, 0-10 fragments over 1-3 contig names with duplicate/nested/"
            "abutting intervals and gaps; cli: asm-format --qc-overlaps stderr parsed back. "
            "non-trivial = distinct (input) case; trivial = scan case without any same-named pair"
        )

    def generate(self, rng, tier):
        N = 7 if tier == "quick" else 9
        ivs = [(s, e) for s in range(1, N + 1) for e in range(s, N + 1)]
        k = 0
        for (s1, e1), (s2, e2) in itertools.product(ivs, ivs):
            for nb in ("c", "d"):
                k += 1
                st1 = (1, -1, 0)[k % 3]
                st2 = (1, -1)[k % 2]
                yield {
                    "gen": "pred/exhaustive",
                    "kind": "pred",
                    "a": ["F", "c", s1, e1, st1, []],
                    "b": ["F", nb, s2, e2, st2, []],
                }
        nscan = 150 if tier == "quick" else 1500
        for i in range(nscan):
            yield self.gen_scan(rng, "scan/random")
        for i in range(24 if tier == "quick" else 160):
            c = self.gen_scan(rng, "scan/cli", repeat=0.5)
            c["cli"] = True
            yield c

    def gen_scan(self, rng, gen, repeat=0.25):
        nsc = rng.randint(1, 4)
        names = ["c", "d", "e"][: rng.randint(1, 3)]
        scs = []
        total = 0
        for i in range(nsc):
            rows = []
            for _ in range(rng.randint(0, 5)):
                if total >= 10:
                    break
                if rng.random() < 0.25:
                    rows.append(["G", rng.choice([1, 10, 200]), "scaffold"])
                else:
                    s0 = rng.randint(1, 12)
                    e0 = s0 + rng.choice([0, 0, 1, 2, 3, 5])
                    rows.append(["F", rng.choice(names), s0, e0, rng.choice([1, -1]), []])
                    total += 1
            if not rows:
                rows.append(["F", rng.choice(names), 1, 1, 1, []])
                total += 1
            scs.append({"name": f"s{i}", "rows": rows})
        if rng.random() < repeat:
            # the very same row three or four times in one scaffold (a collapsed repeat placed again and again):
            # every unordered pair of the copies is a pair of its own, although their report text is identical
            sc = rng.choice(scs)
            frs = [r for r in sc["rows"] if r[0] == "F"]
            if frs:
                r = rng.choice(frs)
                for _ in range(rng.choice([2, 3])):
                    sc["rows"].insert(rng.randrange(len(sc["rows"]) + 1), list(r))
        return {"gen": gen, "kind": "scan", "scaffolds": scs}

    def run_impl(self, case):
        if case["kind"] == "pred":
            a = A.row_to_obj(case["a"])
            b = A.row_to_obj(case["b"])
            return {
                "overlaps": a.overlaps(b),
                "overlap_length": a.overlap_length(b),
                "abuts": a.abuts(b),
                "gap_between": a.gap_between(b),
                "sym": [b.overlaps(a), b.overlap_length(a), b.abuts(a), b.gap_between(a)],
            }
        asm = A.assembly_to_obj({"scaffolds": case["scaffolds"]})
        fid = {}
        scidx = {}
        for i, sc in enumerate(asm.scaffolds):
            scidx[id(sc)] = i
            for f in sc.fragments():
                fid[id(f)] = len(fid)
        pairs = asm.find_overlapping_fragments()
        obs = {
            "pairs": None
            if pairs is None
            else [[[fid[id(f1)], scidx[id(s1)]], [fid[id(f2)], scidx[id(s2)]]] for (f1, s1), (f2, s2) in pairs]
        }
        if case.get("cli"):
            obs["cli"] = self.run_cli(asm)
        return obs

    def run_cli(self, asm):
        import io

        from tola.assembly.format import format_agp
        from tola.assembly.scripts import asm_format

        buf = io.StringIO()
        format_agp(asm, buf)
        r = CliRunner().invoke(
            asm_format.cli, ["--qc-overlaps", "-i", "AGP"], input=buf.getvalue()
        )
        pat = r"Overlap:\n(\S+) (\S+?):(\d+)-(\d+)\(.\)\n(\S+) (\S+?):(\d+)-(\d+)\(.\)"
        conv = lambda rep: [[p[0], p[1], int(p[2]), int(p[3]), p[4], p[5], int(p[6]), int(p[7])] for p in rep]
        out = {
            "exit": r.exit_code,
            "pairs": conv(re.findall(pat, r.stderr)),
            "stdout_is_agp": r.stdout == buf.getvalue(),
        }
        # the same invocations recorded byte for byte for the model of the command
        from .. import text_util as T
        out["invocations"] = [T.af_invoke(["--qc-overlaps", "-i", "AGP"], stdin=buf.getvalue(), in_fmt="AGP", qc=True)]
        # the same assembly given as two input files: each file is scanned and reported on its own
        d = core.BUILD / self.pid / "cli"
        d.mkdir(parents=True, exist_ok=True)
        for n in ("first.agp", "second.agp"):
            (d / n).write_text(buf.getvalue())
        r2 = CliRunner().invoke(asm_format.cli, ["--qc-overlaps", str(d / "first.agp"), str(d / "second.agp")])
        out["invocations"].append(T.af_invoke(["--qc-overlaps", "-f", "TPF"], [(d / "first.agp", buf.getvalue()), (d / "second.agp", buf.getvalue())],
                                              out_fmt="TPF", qc=True))
        secs = re.split(r"Overlaps detected in assembly '([^']*)'", r2.stderr)
        out["multi"] = {"exit": r2.exit_code, "stdout_twice": r2.stdout == buf.getvalue() * 2,
                        "sections": [[secs[i], conv(re.findall(pat, secs[i + 1]))] for i in range(1, len(secs) - 1, 2)]}
        # files that resolve to the SAME assembly name (same stem in two directories; one --name for
        # all), the later one clean: the earlier file's report must not be lost
        clean = "clean_sc\t1\t9\t1\tW\tclean_ctg\t1\t9\t+\n"
        for sub, text in (("v1", buf.getvalue()), ("v2", clean), ("v3", buf.getvalue())):
            (d / sub).mkdir(exist_ok=True)
            (d / sub / "same.agp").write_text(text)
        # the same AGP with other legal component types than W on its sequence lines (A D F G O P, as in INSDC
        # files): sequence lines all the same, the pairs reported must not change
        letters = iter("ADFGOP" * (buf.getvalue().count("\tW\t") // 6 + 1))
        other = re.sub(r"\tW\t", lambda m: f"\t{next(letters)}\t", buf.getvalue())
        r4 = T.af_invoke(["--qc-overlaps", "-i", "AGP"], stdin=other, in_fmt="AGP", qc=True)
        out["invocations"].append(r4)
        out["other_types"] = {"exit": r4["exit"], "pairs": conv(re.findall(pat, r4["err"]))}
        # an AGP in a file whose extension reads as the OTHER format, with --input-format saying what it is:
        # the option wins, the pairs are the same
        (d / "asm.tpf2agp").write_text(buf.getvalue())
        r5 = T.af_invoke(["--qc-overlaps", "-i", "AGP"], [(d / "asm.tpf2agp", buf.getvalue())], in_fmt="AGP", qc=True)
        out["invocations"].append(r5)
        out["option_wins"] = {"exit": r5["exit"], "pairs": conv(re.findall(pat, r5["err"]))}
        out["samename"] = []
        for args in (["--qc-overlaps", str(d / "v1" / "same.agp"), str(d / "v2" / "same.agp")],
                     ["--qc-overlaps", "--name", "given", str(d / "first.agp"), str(d / "v2" / "same.agp")],
                     ["--qc-overlaps", str(d / "v1" / "same.agp"), str(d / "v3" / "same.agp")]):
            r3 = CliRunner().invoke(asm_format.cli, args)
            fl = [(Path(a), Path(a).read_text()) for a in args if a.endswith(".agp")]
            nm = args[args.index("--name") + 1] if "--name" in args else None
            out["invocations"].append(T.af_invoke([a for a in args if not a.endswith(".agp")], fl, name=nm, qc=True))
            secs = re.split(r"Overlaps detected in assembly '([^']*)'", r3.stderr)
            second = buf.getvalue() if "v3" in args[-1] else clean
            out["samename"].append({"exit": r3.exit_code, "stdout_ok": r3.stdout == buf.getvalue() + second,
                                    "sections": [[secs[i], conv(re.findall(pat, secs[i + 1]))] for i in range(1, len(secs) - 1, 2)]})
        return out

    def term(self, case, obs):
        if case["kind"] == "pred":
            def t(names):
                return (
                    f"CPred {A.frag_term(case['a'], names)} {A.frag_term(case['b'], names)} "
                    f"{blit(obs['overlaps'])} {optlit(obs['overlap_length'], zlit)} "
                    f"{blit(obs['abuts'])} {optlit(obs['gap_between'], zlit)}"
                )
            return t

        def t(names):
            scs = []
            k = 0
            for sc in case["scaffolds"]:
                rows = []
                for r in sc["rows"]:
                    if r[0] == "F":
                        rows.append(A.row_term(r, names, k))
                        k += 1
                    else:
                        rows.append(A.row_term(r, names))
                scs.append("[" + "; ".join(rows) + "]")
            pr = optlit(
                obs["pairs"],
                lambda ps: listlit(
                    ps,
                    lambda p: f"(({zlit(p[0][0])}, {natlit(p[0][1])}), ({zlit(p[1][0])}, {natlit(p[1][1])}))",
                ),
            )
            return f"CScan {listlit(scs)} {pr}"
        if "cli" in obs and obs["cli"].get("invocations"):
            from .. import text_util as T

            return [t] + [lambda names, rec=rec: T.af_term(rec, names) for rec in obs["cli"]["invocations"]]
        return t

    def oracle(self, case, obs):
        if case["kind"] == "pred":
            a, b = case["a"], case["b"]
            same = a[1] == b[1]
            common = bases(a) & bases(b) if same else set()
            if obs["overlaps"] != bool(common):
                return f"overlaps={obs['overlaps']} but common bases={sorted(common)}"
            want_len = len(common) if common else None
            if obs["overlap_length"] != want_len:
                return f"overlap_length={obs['overlap_length']} expected {want_len}"
            if same and not common:
                lo, hi = (a, b) if a[3] < b[2] else (b, a)
                gap = hi[2] - lo[3] - 1
            else:
                gap = None
            if obs["gap_between"] != gap:
                return f"gap_between={obs['gap_between']} expected {gap}"
            if obs["abuts"] != (gap == 0):
                return f"abuts={obs['abuts']} but gap={gap}"
            if same and sum([obs["overlaps"], obs["abuts"], bool(obs["gap_between"])]) != 1:
                return "not exactly one of overlap / abut / positive gap"
            if obs["sym"] != [obs["overlaps"], obs["overlap_length"], obs["abuts"], obs["gap_between"]]:
                return "predicates not symmetric"
            return None
        flat = []
        for i, sc in enumerate(case["scaffolds"]):
            for r in sc["rows"]:
                if r[0] == "F":
                    flat.append((r, i))
        want = []
        for i in range(len(flat)):
            for j in range(i + 1, len(flat)):
                a, b = flat[i][0], flat[j][0]
                if a[1] == b[1] and bases(a) & bases(b):
                    want.append([[i, flat[i][1]], [j, flat[j][1]]])
        got = obs["pairs"] or []
        if obs["pairs"] == []:
            return "empty list returned instead of None"
        if sorted(got) != sorted(want):
            return f"scan reported {got}, overlapping pairs are {want}"
        if len({(tuple(p[0]), tuple(p[1])) for p in got}) != len(got):
            return "a pair reported twice"
        if "cli" in obs:
            c = obs["cli"]
            if c["exit"] != 0 or not c["stdout_is_agp"]:
                return f"asm-format --qc-overlaps failed or altered output: {c}"
            wantcli = sorted(
                [case["scaffolds"][p[0][1]]["name"], flat[p[0][0]][0][1], flat[p[0][0]][0][2], flat[p[0][0]][0][3],
                 case["scaffolds"][p[1][1]]["name"], flat[p[1][0]][0][1], flat[p[1][0]][0][2], flat[p[1][0]][0][3]]
                for p in want
            )
            if sorted(c["pairs"]) != wantcli:
                return f"asm-format reported {c['pairs']}, expected {wantcli}"
            m = c["multi"]
            if m["exit"] != 0 or not m["stdout_twice"]:
                return f"asm-format --qc-overlaps on two files failed or altered output: exit {m['exit']}"
            wantsec = [[n, wantcli] for n in ("first", "second")] if wantcli else []
            if [[n, sorted(ps)] for n, ps in m["sections"]] != wantsec:
                return f"asm-format on two files reported {m['sections']}, expected {wantsec}"
            ow = c.get("option_wins")
            if ow is not None and (ow["exit"] != 0 or sorted(ow["pairs"]) != wantcli):
                return (f"asm-format -i AGP on an AGP file called asm.tpf2agp reported {ow['pairs']} (exit {ow['exit']}), "
                        f"expected {wantcli}: --input-format must win over the extension")
            ot = c.get("other_types")
            if ot is not None and (ot["exit"] != 0 or sorted(ot["pairs"]) != wantcli):
                return (f"with component types A/D/F/G/O/P instead of W on the sequence lines asm-format reported "
                        f"{ot['pairs']} (exit {ot['exit']}), expected {wantcli}")
            for (nm, times), sn in zip((("same", 1), ("given", 1), ("same", 2)), c.get("samename", [])):
                if sn["exit"] != 0 or not sn["stdout_ok"]:
                    return f"asm-format --qc-overlaps on two same-named inputs failed or altered output: exit {sn['exit']}"
                wantsec = [[nm, wantcli]] * times if wantcli else []
                if [[n, sorted(ps)] for n, ps in sn["sections"]] != wantsec:
                    return (f"asm-format on two inputs named {nm!r} (the second without overlaps) reported "
                            f"{sn['sections']}, expected {wantsec}")
        return None

    def key(self, case, obs):
        if case["kind"] == "scan":
            names = [r[1] for sc in case["scaffolds"] for r in sc["rows"] if r[0] == "F"]
            if len(set(names)) == len(names):
                return None
        return super().key(case, obs)

    def classify(self, case, obs):
        if case["kind"] == "pred":
            return "pred/" + ("overlap" if obs.get("overlaps") else "abut" if obs.get("abuts") else "gap" if obs.get("gap_between") else "othername")
        return case["gen"] + ("/none" if obs.get("pairs") is None else "/pairs")

    def neighbours(self, case):
        if case["kind"] != "pred":
            return
        for which in ("a", "b"):
            for k in (2, 3):
                for d in (-1, 1):
                    c = {**case, which: list(case[which])}
                    c[which][k] += d
                    if 1 <= c[which][2] <= c[which][3]:
                        yield c

    def shrink_candidates(self, case):
        if case["kind"] != "scan":
            return
        scs = case["scaffolds"]
        for i in range(len(scs)):
            if len(scs) > 1:
                yield {**case, "scaffolds": scs[:i] + scs[i + 1 :]}
            rows = scs[i]["rows"]
            for j in range(len(rows)):
                if len(rows) > 1:
                    yield {**case, "scaffolds": scs[:i] + [{**scs[i], "rows": rows[:j] + rows[j + 1 :]}] + scs[i + 1 :]}


PROP = C19()
