"""C05 -- AGP and TPF parse/format round-trip without loss."""

from .. import text_util as T
from ..prop import Prop


def drop_tags(a):
    return {"header": a["header"], "scaffolds": [
        {"name": sc["name"], "rows": [r if r[0] == "G" else r[:5] + [[]] for r in sc["rows"]]} for sc in a["scaffolds"]]}


def corrupt(rng, text, which):
    lines = text.split("\n")
    data = [i for i, l in enumerate(lines) if l and not l.startswith("#")]
    if not data:
        return "none", text
    i = rng.choice(data)
    f = lines[i].split("\t")
    kind = rng.choice(["dropcol", "badstrand", "badcoord", "swapcoord", "extracol", "blankline", "gapfirst",
                       "comment", "trailtab", "emptyname", "dup", "gaptrunc", "gaptrunc"])
    if kind == "gaptrunc":
        # a gap line cut short (its length or a later column missing): refused, never given a default
        gaps = [j for j in data if (lines[j].startswith("GAP\t") if which == "tpf" else
                                    (len(lines[j].split("\t")) > 4 and lines[j].split("\t")[4] in ("U", "N")))]
        if not gaps:
            kind = "dropcol"
        else:
            i = rng.choice(gaps)
            f = lines[i].split("\t")
            f = f[: rng.randint(1 if which == "tpf" else 5, len(f) - 1)]
    if kind == "dropcol":
        f.pop(rng.randrange(len(f)))
    elif kind == "badstrand":
        f[-1 if which == "tpf" else min(8, len(f) - 1)] = rng.choice(["PLUS ", "+-", "FWD", ""])
    elif kind == "badcoord":
        j = rng.randrange(len(f))
        f[j] = f[j] + rng.choice(["x", "_", " 1", "-"])
    elif kind == "swapcoord":
        if which == "agp" and len(f) > 7:
            f[6], f[7] = f[7], f[6]
        else:
            f[1] = "c:9-1"
    elif kind == "extracol":
        f.insert(rng.randrange(len(f) + 1), rng.choice(["", "z"]))
    elif kind == "blankline":
        lines.insert(i, rng.choice(["", "  ", "\t"]))
        return kind, "\n".join(lines)
    elif kind == "gapfirst":
        lines.insert(0, "GAP\tTYPE-2\t200" if which == "tpf" else "s\t1\t200\t1\tU\t200\tscaffold\tyes\tproximity_ligation")
        return kind, "\n".join(lines)
    elif kind == "comment":
        lines.insert(i, rng.choice(["# note", "## note", "#", "# "]))
        return kind, "\n".join(lines)
    elif kind == "trailtab":
        f.append("")
    elif kind == "emptyname":
        f[0 if which == "agp" else 2] = ""
    elif kind == "dup":
        lines.insert(i, lines[i])
        return kind, "\n".join(lines)
    lines[i] = "\t".join(f)
    return kind, "\n".join(lines)


def edge_names(rng, a):
    """some scaffold names with white space at an edge that only TAB-splitting keeps (a blank inside,
    a leading blank, a trailing VT / US / no-break space): legal, and a scaffold is still ONE scaffold"""
    if rng.random() < 0.5:
        return a
    seen = set()
    for sc in a["scaffolds"]:
        if rng.random() < 0.6:
            sc["name"] = rng.choice([" {}", "{}\x0b", "{}\x1f", "{} x", "\x1c{}"]).format(sc["name"] or "s")
        while sc["name"] in seen:
            sc["name"] += "_"
        seen.add(sc["name"])
    return a


class C05(Prop):
    pid = "C05"
    imports = "From Tola Require Import Py.Base Model.Fragment Model.Fasta Model.AgpTpf Model.AsmFormat Corr.AgpTpf."
    show_fn = "show"
    design_ref = "6/C05"
    required_theorems = ['C05_parse_format_agp', 'C05_format_parse_agp', 'C05_parse_format_tpf', 'C05_agp_tpf_agp', 'C05_agp_rows_eq_lines', 'C05_tpf_rows_eq_lines', 'C05_gap_type_tables', 'C05_wf_satisfiable', 'C05_asm_format_identity', 'C05_asm_format_concatenates', 'C05_qc_flag_does_not_change_output', 'C05_asm_format_agp_tpf_agp']

    def rule(self):
        return (
            "roundtrip: random assemblies (1-4 scaffolds, 1-6 rows, names with ':' '-' digits, coordinates to 10^12, "
            "strands + - ?, 0-3 tags, AGP gap types, 0-2 header lines) formatted as AGP / TPF (text compared with the "
            "model), parsed back (value compared with the model and with the input by the oracle), re-formatted, and "
            "AGP->TPF->AGP; a non-well-formed stream (blank/#/tab-bearing names, empty tags, zero/negative gaps, odd "
            "gap types, odd headers) compared with the model only; corrupt: canonical texts with one corrupted line "
            "(missing/extra column, bad strand, bad coordinate, start>end, blank/comment line inserted, GAP first, "
            "duplicate line); cli: asm-format on 1-3 input files (AGP/TPF by extension) written to -o FILE and to STDOUT as AGP and TPF -- every row of every input must arrive. non-trivial = distinct case"
        )

    def generate(self, rng, tier):
        n = 220 if tier == "quick" else 3000
        for _ in range(n):
            yield {"gen": "roundtrip/agp", "kind": "rt", "fmt": "agp", "asm": T.gen_asm(rng), "wf": True}
        for _ in range(n):
            yield {"gen": "roundtrip/tpf", "kind": "rt", "fmt": "tpf", "asm": T.gen_asm(rng, tpf_able=True), "wf": True}
        for _ in range(n // 2):
            yield {"gen": "notwf", "kind": "rt", "fmt": rng.choice(["agp", "tpf"]), "asm": T.gen_asm(rng, wf=False), "wf": False}
        for _ in range(n):
            which = rng.choice(["agp", "tpf"])
            a = T.gen_asm(rng, tpf_able=(which == "tpf"))
            text = T.fmt(a, which)
            kind, bad = corrupt(rng, text, which)
            yield {"gen": f"corrupt/{which}/{kind}", "kind": "text", "fmt": which, "text": bad}
        # asm-format itself: one to three input files (AGP / TPF by extension), output to -o FILE
        # and to STDOUT, converted to AGP and to TPF
        for k in range(24 if tier == "quick" else 200):
            nfiles = 1 + k % 3
            yield {"gen": f"cli/{nfiles}files", "kind": "cli", "fmt": "tpf",
                   "inputs": [{"fmt": rng.choice(["agp", "tpf"]), "asm": edge_names(rng, T.gen_asm(rng, tpf_able=True, maxcoord=10**6))}
                              for _ in range(nfiles)],
                   "out": rng.choice(["agp", "tpf"])}

    def run_cli(self, case):
        from click.testing import CliRunner
        from tola.assembly.scripts import asm_format
        from .. import core

        d = core.BUILD / self.pid / "cli"
        d.mkdir(parents=True, exist_ok=True)
        paths, texts = [], []
        for i, inp in enumerate(case["inputs"]):
            t = T.fmt(inp["asm"], inp["fmt"])
            pth = d / f"in{i}.{inp['fmt']}"
            pth.write_text(t)
            paths.append(str(pth))
            texts.append(t)
        out = d / f"out.{case['out']}"
        if out.exists():
            out.unlink()
        files = list(zip(paths, texts))
        OUT = case["out"].upper()
        r1 = T.af_invoke(["-o", str(out)], files, out_name=out.name, out_path=out)
        wrote = out.exists()
        r2 = T.af_invoke(["-f", OUT], files, out_fmt=OUT)
        # a diagnostics flag must not change what is written
        r3 = T.af_invoke(["-f", OUT, "--qc-overlaps"], files, out_fmt=OUT, qc=True)
        # the first input through STDIN with its format named, and under a given assembly name
        F0 = case["inputs"][0]["fmt"].upper()
        r4 = T.af_invoke(["-i", F0, "-f", OUT, "--qc-overlaps", "--name", "given"], stdin=texts[0], in_fmt=F0, out_fmt=OUT,
                         name="given", qc=True)
        # options against extensions: --format wins over the extension of -o, --input-format over the input's
        other_fmt = "TPF" if case["out"] == "agp" else "AGP"
        out2 = d / f"out2.{case['out']}"
        if out2.exists():
            out2.unlink()
        r5 = T.af_invoke(["-f", other_fmt, "-o", str(out2)], files, out_name=out2.name, out_fmt=other_fmt, out_path=out2)
        wrong = "TPF" if case["inputs"][0]["fmt"] == "agp" else "AGP"
        r6 = T.af_invoke(["-i", wrong, "-f", OUT], files[:1], in_fmt=wrong, out_fmt=OUT)
        return {"exit": [r1["exit"], r2["exit"], r3["exit"]], "file": r1["out"] if wrote else None,
                "stdout": r2["out"], "stdout with --qc-overlaps": r3["out"], "inputs": texts,
                "invocations": [r1, r2, r3, r4, r5, r6], "other_format": [other_fmt, r5["exit"], r5["out"]]}

    def run_impl(self, case):
        which = case["fmt"]
        if case["kind"] == "cli":
            return self.run_cli(case)
        if case["kind"] == "text":
            return {"parsed": T.parse(case["text"], which)}
        text = T.fmt(case["asm"], which)
        out = {"text": text}
        if isinstance(text, dict):
            return out
        out["parsed"] = T.parse(text, which)
        if "err" not in out["parsed"]:
            out["retext"] = T.fmt(out["parsed"], which)
        if which == "agp" and case["wf"]:
            tpf = T.fmt(case["asm"], "tpf")
            out["via_tpf"] = tpf if isinstance(tpf, dict) else T.parse(tpf, "tpf")
        return out

    def term(self, case, obs):
        which = case["fmt"]
        if case["kind"] == "cli":
            # every input file parsed by the model, every output section formatted by the model
            ts = []
            for inp, text in zip(case["inputs"], obs["inputs"]):
                Ci = "Agp" if inp["fmt"] == "agp" else "Tpf"
                want = inp["asm"] if inp["fmt"] == "agp" else drop_tags(inp["asm"])
                ts.append(lambda names, Ci=Ci, text=text, want=want: f"CParse{Ci} {names(text)} {T.opt_asm(want, names)}")
            # ... and the command as a whole: what it wrote and reported, byte for byte
            for rec in obs.get("invocations", []):
                ts.append(lambda names, rec=rec: T.af_term(rec, names))
            return ts
        C = "Agp" if which == "agp" else "Tpf"
        if case["kind"] == "text":
            return lambda names: f"CParse{C} {names(case['text'])} {T.opt_asm(obs['parsed'], names)}"
        ts = [lambda names: f"CFormat{C} {T.asm_term(case['asm'], names)} {T.opt_text(obs['text'], names)}"]
        if "parsed" in obs:
            ts.append(lambda names: f"CParse{C} {names(obs['text'])} {T.opt_asm(obs['parsed'], names)}")
        return ts

    def oracle(self, case, obs):
        which = case["fmt"]
        if case["kind"] == "cli":
            if obs["exit"] != [0, 0, 0]:
                return f"asm-format exited {obs['exit']} on valid input files"
            want = ""
            nrows = 0
            for inp in case["inputs"]:
                a = inp["asm"] if inp["fmt"] == "agp" else drop_tags(inp["asm"])
                want += T.fmt(a, case["out"])
                nrows += sum(len(sc["rows"]) for sc in a["scaffolds"])
            of = obs.get("other_format")
            if of is not None:
                want2 = "".join(T.fmt(inp["asm"] if inp["fmt"] == "agp" else drop_tags(inp["asm"]), of[0].lower()) for inp in case["inputs"])
                if of[1] != 0 or of[2] != want2:
                    return f"asm-format --format {of[0]} -o out2.{case['out']} did not write {of[0]} (the option must win over the extension)"
            for where in ("file", "stdout", "stdout with --qc-overlaps"):
                got = obs[where]
                if got is None:
                    return "asm-format -o wrote no file"
                n = sum(1 for ln in got.split("\n") if ln.strip() and not ln.startswith("#"))
                if n != nrows:
                    return (f"{nrows} rows in {len(case['inputs'])} input file(s) but {n} rows in the {case['out'].upper()} "
                            f"written to {where} (rows silently lost or invented)")
                if got != want:
                    return f"asm-format output ({where}) differs from the formatted input assemblies"
            return None
        if case["kind"] == "text":
            p = obs["parsed"]
            if "err" in p:
                return None
            nrows = sum(len(sc["rows"]) for sc in p["scaffolds"])
            nlines = sum(1 for ln in case["text"].split("\n") if ln.strip() and not ln.startswith("#"))
            if nrows != nlines:
                return f"{nlines} data lines parsed into {nrows} rows (a line was skipped or merged)"
            if which == "tpf":
                # every gap line belongs to the scaffold of the preceding sequence line
                cur = None
                want = []
                for ln in case["text"].split("\n"):
                    if not ln.strip() or ln.startswith("#"):
                        continue
                    f = ln.rstrip("\r\n").split("\t")
                    if f[0] == "GAP":
                        want.append((cur, "G"))
                    else:
                        cur = f[2]
                        want.append((cur, "F"))
                got = [(sc["name"], r[0]) for sc in p["scaffolds"] for r in sc["rows"]]
                if got != want:
                    return "rows re-homed to another scaffold"
            return None
        if not case["wf"]:
            return None
        a = case["asm"]
        if isinstance(obs["text"], dict):
            return f"formatting a valid assembly raised {obs['text']}"
        want = a if which == "agp" else drop_tags(a)
        if obs["parsed"] != want:
            return f"parse(format(a)) = {obs['parsed']} differs from a = {want}"
        if obs.get("retext") != obs["text"]:
            return "re-formatting parsed canonical text does not reproduce it byte for byte"
        if which == "agp":
            tp = all(r[0] == "G" or r[4] in (1, -1) for sc in a["scaffolds"] for r in sc["rows"]) and all(
                sc["rows"][0][0] == "F" for sc in a["scaffolds"]) and all(
                r[0] == "G" or (r[1] and r[2] >= 0) for sc in a["scaffolds"] for r in sc["rows"]) and all(
                r[0] == "F" or r[2] == r[2].lower() for sc in a["scaffolds"] for r in sc["rows"])
            if tp and obs["via_tpf"] != drop_tags(a):
                return f"AGP -> TPF -> parse gives {obs['via_tpf']}, expected the assembly without tags"
        return None

    def classify(self, case, obs):
        if case["kind"] == "cli":
            return case["gen"]
        if case["kind"] == "text":
            return case["gen"].rsplit("/", 1)[0] + ("/Err" if "err" in obs["parsed"] else "/Ok")
        return case["gen"]

    def shrink_candidates(self, case):
        if case["kind"] != "rt":
            return
        a = case["asm"]
        scs = a["scaffolds"]
        if a["header"]:
            yield {**case, "asm": {**a, "header": []}}
        for i in range(len(scs)):
            if len(scs) > 1:
                yield {**case, "asm": {**a, "scaffolds": scs[:i] + scs[i + 1 :]}}
            rows = scs[i]["rows"]
            for j in range(len(rows)):
                if len(rows) > 1:
                    yield {**case, "asm": {**a, "scaffolds": scs[:i] + [{**scs[i], "rows": rows[:j] + rows[j + 1 :]}] + scs[i + 1 :]}}


PROP = C05()
