"""C09 -- tags route sequence to the documented destination assembly."""

import re
from fractions import Fraction

from .. import pipeline_util as P
from ..pipeline_prop import PipelineProp

PIECE_TAGS = ["Haplotig", "Contaminant", "FalseDuplicate"]


def hap_of_name(name):
    m = re.search(r"^([^_]+)_.+_\d+$", name)
    return m.group(1) if m else None


def make_tagger(two_haps):
    def tagger(rng, ptx, groups):
        target_mode = rng.random() < 0.3
        target_from = rng.randrange(len(groups)) if groups else 0
        hap_cycle = ["HAP1", "HAP2"] if rng.random() < 0.7 else ["Hap1", "HAP2"]
        painted_seen = 0
        target_seen = False
        primary_mode = two_haps and rng.random() < 0.35
        primary_at = 0 if rng.random() < 0.7 else rng.randrange(3)
        prim = None
        for gi, grp in enumerate(groups):
            painted = grp[0]["painted"]
            sc_tags = []
            if (painted and rng.random() < 0.25) or (not painted and rng.random() < 0.05):
                # (now and then on a scaffold the curator forgot to paint: a named chromosome all the same)
                sc_tags.append(rng.choice(["X", "W1", "B2", "I_II", "2RL", "Z"]))
            hap = None
            if two_haps and painted:
                hap = hap_cycle[painted_seen % 2]
                if primary_mode and painted_seen == primary_at:
                    sc_tags.append("Primary")
                painted_seen += 1
                sc_tags.append(hap)
            if target_mode and gi >= target_from and rng.random() < 0.7:
                sc_tags.append("Target")
            whole = rng.random() < 0.5
            carrier = rng.randrange(len(grp))
            for j, pc in enumerate(grp):
                tags = ["Painted"] if painted else []
                if whole or j == carrier:
                    tags += sc_tags
                if rng.random() < 0.25:
                    tags.append(rng.choice(PIECE_TAGS + (["Unloc"] if painted else [])))
                pc["tags"] = tags
            # expectation
            if "Target" in sc_tags:
                target_seen = True
            if hap is None:
                hap = hap_of_name(grp[0]["name"])
            if "Primary" in sc_tags and prim is None and hap:
                prim = hap.lower()
            if prim is not None and hap is not None and hap.lower() == prim:
                hap = "Primary"
            for pc in grp:
                t = pc["tags"]
                if "FalseDuplicate" in t:
                    exp = "FalseDuplicate"
                elif "Haplotig" in t:
                    exp = "Haplotig"
                elif "Contaminant" in t or (target_seen and "Target" not in sc_tags):
                    exp = "Contaminant"
                else:
                    exp = hap
                pc["expect"] = exp
            rows = ptx["scaffolds"][gi]["rows"]
            k = 0
            for r in rows:
                if r[0] == "F":
                    r[5] = list(grp[k]["tags"])
                    k += 1
        ptx["target_seen"] = target_seen
        ptx["prim"] = prim
    return tagger


class C09(PipelineProp):
    pid = "C09"
    design_ref = "6/C09"
    required_theorems = ['C09_label_tag_spec', 'C09_label_fails_only_unloc_unpainted', 'C09_target_set_by_tag', 'C09_target_monotone_make', 'C09_target_monotone_label', 'C09_routing', 'C09_asm_key_of_tagged', 'C09_asm_key_of_untagged', 'C09_legacy_refuted', 'C09_name_assemblies_spec', 'C09_named_preserves_scaffolds', 'C09_name_assemblies_error_iff', 'C09_single_names_nodup_iff', 'C09_primary_all_haplotigs_last', 'C09_hap_prefix_of_shaped_name', 'C09_hap_prefix_some_shape', 'C09_hap_prefix_examples', 'C09_routing_end_to_end', 'C09_haplotig_bait_routed', 'C09_contaminant_bait_routed']
    n_quick = 400

    def rule(self):
        return (
            "PretextView-model edit scripts decorated with consistent tags: Haplotig / Contaminant / FalseDuplicate "
            "(and Unloc) on single pieces, first or later, of painted and unpainted scaffolds; chromosome-name tags; "
            "one haplotype or two (HAP1/HAP2 alternating on painted scaffolds, ToL-style input names "
            "HAPn_SCAFFOLD_k, mixed case); Target mode starting at a random scaffold; tags on every piece or on one "
            "carrier piece. oracle: the contigs lying in the core of each piece (3 error lengths from its ends) are "
            "found in the assembly keyed by the expected tag / haplotype / primary; left-over sequence likewise. "
            "non-trivial = distinct completed case with at least one tagged piece"
        )

    # ---- the real command line on real files: which files does it write?
    CLI_OUTS = ["asm.1.fa", "idTest1.fasta", "tol.3.agp", "y.2.tpf", "w.agp"]

    def cli_cases(self):
        import re as _re
        from tola.assembly.parser import parse_agp
        from tola.fasta.index import FastaIndex
        from .. import asm as A
        from .. import cli_util as C
        from .. import core

        ind = core.BUILD / self.pid / "cli" / "in"
        for multi in (True, False):
            fa, agp = C.write_inputs(ind, multi)
            fai = FastaIndex(fa)
            fai.auto_load()
            inp = A.obj_to_assembly(fai.assembly)
            ptx = A.obj_to_assembly(parse_agp(agp.open(), "pretext"))
            bpt = None
            for h in ptx["header"]:
                m = _re.match(r"HiC MAP RESOLUTION: (\S+) bp/texel", h)
                if m:
                    bpt = m.group(1)
            for out in self.CLI_OUTS:
                yield {"gen": "cli-files/" + ("multi" if multi else "single"), "cli": {"multi": multi, "out": out},
                       "input": {"scaffolds": inp["scaffolds"]}, "pretext": {"bpt": bpt, "scaffolds": ptx["scaffolds"]},
                       "prefix": "SUPER_", "plan": False}

    def generate(self, rng, tier):
        yield from self.cli_cases()
        yield from super().generate(rng, tier)

    def run_impl(self, case):
        obs = P.run_pipeline({**case, "twice": True, "history": self.history_of(case)})
        if "cli" not in case or "err" in obs:
            return obs
        import re as _re
        import shutil
        from .. import cli_util as C
        from .. import core

        root = core.BUILD / self.pid / "cli"
        out = root / "out"
        shutil.rmtree(out, ignore_errors=True)
        out.mkdir(parents=True)
        fa, agp = C.write_inputs(root / "in", case["cli"]["multi"])
        r = C.run_cli(["-a", fa, "-p", agp, "-o", out / case["cli"]["out"], "--no-write-log", "--no-clobber"])
        created = [q.rsplit("/", 1)[-1] for q in _re.findall(r"Created: '([^']+)'", r.stderr)]
        on_disk = sorted(q.name for q in out.iterdir())
        if sorted(created) != on_disk:
            return {"harness_error": f"files on disk {on_disk} differ from the files reported created {created}"}
        rep = [n for n in created if n.endswith(".chr_report.csv")]
        obs["plan"] = {"name": case["cli"]["out"], "fai": True, "opens": created,
                       "end": 0 if r.exit_code == 0 else (1 if r.exception is None else 2),
                       "report": (out / rep[0]).read_bytes().decode("latin-1") if rep else None,
                       "csvs": [[n, (out / n).read_bytes().decode("latin-1")] for n in created
                                if n.endswith(".chromosome.list.csv")]}
        # what each written sequence file holds: record names and lengths, next to the AGP written with it
        recs = {}
        for q in out.iterdir():
            if q.suffix in (".fa", ".fasta"):
                cur, lst = None, []
                for ln in q.read_text().split("\n"):
                    if ln.startswith(">"):
                        cur = [ln[1:], 0]
                        lst.append(cur)
                    elif cur is not None:
                        cur[1] += len(ln)
                comp = q.with_suffix(".agp")
                ends = []
                if comp.exists():
                    for ln in comp.read_text().split("\n"):
                        f_ = ln.split("\t")
                        if len(f_) > 2 and not ln.startswith("#"):
                            if ends and ends[-1][0] == f_[0]:
                                ends[-1][1] = int(f_[2])
                            else:
                                ends.append([f_[0], int(f_[2])])
                recs[q.name] = {"records": lst, "agp": ends if comp.exists() else None}
        obs["plan"]["fasta_files"] = recs
        return obs

    def gen_case(self, rng):
        two = rng.random() < 0.4
        inp = P.gen_input(rng, style=rng.choice(["tpf", "fasta"]), hap_names=two, nscaf=rng.randint(2, 6))
        ptx, pieces = P.gen_pretext(rng, inp, "edit", tagger=make_tagger(two))
        return {"gen": "tagged/" + (("2hap+primary" if ptx.get("prim") else "2hap") if two else "1hap"), "input": inp, "pretext": ptx,
                "prefix": "SUPER_", "pieces": pieces, **({"pre_run": True} if rng.random() < 0.25 else {})}

    def oracle(self, case, obs):
        if "err" not in obs and "cli" in case:
            # every sequence file holds exactly the scaffolds of the assembly it is named after (the AGP
            # written beside it): sequence routed to an assembly must arrive in THAT assembly's file
            for name, d in (obs.get("plan", {}).get("fasta_files") or {}).items():
                if d["agp"] is None:
                    return f"{name} was written without its AGP"
                if [list(x) for x in d["records"]] != [list(x) for x in d["agp"]]:
                    return (f"{name} holds the records {d['records']}, the assembly written beside it "
                            f"({name.rsplit('.', 1)[0]}.agp) has the scaffolds {d['agp']}")
            return None
        if "err" in obs or case.get("pieces") is None:
            return None
        err = 1 + int(Fraction(case["pretext"]["bpt"]))
        margin = 3 * err
        idx = P.OutIndex(obs)
        keys_ci = {}
        covered = set()

        def where(name, cc):
            hits = idx.locate(name, cc)
            return [idx.scaffolds[h[0]][0] for h in hits]

        def same(a, b):
            return (a is None and b is None) or (a is not None and b is not None and a.lower() == b.lower())

        for pc in case["pieces"]:
            sc = case["input"]["scaffolds"][pc["src"]]
            L = P.sc_len(sc)
            a, b = pc["start"] + margin, min(pc["end"], L) - margin
            for rs, re_, r in P.scaffold_spans(sc):
                if r[0] != "F" or rs < a or re_ > b:
                    continue
                covered.add((pc["src"], rs))
                for k in where(r[1], r[2]):
                    exp = pc["expect"]
                    if not same(k, exp):
                        return (f"contig {r[1]}:{r[2]}-{r[3]} of piece {pc['name']}:{pc['start']}-{pc['end']} "
                                f"tagged {pc['tags']} is in assembly {k!r}, expected {exp!r}")
                    if k is not None:
                        keys_ci.setdefault(k.lower(), set()).add(k)
        for lk, ks in keys_ci.items():
            if len(ks) > 1:
                return f"one haplotype written under several keys {sorted(ks)}"
        # sequence absent from the map
        baits = {}
        for sc in case["pretext"]["scaffolds"]:
            for r in sc["rows"]:
                if r[0] == "F":
                    baits.setdefault(r[1], []).append((r[2], r[3]))
        for sc in case["input"]["scaffolds"]:
            if sc["name"] in baits:
                continue
            exp = hap_of_name(sc["rows"][0][1])
            prim = case["pretext"].get("prim")
            if prim is not None and exp is not None and exp.lower() == prim:
                exp = "Primary"
            if case["pretext"].get("target_seen"):
                exp = "Contaminant"
            for rs, re_, r in P.scaffold_spans(sc):
                if r[0] == "F":
                    for k in where(r[1], r[2]):
                        if not same(k, exp):
                            return f"contig {r[1]} of scaffold {sc['name']} absent from the map is in assembly {k!r}, expected {exp!r}"
        return None

    def key(self, case, obs):
        if "err" in obs:
            return None
        if not any(set(pc.get("tags", [])) - {"Painted"} for pc in case.get("pieces") or []):
            return None
        return super().key({k: v for k, v in case.items() if k != "pieces"}, obs)

    def shrink_candidates(self, case):
        return []


PROP = C09()
