"""C20 -- scaffold ordering is total, numeric-aware and never fails."""

import itertools
import re

from tola.assembly.assembly import Assembly
from tola.assembly.scaffold import Scaffold

from ..core import listlit, natlit, optlit, zlit
from ..prop import Prop

ALPHA = "IVXaS_-.0129"


def impl_key(name):
    try:
        return list(Assembly.name_natural_key(Scaffold(name)))
    except Exception as e:
        return {"err": type(e).__name__}


def oracle_key(name):
    """independent reading of the documented behaviour: maximal digit runs and
    the numerals I, II, III, IV are numbers"""
    out = []
    text = ""
    i = 0
    while i < len(name):
        m = re.match(r"IV|III|II|I|[0-9]+", name[i:])
        if m:
            t = m.group(0)
            out += [text, {"I": 1, "II": 2, "III": 3, "IV": 4}.get(t) or int(t)]
            text = ""
            i += len(t)
        else:
            text += name[i]
            i += 1
    return out + [text]


class C20(Prop):
    pid = "C20"
    imports = "From Tola Require Import Py.Base Model.NaturalKey Corr.C20."
    show_fn = "show"
    design_ref = "6/C20"
    required_theorems = ['C20_key_total', 'C20_key_shape', 'C20_no_mixed_comparison', 'C20_sorted_by_name_total', 'C20_smart_sort_total', 'C20_key_le_trans', 'C20_key_le_total', 'C20_key_le_antisym', 'C20_sort_consistent', 'C20_sort_sorted', 'C20_smart_sort_consistent', 'C20_numeric_order', 'C20_roman_order', 'C20_unloc_between', 'C20_unloc_before_later_suffix', 'C20_new_key_extends_old', 'C20_legacy_refuted']

    def rule(self):
        return (
            "keys: every name of length<=3 (quick) / <=4 (thorough) over the alphabet 'IVXaS_-.0129' "
            "(exhaustive), in batches of 60, plus random longer names with I-runs, leading zeros and unloc "
            "suffixes; sort: random multisets of 2-14 (rank,name) items sorted by smart_sort_scaffolds and "
            "scaffolds_sorted_by_name from two different initial orders, and scaffold objects that were sorted under other names, renamed in place and sorted again; merged: the assemblies of one run through name_assemblies (Primary + other haplotypes merged into all_haplotigs, single, multi): every written assembly keeps the rank-first order of its sources. non-trivial = distinct batch / multiset"
        )

    def generate(self, rng, tier):
        maxlen = 3 if tier == "quick" else 4
        names = ["".join(t) for n in range(0, maxlen + 1) for t in itertools.product(ALPHA, repeat=n)]
        for k in range(0, len(names), 60):
            yield {"gen": "keys/exhaustive", "kind": "keys", "names": names[k : k + 60]}
        pieces = ["I", "II", "III", "IIII", "IV", "IIV", "V", "X", "VI", "SUPER_", "chr", "_unloc_", "Scaffold_",
                  "0", "1", "2", "9", "10", "007", "a", "B", "_", "-", ".", "HAP1_", "W", "Z"]
        for _ in range(15 if tier == "quick" else 200):
            batch = ["".join(rng.choice(pieces) for _ in range(rng.randint(1, 6))) for _ in range(40)]
            yield {"gen": "keys/random", "kind": "keys", "names": batch}
        yield {"gen": "keys/serial", "kind": "keys",
               "names": [p + str(b + d) + sfx for p in ("ctg_", "") for b in (20240131093015000, 2**53, 2**64, 10**30)
                         for d in (0, 1, 2) for sfx in ("", "_unloc_1")]}
        for _ in range(150 if tier == "quick" else 2500):
            yield self.gen_sort(rng)
        for _ in range(40 if tier == "quick" else 400):
            yield self.gen_merged(rng)
        for _ in range(40 if tier == "quick" else 400):
            yield self.gen_remapped(rng)
        for _ in range(60 if tier == "quick" else 800):
            # the same scaffold objects are sorted, renamed in place (as the chromosome namer does), sorted again
            c = self.gen_sort(rng)
            c2 = self.gen_sort(rng)
            n = min(len(c["items"]), len(c2["items"]))
            yield {"gen": "resort", "kind": "sort", "items": c2["items"][:n], "perm": list(range(n))[::-1],
                   "first_names": [it[1] for it in c["items"][:n]]}

    def gen_merged(self, rng):
        """the assemblies of one run as pretext-to-asm names them: with a Primary haplotype the other
        curated haplotypes are merged into one all_haplotigs file -- each still rank first"""
        def asm_items(prefix):
            items = []
            for k in range(rng.randint(1, 3)):
                items.append([1, f"SUPER_{k + 1}"])
                if rng.random() < 0.4:
                    items.append([1, f"SUPER_{k + 1}_unloc_1"])
            if rng.random() < 0.5:
                items.append([2, "SUPER_" + rng.choice(["X", "W", "Z1"])])
            for k in range(rng.randint(0, 3)):
                items.append([3, f"{prefix}_SCAFFOLD_{rng.randint(1, 40)}"])
            rng.shuffle(items)
            return items
        mode = rng.choice(["Primary", "Primary", "single", "multi"])
        if mode == "Primary":
            asms = [["Primary", True, asm_items("HAP1")]] + [[h, True, asm_items(h.upper())] for h in rng.sample(["Hap2", "Hap3", "Alt"], rng.randint(1, 2))]
        elif mode == "single":
            asms = [[None, True, asm_items("scaffold")]]
        else:
            asms = [[h, True, asm_items(h.upper())] for h in ("Hap1", "Hap2")]
        if rng.random() < 0.5:
            asms.append(["Haplotig", False, [[3, f"H_{k + 1}"] for k in range(rng.randint(1, 3))]])
        return {"gen": f"merged/{mode}", "kind": "merged", "asms": asms}

    def merged_impl(self, case):
        from tola.assembly.scripts.pretext_to_asm import name_assemblies

        d = {}
        for key, curated, items in case["asms"]:
            a = Assembly("x", curated=curated)
            for rank, nm in items:
                a.add_scaffold(Scaffold(nm, rank=rank))
            a.smart_sort_scaffolds()          # what assemblies_with_scaffolds_fused hands over
            d[key] = a
        before = {k: [(s.rank, s.name) for s in a.scaffolds] for k, a in d.items()}
        try:
            out = name_assemblies(d, "root", "1")
        except Exception as e:
            return {"err": type(e).__name__}
        return {"before": [[k, v] for k, v in before.items()],
                "named": [[k, a.name, [(s.rank, s.name) for s in a.scaffolds]] for k, a in out.items()]}

    def gen_sort(self, rng):
        style = rng.choice(["super", "roman", "mixed", "small", "serial"])
        n = rng.randint(2, 14)
        items = []
        for _ in range(n):
            if style == "super":
                c = rng.choice([1, 2, 3, 9, 10, 11, 20, 100])
                nm = f"SUPER_{c}" + rng.choice(["", "", "A", "B"])
                if rng.random() < 0.4:
                    nm += f"_unloc_{rng.choice([1, 2, 10])}"
                rank = 1
            elif style == "roman":
                nm = "chr" + rng.choice(["I", "II", "III", "IV", "V", "X", "VI", "IIII", "IIV"])
                rank = rng.choice([1, 2])
            elif style == "serial":
                # assembler serial numbers / time stamps: numbers beyond 2**53 that differ in the low digits only
                nm = rng.choice(["ctg_", "read", ""]) + str(rng.choice([20240131093015000, 2**53, 2**64, 10**30])
                                                            + rng.randint(0, 3)) + rng.choice(["", "", "_unloc_1", "_2"])
                rank = rng.choice([1, 3])
            elif style == "mixed":
                nm = rng.choice(["SUPER_", "scaffold_", "H_", "", "chr"]) + rng.choice(
                    ["1", "2", "10", "02", "X", "W1", "I", "IV", "3_unloc_1", "B2", "007", "7"]
                )
                rank = rng.choice([1, 2, 3])
            else:
                nm = "".join(rng.choice(ALPHA) for _ in range(rng.randint(0, 4)))
                rank = rng.choice([0, 1, 2, 3])
            items.append([rank, nm])
        perm = list(range(n))
        rng.shuffle(perm)
        return {"gen": f"sort/{style}", "kind": "sort", "items": items, "perm": perm}

    def sort_impl(self, items, first_names=None):
        res = {}
        scs = []
        for i, (rank, nm) in enumerate(items):
            # rank 0 is the DEFAULT rank of a scaffold that was never ranked (parsed from a file): built without
            # the argument, so that a changed default shows
            sc = Scaffold(first_names[i] if first_names else nm, rank=rank) if rank else Scaffold(first_names[i] if first_names else nm)
            sc._idx = i
            scs.append(sc)
        if first_names:
            pre = Assembly("pre", scaffolds=list(scs))
            try:
                pre.smart_sort_scaffolds()
                pre.scaffolds_sorted_by_name()
            except Exception:
                pass
            for sc, (rank, nm) in zip(scs, items):
                sc.name = nm
        a = Assembly("a", scaffolds=list(scs))
        try:
            a.smart_sort_scaffolds()
            res["smart"] = [sc._idx for sc in a.scaffolds]
        except Exception as e:
            res["smart"] = None
            res["smart_err"] = type(e).__name__
        # asking for other views of the sorted assembly (the by-name list, the chromosome list) must not
        # disturb its rank-first order
        try:
            from tola.assembly.assembly_stats import AssemblyStats

            a.scaffolds_sorted_by_name()
            AssemblyStats().chromosome_name_csv(a)
        except Exception:
            pass
        res["smart_after_views"] = [sc._idx for sc in a.scaffolds]
        b = Assembly("b", scaffolds=list(scs))
        try:
            res["byname"] = [sc._idx for sc in b.scaffolds_sorted_by_name()]
        except Exception as e:
            res["byname"] = None
            res["byname_err"] = type(e).__name__
        return res

    def gen_remapped(self, rng):
        """the assemblies as the remapper hands them to the sort: scaffolds painted and not, with and without a
        chromosome-name tag (also on a scaffold that was not painted), haplotigs, left-overs"""
        from .. import pipeline_util as P

        n = rng.randint(3, 6)
        scs = [{"name": f"scaffold_{k + 1}", "rows": [["F", f"scaffold_{k + 1}", 1, rng.randint(50, 900), 1, []]]} for k in range(n)]
        ptx = []
        names = ["X", "W", "Z1", "B2"]
        rng.shuffle(names)
        for k in range(n - 1):
            tags = rng.choice([[], ["Painted"], ["Painted"], ["Painted", names[k % 4]], [names[k % 4]], ["Haplotig"]])
            ptx.append({"name": f"Scaffold_{k + 1}", "rows": [["F", scs[k]["name"], 1, P.sc_len(scs[k]), rng.choice([1, -1]), list(tags)]]})
        return {"gen": "remapped", "kind": "remapped", "input": {"scaffolds": scs},
                "pretext": {"bpt": "1.000000", "scaffolds": ptx}, "prefix": "SUPER_", "plan": False}

    def run_impl(self, case):
        if case["kind"] == "remapped":
            from .. import pipeline_util as P

            o = P.run_pipeline(case)
            if "err" in o:
                return o
            return {"asms": [[a["key"], [[s_["rank"], s_["name"]] for s_ in a["scaffolds"]]] for a in o["asms"]]}
        if case["kind"] == "merged":
            return self.merged_impl(case)
        if case["kind"] == "keys":
            return [impl_key(n) for n in case["names"]]
        items = case["items"]
        r1 = self.sort_impl(items, case.get("first_names"))
        shuffled = [items[p] for p in case["perm"]]
        r2 = self.sort_impl(shuffled)
        return {"orig": r1, "shuffled": r2}

    def term(self, case, obs):
        def kterm(k, names):
            return listlit(k, lambda e: f"KS {names(e)}" if isinstance(e, str) else f"KI {zlit(e)}")

        if case["kind"] in ("merged", "remapped"):
            return []        # oracle only (the model of the pipeline / name_assemblies is compared in C09 / C10)
        if case["kind"] == "keys":
            def t(names):
                return "CKeys " + listlit(
                    list(zip(case["names"], obs)),
                    lambda p: f"({names(p[0])}, {'None' if isinstance(p[1], dict) else '(Some ' + kterm(p[1], names) + ')'})",
                )
            return t

        def t(names):
            o = obs["orig"]
            items = listlit(case["items"], lambda it: f"({zlit(it[0])}, {names(it[1])})")
            return (
                f"CSort {items} {optlit(o['smart'], lambda l: listlit(l, natlit))} "
                f"{optlit(o['byname'], lambda l: listlit(l, natlit))}"
            )
        return t

    def oracle(self, case, obs):
        if case["kind"] == "remapped":
            if "err" in obs:
                return f"sorting the remapped assemblies failed: {obs['err']}: {obs.get('msg', '')[:120]}"
            for k, v in obs["asms"]:
                if any(r is None for r, _ in v):
                    return f"assembly {k}: a scaffold without a rank reached the sort"
                ks = [(r, oracle_key(n)) for r, n in v]
                if ks != sorted(ks):
                    return f"assembly {k}: not in rank-then-name order: {v}"
            return None
        if case["kind"] == "merged":
            if "err" in obs:
                return f"name_assemblies raised {obs['err']}"
            before = {k: [tuple(x) for x in v] for k, v in obs["before"]}
            for k, v in before.items():
                ks = [(r, oracle_key(n)) for r, n in v]
                if ks != sorted(ks):
                    return f"assembly {k}: not in rank-then-name order"
            merged = [x for x in obs["named"] if x[0] == "all_haplotigs"]
            for _, name, scs in obs["named"]:
                scs = [tuple(x) for x in scs]
                # every written assembly is one of the sorted assemblies, or (all_haplotigs) several of
                # them one after the other -- never re-sorted by name alone
                parts = [v for v in before.values()]
                if scs in parts:
                    continue
                rest = list(scs)
                ok = bool(merged) and name.endswith("all_haplotigs")
                for k, v in before.items():
                    if k in ("Primary", "Haplotig"):
                        continue
                    if rest[: len(v)] == v:
                        rest = rest[len(v):]
                    else:
                        ok = False
                if not ok or rest:
                    return (f"output assembly {name}: scaffold order {[n for _, n in scs]} is not the rank-first order "
                            f"of its source assemblies (rank no longer takes precedence over name)")
            return None
        if case["kind"] == "keys":
            for nm, k in zip(case["names"], obs):
                if isinstance(k, dict):
                    return f"sort key of {nm!r} raised {k['err']}"
                if k != oracle_key(nm):
                    return f"sort key of {nm!r} is {k}, expected {oracle_key(nm)}"
            return None
        items = case["items"]
        for which in ("orig", "shuffled"):
            r = obs[which]
            if r["smart"] is None or r["byname"] is None:
                return f"sorting {[i[1] for i in items]} raised {r.get('smart_err') or r.get('byname_err')}"
        for which in ("orig", "shuffled"):
            r = obs[which]
            if r.get("smart_after_views") is not None and r["smart_after_views"] != r["smart"]:
                return ("the rank-first order of an assembly changed when its by-name list / chromosome list was "
                        "asked for")
        shuffled = [items[p] for p in case["perm"]]
        k1 = [(items[i][0], oracle_key(items[i][1])) for i in obs["orig"]["smart"]]
        k2 = [(shuffled[i][0], oracle_key(shuffled[i][1])) for i in obs["shuffled"]["smart"]]
        if k1 != k2:
            return "smart sort order depends on the initial order"
        if sorted(obs["orig"]["smart"]) != list(range(len(items))):
            return "smart sort lost or duplicated a scaffold"
        for a, b in zip(k1, k1[1:]):
            if a > b:
                return f"output not ordered by (rank, numeric-aware name): {a} before {b}"
        n1 = [oracle_key(items[i][1]) for i in obs["orig"]["byname"]]
        n2 = [oracle_key(shuffled[i][1]) for i in obs["shuffled"]["byname"]]
        if n1 != n2 or n1 != sorted(n1):
            return "name sort inconsistent or not in numeric-aware order"
        return None

    def key(self, case, obs):
        return super().key({k: v for k, v in case.items() if k not in ("perm",)}, obs)

    def shrink_candidates(self, case):
        if case["kind"] == "remapped":
            return
        if case["kind"] == "keys":
            if len(case["names"]) > 1:
                for n in case["names"]:
                    yield {**case, "names": [n]}
            return
        if case["kind"] == "merged":
            asms = case["asms"]
            for i in range(len(asms)):
                if len(asms) > 2:
                    yield {**case, "asms": asms[:i] + asms[i + 1 :]}
                for j in range(len(asms[i][2])):
                    if len(asms[i][2]) > 1:
                        yield {**case, "asms": asms[:i] + [[asms[i][0], asms[i][1], asms[i][2][:j] + asms[i][2][j + 1 :]]] + asms[i + 1 :]}
            return
        items = case["items"]
        for j in range(len(items)):
            if len(items) > 1:
                it = items[:j] + items[j + 1 :]
                yield {**case, "items": it, "perm": list(reversed(range(len(it))))}


PROP = C20()
