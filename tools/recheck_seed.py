#!/venv/bin/python
"""Re-run the quick check(s) against an already filed seeded change and refresh checks_run in its meta.json.
usage: tools/recheck_seed.py <seed id> [<property id> ...]   (default: the seed's own property)"""
import json
import subprocess
import sys
from pathlib import Path

V = Path("/verif")
import os
R = os.environ.get("SEEDREPO", "/tmp/seedrepo")


def sh(cmd, cwd=None, timeout=3000):
    p = subprocess.run(cmd, shell=True, cwd=cwd, capture_output=True, text=True, timeout=timeout)
    return p.returncode, p.stdout + p.stderr


def main():
    sid = sys.argv[1]
    d = V / "seeded" / sid
    props = sys.argv[2:] or [sid.split("-")[0]]
    if not Path(R).exists():
        sh(f"git -C /repo worktree add --detach {R} HEAD")
    if sh(f"git -C {R} diff --quiet")[0] != 0:
        print(f"{R} dirty; abort")
        return 2
    rc, o = sh(f"git -C {R} apply {d / 'patch.diff'}")
    if rc:
        print("patch does not apply", o[:200])
        return 2
    meta = json.loads((d / "meta.json").read_text())
    runs = meta.setdefault("checks_run", {})
    try:
        for p in props:
            rcc, oc = sh(f"VERIF_REPO={R} ./check {p} --tier quick", cwd=V)
            lines = [ln for ln in oc.splitlines() if ln.startswith(("VIOLATION", "KNOWN-FINDING")) or " quick:" in ln]
            viol = [ln for ln in lines if ln.startswith("VIOLATION")]
            runs[p] = {"exit": rcc, "lines": (viol[:3] + [ln for ln in lines if " quick:" in ln])[:4]}
            print(f"{sid} vs {p}: exit={rcc} violations={len(viol)}")
    finally:
        sh(f"git -C {R} checkout -- . && git -C {R} clean -fdq src tests")
    (d / "meta.json").write_text(json.dumps(meta, indent=1))
    return 0


if __name__ == "__main__":
    sys.exit(main())
