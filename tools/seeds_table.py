#!/venv/bin/python
"""Regenerate the table of seeded changes in DESIGN.md 13.6 from seeded/*/meta.json."""
import json
import re
from pathlib import Path

V = Path("/verif")
rows = []
for d in sorted((V / "seeded").iterdir()):
    m = json.loads((d / "meta.json").read_text())
    runs = m.get("checks_run", {})
    caught = []
    for pid, r in runs.items():
        if r.get("exit") == 1:
            corr = all("no-failing-input-found" in ln for ln in r.get("lines", []) if ln.startswith("VIOLATION"))
            caught.append(pid + (" (corr-only)" if corr else ""))
    clean = lambda t: re.sub(r"\s+", " ", str(t)).replace("|", "/")[:150]
    rows.append(f"| {d.name} | {clean(m.get('summary', ''))} | {clean(m.get('needs', ''))[:120]} | {', '.join(caught) or 'NOT CAUGHT'} |")
table = "| Seed | Change | Needs | Caught by |\n|---|---|---|---|\n" + "\n".join(rows) + "\n"
p = V / "DESIGN.md"
s = p.read_text()
a = s.index("| Seed | Change | Needs | Caught by |")
b = s.index("### 13.7")
s = s[:a] + table + "\n" + s[b:]
p.write_text(s)
print(len(rows), "seeds;", sum("NOT CAUGHT" in r for r in rows), "not caught")
