#!/venv/bin/python
"""Apply every seeded change in turn to the repository named by VERIF_REPO (default /repo), run the quick check
of its own property (and of the other properties its meta.json records as reporting it), revert; print one line
per seed and a summary.  Exit 1 if a seed is not reported.  SHARD=i/n runs every n-th seed starting at i."""
import json
import os
import subprocess
import sys
from pathlib import Path

V = Path(__file__).resolve().parents[1]
repo = os.environ.get("VERIF_REPO", "/repo")
only = sys.argv[1:]


def sh(cmd, **k):
    p = subprocess.run(cmd, shell=True, capture_output=True, text=True, **k)
    return p.returncode, p.stdout + p.stderr


if sh(f"git -C {repo} diff --quiet")[0] != 0:
    print(f"{repo} has uncommitted changes; refusing")
    sys.exit(2)
missed = []
shard = os.environ.get("SHARD")
si, sn = (int(x) for x in shard.split("/")) if shard else (0, 1)
for k, d in enumerate(sorted((V / "seeded").iterdir())):
    pid = d.name.split("-")[0]
    if only and pid not in only and d.name not in only:
        continue
    if k % sn != si:
        continue
    try:
        runs = json.loads((d / "meta.json").read_text()).get("checks_run", {})
    except Exception:
        runs = {}
    pids = [pid] + sorted(p for p, v in runs.items() if p != pid and v.get("exit") == 1)
    rc, out = sh(f"git -C {repo} apply {d / 'patch.diff'}")
    if rc:
        print(f"{d.name}: patch does not apply: {out.strip()[:100]}")
        missed.append(d.name)
        continue
    try:
        for q in pids:
            rc, out = sh(f"./check {q} --tier quick", cwd=V, timeout=3000)
            if rc == 1 and any(ln.startswith("VIOLATION") for ln in out.splitlines()):
                break
    finally:
        sh(f"git -C {repo} checkout -- . && git -C {repo} clean -fdq src tests")
    viol = [ln for ln in out.splitlines() if ln.startswith("VIOLATION")]
    summ = [ln for ln in out.splitlines() if " quick:" in ln]
    corr = bool(viol) and all("no-failing-input-found" in v for v in viol)
    print(f"{d.name} [{q}]: exit={rc} violations={len(viol)}{' (corr-only)' if corr else ''} :: {summ[-1][:110] if summ else out[-200:]}", flush=True)
    if rc != 1 or not viol:
        missed.append(d.name)
print("NOT REPORTED:", missed if missed else "none")
sys.exit(1 if missed else 0)
