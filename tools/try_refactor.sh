#!/bin/bash
# usage: tools/try_refactor.sh <patch.diff> [property ids...]   -- a behaviour-preserving change: every check must stay quiet
patch="$1"; shift
R=${REFREPO:-/tmp/refrepo}
[ -d $R ] || git -C /repo worktree add --detach $R HEAD >/dev/null 2>&1
export VERIF_REPO=$R
cd /verif
git -C $R checkout -q -- . ; git -C $R clean -fdq src tests
git -C $R apply "$patch" || { echo "patch does not apply"; exit 2; }
trap 'git -C $R checkout -q -- . ; git -C $R clean -fdq src tests 2>/dev/null' EXIT
props="$@"; [ -z "$props" ] && props="C01 C02 C03 C04 C05 C06 C07 C08 C09 C10 C11 C12 C13 C14 C15 C16 C17 C18 C19 C20"
for p in $props; do
  out=$(./check "$p" --tier quick 2>&1); rc=$?
  if [ $rc -ne 0 ]; then echo "== $p exit=$rc  <-- ALARM on a harmless change"; echo "$out" | grep -E "VIOLATION|Traceback|Error|quick:" | head -5; else echo "== $p quiet"; fi
done
