#!/bin/bash
# usage: tools/try_seed.sh <patch.diff> <property id> [more property ids...]
# applies a seeded change to /repo, runs the quick checks, and ALWAYS reverts.
patch="$1"; shift
R=${SEEDREPO:-/tmp/seedrepo}; export VERIF_REPO=$R
cd /verif
if ! git -C $R diff --quiet; then echo "/repo has uncommitted changes; refusing"; exit 2; fi
git -C $R apply "$patch" || { echo "patch does not apply"; exit 2; }
trap 'git -C $R checkout -- . ; git -C $R clean -fdq src tests 2>/dev/null' EXIT
for p in "$@"; do
  out=$(./check "$p" --tier quick 2>&1); rc=$?
  echo "== $p exit=$rc"; echo "$out" | grep -E "VIOLATION|KNOWN-FINDING|quick:" | head -4
done
